"""P-on-G: TLC model-checks P monitors on a transition graph extracted from the real code.

TLC stops at the first violated invariant; to enumerate the *distinct* violation signatures (needed to tell a known
finding from a new violation) the run is repeated with the signatures found so far muted (VF_MUTE1..8)."""
import os
import re

from . import tlc


def tokens_of_trace(trace):
    toks = []
    for st in trace[1:]:
        v = st.get("lastIn", '""').strip()
        if v.startswith('"') and v.endswith('"'):
            v = v[1:-1]
        toks.append(v)
    return toks


def check(ctx, module, cfg, graphfile, env=None, workers=8, heap="12g", timeout=1500, tag=None, max_rounds=8):
    """returns (stats, [(signature, tokens)])"""
    found = []
    stats = {"generated": 0, "distinct": 0, "runs": 0, "wall_s": 0.0}
    for rnd in range(max_rounds):
        e = {"VF_GRAPH": graphfile}
        if env:
            e.update(env)
        for k, (sig, _) in enumerate(found):
            e["VF_MUTE%d" % (k + 1)] = sig
        res = tlc.run(module, cfg, env=e, workers=workers, heap=heap, timeout=timeout,
                      tag=(tag or "graph") + "-%d-r%d" % (os.getpid(), rnd))
        stats["runs"] += 1
        stats["wall_s"] += res["wall_s"]
        stats["generated"] = max(stats["generated"], res["generated"])
        stats["distinct"] = max(stats["distinct"], res["distinct"])
        if not res["violated"]:
            return stats, found
        sig = None
        if res["trace"]:
            last = res["trace"][-1]
            for var, txt in last.items():
                if var.startswith("_"):
                    continue
                m = re.search(r'bad \|-> "([^"]+)"', txt)
                if m:
                    sig = m.group(1)
        if not sig:
            raise tlc.TlcFailure("invariant %s violated without monitor signature\n%s" % (res["violated"], res["out"][-3000:]))
        found.append((sig, tokens_of_trace(res["trace"])))
    return stats, found
