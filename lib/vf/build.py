"""Content-hash build cache: compiles /repo sources (working tree!) + harness sources.

Nothing of ebusd is copied into /verif; every build reads /repo/src as it is *now*.  Objects
are cached in /verif/.build/obj keyed by sha256(source text, all header text under /repo/src and
/verif/harness, flags) so an unchanged tree is reused and any edit under /repo/src rebuilds.
"""
import hashlib
import os
import subprocess
import sys
import concurrent.futures as cf

VERIF = os.path.dirname(os.path.dirname(os.path.dirname(os.path.abspath(__file__))))
REPO = os.environ.get("VERIF_REPO", "/repo")
BUILD = os.path.join(VERIF, ".build")
GUARD = "EBUSD_VERIF"

GROUPS = {
    "utils": ["src/lib/utils/arg.cpp", "src/lib/utils/log.cpp", "src/lib/utils/tcpsocket.cpp",
              "src/lib/utils/thread.cpp", "src/lib/utils/clock.cpp", "src/lib/utils/rotatefile.cpp",
              "src/lib/utils/httpclient.cpp"],
    # like utils but without clock.cpp: the harness supplies a virtual clock
    "utils_noclock": ["src/lib/utils/arg.cpp", "src/lib/utils/log.cpp", "src/lib/utils/tcpsocket.cpp",
                      "src/lib/utils/thread.cpp", "src/lib/utils/rotatefile.cpp",
                      "src/lib/utils/httpclient.cpp"],
    "ebus": ["src/lib/ebus/result.cpp", "src/lib/ebus/symbol.cpp", "src/lib/ebus/filereader.cpp",
             "src/lib/ebus/datatype.cpp", "src/lib/ebus/data.cpp", "src/lib/ebus/device_trans.cpp",
             "src/lib/ebus/transport.cpp", "src/lib/ebus/protocol.cpp", "src/lib/ebus/protocol_direct.cpp",
             "src/lib/ebus/message.cpp", "src/lib/ebus/stringhelper.cpp",
             "src/lib/ebus/contrib/contrib.cpp", "src/lib/ebus/contrib/tem.cpp"],
    "knx": ["src/lib/knx/knx.cpp"],
    "ebusd": ["src/ebusd/bushandler.cpp", "src/ebusd/datahandler.cpp", "src/ebusd/request.cpp",
              "src/ebusd/network.cpp", "src/ebusd/mainloop.cpp", "src/ebusd/scan.cpp",
              "src/ebusd/main_args.cpp", "src/ebusd/mqtthandler.cpp", "src/ebusd/mqttclient.cpp",
              "src/ebusd/mqttclient_mosquitto.cpp", "src/ebusd/knxhandler.cpp"],
}

BASE_FLAGS = ["-std=c++11", "-DHAVE_CONFIG_H", "-D" + GUARD, "-O1", "-g0", "-w", "-pthread",
              "-I" + os.path.join(VERIF, "harness", "include"),
              "-I" + os.path.join(VERIF, "harness"),
              "-I" + os.path.join(REPO, "src"),
              "-I" + os.path.join(REPO, "src", "lib", "ebus"),
              "-I" + os.path.join(REPO, "src", "lib", "utils"),
              "-I" + os.path.join(REPO, "src", "lib", "knx"),
              "-I" + os.path.join(REPO, "src", "ebusd"),
              "-I" + os.path.join(REPO, "src", "lib", "ebus", "contrib")]


def _read(p):
    with open(p, "rb") as f:
        return f.read()


_hdr_hash = None


def headers_hash():
    """hash of every header under /repo/src and /verif/harness (any header edit rebuilds all)."""
    global _hdr_hash
    if _hdr_hash is None:
        h = hashlib.sha256()
        for root in (os.path.join(REPO, "src"), os.path.join(VERIF, "harness")):
            for d, _, fs in sorted(os.walk(root)):
                for f in sorted(fs):
                    if f.endswith((".h", ".hpp", ".inc")):
                        p = os.path.join(d, f)
                        h.update(p.encode())
                        h.update(_read(p))
        _hdr_hash = h.hexdigest()
    return _hdr_hash


def tree_hash():
    """hash of all of /repo/src (used in evidence to name the tree that was checked)."""
    h = hashlib.sha256()
    for d, _, fs in sorted(os.walk(os.path.join(REPO, "src"))):
        for f in sorted(fs):
            if f.endswith((".h", ".cpp", ".inc")):
                p = os.path.join(d, f)
                h.update(p.encode())
                h.update(_read(p))
    return h.hexdigest()[:16]


def _compile(src, flags):
    key = hashlib.sha256(_read(src) + headers_hash().encode() + " ".join(flags).encode()
                         + src.encode()).hexdigest()[:24]
    objdir = os.path.join(BUILD, "obj")
    os.makedirs(objdir, exist_ok=True)
    obj = os.path.join(objdir, key + ".o")
    if not os.path.exists(obj):
        tmp = obj + ".%d.tmp" % os.getpid()
        cmd = ["g++"] + flags + ["-c", src, "-o", tmp]
        r = subprocess.run(cmd, capture_output=True, text=True)
        if r.returncode != 0:
            sys.stderr.write("BUILD FAILED: %s\n%s\n" % (" ".join(cmd), r.stderr[-4000:]))
            raise SystemExit(2)
        os.replace(tmp, obj)
    return obj


def build(name, harness_srcs, groups, extra_flags=(), libs=()):
    """compile + link; returns path of the executable."""
    if os.environ.get("VERIF_COVERAGE"):   # tools/coverage.py: line coverage of /repo sources reached by a check's harness
        extra_flags = list(extra_flags) + ["--coverage", "-O0"]
        libs = list(libs) + ["--coverage"]
    flags = BASE_FLAGS + list(extra_flags)
    srcs = [os.path.join(VERIF, "harness", s) for s in harness_srcs]
    if os.environ.get("VERIF_COVERAGE"):
        srcs.append(os.path.join(VERIF, "harness", "cov_exit.cpp"))
    for g in groups:
        srcs += [os.path.join(REPO, s) for s in GROUPS[g]]
    with cf.ThreadPoolExecutor(max_workers=int(os.environ.get("VERIF_JOBS", "16"))) as ex:
        objs = list(ex.map(lambda s: _compile(s, flags), srcs))
    lk = hashlib.sha256((" ".join(objs) + " ".join(libs) + " ".join(extra_flags)).encode()).hexdigest()[:16]
    bindir = os.path.join(BUILD, "bin")
    os.makedirs(bindir, exist_ok=True)
    exe = os.path.join(bindir, "%s-%s" % (name, lk))
    if not os.path.exists(exe):
        tmp = exe + ".%d.tmp" % os.getpid()
        sanit = [f for f in extra_flags if f.startswith("-fsanitize")]
        cmd = ["g++", "-pthread"] + sanit + objs + ["-o", tmp] + list(libs) + ["-lssl", "-lcrypto", "-lpthread", "-lrt"]
        r = subprocess.run(cmd, capture_output=True, text=True)
        if r.returncode != 0:
            sys.stderr.write("LINK FAILED: %s\n%s\n" % (" ".join(cmd)[:2000], r.stderr[-4000:]))
            raise SystemExit(2)
        os.replace(tmp, exe)
    return exe
