"""TLC runner: every run is under `timeout`, has its own metadir, and is parsed into a dict."""
import os
import re
import shutil
import subprocess
import time

from .build import VERIF, BUILD

JAR = "/opt/veriftools/tla/tla2tools.jar:/opt/veriftools/tla/CommunityModules-deps.jar"
SPEC = os.path.join(VERIF, "spec")


class TlcFailure(Exception):
    pass


def run(module, cfg, env=None, workers=8, timeout=900, heap="8g", cont=False, simulate=None,
        depth=None, coverage=False, deadlock=False, dfs=False, tag=None, extra=()):
    """run TLC on spec/<module>.tla with spec/<cfg>; returns parsed result dict.
    Raises TlcFailure when TLC itself failed (parse error, OOM, timeout): never a verdict."""
    tag = tag or ("%s-%s-%d" % (module, os.path.basename(cfg), os.getpid()))
    meta = os.path.join(BUILD, "tlc", tag)
    shutil.rmtree(meta, ignore_errors=True)
    os.makedirs(meta, exist_ok=True)
    jvm = ["java", "-XX:+UseParallelGC", "-Xmx" + heap, "-Xss16m"]
    if dfs:
        jvm.append("-Dtlc2.tool.queue.IStateQueue=StateDeque")
    cmd = ["timeout", str(timeout)] + jvm + ["-cp", JAR, "tlc2.TLC", "-workers", str(workers),
                                            "-metadir", meta, "-config", cfg, "-noGenerateSpecTE"]
    if cont:
        cmd.append("-continue")
    if not deadlock:
        cmd.append("-deadlock")  # -deadlock *disables* deadlock checking
    if coverage:
        cmd += ["-coverage", "1"]
    if simulate:
        cmd += ["-simulate", simulate]
    if depth:
        cmd += ["-depth", str(depth)]
    cmd += list(extra) + [module + ".tla"]
    e = dict(os.environ)
    e.pop("JAVA_TOOL_OPTIONS", None)
    if env:
        e.update({k: str(v) for k, v in env.items()})
    t0 = time.time()
    p = subprocess.run(cmd, cwd=SPEC, env=e, capture_output=True, text=True, errors="replace")
    wall = time.time() - t0
    out = p.stdout + p.stderr
    shutil.rmtree(meta, ignore_errors=True)
    res = {"rc": p.returncode, "wall_s": round(wall, 2), "out": out, "cmd": " ".join(cmd[2:]),
           "generated": 0, "distinct": 0, "violated": [], "vf": [], "coverage": {}}
    m = re.findall(r"(\d+) states generated, (\d+) distinct states found", out)
    if m:
        res["generated"], res["distinct"] = int(m[-1][0]), int(m[-1][1])
    res["violated"] = re.findall(r"Invariant (\S+) is violated", out) + \
        re.findall(r"Action property (\S+) is violated", out) + \
        (["<temporal>"] if ("Temporal properties were violated" in out or re.search(r"Temporal property \S+ was violated", out)) else [])
    if "Deadlock reached" in out:
        res["violated"].append("<deadlock>")
    for line in out.splitlines():
        line = line.strip()
        if line.startswith('<<"VF"'):
            res["vf"].append(parse_tla_value(line))
    for m in re.finditer(r"^<(\w+) line \d+, col \d+ to line \d+, col \d+ of module (\w+)>: (\d+):(\d+)",
                         out, re.M):
        res["coverage"]["%s.%s" % (m.group(2), m.group(1))] = [int(m.group(3)), int(m.group(4))]
    res["trace"] = parse_trace(out)
    ok_rc = p.returncode in (0, 12, 13, 11)
    if p.returncode == 124:
        raise TlcFailure("TLC timeout after %ss: %s" % (timeout, res["cmd"]))
    if not ok_rc or ("Error:" in out and not res["violated"] and p.returncode != 0):
        raise TlcFailure("TLC failed rc=%d: %s\n%s" % (p.returncode, res["cmd"], out[-3000:]))
    return res


def parse_trace(out):
    """list of states (dict var -> raw text) of the (last) printed counterexample."""
    states = []
    cur = None
    for line in out.splitlines():
        m = re.match(r"^State (\d+): (.*)$", line)
        if m:
            cur = {"_n": int(m.group(1)), "_action": m.group(2)}
            states.append(cur)
            continue
        if cur is not None:
            m = re.match(r"^(/\\ )?(\w+) = (.*)$", line)
            if m:
                cur[m.group(2)] = m.group(3)
                cur["_last"] = m.group(2)
            elif line.strip() == "":
                cur = None
            elif "_last" in cur:
                cur[cur["_last"]] += " " + line.strip()
    return states


def parse_tla_value(s):
    """parse the subset of TLA+ value syntax TLC prints: ints, strings, tuples, sets, records, TRUE/FALSE."""
    pos = [0]

    def ws():
        while pos[0] < len(s) and s[pos[0]].isspace():
            pos[0] += 1

    def val():
        ws()
        c = s[pos[0]]
        if s.startswith("<<", pos[0]):
            pos[0] += 2
            return seq(">>")
        if c == "{":
            pos[0] += 1
            return seq("}")
        if c == "[":
            pos[0] += 1
            return rec()
        if c == "(":  # function printed as (a :> b @@ c :> d)
            pos[0] += 1
            return fun()
        if c == '"':
            j = pos[0] + 1
            o = []
            while s[j] != '"':
                if s[j] == "\\":
                    j += 1
                o.append(s[j])
                j += 1
            pos[0] = j + 1
            return "".join(o)
        m = re.match(r"-?\d+", s[pos[0]:])
        if m:
            pos[0] += len(m.group(0))
            return int(m.group(0))
        m = re.match(r"\w+", s[pos[0]:])
        if m:
            pos[0] += len(m.group(0))
            w = m.group(0)
            return True if w == "TRUE" else False if w == "FALSE" else w
        raise ValueError("cannot parse TLA value at %d: %s" % (pos[0], s[pos[0]:pos[0] + 40]))

    def seq(end):
        r = []
        ws()
        if s.startswith(end, pos[0]):
            pos[0] += len(end)
            return r
        while True:
            r.append(val())
            ws()
            if s.startswith(end, pos[0]):
                pos[0] += len(end)
                return r
            if s[pos[0]] == ",":
                pos[0] += 1
            else:
                raise ValueError("expected , at %d in %s" % (pos[0], s[:200]))

    def rec():
        r = {}
        ws()
        if s[pos[0]] == "]":
            pos[0] += 1
            return r
        while True:
            ws()
            m = re.match(r"(\w+)\s*\|->", s[pos[0]:])
            if not m:
                raise ValueError("expected field at %d" % pos[0])
            pos[0] += len(m.group(0))
            r[m.group(1)] = val()
            ws()
            if s[pos[0]] == "]":
                pos[0] += 1
                return r
            pos[0] += 1  # ,

    def fun():
        r = {}
        while True:
            k = val()
            ws()
            assert s.startswith(":>", pos[0])
            pos[0] += 2
            r[k if not isinstance(k, list) else tuple(k)] = val()
            ws()
            if s[pos[0]] == ")":
                pos[0] += 1
                return r
            assert s.startswith("@@", pos[0])
            pos[0] += 2

    return val()
