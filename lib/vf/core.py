"""Driver shared by all checks: verdict rule, known findings, evidence, exit codes.

exit 0  property held on everything explored (KNOWN-FINDING lines may be printed)
exit 1  VIOLATION property=<id> replay=<path>   (only when a P oracle rejected what the real code did)
exit 2  machinery failure (build, TLC crash/timeout, vacuity self-assessment) - never a verdict
"""
import json
import os
import sys
import time
import traceback

from .build import VERIF, tree_hash
from .tlc import TlcFailure

EVID = os.path.join(VERIF, "evidence")
REPLAY = os.path.join(EVID, "replay")


class Ctx:
    def __init__(self, pid, tier, seed):
        self.pid, self.tier, self.seed = pid, tier, seed
        self.thorough = tier == "thorough"
        self.violations = []   # dicts: key (signature), what, replay (json-able)
        self.coverage = {}
        self.assumptions = []
        self.notes = []
        self.level = "model_checking"
        self.drift = []

    def violation(self, key, what, replay):
        # one entry per signature (first witness is kept as the replay)
        for v in self.violations:
            if v["key"] == key:
                v["count"] += 1
                return
        self.violations.append({"key": key, "what": what, "replay": replay, "count": 1})

    def log(self, *a):
        print("[%s %s]" % (self.pid, self.tier), *a, flush=True)


def load_findings():
    p = os.path.join(VERIF, "known_findings.json")
    if not os.path.exists(p):
        return []
    with open(p) as f:
        return json.load(f)["findings"]


def main(pid, runner, argv):
    import argparse
    ap = argparse.ArgumentParser()
    ap.add_argument("--tier", default=os.environ.get("VERIF_TIER", "quick"), choices=["quick", "thorough"])
    ap.add_argument("--replay", default=None)
    a = ap.parse_args(argv)
    seed = int(os.environ.get("VERIF_SEED", "1") or "1")
    ctx = Ctx(pid, a.tier, seed)
    ctx.replay_path = a.replay
    t0 = time.time()
    os.makedirs(REPLAY, exist_ok=True)
    replay_dir = REPLAY
    evfile = os.path.join(EVID, pid + ".json")
    alt = os.environ.get("VERIF_REPO")
    import re as _re
    if not _re.match(r"^C\d\d$", pid):
        # stand-alone growth checks (no listed property) never write into evidence/
        os.makedirs(os.path.join(VERIF, ".build", "evidence-growth"), exist_ok=True)
        evfile = os.path.join(VERIF, ".build", "evidence-growth", pid + ".json")
    if alt and os.path.realpath(alt) != "/repo":
        # mutation / seed runs against another tree must not overwrite the evidence of the real tree
        os.makedirs(os.path.join(VERIF, ".build", "evidence-other-tree"), exist_ok=True)
        evfile = os.path.join(VERIF, ".build", "evidence-other-tree", pid + ".json")
        replay_dir = os.path.join(VERIF, ".build", "evidence-other-tree", "replay")
        os.makedirs(replay_dir, exist_ok=True)
    failure = None
    try:
        runner(ctx)
    except TlcFailure as e:
        failure = "MODEL-FAILURE property=%s %s" % (pid, str(e)[:4000])
    except SystemExit as e:
        if e.code not in (0, None):
            failure = "MACHINERY-FAILURE property=%s exit=%s" % (pid, e.code)
        else:
            raise
    except Exception:
        traceback.print_exc()
        failure = "MACHINERY-FAILURE property=%s" % pid
    if failure:
        print(failure, flush=True)
        known0 = {(f["property"], f["key"]) for f in load_findings() if f.get("status") == "known"}
        if not any((pid, v["key"]) not in known0 for v in ctx.violations):
            return 2
        # violations that the oracle already established before a later part of the run failed stay violations
        ctx.notes.append("a later part of this run failed (%s); the violations reported were established before it" % failure[:200])
        if not isinstance(ctx.coverage, dict) or not ctx.coverage:
            ctx.coverage = {"states": 0, "transitions": 0, "traces_validated_against_impl": 0, "evaluations": 0,
                            "distinct_nontrivial": 0, "rule": "run aborted after violations were found", "samples": []}
    known = {(f["property"], f["key"]): f for f in load_findings() if f.get("status") == "known"}
    rc = 0
    nviol = 0
    for d in ctx.drift:
        print("DRIFT property=%s %s" % (pid, d), flush=True)
    for v in ctx.violations:
        k = (pid, v["key"])
        if k in known:
            print("KNOWN-FINDING: property=%s %s [%s] (%d witnesses this run)" %
                  (pid, known[k]["what"], v["key"], v["count"]), flush=True)
            continue
        nviol += 1
        rp = os.path.join(replay_dir, "%s-%s.json" % (pid, "".join(c if c.isalnum() else "_" for c in v["key"])[:80]))
        with open(rp, "w") as f:
            json.dump({"property": pid, "key": v["key"], "what": v["what"], "tier": ctx.tier,
                       "seed": seed, "replay": v["replay"]}, f, indent=1)
        print("VIOLATION property=%s replay=%s  # %s: %s" % (pid, rp, v["key"], v["what"]), flush=True)
        rc = 1
    cov = dict(ctx.coverage)
    cov.setdefault("samples", [])
    ev = {"property_id": pid, "tier": ctx.tier, "seed": seed, "level": ctx.level, "coverage": cov,
          "assumptions": ctx.assumptions, "wall_s": round(time.time() - t0, 2), "violations": nviol,
          "tree": tree_hash(), "notes": ctx.notes,
          "known_findings_seen": [v["key"] for v in ctx.violations if (pid, v["key"]) in known],
          "drift": ctx.drift}
    if not ctx.replay_path:
        with open(evfile + ".tmp", "w") as f:
            json.dump(ev, f, indent=1)
        os.replace(evfile + ".tmp", evfile)
    print("%s property=%s tier=%s wall=%.1fs violations=%d" %
          ("FAIL" if rc else "PASS", pid, ctx.tier, time.time() - t0, nviol), flush=True)
    return rc
