"""Helpers for record-judging checks (pure functions): run harness, let TLC judge, collect BAD records."""
import atexit
import json
import os
import shutil
import subprocess

from . import tlc
from .build import BUILD

_workdirs = []


def workdir(pid):
    """per-process scratch directory (several checks of the same property may run side by side); removed at exit"""
    d = os.path.join(BUILD, "work", "%s-%d" % (pid, os.getpid()))
    os.makedirs(d, exist_ok=True)
    if d not in _workdirs:
        _workdirs.append(d)
        atexit.register(shutil.rmtree, d, True)
    return d


def run_harness(ctx, exe, args, timeout=1200, env=None):
    e = dict(os.environ)
    e["VERIF_SEED"] = str(ctx.seed)
    if env:
        e.update(env)
    r = subprocess.run(["timeout", str(timeout), exe] + [str(a) for a in args], capture_output=True, text=True,
                       env=e, errors="replace")
    if r.returncode != 0:
        raise RuntimeError("harness %s failed rc=%d: %s" % (exe, r.returncode, (r.stderr or r.stdout)[-2000:]))
    return r.stdout


def read_ndjson(path):
    with open(path) as f:
        return [json.loads(l) for l in f if l.strip()]


def split_file(path, maxlines):
    """split an ndjson file into shards of <= maxlines lines; returns shard paths."""
    shards = []
    out = None
    n = 0
    with open(path) as f:
        for line in f:
            if out is None or n >= maxlines:
                if out:
                    out.close()
                sp = "%s.%03d" % (path, len(shards))
                shards.append(sp)
                out = open(sp, "w")
                n = 0
            out.write(line)
            n += 1
    if out:
        out.close()
    return shards


def judge(ctx, module, cfg, recfile, workers=8, timeout=1500, heap="8g", env=None, tag=None):
    """TLC judges every record; returns (tlc result, list of (index, sig)) of rejected records."""
    e = {"VF_RECS": recfile}
    if env:
        e.update(env)
    res = tlc.run(module, cfg, env=e, workers=workers, timeout=timeout, heap=heap, cont=True,
                  tag=(tag + "-%d" % os.getpid()) if tag else None)
    bad = [(v[2], v[3] if len(v) > 3 else None) for v in res["vf"] if len(v) >= 3 and v[1] == "BAD"]
    nviol = len(res["violated"])
    if nviol and not bad:
        raise tlc.TlcFailure("invariant violated without BAD record line:\n" + res["out"][-3000:])
    return res, bad
