// C09 harness: drives real Message / ChainedMessage / MessageMap objects through
//   load (CSV lines incl. defaults and templates) -> prepareMaster -> MessageMap::find -> storeLastData -> decodeLastData
// along TLC-generated cases, with a virtual clock (time(), clockGettime, clockGetMillis are defined here; the
// binary is linked without lib/utils/clock.cpp).
//
// input (text, rendered by checks/c09.py from the TLC-generated abstract cases):
//   C <case id>
//   J <abstract case as JSON, echoed verbatim>
//   P <template line>                  DataFieldTemplates line
//   L <csv line>                       MessageMap line (defaults "*r,..." or definition); answers one load flag
//   then operations, each answering one event:
//   M <k>                              select message k (0-based, creation order of the definition lines' messages)
//   B <part> <qq hex> <dst hex|aa> <input text or ->   prepareMaster(part, qq, dst, ';', input)
//   F <any>                            MessageMap::find(last built master, anyDestination)
//   G <master hex> <any>               MessageMap::find(given master, anyDestination)
//   S <master hex> <slave hex>         storeLastData(master, slave)        (telegram seen on the bus)
//   R <part> <slave hex>               storeLastData(part, slave)          (answer to the part built last; - = empty)
//   T <seconds>                        advance the virtual clock
//   D                                  decodeLastData(pt_any, false, nullptr, -1, OF_NONE)
//   Q <name|-> <index|-1>              decodeLastData(pt_any, false, name, index, OF_NONE): one field read back
//   E
// output record: {"c":<J>,"load":[..],"n":<messages created>,"seen":[..],"ev":[..]}
#include "vf.h"
#include <sstream>
#include <iostream>
#include <fstream>
#include <deque>
#include "lib/ebus/message.h"
#include "lib/utils/log.h"
#include "lib/utils/clock.h"

using namespace ebusd;

static time_t g_now = 100000;
extern "C" time_t time(time_t* t) { if (t) *t = g_now; return g_now; }
namespace ebusd {
void clockGettime(struct timespec* t) { t->tv_sec = g_now; t->tv_nsec = 0; }
uint64_t clockGetMillis() { return static_cast<uint64_t>(g_now) * 1000; }

struct VerifAccess {
  static const std::vector<symbol_t>& id(const Message* m) { return m->m_id; }
  static const std::vector<std::vector<symbol_t> >& ids(const ChainedMessage* m) { return m->m_ids; }
  static const std::vector<size_t>& lengths(const ChainedMessage* m) { return m->m_lengths; }
  static const map<uint64_t, vector<Message*> >& byKey(const MessageMap* m) { return m->m_messagesByKey; }
};

class TplResolver : public Resolver {
 public:
  DataFieldTemplates* m_templates;
  DataFieldTemplates* getTemplates(const string& filename) override { return m_templates; }
  result_t loadDefinitionsFromConfigPath(FileReader* reader, const string& filename,
      map<string, string>* defaults, string* errorDescription, bool replace = false) override {
    return RESULT_ERR_NOTFOUND;
  }
};
}  // namespace ebusd

struct Case {
  std::string id, json;
  std::vector<std::string> tpls, lines, ops;
};

static std::string jb(const SymbolString& s) {
  std::string o;
  vf::jbytes(&o, s.data(), s.size());
  return o;
}

static std::string seenOf(Message* m) {
  // [write, passive, src, dst, [[id bytes incl. PB SB] per part], [lengths per part]]
  std::string o = "[";
  char b[64];
  snprintf(b, sizeof b, "%d,%d,%u,%u,[", m->isWrite() ? 1 : 0, m->isPassive() ? 1 : 0,
           (unsigned)m->getSrcAddress(), (unsigned)m->getDstAddress());
  o += b;
  std::vector<int> lens;
  if (m->getCount() > 1) {
    ChainedMessage* c = static_cast<ChainedMessage*>(m);
    const auto& ids = VerifAccess::ids(c);
    for (size_t i = 0; i < ids.size(); i++) {
      if (i) o += ",";
      vf::jbytes(&o, ids[i].data(), ids[i].size());
    }
    for (size_t l : VerifAccess::lengths(c)) lens.push_back(static_cast<int>(l));
  } else {
    const auto& id = VerifAccess::id(m);
    vf::jbytes(&o, id.data(), id.size());
  }
  return o + "]," + vf::jints(lens) + "]";
}

static void runCase(const Case& c, vf::Out* out) {
  g_now = 100000;
  DataFieldTemplates* templates = new DataFieldTemplates();
  TplResolver resolver;
  resolver.m_templates = templates;
  MessageMap* map = new MessageMap(false, "", false);
  map->setResolver(&resolver);
  unsigned int lineNo = 0;
  std::vector<std::string> row;
  std::string err;
  {
    std::istringstream hdr("#");
    templates->readLineFromStream(&hdr, "c09", false, &lineNo, &row, &err, false, nullptr, nullptr);
    lineNo = 0;
    std::istringstream hdr2("#");
    map->readLineFromStream(&hdr2, "c09", false, &lineNo, &row, &err, false, nullptr, nullptr);
  }
  for (const auto& t : c.tpls) {
    std::istringstream is(t);
    result_t r = templates->readLineFromStream(&is, "c09", false, &lineNo, &row, &err, false, nullptr, nullptr);
    if (r != RESULT_OK) { fprintf(stderr, "template line failed: %s: %s %s\n", t.c_str(), getResultCode(r), err.c_str()); exit(2); }
  }
  std::string rec = "{\"c\":" + c.json + ",\"load\":[";
  std::vector<Message*> msgs;  // messages in creation order
  for (size_t k = 0; k < c.lines.size(); k++) {
    std::istringstream is(c.lines[k]);
    std::vector<Message*> before;
    for (const auto& it : VerifAccess::byKey(map)) for (Message* m : it.second) before.push_back(m);
    result_t r = map->readLineFromStream(&is, "c09", false, &lineNo, &row, &err, false, nullptr, nullptr);
    if (k) rec += ",";
    rec += r == RESULT_OK ? "1" : "0";
    std::vector<Message*> added;
    for (const auto& it : VerifAccess::byKey(map)) for (Message* m : it.second) {
      bool old = false;
      for (Message* b : before) if (b == m) old = true;
      if (!old) added.push_back(m);
    }
    // creation order of the messages of one line = order of the ZZ list = circuit suffix .0, .1, ..
    std::sort(added.begin(), added.end(), [](Message* a, Message* b) { return a->getCircuit() < b->getCircuit(); });
    for (Message* m : added) msgs.push_back(m);
  }
  char b[64];
  snprintf(b, sizeof b, "],\"n\":%zu,\"seen\":[", msgs.size());
  rec += b;
  for (size_t k = 0; k < msgs.size(); k++) {
    if (k) rec += ",";
    rec += seenOf(msgs[k]);
  }
  rec += "],\"ev\":[";
  Message* cur = msgs.empty() ? nullptr : msgs[0];
  MasterSymbolString built;
  bool firstEv = true;
  for (const auto& op : c.ops) {
    char tag = op[0];
    std::istringstream is(op.size() > 2 ? op.substr(2) : "");
    std::string ev;
    if (tag == 'M') {
      size_t k; is >> k;
      cur = k < msgs.size() ? msgs[k] : nullptr;
      ev = cur ? "{\"o\":\"M\",\"ok\":1}" : "{\"o\":\"M\",\"ok\":0}";
    } else if (tag == 'T') {
      long d; is >> d;
      g_now += d;
      ev = "{\"o\":\"T\"}";
    } else if (!cur && tag != 'G') {
      ev = std::string("{\"o\":\"") + tag + "\",\"rc\":-999}";
    } else if (tag == 'B') {
      size_t part; std::string qq, dst, input;
      is >> part >> qq >> dst;
      std::getline(is, input);
      if (!input.empty() && input[0] == ' ') input.erase(0, 1);
      if (input == "-") input.clear();
      std::istringstream in(input);
      built.clear();
      result_t r = cur->prepareMaster(part, (symbol_t)strtoul(qq.c_str(), nullptr, 16), (symbol_t)strtoul(dst.c_str(), nullptr, 16),
                                      UI_FIELD_SEPARATOR, &in, &built);
      snprintf(b, sizeof b, "{\"o\":\"B\",\"rc\":%d,\"m\":", static_cast<int>(r));
      ev = b + jb(built) + "}";
    } else if (tag == 'F' || tag == 'G') {
      MasterSymbolString m;
      int any = 0;
      if (tag == 'G') { std::string h; is >> h; m.parseHex(h); }
      is >> any;
      Message* f = map->find(tag == 'G' ? m : built, any != 0);
      int r = f == nullptr ? -1 : -2;
      for (size_t k = 0; k < msgs.size(); k++) if (msgs[k] == f) r = static_cast<int>(k);
      snprintf(b, sizeof b, "{\"o\":\"%c\",\"r\":%d}", tag, r);
      ev = b;
    } else if (tag == 'S') {
      std::string mh, sh; is >> mh >> sh;
      MasterSymbolString m; SlaveSymbolString s;
      if (m.parseHex(mh) != RESULT_OK || (sh != "-" && s.parseHex(sh) != RESULT_OK)) { fprintf(stderr, "bad S op %s\n", op.c_str()); exit(2); }
      result_t r = cur->storeLastData(m, s);
      snprintf(b, sizeof b, "{\"o\":\"S\",\"rc\":%d}", static_cast<int>(r));
      ev = b;
    } else if (tag == 'R') {
      size_t part; std::string sh; is >> part >> sh;
      SlaveSymbolString s;
      if (sh != "-" && s.parseHex(sh) != RESULT_OK) { fprintf(stderr, "bad R op %s\n", op.c_str()); exit(2); }
      result_t r = cur->storeLastData(part, s);
      snprintf(b, sizeof b, "{\"o\":\"R\",\"rc\":%d}", static_cast<int>(r));
      ev = b;
    } else if (tag == 'Q') {
      std::string name; long idx = -1; is >> name >> idx;
      std::ostringstream os;
      result_t r = cur->decodeLastData(pt_any, false, name == "-" ? nullptr : name.c_str(), static_cast<ssize_t>(idx), OF_NONE, &os);
      snprintf(b, sizeof b, "{\"o\":\"Q\",\"rc\":%d,\"txt\":", static_cast<int>(r));
      ev = b + vf::jbytes(os.str()) + "}";
    } else if (tag == 'D') {
      std::ostringstream os;
      result_t r = cur->decodeLastData(pt_any, false, nullptr, -1, OF_NONE, &os);
      snprintf(b, sizeof b, "{\"o\":\"D\",\"rc\":%d,\"txt\":", static_cast<int>(r));
      ev = b + vf::jbytes(os.str()) + ",\"lm\":" + jb(cur->getLastMasterData()) + ",\"ls\":" + jb(cur->getLastSlaveData()) + "}";
    } else {
      fprintf(stderr, "bad op %s\n", op.c_str());
      exit(2);
    }
    if (!firstEv) rec += ",";
    firstEv = false;
    rec += ev;
  }
  rec += "]}";
  out->raw(rec);
  out->nl();
  delete map;
  delete templates;
}

int main(int argc, char** argv) {
  vf::installTerminate();
  if (argc < 3) { fprintf(stderr, "usage: c09_store cases.txt recs.ndjson\n"); return 2; }
  setFacilitiesLogLevel(0xffff, ll_none);
  std::ifstream in(argv[1]);
  if (!in) { perror(argv[1]); return 2; }
  vf::Out out(argv[2]);
  std::string line;
  Case cur;
  size_t n = 0;
  while (std::getline(in, line)) {
    if (line.empty()) continue;
    char tag = line[0];
    std::string rest = line.size() > 2 ? line.substr(2) : "";
    switch (tag) {
      case 'C': cur = Case(); cur.id = rest; break;
      case 'J': cur.json = rest; break;
      case 'P': cur.tpls.push_back(rest); break;
      case 'L': cur.lines.push_back(rest); break;
      case 'E': runCase(cur, &out); n++; break;
      default: cur.ops.push_back(line); break;
    }
  }
  printf("cases=%zu\n", n);
  return 0;
}
