// C14 harness (plain byte transport): the REAL FileTransport buffer code (read / readConsumed, 32-byte buffer, 3/4
// overflow rule) over a socketpair.  Content-agnostic alphabet: the stream is 0,1,2,... mod 251; every byte is logged as
// its distance d >= 1 from the write head (the k-th most recently written byte has d = k), which makes the events of
// an edge a function of the node (buffer content, bytes in flight) and the extracted graph finite.
//   graph  : breadth-first over W=k (k bytes written into the peer socket), R1 (read(1 ms)), R0 (read(0)),
//            C=n (readConsumed(n)) to a fix-point; node state = buffer content + bytes in flight (as distances)
//   random : one long seeded run without any state restore (path graph)
// events: ["w",k] ["rd",timeout,res,[d..]] (res 0 OK, 2 TIMEOUT, 3 other) ["ntf","overflow"|"other"] ["cons",n]
// TLC judges (spec/Transport.tla, spec/C14TGraph.tla); no verdict is computed here.
#include "vf.h"
#include <sys/socket.h>
#include <sys/ioctl.h>
#include <unordered_map>
#include <deque>
#include <algorithm>
#include "lib/ebus/transport.h"

using namespace ebusd;

static std::string g_ev;
static void ev(const std::string& s) { if (!g_ev.empty()) g_ev += ","; g_ev += s; }

struct SockTransport : public FileTransport {
  int peer = -1;
  // latency argument chosen so that HOST_LATENCY_MS + latency wraps to 0: a read on an idle socket waits 1 ms only
  SockTransport() : FileTransport("sock", 0u - HOST_LATENCY_MS, false) {}
  string getTransportInfo() const override { return "socketpair"; }
  result_t openInternal() override {
    int sv[2];
    if (socketpair(AF_UNIX, SOCK_STREAM, 0, sv) != 0) return RESULT_ERR_GENERIC_IO;
    m_fd = sv[0]; peer = sv[1];
    return RESULT_OK;
  }
  void checkDevice() override {}
  int unread() const { int cnt = 0; if (ioctl(m_fd, FIONREAD, &cnt) != 0) { perror("FIONREAD"); exit(2); } return cnt; }
  void swapSockets() {  // fresh, empty socketpair without going through close() (which would flush and notify)
    if (m_fd >= 0) ::close(m_fd);
    if (peer >= 0) ::close(peer);
    m_fd = -1; peer = -1;
    if (openInternal() != RESULT_OK) { perror("socketpair"); exit(2); }
  }
};

struct TListener : public TransportListener {
  result_t notifyTransportStatus(bool) override { return RESULT_OK; }
  void notifyTransportMessage(bool error, const char* message) override {
    ev(std::string("[\"ntf\",\"") + (message && !strcmp(message, "buffer overflow") ? "overflow" : "other") + "\"]");
  }
};

static SockTransport* g_t; static TListener g_l;
static unsigned g_nw = 0;                 // value of the next byte written to the peer (mod 251)
static std::vector<uint8_t> g_fly;        // written into the peer socket, not yet read by the transport (harness bookkeeping)
static unsigned dist(uint8_t x) { return (g_nw + 251 - x) % 251; }

struct Snap {
  std::vector<int> buf, fly;   // distances
  std::string key() const { std::string k; k.push_back((char)buf.size()); for (int x : buf) k.push_back((char)x); k.push_back((char)fly.size()); for (int x : fly) k.push_back((char)x); return k; }
  std::string json() const { return "{\"buf\":" + vf::jints(buf) + ",\"fly\":" + vf::jints(fly) + "}"; }
};

namespace ebusd {
struct VerifAccess {
  static void snap(Snap* s) {
    s->buf.clear(); s->fly.clear();
    for (size_t i = 0; i < g_t->m_bufLen; i++) s->buf.push_back((int)dist(g_t->m_buffer[i]));
    for (uint8_t x : g_fly) s->fly.push_back((int)dist(x));
  }
  static void restore(const Snap& s) {
    g_t->swapSockets();
    g_nw = 100;
    if (s.buf.size() > g_t->m_bufSize) { fprintf(stderr, "restore: buffer too long\n"); exit(2); }
    memset(g_t->m_buffer, 0xEE, g_t->m_bufSize);
    for (size_t i = 0; i < s.buf.size(); i++) g_t->m_buffer[i] = (uint8_t)((g_nw + 251 - s.buf[i]) % 251);
    g_t->m_bufLen = s.buf.size();
    g_fly.clear();
    for (int d : s.fly) g_fly.push_back((uint8_t)((g_nw + 251 - d) % 251));
    if (!g_fly.empty() && ::write(g_t->peer, g_fly.data(), g_fly.size()) != (ssize_t)g_fly.size()) { perror("write"); exit(2); }
  }
  static size_t bufSize() { return g_t->m_bufSize; }
};
}  // namespace ebusd

static bool execOp(char k, unsigned a) {
  g_ev.clear();
  if (k == 'W') {
    std::vector<uint8_t> b;
    for (unsigned i = 0; i < a; i++) { b.push_back((uint8_t)g_nw); g_nw = (g_nw + 1) % 251; }
    if (::write(g_t->peer, b.data(), b.size()) != (ssize_t)b.size()) { perror("write"); exit(2); }
    g_fly.insert(g_fly.end(), b.begin(), b.end());
    ev("[\"w\"," + std::to_string(a) + "]");
    return true;
  }
  if (k == 'R') {
    const uint8_t* data = nullptr; size_t len = 0;
    result_t r = g_t->read(a, &data, &len);
    int res = r == RESULT_OK ? 0 : r == RESULT_ERR_TIMEOUT ? 2 : 3;
    std::vector<int> d;
    if (res == 0) for (size_t i = 0; i < len; i++) d.push_back((int)dist(data[i]));
    ev("[\"rd\"," + std::to_string(a) + "," + std::to_string(res) + "," + vf::jints(d) + "]");
    // harness bookkeeping of what left the socket: ask the kernel, not the transport
    size_t left = (size_t)g_t->unread();
    if (left > g_fly.size()) { fprintf(stderr, "socket holds more than was written\n"); exit(2); }
    g_fly.erase(g_fly.begin(), g_fly.begin() + (g_fly.size() - left));
    return true;
  }
  if (k == 'C') { g_t->readConsumed(a); ev("[\"cons\"," + std::to_string(a) + "]"); return true; }
  return false;
}

// ---------------------------------------------------------------- graph extraction
struct Cfg { std::vector<unsigned> ks; unsigned flyMax = 40; long maxNodes = 20000; };
static Cfg C;
struct Edge { std::string in, op, ev; long to; };

static int cmdGraph(const char* outPath) {
  vf::Out out(outPath);
  std::unordered_map<std::string, long> ids;
  std::deque<Snap> frontier;
  Snap s0; VerifAccess::snap(&s0);
  ids[s0.key()] = 1; frontier.push_back(s0);
  long nextId = 2, expanded = 0, nedges = 0;
  while (!frontier.empty()) {
    Snap cur = frontier.front(); frontier.pop_front();
    expanded++;
    std::vector<std::pair<char, unsigned>> ops;
    for (unsigned k : C.ks) if (cur.fly.size() + k <= C.flyMax) ops.push_back({'W', k});
    ops.push_back({'R', 1}); ops.push_back({'R', 0});
    for (unsigned n = 0; n <= cur.buf.size() + 1; n++) ops.push_back({'C', n});
    std::vector<Edge> edges;
    for (auto& o : ops) {
      VerifAccess::restore(cur);
      execOp(o.first, o.second);
      Snap post; VerifAccess::snap(&post);
      std::string k = post.key();
      auto it = ids.find(k); long to;
      if (it == ids.end()) { to = nextId++; ids.emplace(k, to); frontier.push_back(post); } else to = it->second;
      std::string name = std::string(1, o.first) + (o.first == 'R' ? "" : "=") + std::to_string(o.second);
      edges.push_back(Edge{name, std::string("[\"") + o.first + "\"," + std::to_string(o.second) + "]", g_ev, to});
    }
    std::string line = "{\"id\":" + std::to_string(expanded) + ",\"st\":" + cur.json() + ",\"succ\":[";
    for (size_t i = 0; i < edges.size(); i++) {
      if (i) line += ",";
      line += "{\"in\":\"" + edges[i].in + "\",\"op\":" + edges[i].op + ",\"ev\":[" + edges[i].ev + "],\"to\":" + std::to_string(edges[i].to) + "}";
    }
    out.raw(line + "]}\n"); nedges += (long)edges.size();
    if (nextId > C.maxNodes) {  // no fix-point (buffer content no longer a function of the fill levels): partial graph of real paths
      for (long k = expanded + 1; k < nextId; k++) out.raw("{\"id\":" + std::to_string(k) + ",\"st\":{\"buf\":[],\"fly\":[]},\"succ\":[]}\n");
      printf("{\"nodes\":%ld,\"edges\":%ld,\"fixpoint\":false,\"bufsize\":%zu}\n", nextId - 1, nedges, VerifAccess::bufSize());
      return 0;
    }
  }
  printf("{\"nodes\":%ld,\"edges\":%ld,\"fixpoint\":true,\"bufsize\":%zu}\n", expanded, nedges, VerifAccess::bufSize());
  return 0;
}

// ---------------------------------------------------------------- one long random run, no restore (path graph)
static int cmdRandom(const char* outPath, long steps) {
  vf::Out out(outPath);
  vf::Rng rng(vf::seedFromEnv());
  long id = 1, nbytes = 0;
  for (long s = 0; s < steps; s++) {
    Snap pre; VerifAccess::snap(&pre);
    char k; unsigned a;
    unsigned r = rng.below(100);
    unsigned slow = (s / 500) % 3;   // phases: fast consumer, slow consumer (overflows), mixed
    if (r < (slow == 1 ? 45u : 30u) && pre.fly.size() < 60) { k = 'W'; a = 1 + rng.below(rng.chance(1, 4) ? 33 : 6); if (pre.fly.size() + a > 64) a = 1; nbytes += a; }
    else if (r < 70) { k = 'R'; a = rng.chance(1, 5) ? 0 : 1; }
    else { k = 'C'; a = slow == 1 ? rng.below(3) : rng.below((unsigned)pre.buf.size() + 2); }
    execOp(k, a);
    std::string name = std::string(1, k) + (k == 'R' ? "" : "=") + std::to_string(a);
    out.raw("{\"id\":" + std::to_string(id) + ",\"st\":" + pre.json() + ",\"succ\":[{\"in\":\"" + name + "\",\"op\":[\"" + std::string(1, k) + "\"," + std::to_string(a) +
            "],\"ev\":[" + g_ev + "],\"to\":" + std::to_string(id + 1) + "}]}\n");
    id++;
  }
  Snap last; VerifAccess::snap(&last);
  out.raw("{\"id\":" + std::to_string(id) + ",\"st\":" + last.json() + ",\"succ\":[]}\n");
  printf("{\"nodes\":%ld,\"edges\":%ld,\"bytes\":%ld}\n", id, id - 1, nbytes);
  return 0;
}

// ---------------------------------------------------------------- replay of a token list (W=k, R1, R0, C=n) as a path graph
static int cmdReplay(const char* inPath, const char* outPath) {
  FILE* f = fopen(inPath, "r"); if (!f) { perror(inPath); return 2; }
  vf::Out out(outPath);
  char line[64]; long id = 1;
  while (fgets(line, sizeof line, f)) {
    std::string tk = line; while (!tk.empty() && (tk.back() == '\n' || tk.back() == '\r')) tk.pop_back();
    if (tk.empty()) continue;
    char k = tk[0]; unsigned a = (unsigned)strtoul(tk.c_str() + (k == 'R' ? 1 : 2), nullptr, 10);
    Snap pre; VerifAccess::snap(&pre);
    execOp(k, a);
    out.raw("{\"id\":" + std::to_string(id) + ",\"st\":" + pre.json() + ",\"succ\":[{\"in\":\"" + tk + "\",\"op\":[\"" + std::string(1, k) + "\"," + std::to_string(a) +
            "],\"ev\":[" + g_ev + "],\"to\":" + std::to_string(id + 1) + "}]}\n");
    id++;
  }
  Snap last; VerifAccess::snap(&last);
  out.raw("{\"id\":" + std::to_string(id) + ",\"st\":" + last.json() + ",\"succ\":[]}\n");
  fclose(f);
  printf("{\"nodes\":%ld,\"edges\":%ld}\n", id, id - 1);
  return 0;
}

int main(int argc, char** argv) {
  vf::installTerminate();
  if (argc < 3) { fprintf(stderr, "usage: c14_transport graph out [k=1,2,..] [flymax=n] | random out steps\n"); return 2; }
  g_t = new SockTransport();
  g_t->setListener(&g_l);
  if (g_t->open() != RESULT_OK) { fprintf(stderr, "open failed\n"); return 2; }
  g_ev.clear();
  std::string mode = argv[1];
  if (mode == "graph") {
    for (unsigned k = 1; k <= 33; k++) C.ks.push_back(k);
    for (int i = 3; i < argc; i++) {
      std::string a = argv[i];
      if (a.compare(0, 2, "k=") == 0) { C.ks.clear(); const char* p = a.c_str() + 2; while (*p) { C.ks.push_back((unsigned)strtoul(p, (char**)&p, 10)); if (*p == ',') p++; } }
      else if (a.compare(0, 7, "flymax=") == 0) C.flyMax = (unsigned)atoi(a.c_str() + 7);
    }
    return cmdGraph(argv[2]);
  }
  if (mode == "random") return cmdRandom(argv[2], atol(argv[3]));
  if (mode == "replay") return cmdReplay(argv[3], argv[2]);
  return 2;
}
