// C13: conditional availability follows the referenced value.
// Drives a real MessageMap (conditions of every shape loaded from CSV text) under a virtual clock.
//   graph   <worlds> <out.ndjson> <maxnodes>   breadth-first extraction of the reachable transition graph (all worlds)
//   replay  <worlds> <inputs> <out.ndjson>     one linear execution (same record format, chain graph)
//   random  <worlds> <out.ndjson> <nsteps>     seeded random linear executions, one chain per world
//   resolve <cases> <out.ndjson>               resolveConditions on TLC-enumerated (message fields x condition shape) cases
// No ebusd code lives here: everything is called through the public API; private state is read through VerifAccess.
#include "vf.h"
#include <sstream>
#include <fstream>
#include <map>
#include <set>
#include <deque>
#include <algorithm>
#include <time.h>
#include "lib/ebus/message.h"
#include "lib/ebus/data.h"
#include "lib/ebus/symbol.h"
#include "lib/ebus/result.h"
#include "lib/utils/log.h"

// ---- virtual clock (link group utils_noclock) ---------------------------------------------------
static const time_t T0 = 1000000;
static time_t g_now = T0;
extern "C" time_t time(time_t* t) { if (t) *t = g_now; return g_now; }
namespace ebusd {
void clockGettime(struct timespec* t) { t->tv_sec = g_now; t->tv_nsec = 0; }
uint64_t clockGetMillis() { return (uint64_t)g_now * 1000; }

struct VerifAccess {
  static time_t lastUpdate(const Message* m) { return m->m_lastUpdateTime; }
  static time_t lastChange(const Message* m) { return m->m_lastChangeTime; }
  static const MasterSymbolString& lastMaster(const Message* m) { return m->m_lastMasterData; }
  static const SlaveSymbolString& lastSlave(const Message* m) { return m->m_lastSlaveData; }
  static Condition* cond(const Message* m) { return m->m_condition; }
  static const std::map<std::string, std::vector<Message*> >& byName(const MessageMap* mm) { return mm->m_messagesByName; }
  static const std::map<std::string, Condition*>& conds(const MessageMap* mm) { return mm->m_conditions; }
  static time_t lastCheck(const Condition* c) { return c->m_lastCheckTime; }
  static bool cached(const Condition* c) { return c->m_isTrue; }
  static Message* condMsg(const SimpleCondition* c) { return c->m_message; }
};

class NullResolver : public Resolver {
 public:
  DataFieldTemplates* m_templates;
  NullResolver() : m_templates(new DataFieldTemplates()) {}
  DataFieldTemplates* getTemplates(const std::string&) override { return m_templates; }
  result_t loadDefinitionsFromConfigPath(FileReader*, const std::string&, std::map<std::string, std::string>*,
      std::string*, bool) override { return RESULT_ERR_NOTFOUND; }
};
}  // namespace ebusd
using namespace ebusd;
using std::string;
using std::vector;

// ---- world description (written by checks/c13.py) ------------------------------------------------
struct RefDef { string circuit, name; char type; int zz; };
struct ValDef { int ref; string master, slave; };
struct DepDef { string circuit, name; int idx; };
struct FindDef { string circuit, name; };
struct World {
  string name;
  vector<string> lines;
  vector<RefDef> refs;
  vector<ValDef> vals;
  vector<DepDef> deps;
  vector<FindDef> finds;
  vector<string> findms;
};

static vector<World> readWorlds(const char* path) {
  std::ifstream in(path);
  if (!in) { perror(path); exit(2); }
  vector<World> ws;
  string line;
  while (std::getline(in, line)) {
    if (line.empty()) continue;
    char k = line[0];
    string rest = line.size() > 2 ? line.substr(2) : "";
    std::istringstream is(rest);
    if (k == 'W') { ws.push_back(World()); ws.back().name = rest; continue; }
    World& w = ws.back();
    if (k == 'L') w.lines.push_back(rest);
    else if (k == 'R') { RefDef r; string t; is >> r.circuit >> r.name >> t >> std::hex >> r.zz; r.type = t[0]; w.refs.push_back(r); }
    else if (k == 'V') { ValDef v; is >> v.ref >> v.master >> v.slave; w.vals.push_back(v); }
    else if (k == 'D') { DepDef d; is >> d.circuit >> d.name >> d.idx; w.deps.push_back(d); }
    else if (k == 'F') { FindDef f; is >> f.circuit >> f.name; w.finds.push_back(f); }
    else if (k == 'M') w.findms.push_back(rest);
  }
  return ws;
}

// ---- a live world: the real objects ---------------------------------------------------------------
struct Live {
  const World* w;
  MessageMap* map;
  NullResolver* resolver;
  vector<Message*> refs, deps;
  result_t loadRc, resolveRc;
  string err;
  explicit Live(const World* world) : w(world) {
    g_now = T0;
    resolver = new NullResolver();
    map = new MessageMap(false, "", false);  // as the daemon: addAll off; the shared ident fields are never deleted
    map->setResolver(resolver);
    unsigned int lineNo = 0;
    vector<string> row;
    std::istringstream hdr("#");
    map->readLineFromStream(&hdr, "w.csv", false, &lineNo, &row, &err, false, nullptr, nullptr);
    loadRc = RESULT_OK;
    for (const string& l0 : w->lines) {
      // a line that starts with "@2 " belongs to a second definition file (conditions are kept per file name)
      bool second = l0.compare(0, 3, "@2 ") == 0;
      string l = second ? l0.substr(3) : l0;
      std::istringstream is(l);
      string e;
      result_t rc = map->readLineFromStream(&is, second ? "v.csv" : "w.csv", false, &lineNo, &row, &e, false, nullptr, nullptr);
      if (rc != RESULT_OK) { loadRc = rc; err += "[" + l + ": " + getResultCode(rc) + " " + e + "]"; }
    }
    string e2;
    resolveRc = map->resolveConditions(false, &e2);
    if (resolveRc != RESULT_OK) err += "[resolve: " + e2 + "]";
    for (const RefDef& r : w->refs) {
      Message* m = nullptr;
      if (r.type == 'S') m = map->getScanMessage((symbol_t)r.zz);
      else m = map->find(r.circuit, r.name, "*", false, r.type == 'P');
      refs.push_back(m);
    }
    const auto& bn = VerifAccess::byName(map);
    for (const DepDef& d : w->deps) {
      auto it = bn.find(d.circuit + FIELD_SEPARATOR + d.name + "R");
      deps.push_back(it != bn.end() && (size_t)d.idx < it->second.size() ? it->second[d.idx] : nullptr);
    }
  }
  ~Live() { delete map; delete resolver->m_templates; delete resolver; }
  int depIndex(Message* m) const {
    if (!m) return 0;
    for (size_t i = 0; i < deps.size(); i++) if (deps[i] == m) return (int)i + 1;
    for (size_t i = 0; i < refs.size(); i++) if (refs[i] == m) return 50 + (int)i;
    return 99;
  }
  bool usable() const {
    if (loadRc != RESULT_OK) return false;
    for (Message* m : refs) if (!m) return false;
    for (Message* m : deps) if (!m) return false;
    return true;
  }
};

// inputs (p = prepare the request of a referenced message without storing an answer) ------------------------------------------------------------------------------------------------
struct Input { char k; int a; };  // p=prepare(ref idx) s=store(val idx) t=tick(sec) q=isAvailable(dep) f=find(name idx) m=find(master idx)
static vector<Input> alphabet(const World& w) {
  vector<Input> v;
  for (size_t i = 0; i < w.vals.size(); i++) v.push_back({'s', (int)i});
  for (int d = 0; d <= 2; d++) v.push_back({'t', d});
  for (size_t i = 0; i < w.deps.size(); i++) v.push_back({'q', (int)i});
  for (size_t i = 0; i < w.finds.size(); i++) v.push_back({'f', (int)i});
  for (size_t i = 0; i < w.findms.size(); i++) v.push_back({'m', (int)i});
  // prepare(r): the request of an active referenced message is built (what an unanswered poll / read does) - no answer is stored
  for (size_t i = 0; i < w.refs.size(); i++) if (w.refs[i].type != 'P') v.push_back({'p', (int)i});
  return v;
}
static const char* kindName(char k) {
  switch (k) { case 's': return "store"; case 't': return "tick"; case 'q': return "avail"; case 'f': return "find"; case 'p': return "prepare"; default: return "findm"; }
}

static int apply(Live& L, const Input& in) {
  switch (in.k) {
    case 's': {
      const ValDef& v = L.w->vals[in.a];
      MasterSymbolString ms; SlaveSymbolString ss;
      if (ms.parseHex(v.master) != RESULT_OK || ss.parseHex(v.slave) != RESULT_OK) { fprintf(stderr, "bad hex in world %s\n", L.w->name.c_str()); exit(2); }
      result_t rc = L.refs[v.ref]->storeLastData(ms, ss);
      return rc == RESULT_OK ? 0 : 1;
    }
    case 't': g_now += in.a; return 0;
    case 'p': {   // as PollRequest::prepare / BusHandler::readFromBus do before sending; the answer never arrives
      MasterSymbolString ms; std::istringstream none("");
      result_t rc = L.refs[in.a]->prepareMaster(0, 0xff, SYN, UI_FIELD_SEPARATOR, &none, &ms);
      return rc == RESULT_OK ? 0 : 1;
    }
    case 'q': return L.deps[in.a]->isAvailable() ? 1 : 0;
    case 'f': {
      const FindDef& f = L.w->finds[in.a];
      return L.depIndex(L.map->find(f.circuit, f.name, "*", false));
    }
    case 'm': {
      MasterSymbolString ms;
      ms.parseHex(L.w->findms[in.a]);
      return L.depIndex(L.map->find(ms, false, true, false, false, true));
    }
  }
  return -1;
}

static int age(time_t t) { if (t == 0) return -1; long a = (long)(g_now - t); return a > 3 ? 3 : (int)a; }
static int rel(time_t a, time_t b) { return a < b ? -1 : a > b ? 1 : 0; }

// visited-key: stored data + all times as capped ages + order of each condition's check time vs. its message's change time
static string keyOf(const Live& L) {
  string k;
  char b[96];
  for (Message* m : L.refs) {
    k += VerifAccess::lastMaster(m).getStr(); k += '/'; k += VerifAccess::lastSlave(m).getStr();
    snprintf(b, sizeof b, "u%dc%d|", age(VerifAccess::lastUpdate(m)), age(VerifAccess::lastChange(m)));
    k += b;
  }
  for (const auto& it : VerifAccess::conds(L.map)) {
    const Condition* c = it.second;
    const SimpleCondition* sc = dynamic_cast<const SimpleCondition*>(c);
    Message* cm = sc ? VerifAccess::condMsg(sc) : nullptr;
    snprintf(b, sizeof b, "%d,%d,%d;", VerifAccess::cached(c) ? 1 : 0, age(VerifAccess::lastCheck(c)),
             cm ? rel(VerifAccess::lastChange(cm), VerifAccess::lastCheck(c)) : 9);
    k += b;
  }
  return k;
}
static int valIndexOf(const Live& L, size_t r) {
  Message* m = L.refs[r];
  for (size_t i = 0; i < L.w->vals.size(); i++) {
    const ValDef& v = L.w->vals[i];
    if ((size_t)v.ref != r) continue;
    MasterSymbolString ms; SlaveSymbolString ss; ms.parseHex(v.master); ss.parseHex(v.slave);
    if (ss == VerifAccess::lastSlave(m) && (VerifAccess::lastMaster(m).size() == 0 || ms == VerifAccess::lastMaster(m))) return (int)i + 1;
  }
  return 0;
}
// concrete state (times relative to T0, -1 = never) for the S fidelity check and for humans
static string absOf(const Live& L) {
  string o = "{\"now\":" + std::to_string((long)(g_now - T0)) + ",\"refs\":[";
  char b[128];
  for (size_t r = 0; r < L.refs.size(); r++) {
    Message* m = L.refs[r];
    time_t u = VerifAccess::lastUpdate(m), c = VerifAccess::lastChange(m);
    snprintf(b, sizeof b, "%s{\"v\":%d,\"u\":%ld,\"c\":%ld}", r ? "," : "", valIndexOf(L, r), u ? (long)(u - T0) : -1L, c ? (long)(c - T0) : -1L);
    o += b;
  }
  o += "],\"conds\":[";
  bool first = true;
  for (const auto& it : VerifAccess::conds(L.map)) {
    const Condition* c = it.second;
    time_t lc = VerifAccess::lastCheck(c);
    snprintf(b, sizeof b, "%s{\"t\":%d,\"k\":%ld}", first ? "" : ",", VerifAccess::cached(c) ? 1 : 0, lc ? (long)(lc - T0) : -1L);
    o += b; first = false;
  }
  return o + "]}";
}

static string inJson(const Input& in) {
  char b[64]; snprintf(b, sizeof b, "{\"k\":\"%s\",\"a\":%d}", kindName(in.k), in.a + (in.k == 't' ? 0 : 1)); return b;
}

// ---- graph extraction ------------------------------------------------------------------------------------
struct Node { int id; vector<int> path; string abs; };

static void replayPath(Live& L, const vector<Input>& sigma, const vector<int>& path) {
  for (int i : path) apply(L, sigma[i]);
}

static int extractWorld(vf::Out& o, const World& w, int widx, int& nextId, int maxNodes, long& edges, bool& capped) {
  vector<Input> sigma = alphabet(w);
  std::map<string, int> seen;
  std::deque<Node> queue;
  int rootId;
  {
    Live L(&w);
    if (!L.usable()) { fprintf(stderr, "world %s not usable: %s\n", w.name.c_str(), L.err.c_str()); exit(2); }
    rootId = nextId++;
    seen[keyOf(L)] = rootId;
    queue.push_back({rootId, {}, absOf(L)});
  }
  int count = 0;
  while (!queue.empty()) {
    Node n = queue.front(); queue.pop_front();
    count++;
    string line = "{\"id\":" + std::to_string(n.id) + ",\"w\":" + std::to_string(widx) + ",\"st\":" + n.abs + ",\"succ\":[";
    for (size_t i = 0; i < sigma.size(); i++) {
      Live L(&w);                       // re-execution from the initial state along the discovery path
      replayPath(L, sigma, n.path);
      int out = apply(L, sigma[i]);
      string k = keyOf(L);
      int to;
      auto it = seen.find(k);
      if (it != seen.end()) to = it->second;
      else if ((int)seen.size() >= maxNodes) { capped = true; continue; }
      else {
        to = nextId++;
        seen[k] = to;
        Node c{to, n.path, absOf(L)}; c.path.push_back((int)i);
        queue.push_back(c);
      }
      if (line.back() == '}') line += ',';
      line += "{\"in\":" + inJson(sigma[i]) + ",\"out\":" + std::to_string(out) + ",\"to\":" + std::to_string(to) + "}";
      edges++;
    }
    line += "]}\n";
    o.raw(line);
  }
  return rootId;
}

static string rootStateJson(const World& w, int widx) {
  Live L(&w);
  return "{\"w\":" + std::to_string(widx) + ",\"name\":" + vf::jstr(w.name) + ",\"load\":" + std::to_string(L.loadRc) +
         ",\"resolve\":" + std::to_string(L.resolveRc) + ",\"err\":" + vf::jstr(L.err) + "}";
}

static int cmdGraph(int argc, char** argv) {
  vector<World> ws = readWorlds(argv[2]);
  int maxNodes = atoi(argv[4]);
  // node 1 is the super-root: one "world" edge per world (written last, but TLC indexes by id => write placeholder file order)
  // we need ids to be line numbers: collect world sub-graphs into a temp buffer first
  string tmp = string(argv[3]) + ".body";
  vector<int> roots;
  long edges = 0; bool capped = false;
  int nextId = 2;
  {
    vf::Out body(tmp.c_str());
    for (size_t i = 0; i < ws.size(); i++) roots.push_back(extractWorld(body, ws[i], (int)i + 1, nextId, maxNodes, edges, capped));
  }
  vf::Out o(argv[3]);
  string line = "{\"id\":1,\"w\":0,\"st\":{},\"succ\":[";
  for (size_t i = 0; i < ws.size(); i++) {
    if (i) line += ',';
    line += "{\"in\":{\"k\":\"world\",\"a\":" + std::to_string(i + 1) + "},\"out\":0,\"to\":" + std::to_string(roots[i]) + "}";
  }
  o.raw(line + "]}\n");
  // body nodes were written in BFS order per world, but ids are assigned at discovery: re-sort by id
  {
    std::ifstream in(tmp);
    vector<string> lines(nextId);
    string l;
    while (std::getline(in, l)) { int id = atoi(l.c_str() + 6); lines[id] = l; }
    for (int id = 2; id < nextId; id++) { o.raw(lines[id]); o.nl(); }
  }
  remove(tmp.c_str());
  printf("{\"nodes\":%d,\"edges\":%ld,\"capped\":%s,\"worlds\":[", nextId - 1, edges, capped ? "true" : "false");
  for (size_t i = 0; i < ws.size(); i++) printf("%s%s", i ? "," : "", rootStateJson(ws[i], (int)i + 1).c_str());
  printf("]}\n");
  return 0;
}

// ---- linear executions (replay / random): chain graph in the same format --------------------------------
static void chain(vf::Out& o, const World& w, int widx, const vector<Input>& ins, int& nextId, vector<int>* roots) {
  Live L(&w);
  if (!L.usable()) { fprintf(stderr, "world %s not usable: %s\n", w.name.c_str(), L.err.c_str()); exit(2); }
  roots->push_back(nextId);
  for (size_t i = 0; i <= ins.size(); i++) {
    string line = "{\"id\":" + std::to_string(nextId) + ",\"w\":" + std::to_string(widx) + ",\"st\":" + absOf(L) + ",\"succ\":[";
    if (i < ins.size()) {
      int out = apply(L, ins[i]);
      line += "{\"in\":" + inJson(ins[i]) + ",\"out\":" + std::to_string(out) + ",\"to\":" + std::to_string(nextId + 1) + "}";
    }
    o.raw(line + "]}\n");
    nextId++;
  }
}
static void writeRoot(const char* path, const vector<int>& roots, const vector<int>& widx) {
  // prepend the super-root: rewrite file (small)
  std::ifstream in(path);
  std::stringstream ss; ss << in.rdbuf(); in.close();
  vf::Out o(path);
  string line = "{\"id\":1,\"w\":0,\"st\":{},\"succ\":[";
  for (size_t i = 0; i < roots.size(); i++) {
    if (i) line += ',';
    line += "{\"in\":{\"k\":\"world\",\"a\":" + std::to_string(widx[i]) + "},\"out\":0,\"to\":" + std::to_string(roots[i]) + "}";
  }
  o.raw(line + "]}\n");
  o.raw(ss.str());
}

static int cmdReplay(int argc, char** argv) {
  vector<World> ws = readWorlds(argv[2]);
  std::ifstream in(argv[3]);
  int widx; in >> widx;
  vector<Input> ins; string k; int a;
  while (in >> k >> a) {
    char c = k == "store" ? 's' : k == "tick" ? 't' : k == "avail" ? 'q' : k == "find" ? 'f' : k == "prepare" ? 'p' : 'm';
    ins.push_back({c, c == 't' ? a : a - 1});
  }
  int nextId = 2; vector<int> roots, wi{widx};
  { vf::Out o(argv[4]); chain(o, ws[widx - 1], widx, ins, nextId, &roots); }
  writeRoot(argv[4], roots, wi);
  return 0;
}

static int cmdRandom(int argc, char** argv) {
  vector<World> ws = readWorlds(argv[2]);
  int nsteps = atoi(argv[4]);
  vf::Rng rng(vf::seedFromEnv());
  int nextId = 2; vector<int> roots, wi;
  {
    vf::Out o(argv[3]);
    for (size_t i = 0; i < ws.size(); i++) {
      vector<Input> sigma = alphabet(ws[i]), ins;
      vector<Input> stores, queries;
      for (const Input& x : sigma) { if (x.k == 's') stores.push_back(x); else if (x.k != 't') queries.push_back(x); }
      for (int s = 0; s < nsteps; s++) {
        unsigned r = rng.below(10);
        if (r < 4) ins.push_back(stores[rng.below((unsigned)stores.size())]);
        else if (r < 6) ins.push_back({'t', (int)rng.below(3)});
        else ins.push_back(queries[rng.below((unsigned)queries.size())]);
      }
      chain(o, ws[i], (int)i + 1, ins, nextId, &roots); wi.push_back((int)i + 1);
    }
  }
  writeRoot(argv[3], roots, wi);
  printf("{\"nodes\":%d}\n", nextId - 1);
  return 0;
}

// ---- resolve cases ---------------------------------------------------------------------------------------
// case line: <id> <msg 0|1> <fieldkinds e.g. nsn> <ckind n|s|e> <cfield 0=unnamed,1..4,9=missing> <variant>
static int cmdResolve(int argc, char** argv) {
  std::ifstream in(argv[2]);
  vf::Out o(argv[3]);
  int id, msg, cfield, variant; string kinds, ckind;
  static const char* numTypes[] = {"UCH", "UIN", "D2C", "UCH,0=off;1=on"};
  static const char* strTypes[] = {"STR:2", "HEX:2", "BDA", "VTI"};
  while (in >> id >> msg >> kinds >> ckind >> cfield >> variant) {
    World w; w.name = "resolve";
    string cond = "*[c],ref," + string(msg ? "target" : "absent") + ",,";
    if (cfield >= 1 && cfield <= 4) cond += "f" + std::to_string(cfield);
    else if (cfield == 9) cond += "nofield";
    cond += ",,";
    if (ckind == "n") cond += "1;3-4";
    else if (ckind == "s") cond += "'ab';'cd'";
    w.lines.push_back(cond);
    string def = string(variant & 4 ? "u" : "r") + ",ref,target,,,08,b509,0d0100";
    for (size_t i = 0; i < kinds.size(); i++) {
      const char* t = kinds[i] == 'n' ? numTypes[(variant + i) % 4] : strTypes[(variant + i) % 4];
      def += ",f" + std::to_string(i + 1) + "," + ((variant & 8) && i == 0 ? "m" : "") + "," + t;
      if (!strchr(t, ',')) def += ",";
      def += ",,";
    }
    w.lines.push_back(def);
    w.lines.push_back("[c]r,dep,d,,,08,b509,0d0200,,,UCH");
    Live L(&w);
    const auto& cs = VerifAccess::conds(L.map);
    auto it = cs.find("w.csv:c");
    const SimpleCondition* sc = it == cs.end() ? nullptr : dynamic_cast<const SimpleCondition*>(it->second);
    bool bound = sc && VerifAccess::condMsg(sc) != nullptr;
    Message* target = L.map->find("ref", msg ? "target" : "absent", "*", false, (variant & 4) != 0);
    char b[256];
    string kseq = "[";
    for (size_t i = 0; i < kinds.size(); i++) { if (i) kseq += ','; kseq += '"'; kseq += kinds[i]; kseq += '"'; }
    kseq += "]";
    snprintf(b, sizeof b, "{\"id\":%d,\"msg\":%d,\"kseq\":%s,\"ck\":\"%s\",\"cf\":%d,\"var\":%d,\"load\":%d,\"rc\":%d,\"bound\":%d,\"found\":%d}\n",
             id, msg, kseq.c_str(), ckind.c_str(), cfield, variant, L.loadRc, L.resolveRc, bound ? 1 : 0, target ? 1 : 0);
    o.raw(b);
  }
  return 0;
}

int main(int argc, char** argv) {
  vf::installTerminate();
  setFacilitiesLogLevel(0xffff, ll_none);
  if (argc >= 5 && !strcmp(argv[1], "graph")) return cmdGraph(argc, argv);
  if (argc >= 5 && !strcmp(argv[1], "replay")) return cmdReplay(argc, argv);
  if (argc >= 5 && !strcmp(argv[1], "random")) return cmdRandom(argc, argv);
  if (argc >= 4 && !strcmp(argv[1], "resolve")) return cmdResolve(argc, argv);
  fprintf(stderr, "usage: %s graph|replay|random|resolve ...\n", argv[0]);
  return 2;
}
