/* Defined if contributed sources are enabled. */
#define HAVE_CONTRIB

/* Defined if direct conversion from float to int is available (2 for swapped byte order). */
#define HAVE_DIRECT_FLOAT_FORMAT 1

/* Defined if MQTT handling is enabled. */
#define HAVE_MQTT

/* Defined if KNX handling is enabled. */
#define HAVE_KNX

/* Defined if KNX handling via knxd is enabled. */
/* #undef HAVE_KNXD */

/* Defined if SSL is enabled. */
#define HAVE_SSL

/* Defined if ppoll() is available. */
#define HAVE_PPOLL

/* Defined if pselect() is available. */
#define HAVE_PSELECT

/* Defined if linux/serial.h is available. */
#define HAVE_LINUX_SERIAL

/* Defined if dev/usb/uftdiio.h is available. */
/* #undef HAVE_FREEBSD_UFTDI */

/* Defined if pthread_setname_np is available. */
#define HAVE_PTHREAD_SETNAME_NP

/* Defined if cfsetspeed() is available. */
#define HAVE_CFSETSPEED

/* Defined if time.h is available. */
#define HAVE_TIME_H

/* Defined if timegm() is available. */
#define HAVE_TIMEGM

/* Defined if syslog.h is available. */
#define HAVE_SYSLOG_H

/* The name of package. */
#define PACKAGE "ebusd"

/* The address where bug reports for this package should be sent. */
#define PACKAGE_BUGREPORT "ebusd@ebusd.eu"

/* The path and name of the log file. */
#define PACKAGE_LOGFILE "/usr/local/var/log/ebusd.log"

/* The full name of this package. */
#define PACKAGE_NAME "ebusd"

/* The path and name of the PID file. */
#define PACKAGE_PIDFILE "/usr/local/var/run/ebusd.pid"

/* The full name and version of this package. */
#define PACKAGE_STRING "ebusd 26.1"

/* The tra name of this package. */
#define PACKAGE_TARNAME "ebusd"

/* The home page for this package. */
#define PACKAGE_URL "https://github.com/john30/ebusd"

/* The version of this package. */
#define PACKAGE_VERSION "26.1"

/* The revision of the package. */
#define REVISION "verif"

/* The version of the package formatted for the scan result. */
#define SCAN_VERSION "2601"

/* The version of the package. */
#define VERSION "26.1"

/* The major version of the package. */
#define PACKAGE_VERSION_MAJOR 26

/* The minor version of the package. */
#define PACKAGE_VERSION_MINOR 1
