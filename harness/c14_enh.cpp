// C14 harness (device part): drives the REAL EnhancedDevice over a fake Transport whose read() has the semantics of
// FileTransport::read (timeout > 0: hands over the whole buffer only when NEW bytes arrived, else times out;
// timeout == 0: returns what is already buffered), with a virtual clock, and
//   graph  : extracts the reachable transition graph breadth-first over an environment alphabet (fix-point)
//   replay : re-executes a token sequence from the initial state (path graph)
//   random : seeded random walks over all 256 byte values with random chunkings (forest of path graphs)
// Output: ndjson, one node per line {"id":n,"st":{..},"succ":[{"in":"..","ev":[..],"to":m},..]}; TLC runs the P monitor
// of spec/DeviceEnhanced.tla on it (spec/C14Graph.tla).  No verdict is computed here.
//
// tokens: OPEN | A=hh (one byte arrives at the transport) | R (one Device::recv call; timeout 0 iff the previous recv
//         returned RESULT_CONTINUE, like the protocol handler's loop, else 10 ms) | SA=hh startArbitration | S=hh send |
//         I=hh requestEnhancedInfo(id,false) | CLK (time() moves past the 3 s reset window)
// events: ["call",kind,arg] ["arr",b] ["tx",[bytes]] ["ntf",class,arg,error] ["data",sym,received] ["to",ms]
//         ["rv",res,sym,arbitrationState,timeout] (res 0 OK, 1 CONTINUE, 2 TIMEOUT, 3 other; sym 256 = none)
//         ["ret",kind,rc] ["open"] ["close"] ["reset"] (start of a random trace)
#include "vf.h"
#include <unordered_map>
#include <deque>
#include <algorithm>
#include "lib/ebus/device_trans.h"
#include "lib/utils/clock.h"

using namespace ebusd;

// ---------------------------------------------------------------- virtual clock
static const time_t SEC0 = 200000;
static uint64_t g_ms = 5000000;
static time_t g_sec = SEC0;
namespace ebusd {
void clockGettime(struct timespec* t) { t->tv_sec = (time_t)(g_ms / 1000); t->tv_nsec = (long)(g_ms % 1000) * 1000000L; }
uint64_t clockGetMillis() { return g_ms; }
}
extern "C" time_t time(time_t* t) { if (t) *t = g_sec; return g_sec; }

// ---------------------------------------------------------------- event log of the current edge
static std::string g_ev;
static void ev(const std::string& s) { if (!g_ev.empty()) g_ev += ","; g_ev += s; }
static std::string h2(unsigned x) { char b[8]; snprintf(b, sizeof b, "%02x", x & 0xff); return b; }

// ---------------------------------------------------------------- fake transport
struct FakeT : public Transport {
  uint8_t buf[256]; size_t blen = 0;   // like FileTransport::m_buffer: stays readable after close()
  std::vector<uint8_t> wire;            // arrived, not yet handed over by read()
  bool valid = false;
  FakeT() : Transport("fake", 0) { memset(buf, 0, sizeof buf); }
  string getTransportInfo() const override { return "fake"; }
  result_t openInternal() override { return RESULT_OK; }
  result_t open() override {
    close();
    valid = true; ev("[\"open\"]");
    result_t r = m_listener ? m_listener->notifyTransportStatus(true) : RESULT_OK;
    if (r != RESULT_OK) close();
    return r;
  }
  void close() override {
    if (!valid) return;
    valid = false; blen = 0; wire.clear(); ev("[\"close\"]");
    if (m_listener) m_listener->notifyTransportStatus(false);
  }
  bool isValid() override { return valid; }
  result_t write(const uint8_t* data, size_t len) override {
    if (!valid) return RESULT_ERR_DEVICE;
    std::string o; vf::jbytes(&o, data, len); ev("[\"tx\"," + o + "]");
    return RESULT_OK;
  }
  result_t read(unsigned int timeout, const uint8_t** data, size_t* len) override {
    if (!valid) return RESULT_ERR_DEVICE;
    if (timeout == 0) {
      if (blen > 0) { *data = buf; *len = blen; return RESULT_OK; }
      return RESULT_ERR_TIMEOUT;
    }
    if (wire.empty()) { g_ms += timeout; ev("[\"to\"," + std::to_string(timeout) + "]"); return RESULT_ERR_TIMEOUT; }
    size_t n = std::min(wire.size(), sizeof(buf) - blen);
    memcpy(buf + blen, wire.data(), n); blen += n; wire.erase(wire.begin(), wire.begin() + n);
    *data = buf; *len = blen;
    return RESULT_OK;
  }
  void readConsumed(size_t n) override {
    if (n >= blen) blen = 0;
    else if (n > 0) { memmove(buf, buf + n, blen - n); blen -= n; }
  }
};

// ---------------------------------------------------------------- listener
struct VListener : public DeviceListener {
  void notifyDeviceData(const symbol_t* data, size_t len, bool received) override {
    for (size_t i = 0; i < len; i++) ev("[\"data\"," + std::to_string(data[i]) + "," + (received ? "1" : "0") + "]");
  }
  void notifyDeviceStatus(bool error, const char* message) override {
    std::string m = message ? message : "", cls = "other"; unsigned arg = 0;
    auto code = [&](const std::string& t) -> unsigned {
      if (t == "framing") return 0; if (t == "overrun") return 1;
      if (t.compare(0, 10, "unknown 0x") == 0) return (unsigned)strtoul(t.c_str() + 10, nullptr, 16);
      return 999; };
    if (m == "unexpected enhanced byte 2") cls = "stray2";
    else if (m == "missing enhanced byte 2") cls = "missing2";
    else if (m.compare(0, 30, "unexpected enhanced command 0x") == 0) { cls = "unknown"; arg = (unsigned)strtoul(m.c_str() + 30, nullptr, 16); }
    else if (m.compare(0, 17, "eBUS comm error: ") == 0) { cls = "ebus"; arg = code(m.substr(17)); }
    else if (m.compare(0, 17, "host comm error: ") == 0) { cls = "host"; arg = code(m.substr(17)); }
    else if (m == "reset, supports info") { cls = "reset"; arg = 1; }
    else if (m == "reset") { cls = "reset"; arg = 0; }
    else if (m.compare(0, 12, "extra info: ") == 0) cls = "info";
    else if (m == "transport opened") cls = "topen";
    else if (m == "transport closed") cls = "tclosed";
    else if (m == "info request timed out") cls = "infoto";
    ev("[\"ntf\",\"" + cls + "\"," + std::to_string(arg) + "," + (error ? "1" : "0") + "]");
  }
};

// ---------------------------------------------------------------- configuration
struct Cfg {
  std::vector<uint8_t> sigma{0x10, 0xC6, 0xAA};
  std::vector<uint8_t> arbs, sends, infos;   // SA= / S= / I= arguments
  unsigned cap = 3;                          // max pending transport bytes (buffered + in flight)
  bool clk = false, reopen = true;
  bool distinct = false;                     // a plain byte value is never pending twice (no two equal undelivered symbols)
  long maxNodes = 600000;
};
static Cfg C;
static std::vector<uint8_t> parseHexList(const char* s) {
  std::vector<uint8_t> v;
  while (*s) { if (*s == ',') { s++; continue; } unsigned x; if (sscanf(s, "%2x", &x) != 1) break; v.push_back((uint8_t)x); s += 2; }
  return v;
}
static void parseArg(const std::string& a) {
  size_t p = a.find('=');
  std::string k = a.substr(0, p), v = p == std::string::npos ? "1" : a.substr(p + 1);
  if (k == "sigma") C.sigma = parseHexList(v.c_str()); else if (k == "arb") C.arbs = parseHexList(v.c_str());
  else if (k == "send") C.sends = parseHexList(v.c_str()); else if (k == "info") C.infos = parseHexList(v.c_str());
  else if (k == "cap") C.cap = atoi(v.c_str()); else if (k == "clk") C.clk = v != "0"; else if (k == "reopen") C.reopen = v != "0";
  else if (k == "maxnodes") C.maxNodes = atol(v.c_str()); else if (k == "distinct") C.distinct = v != "0";
  else { fprintf(stderr, "unknown arg %s\n", a.c_str()); exit(2); }
}

// ---------------------------------------------------------------- system under test + private access
static FakeT* g_t; static EnhancedDevice* g_d; static VListener g_l;
static bool g_lastCont = false;

struct Snap {
  int am, ac, age, rr, xf, il, ip, ib0, valid, cont;
  std::vector<uint8_t> buf, wire;
  std::string key() const {
    std::string k; int f[] = {am, ac, age, rr, xf, il, ip, ib0, valid, cont};
    for (int x : f) { k.push_back((char)(x & 0xff)); k.push_back((char)((x >> 8) & 0xff)); }
    k.push_back((char)buf.size()); k.append((const char*)buf.data(), buf.size());
    k.push_back((char)wire.size()); k.append((const char*)wire.data(), wire.size());
    return k;
  }
  std::string json() const {
    char b[256];
    snprintf(b, sizeof b, "{\"am\":%d,\"ac\":%d,\"rt\":%d,\"rr\":%d,\"xf\":%d,\"il\":%d,\"ip\":%d,\"valid\":%d,\"cont\":%d,", am, ac, age, rr, xf, il, ip, valid, cont);
    return std::string(b) + "\"buf\":" + vf::jbytes(buf) + ",\"wire\":" + vf::jbytes(wire) + "}";
  }
};

namespace ebusd {
struct VerifAccess {
  static void snap(Snap* s) {
    EnhancedDevice* e = g_d;
    s->am = e->m_arbitrationMaster; s->ac = (int)e->m_arbitrationCheck;
    s->age = (e->m_resetTime != 0 && e->m_resetTime + 3 >= g_sec) ? 0 : 1;   // 0: inside the 3 s window after the INIT request
    s->rr = e->m_resetRequested; s->xf = e->m_extraFeatures; s->il = (int)e->m_infoLen;
    s->ip = e->m_infoLen ? (int)e->m_infoPos : 0; s->ib0 = e->m_infoLen ? e->m_infoBuf[0] : 0;
    s->valid = g_t->valid; s->cont = g_lastCont;
    s->buf.assign(g_t->buf, g_t->buf + g_t->blen); s->wire = g_t->wire;
  }
  static void restore(const Snap& s) {
    EnhancedDevice* e = g_d;
    g_sec = SEC0; g_ms = 5000000;
    e->m_arbitrationMaster = (symbol_t)s.am; e->m_arbitrationCheck = (size_t)s.ac;
    e->m_resetTime = s.age == 0 ? g_sec : 0; e->m_resetRequested = s.rr; e->m_extraFeatures = (symbol_t)s.xf;
    e->m_infoLen = (size_t)s.il; e->m_infoPos = (size_t)s.ip; memset(e->m_infoBuf, 0, sizeof(e->m_infoBuf)); e->m_infoBuf[0] = (symbol_t)s.ib0;
    e->m_infoReqTime = g_sec;
    g_t->valid = s.valid; g_lastCont = s.cont;
    memset(g_t->buf, 0, sizeof g_t->buf); memcpy(g_t->buf, s.buf.data(), s.buf.size()); g_t->blen = s.buf.size(); g_t->wire = s.wire;
  }
};
}  // namespace ebusd

static void construct() {
  g_t = new FakeT();
  g_d = new EnhancedDevice(g_t);
  g_d->setListener(&g_l);
  g_ev.clear();
}

static std::string opJson(const std::string& tk) {   // ["A",16] - the token in structured form (for the S fidelity check)
  size_t q = tk.find('=');
  std::string k = q == std::string::npos ? tk : tk.substr(0, q);
  unsigned a = q == std::string::npos ? 0 : (unsigned)strtoul(tk.c_str() + q + 1, nullptr, 16);
  return "[\"" + k + "\"," + std::to_string(a) + "]";
}
static bool execToken(const std::string& tk) {
  g_ev.clear();
  unsigned arg = tk.size() > 2 && tk.find('=') != std::string::npos ? (unsigned)strtoul(tk.c_str() + tk.find('=') + 1, nullptr, 16) : 0;
  if (tk == "OPEN") {
    ev("[\"call\",\"open\",0]");
    result_t r = g_d->open(); g_lastCont = false;
    ev("[\"ret\",\"open\"," + std::to_string(-(int)r) + "]");
    return true;
  }
  if (tk.compare(0, 2, "A=") == 0) {
    if (!g_t->valid) return false;
    g_t->wire.push_back((uint8_t)arg); ev("[\"arr\"," + std::to_string(arg) + "]");
    return true;
  }
  if (tk == "R") {
    unsigned timeout = g_lastCont ? 0 : 10;
    ev("[\"call\",\"recv\"," + std::to_string(timeout) + "]");
    symbol_t value = 0; ArbitrationState as = as_none;
    result_t r = g_d->recv(timeout, &value, &as);
    int res = r == RESULT_OK ? 0 : r == RESULT_CONTINUE ? 1 : r == RESULT_ERR_TIMEOUT ? 2 : 3;
    g_lastCont = res == 1;
    ev("[\"rv\"," + std::to_string(res) + "," + std::to_string(res <= 1 ? (int)value : 256) + "," + std::to_string((int)as) + "," + std::to_string(timeout) + "]");
    return true;
  }
  if (tk.compare(0, 3, "SA=") == 0) {
    ev("[\"call\",\"start\"," + std::to_string(arg) + "]");
    result_t r = g_d->startArbitration((symbol_t)arg);
    ev("[\"ret\",\"start\"," + std::to_string(-(int)r) + "]");
    return true;
  }
  if (tk.compare(0, 2, "S=") == 0) {
    ev("[\"call\",\"send\"," + std::to_string(arg) + "]");
    result_t r = g_d->send((symbol_t)arg);
    ev("[\"ret\",\"send\"," + std::to_string(-(int)r) + "]");
    return true;
  }
  if (tk.compare(0, 2, "I=") == 0) {
    ev("[\"call\",\"info\"," + std::to_string(arg) + "]");
    result_t r = g_d->requestEnhancedInfo((symbol_t)arg, false);
    ev("[\"ret\",\"info\"," + std::to_string(-(int)r) + "]");
    return true;
  }
  if (tk == "CLK") { g_sec += 5; ev("[\"clk\",5]"); return true; }
  fprintf(stderr, "bad token %s\n", tk.c_str()); exit(2);
}

// ---------------------------------------------------------------- graph extraction
struct Edge { std::string in, ev; long to; };

static int cmdGraph(const char* outPath) {
  vf::Out out(outPath);
  std::unordered_map<std::string, long> ids;
  std::deque<Snap> frontier;
  Snap s0; VerifAccess::snap(&s0);
  ids[s0.key()] = 1; frontier.push_back(s0);
  long nextId = 2, expanded = 0, nedges = 0;
  while (!frontier.empty()) {
    Snap cur = frontier.front(); frontier.pop_front();
    expanded++;
    std::vector<std::string> toks;
    if (!cur.valid) { if (C.reopen || expanded == 1) toks.push_back("OPEN"); toks.push_back("R"); }
    else {
      if (cur.buf.size() + cur.wire.size() < C.cap) for (uint8_t b : C.sigma) {
        if (C.distinct && b < 0x80 && (std::find(cur.buf.begin(), cur.buf.end(), b) != cur.buf.end() || std::find(cur.wire.begin(), cur.wire.end(), b) != cur.wire.end())) continue;
        toks.push_back("A=" + h2(b));
      }
      toks.push_back("R");
      for (uint8_t a : C.arbs) toks.push_back("SA=" + h2(a));
      for (uint8_t a : C.sends) toks.push_back("S=" + h2(a));
      for (uint8_t a : C.infos) toks.push_back("I=" + h2(a));
      if (C.clk && cur.age == 0) toks.push_back("CLK");
    }
    std::vector<Edge> edges;
    for (const std::string& tk : toks) {
      VerifAccess::restore(cur);
      if (!execToken(tk)) continue;
      Snap post; VerifAccess::snap(&post);
      std::string k = post.key();
      auto it = ids.find(k); long to;
      if (it == ids.end()) { to = nextId++; ids.emplace(k, to); frontier.push_back(post); } else to = it->second;
      edges.push_back(Edge{tk, g_ev, to});
    }
    std::string line = "{\"id\":" + std::to_string(expanded) + ",\"st\":" + cur.json() + ",\"succ\":[";
    for (size_t i = 0; i < edges.size(); i++) {
      if (i) line += ",";
      line += "{\"in\":\"" + edges[i].in + "\",\"op\":" + opJson(edges[i].in) + ",\"ev\":[" + edges[i].ev + "],\"to\":" + std::to_string(edges[i].to) + "}";
    }
    line += "]}\n";
    out.raw(line); nedges += (long)edges.size();
    if (nextId > C.maxNodes) {  // no fix-point within the budget: the partial graph (real paths only) is still written
      Snap none = cur;
      for (long k = expanded + 1; k < nextId; k++) out.raw("{\"id\":" + std::to_string(k) + ",\"st\":" + none.json() + ",\"succ\":[]}\n");
      printf("{\"nodes\":%ld,\"edges\":%ld,\"fixpoint\":false}\n", nextId - 1, nedges);
      return 0;
    }
  }
  printf("{\"nodes\":%ld,\"edges\":%ld,\"fixpoint\":true}\n", expanded, nedges);
  return 0;
}

// ---------------------------------------------------------------- replay of a token list (path graph)
static int cmdReplay(const char* inPath, const char* outPath) {
  FILE* f = fopen(inPath, "r"); if (!f) { perror(inPath); return 2; }
  vf::Out out(outPath);
  char line[256]; long id = 1;
  while (fgets(line, sizeof line, f)) {
    std::string tk = line; while (!tk.empty() && (tk.back() == '\n' || tk.back() == '\r')) tk.pop_back();
    if (tk.empty()) continue;
    Snap pre; VerifAccess::snap(&pre);
    if (!execToken(tk)) g_ev.clear();
    out.raw("{\"id\":" + std::to_string(id) + ",\"st\":" + pre.json() + ",\"succ\":[{\"in\":\"" + tk + "\",\"op\":" + opJson(tk) + ",\"ev\":[" + g_ev + "],\"to\":" + std::to_string(id + 1) + "}]}\n");
    id++;
  }
  Snap last; VerifAccess::snap(&last);
  out.raw("{\"id\":" + std::to_string(id) + ",\"st\":" + last.json() + ",\"succ\":[]}\n");
  fclose(f);
  printf("{\"nodes\":%ld,\"edges\":%ld}\n", id, id - 1);
  return 0;
}

// ---------------------------------------------------------------- random walks, full byte domain (forest: node 1 = root)
static int cmdRandom(const char* outPath, long ntraces, long steps) {
  vf::Out out(outPath);
  vf::Rng rng(vf::seedFromEnv());
  Snap fresh; VerifAccess::snap(&fresh);   // constructed, closed
  std::string root = "{\"id\":1,\"st\":" + fresh.json() + ",\"succ\":[";
  std::string body;
  long id = 2, nedges = 0, nbytes = 0;
  static const uint8_t firsts[] = {0xC4, 0xC6, 0xC7, 0xC8, 0xCA, 0xE8, 0xEB, 0xCC, 0xCD, 0xC0, 0xEC, 0xF0, 0xD4, 0xFF};
  for (long t = 0; t < ntraces; t++) {
    if (t) root += ",";
    root += "{\"in\":\"T=" + std::to_string(t) + "\",\"op\":[\"T\",0],\"ev\":[[\"reset\"]],\"to\":" + std::to_string(id) + "}";
    VerifAccess::restore(fresh);
    // per trace flavour: how malformed / how busy
    unsigned pFrame = 20 + rng.below(60), pJunk = rng.below(25), pRecv = 25 + rng.below(50);
    int pendFirst = -1;
    for (long s = 0; s < steps; s++) {
      std::string tk;
      Snap pre; VerifAccess::snap(&pre);
      if (!pre.valid) tk = rng.chance(3, 4) ? "OPEN" : "R";
      else {
        unsigned r = rng.below(100);
        size_t pending = pre.buf.size() + pre.wire.size();
        if (r < pRecv || pending >= 10) tk = "R";
        else if (r < pRecv + 4) tk = rng.chance(1, 2) ? "SA=31" : (rng.chance(1, 2) ? "SA=aa" : "SA=" + h2(rng.below(256)));
        else if (r < pRecv + 6) tk = "S=" + h2(rng.below(256));
        else if (r < pRecv + 8) tk = "I=" + h2(rng.below(8));
        else if (r < pRecv + 9 && pre.age == 0) tk = "CLK";
        else {
          uint8_t b;
          if (pendFirst >= 0 && !rng.chance(pJunk, 100)) { b = (uint8_t)(0x80 | rng.below(64)); pendFirst = -1; }
          else if (rng.chance(pJunk, 100)) { b = (uint8_t)rng.below(256); pendFirst = b >= 0xC0 ? b : -1; }
          else if (rng.chance(pFrame, 100)) { b = rng.chance(3, 4) ? firsts[rng.below(sizeof firsts)] : (uint8_t)(0xC0 | rng.below(64)); pendFirst = b; }
          else { b = (uint8_t)rng.below(128); pendFirst = -1; }
          tk = "A=" + h2(b); nbytes++;
        }
      }
      if (!execToken(tk)) g_ev.clear();
      body += "{\"id\":" + std::to_string(id) + ",\"st\":" + pre.json() + ",\"succ\":[{\"in\":\"" + tk + "\",\"op\":" + opJson(tk) + ",\"ev\":[" + g_ev + "],\"to\":" + std::to_string(id + 1) + "}]}\n";
      id++; nedges++;
    }
    Snap last; VerifAccess::snap(&last);
    body += "{\"id\":" + std::to_string(id) + ",\"st\":" + last.json() + ",\"succ\":[]}\n";
    id++;
  }
  out.raw(root + "]}\n"); out.raw(body);
  printf("{\"nodes\":%ld,\"edges\":%ld,\"traces\":%ld,\"bytes\":%ld}\n", id - 1, nedges + ntraces, ntraces, nbytes);
  return 0;
}

int main(int argc, char** argv) {
  vf::installTerminate();
  if (argc < 3) { fprintf(stderr, "usage: c14_enh graph out key=value.. | replay out tokens | random out ntraces steps\n"); return 2; }
  std::string mode = argv[1];
  construct();
  if (mode == "graph") { for (int i = 3; i < argc; i++) parseArg(argv[i]); return cmdGraph(argv[2]); }
  if (mode == "replay") return cmdReplay(argv[3], argv[2]);
  if (mode == "random") return cmdRandom(argv[2], atol(argv[3]), atol(argv[4]));
  return 2;
}
