// Protocol-stack harness (C01-C04, C15): drives the REAL DirectProtocolHandler + PlainDevice/EnhancedDevice over a
// fake Transport in *step mode* (one run()-loop iteration per step, called through the EBUSD_VERIF friend hook),
// with a virtual clock, and
//   graph  : extracts the reachable transition graph breadth-first over an environment alphabet (fix-point)
//   replay : re-executes a given input sequence from the initial state (linear trace = path graph)
//   random : seeded random walk over the same environment with the full byte domain (linear trace)
// Output: ndjson, one node per line {"id":n,"succ":[{"in":"..","ev":[..],"to":m},..]} ; TLC runs the P monitors on it.
// The environment below only BOUNDS THE SEARCH; no verdict is computed here.
#include "vf.h"
#include <map>
#include <unordered_map>
#include <deque>
#include <algorithm>
#include <new>
#include <atomic>
#include <pthread.h>
#include <sched.h>
#include <signal.h>
#include "lib/ebus/protocol_direct.h"
#include "lib/ebus/device_trans.h"
#include "lib/utils/clock.h"
#include "lib/utils/log.h"

using namespace ebusd;

// ---------------------------------------------------------------- virtual clock
static std::atomic<uint64_t> g_ms(5000000);   // monotone milliseconds (device deadline loops)
static std::atomic<long> g_sec(200000);       // time(): seconds, advanced only by "long" timeouts chosen by the environment
namespace ebusd {
void clockGettime(struct timespec* t) { uint64_t m = g_ms; t->tv_sec = (time_t)(m / 1000); t->tv_nsec = (long)(m % 1000) * 1000000L; }
uint64_t clockGetMillis() { return g_ms; }
}
extern "C" time_t time(time_t* t) { time_t v = (time_t)g_sec.load(); if (t) *t = v; return v; }

// ---------------------------------------------------------------- event log of the current step
static std::string g_ev;
static std::string g_mask;  // ",rx,tx," : only these event kinds are logged (empty = all)
static std::atomic<long> g_reads(0);
static bool g_runMode = false;               // run mode: real bus thread + client threads, events serialised by a mutex
static pthread_mutex_t g_evMutex = PTHREAD_MUTEX_INITIALIZER;
static std::vector<std::string> g_runEvents;
static void ev(const std::string& s) {
  if (g_runMode) { pthread_mutex_lock(&g_evMutex); g_runEvents.push_back(s); pthread_mutex_unlock(&g_evMutex); return; }
  if (!g_mask.empty()) { size_t q = s.find('"', 2); if (g_mask.find("," + s.substr(2, q - 2) + ",") == std::string::npos) return; }
  if (!g_ev.empty()) g_ev += ",";
  g_ev += s;
}
static std::string hexs(const std::vector<uint8_t>& v) { std::string s; char b[4]; for (uint8_t x : v) { snprintf(b, 4, "%02x", x); s += b; } return s; }

// ---------------------------------------------------------------- configuration
struct ReqDef { std::vector<uint8_t> master; int kind; int restarts; };  // kind 0 waited, 1 deleteOnFinish, 2 restarting after success, 3 restarting also after an error
struct AnsDef { uint8_t src, dst, pb, sb; std::vector<uint8_t> id; std::vector<uint8_t> answer; };
struct Cfg {
  bool enhanced = false, readOnly = false, answer = false, generateSyn = false;
  unsigned lockCount = 3, busLostRetries = 0;
  uint8_t own = 0x31;
  int nnMax = 1, snnMax = 1;
  std::vector<uint8_t> qqs{0x03, 0x71, 0x15}, zzs{0xFE, 0x03, 0x15, 0x36}, datas{0x42, 0x00, 0xA9}, winners{0x03, 0x11};
  std::vector<uint8_t> pbs{0xB5}, sbs{0x09}, junk{0x42};
  bool longTo = true, longToAnywhere = false, readErr = false, writeErr = false, echoFaults = true, openFail = false;
  int submitWhen = 1;      // 0 never, 1 handler idle (noSignal/skip/ready), 2 always
  bool cbSubmit = true;    // submission from inside the ps_empty callback
  bool keySeen = false;    // seen-address set / master count part of the visited key
  bool reconnect = false;  // client calls reconnect()
  std::vector<ReqDef> reqs;
  std::vector<AnsDef> answers;
  long maxNodes = 600000;
  bool escQQ = false;
  bool enhErr = false;       // enhanced: the adapter may report ERROR_EBUS while it is armed for an arbitration
  bool enhCtl = false;       // enhanced: a symbol may be followed in the same read chunk by a non-symbol frame (ERROR_EBUS)
  bool enhSplit = false;     // enhanced: read chunks may end inside a two-byte frame (needs chunk2 for symbol+half)
  bool arbNone = true;       // the arbitration byte may vanish from the wire (no echo at all)
  bool chunk2 = false;       // deliveries of two symbols in one transport read chunk
  bool lateEcho = false;     // the wire image of the arbitration byte may arrive after a read timeout
  bool enhLongForm = false;  // enhanced: symbols < 0x80 also as RECEIVED frames
  uint8_t enhFeatures = 0;   // feature bits the simulated adapter reports in RESETTED
  bool autoPoll = true;    // a waiter takes its finished request at the end of the step that finished it
};
static Cfg C;

static std::vector<uint8_t> parseHexList(const char* s) {  // "03,71" or "0371"
  std::vector<uint8_t> v;
  while (*s) { if (*s == ',') { s++; continue; } unsigned x; if (sscanf(s, "%2x", &x) != 1) break; v.push_back((uint8_t)x); s += 2; }
  return v;
}
static void parseArg(const std::string& a) {
  size_t p = a.find('=');
  std::string k = a.substr(0, p), v = p == std::string::npos ? "1" : a.substr(p + 1);
  auto b = [&]() { return v != "0"; };
  if (k == "enhanced") C.enhanced = b(); else if (k == "readonly") C.readOnly = b(); else if (k == "answer") C.answer = b();
  else if (k == "gensyn") C.generateSyn = b(); else if (k == "lock") C.lockCount = atoi(v.c_str());
  else if (k == "buslost") C.busLostRetries = atoi(v.c_str()); else if (k == "own") C.own = parseHexList(v.c_str())[0];
  else if (k == "nn") C.nnMax = atoi(v.c_str()); else if (k == "snn") C.snnMax = atoi(v.c_str());
  else if (k == "qq") C.qqs = parseHexList(v.c_str()); else if (k == "zz") C.zzs = parseHexList(v.c_str());
  else if (k == "data") C.datas = parseHexList(v.c_str()); else if (k == "win") C.winners = parseHexList(v.c_str());
  else if (k == "pb") C.pbs = parseHexList(v.c_str()); else if (k == "sb") C.sbs = parseHexList(v.c_str());
  else if (k == "junk") C.junk = parseHexList(v.c_str());
  else if (k == "longto") C.longTo = b(); else if (k == "longtoany") C.longToAnywhere = b(); else if (k == "readerr") C.readErr = b();
  else if (k == "writeerr") C.writeErr = b(); else if (k == "echofaults") C.echoFaults = b(); else if (k == "openfail") C.openFail = b();
  else if (k == "submit") C.submitWhen = atoi(v.c_str()); else if (k == "cbsubmit") C.cbSubmit = b();
  else if (k == "keyseen") C.keySeen = b(); else if (k == "reconnect") C.reconnect = b(); else if (k == "maxnodes") C.maxNodes = atol(v.c_str());
  else if (k == "escqq") C.escQQ = b();
  else if (k == "autopoll") C.autoPoll = b();
  else if (k == "lateecho") C.lateEcho = b(); else if (k == "chunk2") C.chunk2 = b(); else if (k == "arbnone") C.arbNone = b(); else if (k == "enhsplit") C.enhSplit = b(); else if (k == "enherr") C.enhErr = b(); else if (k == "enhctl") C.enhCtl = b();
  else if (k == "enhlong") C.enhLongForm = b(); else if (k == "enhfeat") C.enhFeatures = (uint8_t)atoi(v.c_str());
  else if (k == "events") g_mask = "," + v + ",";
  else if (k == "req") {  // req=<kind>:<hex master without crc>[:restarts]
    ReqDef r; r.kind = v[0] - '0'; size_t q = v.find(':', 2);
    r.master = parseHexList(v.substr(2, q == std::string::npos ? std::string::npos : q - 2).c_str());
    r.restarts = q == std::string::npos ? 0 : atoi(v.c_str() + q + 1); C.reqs.push_back(r);
  } else if (k == "ans") {  // ans=<src|aa>:<dst>:<pbsb>:<id hex or ->:<answer hex or ->
    AnsDef d; std::vector<std::string> f; size_t s = 0; for (;;) { size_t e = v.find(':', s); f.push_back(v.substr(s, e == std::string::npos ? e : e - s)); if (e == std::string::npos) break; s = e + 1; }
    d.src = parseHexList(f[0].c_str())[0]; d.dst = parseHexList(f[1].c_str())[0]; auto pbsb = parseHexList(f[2].c_str()); d.pb = pbsb[0]; d.sb = pbsb[1];
    if (f[3] != "-") d.id = parseHexList(f[3].c_str()); if (f.size() > 4 && f[4] != "-") d.answer = parseHexList(f[4].c_str()); C.answers.push_back(d);
  } else { fprintf(stderr, "unknown arg %s\n", a.c_str()); exit(2); }
}

// ---------------------------------------------------------------- environment: wire tracker (telegram grammar position)
static uint8_t crcStep(uint8_t c, uint8_t v) { for (int i = 0; i < 8; i++) c = (uint8_t)((c & 0x80) ? ((c << 1) ^ 0x9B) : (c << 1)); return c ^ v; }
enum Ph : uint8_t { P_DEAD, P_QQ, P_ZZ, P_PB, P_SB, P_NN, P_DATA, P_CRC, P_ACK, P_SNN, P_SDATA, P_SCRC, P_SACK, P_DONE };
struct Tracker {
  uint8_t ph = P_DEAD, qq = 0, zz = 0, left = 0, crc = 0, crc0 = 0, esc = 0, mrep = 0, srep = 0, crcok = 0;
  void key(std::string* k) const { k->append((const char*)this, sizeof(*this)); }
  void advance(uint8_t s) {  // raw wire symbol
    advance1(s);
    if (ph == P_DEAD || ph == P_DONE) { uint8_t p = ph; *this = Tracker(); ph = p; }  // canonical: nothing else matters there
  }
  void advance1(uint8_t s) {
    if (s == SYN) { *this = Tracker(); ph = P_QQ; return; }
    if (ph == P_DEAD || ph == P_DONE) return;
    if (ph == P_ACK || ph == P_SACK) {
      // shape tracking only: validity is NOT judged here (the environment keeps sending telegram-shaped continuations
      // after a bad CRC, a wrong acknowledge or a second NAK so that the monitors see those cases completed)
      bool m = ph == P_ACK;
      if (s == ACK) { if (m) { if (isMaster(zz)) ph = P_DONE; else { ph = P_SNN; crc = 0; } } else ph = P_DONE; }
      else if (s == NAK && (m ? mrep : srep) < 2) { crc = 0; if (m) { mrep++; ph = P_QQ; } else { srep++; ph = P_SNN; } }
      else ph = P_DEAD;
      return;
    }
    uint8_t v;
    if (esc) { crc = crcStep(crc, s); esc = 0; v = s == 0 ? ESC : s == 1 ? SYN : s; }
    else { crc0 = crc; crc = crcStep(crc, s); if (s == ESC) { esc = 1; return; } v = s; }
    switch (ph) {
      case P_QQ: qq = v; ph = P_ZZ; break;
      case P_ZZ: zz = v; ph = P_PB; break;
      case P_PB: ph = P_SB; break;
      case P_SB: ph = P_NN; break;
      case P_NN: case P_SNN:
        if (v > 16) { ph = P_DEAD; return; }
        left = v; ph = left ? (ph == P_NN ? P_DATA : P_SDATA) : (ph == P_NN ? P_CRC : P_SCRC); break;
      case P_DATA: case P_SDATA: if (--left == 0) ph = ph == P_DATA ? P_CRC : P_SCRC; break;
      case P_CRC: case P_SCRC:
        crcok = v == crc0;
        if (ph == P_CRC && zz == BROADCAST) ph = P_DONE; else ph = ph == P_CRC ? P_ACK : P_SACK;
        break;
      default: break;
    }
  }
  void silence() { *this = Tracker(); }
};

// ---------------------------------------------------------------- step input (environment decisions for one step)
struct Input {
  std::string echo = "s";      // s same | n none | xHH appears as HH
  std::string deliv = "to";    // HH symbol | to short timeout | tl long timeout | er read error
  int cb = -1;                 // request submitted from inside the ps_empty callback
  bool wfail = false;          // transport write fails
  bool usedEcho = false, usedDeliv = false, usedCb = false, usedW = false;
  std::vector<uint8_t> echoW;  // the byte whose echo was decided
  Tracker echoT, delivT;       // tracker state at decision time (to enumerate alternatives)
  bool enhArmed = false;       // enhanced: the adapter was armed at decision time (an error frame is then a delivery choice)
  int lateEcho = -1;           // arbitration byte still awaited by the device at decision time (late echo is a delivery choice)
  std::string str() const {
    std::string s;
    if (usedW && wfail) s += "W=f ";
    if (usedEcho) s += "E=" + echo + " ";
    if (usedDeliv) s += "D=" + deliv + " ";
    if (usedCb && cb >= 0) s += "CB=" + std::to_string(cb) + " ";
    if (!s.empty()) s.pop_back();
    return s;
  }
};
static Input* g_in = nullptr;
static Tracker g_trk;
static vf::Rng* g_rng = nullptr;  // random mode: decisions are drawn at consult time from the full byte domain
static std::string randomDeliv(const Tracker& t);
static std::string randomEcho(const Tracker& t, uint8_t w);

// ---------------------------------------------------------------- fake transport
struct FakeTransport : public Transport {
  std::vector<uint8_t> buf, org;
  bool valid = false;
  bool openFails = false;
  bool stepReadOk = false; int stepConsumed = 0;   // per step: did a read hand out data, and was anything taken ("deaf" device)
  FakeTransport() : Transport("fake", 0) {}
  string getTransportInfo() const override { return "fake"; }
  result_t openInternal() override { return RESULT_OK; }
  result_t open() override {
    close();
    result_t r = openFails ? RESULT_ERR_NOTFOUND : RESULT_OK;
    if (r == RESULT_OK) { valid = true; ev("[\"open\",1]"); if (m_listener) r = m_listener->notifyTransportStatus(true); }
    else ev("[\"open\",0]");
    if (r != RESULT_OK) close();
    return r;
  }
  void close() override {
    if (!valid) return;
    valid = false; buf.clear(); org.clear(); half = -1; ev("[\"close\"]");
    if (m_listener) m_listener->notifyTransportStatus(false);
  }
  bool isValid() override { return valid; }
  int lateEchoByte();
  // enhanced mode: the transport is an adapter simulator speaking the enhanced protocol (whole frames per chunk;
  // splitting inside frames is C14's subject).  armed = master address the adapter shall arbitrate with, or SYN.
  uint8_t armed = SYN;
  int half = -1, halfOrg = 0;  // second byte of a frame whose first byte was delivered at the end of the previous read chunk
  void frame(uint8_t cmd, uint8_t d, uint8_t o) { buf.push_back((uint8_t)(0xC0 | (cmd << 2) | (d >> 6))); org.push_back(0); buf.push_back((uint8_t)(0x80 | (d & 0x3f))); org.push_back(o); }
  void wire(uint8_t s, uint8_t o) {
    g_trk.advance(s);
    if (!C.enhanced) { buf.push_back(s); org.push_back(o); return; }
    if (s < 0x80 && !C.enhLongForm) { buf.push_back(s); org.push_back(o); } else frame(1 /*RECEIVED*/, s, o);
  }
  std::string decideEcho(uint8_t w) {
    std::string e = "s";
    if (g_in && g_rng) { g_in->usedEcho = true; g_in->echo = randomEcho(g_trk, w); return g_in->echo; }
    if (g_in && !g_in->usedEcho) { g_in->usedEcho = true; g_in->echoW.assign(1, w); g_in->echoT = g_trk; e = g_in->echo; }
    return e;
  }
  // a SYN from the bus reached the adapter while it is armed: it arbitrates on behalf of ebusd
  void adapterArbitrate() {
    uint8_t a = armed; armed = SYN;
    std::string e = decideEcho(a);
    if (e == "s") { g_trk.advance(a); frame(2 /*STARTED*/, a, a); }
    else if (e[0] == 'x') { uint8_t w = (uint8_t)strtoul(e.c_str() + 1, nullptr, 16); g_trk.advance(w); frame(0xa /*FAILED*/, w, a); }
    // "n": the adapter stays silent (ebusd gives up after three SYN)
  }
  result_t write(const uint8_t* data, size_t len) override {
    if (!valid) return RESULT_ERR_DEVICE;
    if (g_in && C.writeErr) { g_in->usedW = true; if (g_in->wfail) { ev("[\"err\",\"write\"]"); return RESULT_ERR_DEVICE; } }
    if (C.enhanced) {
      for (size_t i = 0; i + 1 < len; i += 2) {
        uint8_t b0 = data[i], b1 = data[i + 1];
        char b[64];
        if ((b0 & 0xc0) != 0xc0 || (b1 & 0xc0) != 0x80) { snprintf(b, sizeof b, "[\"bad\",\"malformed-adapter-request\",%u]", b0 * 256 + b1); ev(b); continue; }
        uint8_t cmd = (b0 >> 2) & 0xf, d = (uint8_t)(((b0 & 3) << 6) | (b1 & 0x3f));
        if (cmd == 0) { ev("[\"enhreq\",\"init\"]"); frame(0 /*RESETTED*/, C.enhFeatures, 0); }
        else if (cmd == 1) {
          snprintf(b, sizeof b, "[\"tx\",%u]", d); ev(b);
          std::string e = decideEcho(d);
          if (e == "s") wire(d, 1); else if (e[0] == 'x') wire((uint8_t)strtoul(e.c_str() + 1, nullptr, 16), 1);
        } else if (cmd == 2) { snprintf(b, sizeof b, "[\"enhreq\",\"start\",%u]", d); ev(b); armed = d; }
        else if (cmd == 3) { snprintf(b, sizeof b, "[\"enhreq\",\"info\",%u]", d); ev(b); }
        else { snprintf(b, sizeof b, "[\"bad\",\"unknown-adapter-request\",%u]", cmd); ev(b); }
      }
      return RESULT_OK;
    }
    for (size_t i = 0; i < len; i++) {
      uint8_t w = data[i];
      char b[32]; snprintf(b, sizeof b, "[\"tx\",%u]", w); ev(b);
      std::string e = decideEcho(w);
      if (e == "s") wire(w, 1);
      else if (e[0] == 'x') wire((uint8_t)strtoul(e.c_str() + 1, nullptr, 16), 1);
      // "n": the byte never shows up
    }
    return RESULT_OK;
  }
  result_t read(unsigned int timeout, const uint8_t** data, size_t* len) override {
    if (g_runMode && ((++g_reads) & 0xff) == 0) sched_yield();  // let client threads run on a loaded machine
    if (!valid) return RESULT_ERR_DEVICE;
    if (half >= 0 && timeout > 0) { buf.push_back((uint8_t)half); org.push_back((uint8_t)halfOrg); half = -1; }  // the rest of the split frame arrives
    if (buf.empty()) {
      if (timeout == 0) return RESULT_ERR_TIMEOUT;
      std::string d = "to";
      if (g_in && g_rng) { g_in->usedDeliv = true; d = g_in->deliv = randomDeliv(g_trk); }
      else if (g_in && !g_in->usedDeliv) { g_in->usedDeliv = true; g_in->delivT = g_trk; d = g_in->deliv; g_in->lateEcho = lateEchoByte(); g_in->enhArmed = armed != SYN; }
      if (d == "to" || d == "tl") {
        g_ms += timeout; g_trk.silence();
        if (d == "tl") g_sec += 2;
        char b[48]; snprintf(b, sizeof b, "[\"to\",%d,%u]", d == "tl" ? 2 : 1, timeout); ev(b);
        return RESULT_ERR_TIMEOUT;
      }
      if (d == "er") { ev("[\"err\",\"read\"]"); g_trk.silence(); close(); return RESULT_ERR_DEVICE; }
      if (d == "EB" && C.enhanced) { frame(0xb /*ERROR_EBUS*/, 0, 0); d = ""; }   // adapter reports a bus error (framing)
      bool ctl = !d.empty() && d[d.size() - 1] == '!';    // enhanced: a non-symbol frame ends the chunk behind the last symbol
      if (ctl) d.erase(d.size() - 1);
      bool split = !d.empty() && d[d.size() - 1] == '~';  // enhanced: the chunk ends inside the frame of the last symbol
      if (split) d.erase(d.size() - 1);
      for (size_t i = 0; i + 1 < d.size(); i += 2) {
        uint8_t sy = (uint8_t)strtoul(d.substr(i, 2).c_str(), nullptr, 16);
        if (split && i + 2 >= d.size() && C.enhanced) {
          g_trk.advance(sy);
          buf.push_back((uint8_t)(0xC0 | (1 << 2) | (sy >> 6))); org.push_back(0); half = 0x80 | (sy & 0x3f); halfOrg = 0;
        } else {
          wire(sy, 0);
          if (C.enhanced && sy == SYN && armed != SYN) adapterArbitrate();
        }
      }
      if (ctl && C.enhanced) frame(0xb /*ERROR_EBUS*/, 0, 0);
    }
    *data = buf.data(); *len = buf.size();
    stepReadOk = stepReadOk || !buf.empty();
    return RESULT_OK;
  }
  void readConsumed(size_t n) override {
    if (n > buf.size()) n = buf.size();
    stepConsumed += (int)n;
    char b[64];
    for (size_t i = 0; i < n; i++) {
      uint8_t x = buf[i];
      if (!C.enhanced || x < 0x80) { snprintf(b, sizeof b, "[\"rx\",%u,%u]", x, org[i]); ev(b); continue; }
      if ((x & 0xc0) == 0xc0 && i + 1 < n && (buf[i + 1] & 0xc0) == 0x80) {
        uint8_t cmd = (x >> 2) & 0xf, d = (uint8_t)(((x & 3) << 6) | (buf[i + 1] & 0x3f)), o = org[i + 1];
        if (cmd == 1) { snprintf(b, sizeof b, "[\"rx\",%u,%u]", d, o); ev(b); }
        else if (cmd == 2 || cmd == 0xa) { snprintf(b, sizeof b, "[\"tx\",%u]", o); ev(b); snprintf(b, sizeof b, "[\"rx\",%u,1]", d); ev(b); }  // the adapter wrote o, the wire showed d
        else if (cmd == 0) { snprintf(b, sizeof b, "[\"enh\",\"resetted\",%u]", d); ev(b); }
        else if (cmd == 0xb || cmd == 0xc) { snprintf(b, sizeof b, "[\"enh\",\"error\",%u]", d); ev(b); }
        i++;
      } else { snprintf(b, sizeof b, "[\"bad\",\"partial-frame-consumed\",%u]", x); ev(b); }
    }
    buf.erase(buf.begin(), buf.begin() + n); org.erase(org.begin(), org.begin() + n);
  }
};

// ---------------------------------------------------------------- requests
struct VReq;
static std::vector<VReq*> g_reqs;
static std::string jb(const SymbolString& s) { std::string o; vf::jbytes(&o, s.data(), s.size()); return o; }
static std::vector<MasterSymbolString*> g_masters;  // request contents live outside the request objects (never freed)
static int g_status[16];  // request status lives outside the objects: a store in a destructor to the dying object may be optimised away
struct VReq : public BusRequest {
  // no owning members: a (wrong) second destruction of a request must not crash the harness but be reported as an event
  int idx, kind, restartsLeft;
  int& status;  // 0 idle, 1 active (owned by handler), 2 completed (in finished queue), 3 deleted
  int result; int slaveLen; uint8_t slaveBuf[272];
  const MasterSymbolString& ms;
  VReq(int i, const ReqDef& d) : BusRequest(*g_masters[i], d.kind == 1), idx(i), kind(d.kind), restartsLeft(d.restarts), status(g_status[i]), result(0),
    slaveLen(0), ms(*g_masters[i]) { status = 0; }
  std::vector<uint8_t> slave() const { return std::vector<uint8_t>(slaveBuf, slaveBuf + slaveLen); }
  void setSlave(const uint8_t* d, size_t n) { slaveLen = (int)std::min<size_t>(n, sizeof slaveBuf); memcpy(slaveBuf, d, slaveLen); }
  bool notify(result_t res, const SlaveSymbolString& sl) override {
    // kind 2 like PollRequest (next part only after success), kind 3 like ScanRequest (next destination also after an error)
    bool restart = (kind == 2 || kind == 3) && restartsLeft > 0 && (res == RESULT_OK || (kind == 3 && res != RESULT_ERR_NO_SIGNAL));  // no real request asks for a restart without signal
    if (restart) restartsLeft--;
    char b[64]; snprintf(b, sizeof b, "[\"ntf\",%d,%d,", idx, (int)res); ev(std::string(b) + jb(sl) + (restart ? ",1," : ",0,") + std::to_string(status) + "]");
    result = res; setSlave(sl.data(), sl.size());
    if (!restart) status = 2;
    return restart;
  }
  ~VReq() override { char b[48]; snprintf(b, sizeof b, "[\"del\",%d,%d]", idx, status); ev(b); status = 3; }
  static void operator delete(void*) {}  // memory stays with the pool; the slot is re-constructed on resubmission
};

// ---------------------------------------------------------------- listener
struct VListener : public ProtocolListener {
  ProtocolHandler* h = nullptr;
  void notifyProtocolStatus(ProtocolState state, result_t result) override;
  void notifyProtocolSeenAddress(symbol_t a) override { char b[32]; snprintf(b, sizeof b, "[\"seen\",%u]", a); ev(b); }
  void notifyProtocolMessage(MessageDirection dir, const MasterSymbolString& m, const SlaveSymbolString& s) override {
    ev("[\"msg\"," + std::to_string((int)dir) + "," + jb(m) + "," + jb(s) + "]");
  }
};

static bool doSubmit(ProtocolHandler* h, int r, const char* how);
void VListener::notifyProtocolStatus(ProtocolState state, result_t result) {
  char b[48]; snprintf(b, sizeof b, "[\"st\",%d,%d]", (int)state, (int)result); ev(b);
  if (state == ps_empty && g_in && C.cbSubmit && !C.reqs.empty()) {
    g_in->usedCb = true;
    if (g_in->cb >= 0) doSubmit(h, g_in->cb, "subcb");
  }
}

// ---------------------------------------------------------------- private access (EBUSD_VERIF friend hook)
struct Snap {
  // handler
  int state, escape, crc, crcValid, repeat, nextSendPos, cur, answering, remainLock, lockCount, genSyn, lstate, masterCount, conflict, age, reconnect;
  std::vector<uint8_t> command, response, seen;
  std::vector<int> nextq, finq;
  // requests
  std::vector<int> rstatus, rretries, rrestarts, rresult; std::vector<std::vector<uint8_t>> rslave;
  // device
  int arbMaster, arbCheck;
  int enhResetAge, enhResetRequested, enhFeatures, enhInfoLen, enhInfoPos; std::vector<uint8_t> enhInfoBuf;
  // transport + env
  std::vector<uint8_t> buf, org; int valid, armed, half;
  Tracker trk;
  std::string key() const;
  std::string json() const;
};

namespace ebusd {
struct VerifAccess {
  static void iter(DirectProtocolHandler* h, Device* dev) {
    bool valid = dev->isValid();
    if (valid && !h->m_reconnect) {
      unsigned int recvTimeout = 0; symbol_t sentSymbol = ESC; struct timespec sentTime;
      result_t result = h->handleSend(&recvTimeout, &sentSymbol, &sentTime);
      bool sent = result == RESULT_CONTINUE;
      do {
        if (result >= RESULT_OK) result = h->handleReceive(recvTimeout, sent, sentSymbol, &sentTime);
        recvTimeout = 0; sent = false;
      } while (result == RESULT_CONTINUE);
    } else {
      if (!valid) h->setState(bs_noSignal, RESULT_ERR_DEVICE);
      h->m_reconnect = false;
      result_t result = dev->open();
      if (result == RESULT_OK) { if (h->m_config.initialSend && !h->m_config.readOnly) dev->send(ESC); }
      else h->setState(bs_noSignal, result);
    }
  }
  static int reqIndex(BusRequest* r) { if (!r) return -1; for (size_t i = 0; i < g_reqs.size(); i++) if ((BusRequest*)g_reqs[i] == r) return (int)i; return -2; }
  static void snap(DirectProtocolHandler* h, BaseDevice* d, FakeTransport* t, Snap* s) {
    s->state = h->m_state; s->escape = h->m_escape; s->crc = h->m_crc; s->crcValid = h->m_crcValid; s->repeat = h->m_repeat;
    s->nextSendPos = (int)h->m_nextSendPos; s->cur = reqIndex(h->m_currentRequest); s->answering = h->m_currentAnswering;
    s->remainLock = h->m_remainLockCount; s->lockCount = h->m_lockCount; s->genSyn = h->m_generateSynInterval;
    s->lstate = h->m_listenerState; s->masterCount = h->m_masterCount; s->conflict = h->m_addressConflict;
    s->age = h->m_lastReceive == 0 ? 2 : ((long)g_sec - h->m_lastReceive > 1 ? 2 : (int)((long)g_sec - h->m_lastReceive));
    s->reconnect = h->m_reconnect;
    s->command.assign(h->m_command.data(), h->m_command.data() + h->m_command.size());
    s->response.assign(h->m_response.data(), h->m_response.data() + h->m_response.size());
    s->seen.clear(); for (int i = 0; i < 256; i++) if (h->m_seenAddresses[i]) s->seen.push_back((uint8_t)i);
    s->nextq.clear(); for (BusRequest* r : h->m_nextRequests.m_queue) s->nextq.push_back(reqIndex(r));
    s->finq.clear(); for (BusRequest* r : h->m_finishedRequests.m_queue) s->finq.push_back(reqIndex(r));
    size_t n = g_reqs.size(); s->rstatus.resize(n); s->rretries.resize(n); s->rrestarts.resize(n); s->rresult.resize(n); s->rslave.resize(n);
    for (size_t i = 0; i < n; i++) { VReq* r = g_reqs[i]; s->rstatus[i] = r->status; s->rretries[i] = r->status == 3 ? 0 : (int)r->m_busLostRetries;
      s->rrestarts[i] = r->restartsLeft; s->rresult[i] = r->result; s->rslave[i] = r->slave(); }
    s->arbMaster = d->m_arbitrationMaster; s->arbCheck = (int)d->m_arbitrationCheck;
    s->enhResetAge = 0; s->enhResetRequested = 0; s->enhFeatures = 0; s->enhInfoLen = 0; s->enhInfoPos = 0; s->enhInfoBuf.clear();
    if (C.enhanced) { EnhancedDevice* e = static_cast<EnhancedDevice*>(d);
      s->enhResetAge = e->m_resetTime == 0 ? 2 : (e->m_resetTime + 3 >= (long)g_sec ? 0 : 1); s->enhResetRequested = e->m_resetRequested; s->enhFeatures = e->m_extraFeatures;
      s->enhInfoLen = (int)e->m_infoLen; s->enhInfoPos = (int)e->m_infoPos;
      if (e->m_infoLen) s->enhInfoBuf.assign(e->m_infoBuf, e->m_infoBuf + std::min<size_t>(e->m_infoPos, sizeof(e->m_infoBuf))); }
    s->buf = t->buf; s->org = t->org; s->valid = t->valid; s->armed = t->armed; s->half = t->half; s->trk = g_trk;
  }
  static void restore(DirectProtocolHandler* h, BaseDevice* d, FakeTransport* t, const Snap& s) {
    g_sec = 200000; g_ms = 5000000;
    h->m_state = (BusState)s.state; h->m_escape = (symbol_t)s.escape; h->m_crc = (symbol_t)s.crc; h->m_crcValid = s.crcValid; h->m_repeat = s.repeat;
    h->m_nextSendPos = (size_t)s.nextSendPos; h->m_currentAnswering = s.answering; h->m_remainLockCount = s.remainLock; h->m_lockCount = s.lockCount;
    h->m_generateSynInterval = s.genSyn; h->m_listenerState = (ProtocolState)s.lstate; h->m_masterCount = s.masterCount; h->m_addressConflict = s.conflict;
    h->m_lastReceive = s.age == 3 ? 0 : (long)g_sec - s.age; h->m_reconnect = s.reconnect;
    h->m_command.clear(); for (uint8_t x : s.command) h->m_command.push_back(x);
    h->m_response.clear(); for (uint8_t x : s.response) h->m_response.push_back(x);
    memset(h->m_seenAddresses, 0, sizeof(h->m_seenAddresses)); for (uint8_t x : s.seen) h->m_seenAddresses[x] = true;
    // requests: re-construct every slot in place (no event logging while doing so)
    std::string saved; saved.swap(g_ev);
    for (size_t i = 0; i < g_reqs.size(); i++) {
      VReq* r = g_reqs[i];
      if (r->status != 3) { r->status = 3; r->~VReq(); }
      new (r) VReq((int)i, C.reqs[i]);
      r->status = s.rstatus[i]; r->m_busLostRetries = s.rretries[i]; r->restartsLeft = s.rrestarts[i]; r->result = s.rresult[i]; r->setSlave(s.rslave[i].data(), s.rslave[i].size());
    }
    g_ev.swap(saved);
    h->m_currentRequest = s.cur >= 0 ? g_reqs[s.cur] : nullptr;
    h->m_nextRequests.m_queue.clear(); for (int i : s.nextq) h->m_nextRequests.m_queue.push_back(g_reqs[i]);
    h->m_finishedRequests.m_queue.clear(); for (int i : s.finq) h->m_finishedRequests.m_queue.push_back(g_reqs[i]);
    d->m_arbitrationMaster = (symbol_t)s.arbMaster; d->m_arbitrationCheck = (size_t)s.arbCheck;
    if (C.enhanced) { EnhancedDevice* e = static_cast<EnhancedDevice*>(d);
      e->m_resetTime = s.enhResetAge == 2 ? 0 : (s.enhResetAge == 0 ? (long)g_sec : (long)g_sec - 10); e->m_resetRequested = s.enhResetRequested; e->m_extraFeatures = (symbol_t)s.enhFeatures;
      e->m_infoLen = (size_t)s.enhInfoLen; e->m_infoPos = (size_t)s.enhInfoPos; for (size_t i = 0; i < s.enhInfoBuf.size(); i++) e->m_infoBuf[i] = s.enhInfoBuf[i];
      e->m_infoReqTime = (long)g_sec; }
    t->buf = s.buf; t->org = s.org; t->valid = s.valid; t->armed = (uint8_t)s.armed; t->half = s.half; t->halfOrg = 0; g_trk = s.trk;
  }
  static int arbCheck(BaseDevice* d) { return (int)d->m_arbitrationCheck; }
  static int arbMaster(BaseDevice* d) { return d->m_arbitrationMaster; }
  static bool pollFinished(ProtocolHandler* h, BusRequest* r) { return h->m_finishedRequests.remove(r, false); }
  static void reconnect(ProtocolHandler* h) { h->reconnect(); }
};
}  // namespace ebusd

static void kv(std::string* k, const std::vector<uint8_t>& v) { k->push_back((char)v.size()); k->append((const char*)v.data(), v.size()); }
static void kvi(std::string* k, const std::vector<int>& v) { k->push_back((char)v.size()); for (int x : v) k->push_back((char)x); }
std::string Snap::key() const {
  std::string k;
  int f[] = {state, escape, crc, crcValid, repeat, nextSendPos, cur, answering, remainLock, lockCount, genSyn, lstate, conflict, age, reconnect,
             arbMaster, arbCheck, enhResetAge, enhResetRequested, enhFeatures, enhInfoLen, enhInfoPos, valid, armed, half};
  for (int x : f) { k.push_back((char)(x & 0xff)); k.push_back((char)((x >> 8) & 0xff)); }
  kv(&k, command); kv(&k, response); kv(&k, buf); kv(&k, org); kv(&k, enhInfoBuf);
  if (C.keySeen) { kv(&k, seen); k.push_back((char)masterCount); }
  kvi(&k, nextq); kvi(&k, finq); kvi(&k, rstatus); kvi(&k, rretries); kvi(&k, rrestarts);
  for (size_t i = 0; i < rstatus.size(); i++) if (rstatus[i] == 2) { k.push_back((char)rresult[i]); kv(&k, rslave[i]); }
  trk.key(&k);
  return k;
}
std::string Snap::json() const {
  char b[700];
  snprintf(b, sizeof b, "{\"state\":%d,\"esc\":%d,\"crc\":%d,\"crcValid\":%d,\"repeat\":%d,\"pos\":%d,\"cur\":%d,\"answering\":%d,\"remainLock\":%d,"
    "\"lockCount\":%d,\"genSyn\":%d,\"lstate\":%d,\"masters\":%d,\"conflict\":%d,\"age\":%d,\"reconnect\":%d,\"arbMaster\":%d,\"arbCheck\":%d,\"valid\":%d,"
    "\"armed\":%d,\"enhResetAge\":%d,\"enhResetRequested\":%d,\"enhFeatures\":%d,\"enhInfoLen\":%d,\"enhInfoPos\":%d,"
    "\"trk\":{\"ph\":%d,\"qq\":%d,\"zz\":%d,\"left\":%d,\"crc\":%d,\"crc0\":%d,\"esc\":%d,\"mrep\":%d,\"srep\":%d,\"crcok\":%d},",
    state, escape, crc, crcValid, repeat, nextSendPos, cur, answering, remainLock, lockCount, genSyn, lstate, masterCount, conflict, age, reconnect,
    arbMaster, arbCheck, valid, armed, enhResetAge, enhResetRequested, enhFeatures, enhInfoLen, enhInfoPos,
    trk.ph, trk.qq, trk.zz, trk.left, trk.crc, trk.crc0, trk.esc, trk.mrep, trk.srep, trk.crcok);
  std::string s = b;
  s += "\"cmd\":" + vf::jbytes(command) + ",\"res\":" + vf::jbytes(response) + ",\"buf\":" + vf::jbytes(buf) + ",\"org\":" + vf::jbytes(org) + ",\"seen\":" + vf::jbytes(seen);
  s += ",\"nextq\":" + vf::jints(nextq) + ",\"finq\":" + vf::jints(finq) + ",\"rstatus\":" + vf::jints(rstatus) + ",\"rretries\":" + vf::jints(rretries);
  s += ",\"rrestarts\":" + vf::jints(rrestarts) + ",\"rresult\":" + vf::jints(rresult) + ",\"rslave\":[";
  for (size_t i = 0; i < rslave.size(); i++) s += (i ? "," : "") + vf::jbytes(rslave[i]);
  return s + "]}";
}

// ---------------------------------------------------------------- the system under test
static FakeTransport* g_t; static BaseDevice* g_d; static DirectProtocolHandler* g_h; static VListener g_l;
int FakeTransport::lateEchoByte() { return (!C.enhanced && g_d && VerifAccess::arbCheck(g_d)) ? VerifAccess::arbMaster(g_d) : -1; }

static void* g_reqMem;

static void construct() {
  g_t = new FakeTransport();
  g_d = C.enhanced ? (BaseDevice*)new EnhancedDevice(g_t) : (BaseDevice*)new PlainDevice(g_t);
  ebus_protocol_config_t cfg; memset(&cfg, 0, sizeof cfg);
  cfg.device = "fake"; cfg.noDeviceCheck = true; cfg.readOnly = C.readOnly; cfg.extraLatency = 0; cfg.ownAddress = C.own; cfg.answer = C.answer;
  cfg.busLostRetries = C.busLostRetries; cfg.failedSendRetries = 0; cfg.busAcquireTimeout = 10; cfg.slaveRecvTimeout = 25;
  cfg.lockCount = C.lockCount; cfg.generateSyn = C.generateSyn; cfg.initialSend = false;
  g_h = new DirectProtocolHandler(cfg, g_d, &g_l);
  g_l.h = g_h;
  for (const AnsDef& a : C.answers) {
    SlaveSymbolString s; for (uint8_t x : a.answer) s.push_back(x);
    bool ok = g_h->setAnswer(a.src, a.dst, a.pb, a.sb, a.id.data(), a.id.size(), s);
    if (!ok) { fprintf(stderr, "setAnswer rejected\n"); exit(2); }
  }
  for (const ReqDef& d : C.reqs) { MasterSymbolString* m = new MasterSymbolString(); for (uint8_t x : d.master) m->push_back(x); g_masters.push_back(m); }
  g_reqMem = calloc(C.reqs.size() + 1, sizeof(VReq));
  std::string saved; saved.swap(g_ev);
  for (size_t i = 0; i < C.reqs.size(); i++) g_reqs.push_back(new ((char*)g_reqMem + i * sizeof(VReq)) VReq((int)i, C.reqs[i]));
  g_ev.swap(saved);
  g_ev.clear();
  g_t->open();   // like ProtocolHandler::open() before start()
  g_ev.clear();
}

static bool doSubmit(ProtocolHandler* h, int r, const char* how) {
  VReq* q = g_reqs[r];
  if (q->status == 3) { std::string saved; saved.swap(g_ev); new (q) VReq(r, C.reqs[r]); g_ev.swap(saved); }
  if (q->status != 0) return false;
  q->status = 1;
  result_t res = h->addRequest(q, false);
  ev(std::string("[\"") + how + "\"," + std::to_string(r) + "," + std::to_string(q->kind) + "," + jb(q->ms) + "," + std::to_string((int)res) + "]");
  if (res != RESULT_OK) q->status = 0;
  return true;
}

// executes one edge described by its input token string; returns false if the token is not applicable in this state
static bool execToken(const std::string& tok, Input* in) {
  g_ev.clear();
  if (tok.compare(0, 4, "SUB=") == 0) {
    int r = atoi(tok.c_str() + 4);
    size_t c = tok.find(':');
    if (c != std::string::npos && (g_reqs[r]->status == 0 || g_reqs[r]->status == 3)) {  // explicit content (replay of a random walk)
      MasterSymbolString* m = g_masters[r]; m->clear();
      for (uint8_t x : parseHexList(tok.c_str() + c + 1)) m->push_back(x);
    }
    return doSubmit(g_h, r, "sub");
  }
  if (tok.compare(0, 5, "POLL=") == 0) {
    int r = atoi(tok.c_str() + 5); VReq* q = g_reqs[r];
    if (q->kind == 1 || (q->status != 1 && q->status != 2)) return false;
    if (VerifAccess::pollFinished(g_h, q)) { ev("[\"fin\"," + std::to_string(r) + "," + std::to_string(q->result) + "," + vf::jbytes(q->slave()) + "]"); q->status = 0; q->result = 0; q->slaveLen = 0; }
    else ev("[\"nofin\"," + std::to_string(r) + "]");
    return true;
  }
  if (tok == "RECONNECT") { VerifAccess::reconnect(g_h); ev("[\"reconnect\"]"); return true; }
  // step with decisions
  *in = Input();
  size_t p = 0;
  while (p < tok.size()) {
    size_t e = tok.find(' ', p); std::string f = tok.substr(p, e == std::string::npos ? e : e - p); p = e == std::string::npos ? tok.size() : e + 1;
    if (f.compare(0, 2, "E=") == 0) in->echo = f.substr(2); else if (f.compare(0, 2, "D=") == 0) in->deliv = f.substr(2);
    else if (f.compare(0, 3, "CB=") == 0) in->cb = atoi(f.c_str() + 3); else if (f == "W=f") in->wfail = true;
    else if (f == "O=f") g_t->openFails = true;
  }
  g_in = in;
  g_t->stepReadOk = false; g_t->stepConsumed = 0;
  VerifAccess::iter(g_h, g_d);
  g_in = nullptr; g_t->openFails = false;
  // plain device: every read that hands out buffered bytes is followed by the consumption of at least one of them
  if (!C.enhanced && g_t->stepReadOk && g_t->stepConsumed == 0 && g_t->valid) ev("[\"unread\"," + std::to_string(g_t->buf.size()) + "]");
  if (C.autoPoll) for (size_t r = 0; r < g_reqs.size(); r++) {
    VReq* q = g_reqs[r];
    if (q->kind != 1 && q->status == 2 && VerifAccess::pollFinished(g_h, q)) {
      ev("[\"fin\"," + std::to_string(r) + "," + std::to_string(q->result) + "," + vf::jbytes(q->slave()) + "]");
      q->status = 0; q->result = 0; q->slaveLen = 0;
    }
  }
  return true;
}

// ---------------------------------------------------------------- environment alphabets (bound the search only)
static void addU(std::vector<std::string>* o, const std::string& s) { if (std::find(o->begin(), o->end(), s) == o->end()) o->push_back(s); }
static std::string h2(uint8_t x) { char b[4]; snprintf(b, 4, "%02x", x); return b; }

static bool g_choiceArmed = false;
static void delivChoices(const Tracker& t, std::vector<std::string>* o, int lateEcho = -1) {
  o->clear();
  o->push_back("to");
  if (C.enhanced && C.enhErr && g_choiceArmed) o->push_back("EB");
  if (lateEcho >= 0 && C.lateEcho) o->push_back(h2((uint8_t)lateEcho));
  bool idle = t.ph == P_DEAD || t.ph == P_QQ || t.ph == P_DONE;
  if (C.longTo && (idle || C.longToAnywhere)) o->push_back("tl");
  if (C.readErr) o->push_back("er");
  if (t.esc) { addU(o, "00"); addU(o, "01"); addU(o, h2(C.junk[0])); addU(o, "aa"); return; }
  switch (t.ph) {
    case P_DEAD: case P_DONE: addU(o, "aa"); for (uint8_t j : C.junk) addU(o, h2(j)); break;
    case P_QQ: addU(o, "aa"); for (uint8_t q : C.qqs) addU(o, h2(q)); if (C.escQQ) addU(o, "a9"); break;
    case P_ZZ: for (uint8_t z : C.zzs) addU(o, h2(z)); addU(o, "aa"); break;
    case P_PB: for (uint8_t z : C.pbs) addU(o, h2(z)); addU(o, "aa"); break;
    case P_SB: for (uint8_t z : C.sbs) addU(o, h2(z)); addU(o, "aa"); break;
    case P_NN: for (int n = 0; n <= C.nnMax; n++) addU(o, h2((uint8_t)n)); addU(o, "aa"); break;
    case P_SNN: for (int n = 0; n <= C.snnMax; n++) addU(o, h2((uint8_t)n)); addU(o, "aa"); break;
    case P_DATA: case P_SDATA: for (uint8_t z : C.datas) addU(o, h2(z)); addU(o, "aa"); break;
    case P_CRC: case P_SCRC: {
      uint8_t good = t.crc, bad = (uint8_t)(good ^ 0x10);
      if (bad == ESC || bad == SYN) bad ^= 0x01;
      addU(o, h2((good == ESC || good == SYN) ? (uint8_t)ESC : good)); addU(o, h2(bad)); addU(o, "aa"); break; }
    case P_ACK: case P_SACK: addU(o, "00"); addU(o, "ff"); addU(o, h2(C.junk[0])); addU(o, "aa"); break;
  }
}
// deliveries of two symbols in one read chunk (RESULT_CONTINUE path, "SYN with more data buffered", arbitration with len > 1)
static void delivChoices2(const Tracker& t, std::vector<std::string>* o, int lateEcho) {
  delivChoices(t, o, lateEcho);
  if (!C.chunk2) return;
  std::vector<std::string> first(*o);
  for (const std::string& x : first) {
    if (x == "to" || x == "tl" || x == "er" || x == "EB") continue;
    Tracker t2 = t; t2.advance((uint8_t)strtoul(x.c_str(), nullptr, 16));
    std::vector<std::string> second; delivChoices(t2, &second, -1);
    for (const std::string& y : second) if (y != "to" && y != "tl" && y != "er") {
      o->push_back(x + y);
      if (C.enhanced && C.enhSplit) o->push_back(x + y + "~");   // the chunk ends inside the frame of y
    }
  }
  if (C.enhanced && C.enhSplit) for (const std::string& x : first) if (x != "to" && x != "tl" && x != "er" && x != "EB") o->push_back(x + "~");
}
// enhanced: every symbol delivery also with a trailing non-symbol frame in the same chunk
static void delivChoicesCtl(std::vector<std::string>* o) {
  if (!C.enhanced || !C.enhCtl) return;
  std::vector<std::string> first(*o);
  for (const std::string& x : first) if (x != "to" && x != "tl" && x != "er" && x != "EB" && x[x.size() - 1] != '~') o->push_back(x + "!");
}
static void echoChoices(const Tracker& t, uint8_t w, std::vector<std::string>* o) {
  o->clear(); o->push_back("s");
  if (t.ph == P_QQ && !t.mrep && isMaster(w)) {  // arbitration position: collisions
    for (uint8_t x : C.winners) if (x != w) addU(o, "x" + h2(x));
    if (C.arbNone) o->push_back("n");
  } else if (C.echoFaults) {
    uint8_t c = (uint8_t)(w ^ 0x04); if (c == SYN || c == ESC) c = (uint8_t)(w ^ 0x40);
    addU(o, "x" + h2(c)); o->push_back("n");
  }
}
static bool canSubmit(int r) {
  VReq* q = g_reqs[r];
  if (q->status != 0 && q->status != 3) return false;
  if (C.submitWhen == 0) return false;
  if (C.submitWhen == 1) { Snap s; VerifAccess::snap(g_h, g_d, g_t, &s); return s.state == bs_noSignal || s.state == bs_skip || s.state == bs_ready; }
  return true;
}

// ---------------------------------------------------------------- graph extraction
struct Edge { std::string in, ev; long to; };

static int cmdGraph(const char* outPath) {
  vf::Out out(outPath);
  std::unordered_map<std::string, long> ids;
  std::deque<Snap> frontier;
  Snap s0; VerifAccess::snap(g_h, g_d, g_t, &s0);
  ids[s0.key()] = 1; frontier.push_back(s0);
  long nextId = 2, expanded = 0, nedges = 0;
  bool full = getenv("VF_FULLSTATE") != nullptr;
  while (!frontier.empty()) {
    Snap cur = frontier.front(); frontier.pop_front();
    expanded++;
    std::vector<Edge> edges;
    auto finish = [&](const std::string& label) {
      Snap post; VerifAccess::snap(g_h, g_d, g_t, &post);
      std::string k = post.key();
      auto it = ids.find(k);
      long to;
      if (it == ids.end()) { to = nextId++; ids.emplace(k, to); frontier.push_back(post); } else to = it->second;
      edges.push_back(Edge{label, g_ev, to});
    };
    // client-side edges
    std::vector<std::string> toks;
    VerifAccess::restore(g_h, g_d, g_t, cur);
    for (size_t r = 0; r < g_reqs.size(); r++) {
      if (canSubmit((int)r)) toks.push_back("SUB=" + std::to_string(r));
      if (g_reqs[r]->kind != 1 && (g_reqs[r]->status == 2)) toks.push_back("POLL=" + std::to_string(r));
    }
    if (C.reconnect && !cur.reconnect) toks.push_back("RECONNECT");
    for (const std::string& tk : toks) {
      VerifAccess::restore(g_h, g_d, g_t, cur);
      Input in;
      if (execToken(tk, &in)) finish(tk);
    }
    // step edges: lazily enumerate the decisions that were actually consulted
    std::vector<std::string> work{""}; std::vector<std::string> seenTok{""}; std::vector<std::string> doneLabels;
    while (!work.empty()) {
      std::string tk = work.back(); work.pop_back();
      VerifAccess::restore(g_h, g_d, g_t, cur);
      Input in;
      execToken(tk, &in);
      std::string label = in.str();
      if (!cur.valid && C.openFail && tk.find("O=f") != std::string::npos) label = label.empty() ? "O=f" : label + " O=f";
      if (std::find(doneLabels.begin(), doneLabels.end(), label) != doneLabels.end()) continue;
      doneLabels.push_back(label);
      finish(label);
      // alternatives per consulted dimension
      std::vector<std::string> alts;
      auto compose = [&](const std::string& e, const std::string& d, int cb, bool w, bool of) {
        std::string t;
        if (w) t += "W=f ";
        if (!e.empty()) t += "E=" + e + " ";
        if (!d.empty()) t += "D=" + d + " ";
        if (cb >= 0) t += "CB=" + std::to_string(cb) + " ";
        if (of) t += "O=f ";
        if (!t.empty()) t.pop_back();
        return t;
      };
      bool of = tk.find("O=f") != std::string::npos;
      std::string e0 = in.usedEcho ? in.echo : "", d0 = in.usedDeliv ? in.deliv : "";
      int cb0 = in.usedCb ? in.cb : -1; bool w0 = in.usedW && in.wfail;
      if (in.usedEcho) { std::vector<std::string> c; echoChoices(in.echoT, in.echoW[0], &c); for (auto& x : c) alts.push_back(compose(x, d0, cb0, w0, of)); }
      if (in.usedDeliv) { std::vector<std::string> c; g_choiceArmed = in.enhArmed; delivChoices2(in.delivT, &c, in.lateEcho); delivChoicesCtl(&c); g_choiceArmed = false; for (auto& x : c) alts.push_back(compose(e0, x, cb0, w0, of)); }
      if (in.usedCb) { VerifAccess::restore(g_h, g_d, g_t, cur); for (size_t r = 0; r < g_reqs.size(); r++) if (g_reqs[r]->status == 0 || g_reqs[r]->status == 3) alts.push_back(compose(e0, d0, (int)r, w0, of)); }
      if (in.usedW && !w0) alts.push_back(compose(e0, d0, cb0, true, of));
      if (!cur.valid && C.openFail && !of) alts.push_back(compose(e0, d0, cb0, w0, true));
      for (auto& a : alts) if (std::find(seenTok.begin(), seenTok.end(), a) == seenTok.end()) { seenTok.push_back(a); work.push_back(a); }
    }
    // write node
    std::string line = "{\"id\":" + std::to_string(expanded);
    if (full) line += ",\"st\":" + cur.json();
    line += ",\"succ\":[";
    for (size_t i = 0; i < edges.size(); i++) {
      if (i) line += ",";
      line += "{\"in\":\"" + edges[i].in + "\",\"ev\":[" + edges[i].ev + "],\"to\":" + std::to_string(edges[i].to) + "}";
    }
    line += "]}\n";
    out.raw(line); nedges += (long)edges.size();
    if (nextId > C.maxNodes) {  // no fix-point within the budget: the partial graph (real paths only) is still written
      for (long k = expanded + 1; k < nextId; k++) out.raw("{\"id\":" + std::to_string(k) + ",\"succ\":[]}\n");
      printf("{\"nodes\":%ld,\"edges\":%ld,\"fixpoint\":false}\n", nextId - 1, nedges); return 0;
    }
  }
  printf("{\"nodes\":%ld,\"edges\":%ld,\"fixpoint\":true}\n", expanded, nedges);
  return 0;
}

// ---------------------------------------------------------------- replay of a token sequence (linear trace as a path graph)
static int cmdReplay(const char* inPath, const char* outPath) {
  FILE* f = fopen(inPath, "r"); if (!f) { perror(inPath); return 2; }
  vf::Out out(outPath);
  char line[4096]; long id = 1;
  while (fgets(line, sizeof line, f)) {
    std::string tk = line; while (!tk.empty() && (tk.back() == '\n' || tk.back() == '\r')) tk.pop_back();
    Input in; execToken(tk, &in);
    out.raw("{\"id\":" + std::to_string(id) + ",\"succ\":[{\"in\":\"" + tk + "\",\"ev\":[" + g_ev + "],\"to\":" + std::to_string(id + 1) + "}]}\n");
    id++;
  }
  out.raw("{\"id\":" + std::to_string(id) + ",\"succ\":[]}\n");
  fclose(f);
  printf("{\"nodes\":%ld,\"edges\":%ld}\n", id, id - 1);
  return 0;
}

// ---------------------------------------------------------------- random walk over the full byte domain
static const uint8_t MASTERS[25] = {0x00,0x10,0x30,0x70,0xF0,0x01,0x11,0x31,0x71,0xF1,0x03,0x13,0x33,0x73,0xF3,0x07,0x17,0x37,0x77,0xF7,0x0F,0x1F,0x3F,0x7F,0xFF};
static std::string randomDeliv(const Tracker& t) {
  vf::Rng& r = *g_rng;
  unsigned x = r.below(1000);
  if (x < 12) return "to";
  if (x < 15) return "tl";
  if (x < 17 && C.readErr) return "er";
  if (x < 40) return "aa";                                  // truncation by SYN at any position
  auto any = [&]() { return h2((uint8_t)r.below(256)); };
  if (t.esc) { unsigned y = r.below(20); return y < 9 ? "00" : y < 18 ? "01" : any(); }
  switch (t.ph) {
    case P_DEAD: case P_DONE: return r.chance(4, 5) ? "aa" : any();
    case P_QQ: { unsigned y = r.below(20); return y < 3 ? "aa" : y < 18 ? h2(MASTERS[r.below(25)]) : any(); }
    case P_ZZ: { unsigned y = r.below(20); return y < 4 ? "fe" : y < 8 ? h2(MASTERS[r.below(25)]) : y < 10 ? h2(C.own) : y < 12 ? h2((uint8_t)(C.own + 5)) : y < 13 ? h2(t.qq) : any(); }
    case P_PB: case P_SB: return r.chance(1, 2) ? (t.ph == P_PB ? h2(C.pbs[0]) : h2(C.sbs[0])) : any();
    case P_SNN: if (g_runMode) return "01";  // run mode: the scripted slave answers <<1, ZZ xor 5a>>
      // fall through
    case P_NN: { unsigned y = r.below(20); return y < 8 ? h2((uint8_t)r.below(3)) : y < 18 ? h2((uint8_t)r.below(17)) : y < 19 ? "11" : any(); }
    case P_SDATA: if (g_runMode) return h2((uint8_t)(t.zz ^ 0x5a));
      // fall through
    case P_DATA: { unsigned y = r.below(20); return y < 3 ? "a9" : any(); }
    case P_CRC: case P_SCRC: { uint8_t good = t.crc; if (r.chance(1, 8)) return any(); return (good == ESC || good == SYN) ? "a9" : h2(good); }
    case P_ACK: case P_SACK: { unsigned y = r.below(20); return y < 14 ? "00" : y < 18 ? "ff" : any(); }
  }
  return "aa";
}
static std::string randomEcho(const Tracker& t, uint8_t w) {
  vf::Rng& r = *g_rng;
  if (t.ph == P_QQ && !t.mrep && isMaster(w)) {
    unsigned y = r.below(10); uint8_t o = MASTERS[r.below(25)];
    if (o == w) o = MASTERS[(r.below(24) + 1 + (unsigned)(std::find(MASTERS, MASTERS + 25, w) - MASTERS)) % 25];  // a different master wins
    return y < 6 ? "s" : y < 9 ? "x" + h2(o) : "n";
  }
  unsigned y = r.below(100); return y < 96 ? "s" : y < 98 ? "x" + h2((uint8_t)r.below(256)) : "n";
}
static int cmdRandom(const char* outPath, long steps) {
  vf::Out out(outPath);
  vf::Rng rng(vf::seedFromEnv());
  long id = 1;
  for (long k = 0; k < steps; k++) {
    std::string tk;
    Input in;
    unsigned x = rng.below(100);
    bool done = false;
    if (x < 12 && !g_reqs.empty()) {   // client submits a request with fresh random content
      int r = (int)rng.below((unsigned)g_reqs.size());
      VReq* q = g_reqs[r];
      if (q->status == 0 || q->status == 3) {
        MasterSymbolString* m = g_masters[r]; m->clear();
        unsigned y = rng.below(10); unsigned nn = rng.chance(1, 4) ? rng.below(17) : rng.below(4);
        m->push_back(C.own); m->push_back(y < 3 ? 0xFE : y < 5 ? MASTERS[rng.below(25)] : (uint8_t)(rng.chance(1, 2) ? 0x15 : rng.below(256)));
        if ((*m)[1] == SYN || (*m)[1] == ESC || (*m)[1] == C.own) (*m)[1] = 0x08;
        m->push_back(C.pbs[0]); m->push_back(C.sbs[0]); m->push_back((uint8_t)nn);
        for (unsigned i = 0; i < nn; i++) m->push_back(rng.chance(1, 5) ? (rng.chance(1, 2) ? 0xA9 : 0xAA) : (uint8_t)rng.below(256));
        tk = "SUB=" + std::to_string(r) + ":" + hexs(std::vector<uint8_t>(m->data(), m->data() + m->size())); done = execToken(tk, &in);
      }
    }
    if (!done) { g_rng = &rng; tk = ""; execToken(tk, &in); g_rng = nullptr; tk = in.str(); }
    out.raw("{\"id\":" + std::to_string(id) + ",\"succ\":[{\"in\":\"" + tk + "\",\"ev\":[" + g_ev + "],\"to\":" + std::to_string(id + 1) + "}]}\n");
    id++;
  }
  out.raw("{\"id\":" + std::to_string(id) + ",\"succ\":[]}\n");
  printf("{\"nodes\":%ld,\"edges\":%ld,\"fixpoint\":true,\"random\":true}\n", id, id - 1);
  return 0;
}

// ---------------------------------------------------------------- run mode: the real run() thread against client threads
// fire-and-forget requests of run mode: self-deleting, constructed in a per-client slot; "deleting" poisons the BusRequest part so
// that a later write by another thread (a touch after completion) is seen when the client inspects the slot
struct FReq : public BusRequest {
  int idx; std::atomic<int>* deleted; MasterSymbolString* ms;
  FReq(int i, MasterSymbolString* m, std::atomic<int>* d) : BusRequest(*m, true), idx(i), deleted(d), ms(m) {}
  bool notify(result_t res, const SlaveSymbolString& sl) override {
    char b[64]; snprintf(b, sizeof b, "[\"ntf\",%d,%d,", idx, (int)res); ev(std::string(b) + jb(sl) + ",0,1]");
    return false;
  }
  ~FReq() override { char b[48]; snprintf(b, sizeof b, "[\"del\",%d,2]", idx); ev(b); }
  static void operator delete(void* p) {
    FReq* q = (FReq*)p; std::atomic<int>* d = q->deleted;
    memset(p, 0xDD, sizeof(BusRequest));   // the slot stays allocated: nothing may write into it any more
    d->store(1);
  }
  static void* operator new(size_t, void* slot) { return slot; }
};
static thread_local bool t_isClient = false;
// hook called by Queue::push in the pushing thread (guarded in /repo by EBUSD_VERIF): a client that handed a request over is held
// until the bus thread made some progress - the schedule "descheduled right after the hand-over" that sampling practically never hits
extern "C" void ebusd_verif_after_push(void*) {
  if (!g_runMode || !t_isClient) return;
  long r0 = g_reads.load();
  for (int k = 0; k < 200000 && g_reads.load() - r0 < 48; k++) sched_yield();
}
struct Client { int id; int ops; pthread_t th; std::atomic<long> startReads; std::atomic<int> busy; std::atomic<int> done; };
static std::vector<Client*> g_clients;
static std::atomic<int> g_abortRun(0);
static const char* g_runOut = nullptr;
static void writeRunTrace(const char* outPath);
static void crashHandler(int sig) {
  // the real code crashed while real threads were running: keep what was observed and name it (never happens on a tree
  // that satisfies C04; a use of a request after its completion typically ends here)
  static std::atomic<int> once(0);
  if (once.exchange(1)) _exit(0);
  pthread_mutex_trylock(&g_evMutex); pthread_mutex_unlock(&g_evMutex);
  char b[96]; snprintf(b, sizeof b, "[\"bad\",\"crash-in-real-code-during-run\",%d]", sig);
  g_runEvents.push_back(b);
  writeRunTrace(g_runOut); fflush(nullptr); _exit(0);
}
static void* clientMain(void* arg) {
  Client* c = (Client*)arg;
  t_isClient = true;
  vf::Rng rng(vf::seedFromEnv() * 1000 + c->id);
  static MasterSymbolString fmaster[16];
  alignas(16) static unsigned char fslot[16][sizeof(FReq) + 64];
  static std::atomic<int> fdeleted[16];
  for (int k = 0; k < c->ops && !g_abortRun; k++) {
    bool fireAndForget = rng.chance(1, 4);
    bool useSendAndWait = rng.chance(1, 2);
    c->startReads = g_reads.load(); c->busy = 1;
    if (fireAndForget && c->id < 16) {
      // a self-deleting broadcast request handed over with addRequest(request, false); the client then only watches the slot
      int fi = (int)g_clients.size() + c->id;
      MasterSymbolString* m = &fmaster[c->id]; m->clear();
      m->push_back(C.own); m->push_back(0xFE); m->push_back(C.pbs[0]); m->push_back(C.sbs[0]); m->push_back(1); m->push_back((uint8_t)(0x40 | (k & 0x3f)));
      fdeleted[c->id] = 0;
      FReq* fq = new (fslot[c->id]) FReq(fi, m, &fdeleted[c->id]);
      ev("[\"sub\"," + std::to_string(fi) + ",1," + jb(*m) + ",0]");
      result_t res = g_h->addRequest(fq, false);
      if (res != RESULT_OK) { ev("[\"bad\",\"fire-and-forget-request-refused\"," + std::to_string((int)res) + "]"); g_abortRun = 1; return nullptr; }
      while (!fdeleted[c->id].load() && !g_abortRun) sched_yield();   // the watchdog ends the run if it is never deleted
      if (g_abortRun) return nullptr;
      for (int y = 0; y < 64; y++) sched_yield();
      bool intact = true;
      for (size_t b = 0; b < sizeof(BusRequest); b++) if (fslot[c->id][b] != 0xDD) intact = false;
      if (!intact) { ev("[\"bad\",\"request-touched-after-deletion\"," + std::to_string(fi) + "]"); g_abortRun = 1; return nullptr; }
    } else if (useSendAndWait) {
      MasterSymbolString m; m.push_back(C.own); m.push_back((uint8_t)(0x50 + c->id)); m.push_back(C.pbs[0]); m.push_back(C.sbs[0]); m.push_back(1); m.push_back((uint8_t)k);
      SlaveSymbolString sl;
      ev("[\"sawstart\"," + std::to_string(c->id) + "," + jb(m) + "]");
      result_t res = g_h->sendAndWait(m, &sl);
      ev("[\"sawend\"," + std::to_string(c->id) + "," + std::to_string((int)res) + "," + jb(sl) + "]");
    } else {
      VReq* q = g_reqs[c->id];
      MasterSymbolString* m = g_masters[c->id]; m->clear();
      m->push_back(C.own); m->push_back((uint8_t)(0x50 + c->id)); m->push_back(C.pbs[0]); m->push_back(C.sbs[0]); m->push_back(1); m->push_back((uint8_t)(0x80 | k));
      q->status = 1; q->result = 0; q->slaveLen = 0;
      ev("[\"sub\"," + std::to_string(c->id) + ",0," + jb(*m) + ",0]");
      result_t res = g_h->addRequest(q, true);   // waits on the finished queue like a real client
      if (res != RESULT_OK || q->status != 2) {
        // released although the request was not completed: log it and end the run at once (the request object is still
        // owned by the bus thread; continuing would only make the harness crash)
        ev("[\"bad\",\"waiter-released-without-completion\"," + std::to_string(c->id) + "," + std::to_string((int)res) + "]");
        g_abortRun = 1;
        return nullptr;
      }
      ev("[\"fin\"," + std::to_string(c->id) + "," + std::to_string(q->result) + "," + vf::jbytes(q->slave()) + "]");
      q->status = 0;
    }
    c->busy = 0;
    for (unsigned y = rng.below(3); y > 0; y--) sched_yield();
  }
  c->done = 1;
  return nullptr;
}
static std::atomic<int> g_writing(0);
static void writeRunTrace(const char* outPath) {
  if (g_writing.exchange(1)) for (;;) pause();  // somebody else (crash handler / abort path) is already writing: let it finish and exit
  vf::Out out(outPath);
  long id = 1; size_t i = 0;
  pthread_mutex_trylock(&g_evMutex);
  std::vector<std::string> evs0(g_runEvents);  // a copy: other threads may still be appending
  pthread_mutex_unlock(&g_evMutex);
  while (i < evs0.size()) {
    std::string evs;
    for (int k = 0; k < 25 && i < evs0.size(); k++, i++) { if (!evs.empty()) evs += ","; evs += evs0[i]; }
    out.raw("{\"id\":" + std::to_string(id) + ",\"succ\":[{\"in\":\"run\",\"ev\":[" + evs + "],\"to\":" + std::to_string(id + 1) + "}]}\n");
    id++;
  }
  out.raw("{\"id\":" + std::to_string(id) + ",\"succ\":[]}\n");
  printf("{\"nodes\":%ld,\"edges\":%ld,\"fixpoint\":true,\"run\":true,\"events\":%zu,\"reads\":%ld}\n", id, id - 1, evs0.size(), g_reads.load());
}
static int cmdRun(const char* outPath, int nclients, int ops) {
  static Input runIn; static vf::Rng rng(vf::seedFromEnv());
  g_runMode = true; g_in = &runIn; g_rng = &rng; g_runOut = outPath;
  signal(SIGSEGV, crashHandler); signal(SIGABRT, crashHandler); signal(SIGBUS, crashHandler);
  for (int c = 0; c < nclients; c++) { Client* cl = new Client(); cl->id = c; cl->ops = ops; cl->busy = 0; cl->startReads = 0; cl->done = 0; g_clients.push_back(cl); }
  g_h->start("bus");
  for (Client* cl : g_clients) pthread_create(&cl->th, nullptr, clientMain, cl);
  // progress watchdog: counts bus reads, no wall clock in the criterion
  bool stuck = false;
  for (;;) {
    bool any = false;
    for (Client* cl : g_clients) {
      if (cl->busy) { any = true; if (g_reads.load() - cl->startReads.load() > 100000000L) { stuck = true; ev("[\"bad\",\"waiter-never-released\"," + std::to_string(cl->id) + "]"); } }
    }
    bool allDone = true;
    for (Client* cl : g_clients) if (!cl->done) allDone = false;
    if (stuck || g_abortRun) { writeRunTrace(outPath); fflush(nullptr); _exit(0); }
    if (allDone) break;
    (void)any; usleep(1000);
  }
  for (Client* cl : g_clients) pthread_join(cl->th, nullptr);
  g_h->stop(); g_h->join();
  writeRunTrace(outPath);
  return 0;
}

static int ops_from_env() { const char* e = getenv("VF_RUN_OPS"); return e ? atoi(e) : 50; }
int main(int argc, char** argv) {
  vf::installTerminate();
  setFacilitiesLogLevel(0xffff, ll_none);
  if (argc < 3) { fprintf(stderr, "usage: proto graph out.ndjson key=value... | replay out.ndjson tokens.txt key=value... | random out.ndjson steps key=value...\n"); return 2; }
  std::string mode = argv[1];
  int first = mode == "graph" ? 3 : 4;
  for (int i = first; i < argc; i++) parseArg(argv[i]);
  construct();
  if (mode == "graph") return cmdGraph(argv[2]);
  if (mode == "replay") return cmdReplay(argv[3], argv[2]);
  if (mode == "random") return cmdRandom(argv[2], atol(argv[3]));
  if (mode == "run") { int nc = atoi(argv[3]); return cmdRun(argv[2], nc, ops_from_env()); }
  return 2;
}
