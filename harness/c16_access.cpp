// C16: access levels on the read / write / poll / hex / HTTP paths and in data sinks.
//
// Two record families are written for TLC to judge (spec/Access.tla, spec/C16Judge.tla):
//   cl    Message::checkLevel on ALL level lists over {a,b,;,*} up to a length bound x all levels over {a,b} of length <= 3
//   ses   an in-process daemon (real MessageMap, UserList read from a generated ACL file, BusHandler, MainLoop running its
//         real run() thread, DirectProtocolHandler + PlainDevice on a fake Transport with an auto-responding slave) replays
//         the (world, session) cases that TLC generated from spec/C16Gen; per command it logs the response class, which
//         message values were disclosed, which telegrams were put on the bus and the poll priorities afterwards.
//   sk    a DataSink test subclass per world and configured sink user: notifyUpdate / find / findAll with its levels.
// No ebusd code lives here: the fake transport, the scripted slave and the client side are test scaffolding only.
#include "vf.h"
#include <map>
#include <deque>
#include <sstream>
#include <fstream>
#include <algorithm>
#include "ebusd/main.h"
#include "ebusd/mainloop.h"
#include "ebusd/bushandler.h"
#include "ebusd/scan.h"
#include "ebusd/request.h"
#include "ebusd/datahandler.h"
#include "lib/ebus/protocol_direct.h"
#include "lib/ebus/device_trans.h"
#include "lib/ebus/transport.h"
#include "lib/ebus/message.h"
#include "lib/utils/log.h"

using namespace ebusd;
using std::string;
using std::vector;

// ---------------------------------------------------------------------------------------------------------------------
// virtual wall clock for time(): stands still unless the harness advances it (cache ages become controlled inputs; the
// periodic tasks of MainLoop::run never fire).  clockGettime stays real: it is only used for condition-variable waits.
static volatile time_t g_now = 1700000000;
extern "C" time_t time(time_t* t) { time_t n = g_now; if (t) *t = n; return n; }

// ---------------------------------------------------------------------------------------------------------------------
// minimal JSON reader for the case files written by TLC (objects, arrays, ints, strings)
struct JV {
  enum T { NUL, INT, STR, ARR, OBJ } t = NUL;
  long i = 0; string s; vector<JV> a; std::map<string, JV> o;
  const JV& operator[](const char* k) const { static JV nul; auto it = o.find(k); return it == o.end() ? nul : it->second; }
  const JV& operator[](size_t k) const { return a[k]; }
  size_t size() const { return a.size(); }
};
struct JP {
  const char* p;
  void ws() { while (*p == ' ' || *p == '\t' || *p == '\n' || *p == '\r') p++; }
  JV val() {
    ws(); JV v;
    if (*p == '{') { p++; v.t = JV::OBJ; ws(); if (*p == '}') { p++; return v; }
      while (true) { ws(); JV k = val(); ws(); if (*p != ':') fail(); p++; v.o[k.s] = val(); ws(); if (*p == ',') { p++; continue; } if (*p == '}') { p++; break; } fail(); }
    } else if (*p == '[') { p++; v.t = JV::ARR; ws(); if (*p == ']') { p++; return v; }
      while (true) { v.a.push_back(val()); ws(); if (*p == ',') { p++; continue; } if (*p == ']') { p++; break; } fail(); }
    } else if (*p == '"') { p++; v.t = JV::STR; while (*p != '"') { if (*p == '\\') p++; if (!*p) fail(); v.s.push_back(*p++); } p++;
    } else if (*p == '-' || (*p >= '0' && *p <= '9')) { v.t = JV::INT; char* e; v.i = strtol(p, &e, 10); p = e;
    } else if (!strncmp(p, "true", 4)) { v.t = JV::INT; v.i = 1; p += 4;
    } else if (!strncmp(p, "false", 5)) { v.t = JV::INT; v.i = 0; p += 5;
    } else if (!strncmp(p, "null", 4)) { p += 4;
    } else fail();
    return v;
  }
  void fail() { fprintf(stderr, "HARNESS: bad json near: %.40s\n", p); exit(2); }
};
static vector<JV> readNdjson(const char* path) {
  std::ifstream f(path); if (!f) { perror(path); exit(2); }
  vector<JV> r; string line;
  while (std::getline(f, line)) { if (line.empty()) continue; JP p{line.c_str()}; r.push_back(p.val()); }
  return r;
}
static string codes(const JV& v) { string s; for (auto& c : v.a) s.push_back(static_cast<char>(c.i)); return s; }

// ---------------------------------------------------------------------------------------------------------------------
// the fake transport: an idle bus (SYN whenever nothing else is pending), echo of everything written, and a scripted
// slave at any slave address that ACKs a complete master telegram and answers with the data configured for its id.
struct Telegram { vector<uint8_t> bytes; };  // unescaped QQ ZZ PB SB NN DD.. (without CRC)
class FakeTransport : public Transport {
 public:
  FakeTransport() : Transport("fake", 0), m_open(false), m_phase(0) {}
  string getTransportInfo() const override { return "fake"; }
  result_t open() override { m_open = true; return m_listener ? m_listener->notifyTransportStatus(true) : RESULT_OK; }
  void close() override { m_open = false; }
  bool isValid() override { return m_open; }
  result_t write(const uint8_t* data, size_t len) override {
    for (size_t i = 0; i < len; i++) onWrite(data[i]);
    return RESULT_OK;
  }
  result_t read(unsigned int timeout, const uint8_t** data, size_t* len) override {
    if (m_rx.empty()) { m_rx.push_back(SYN); m_cur.clear(); m_phase = 0; m_idleSyn++; }
    m_buf.assign(m_rx.begin(), m_rx.end());
    *data = m_buf.data(); *len = m_buf.size();
    return RESULT_OK;
  }
  void readConsumed(size_t len) override { while (len-- && !m_rx.empty()) m_rx.pop_front(); }
  result_t openInternal() override { return RESULT_OK; }

  // answer data (DD.. of the slave part) by master "PB SB ID.." key
  // traffic of other participants that ebusd only listens to (already escaped wire bytes)
  void feed(const vector<uint8_t>& wire) { for (uint8_t b : wire) m_rx.push_back(b); }
  bool pending() const { return !m_rx.empty(); }
  std::map<vector<uint8_t>, vector<uint8_t>> m_answers;
  vector<vector<uint8_t>> m_written;   // every complete master telegram seen (unescaped, without CRC)
  size_t m_writtenBytes = 0;           // every byte ebusd asked the transport to write
  size_t m_idleSyn = 0;

 private:
  static void esc(std::deque<uint8_t>* q, uint8_t b) {
    if (b == ESC) { q->push_back(ESC); q->push_back(0x00); } else if (b == SYN) { q->push_back(ESC); q->push_back(0x01); } else q->push_back(b);
  }
  void onWrite(uint8_t b) {
    m_writtenBytes++;
    m_rx.push_back(b);  // echo
    if (b == SYN) { m_cur.clear(); m_phase = 0; return; }
    if (m_phase != 0) return;  // ACK of ebusd after the slave answer
    m_cur.push_back(b);
    // unescape what was written so far
    vector<uint8_t> u; bool pend = false;
    for (uint8_t c : m_cur) { if (pend) { u.push_back(c == 0 ? ESC : SYN); pend = false; } else if (c == ESC) pend = true; else u.push_back(c); }
    if (pend || u.size() < 6 || u.size() != 5u + u[4] + 1u) return;
    // complete master telegram incl. CRC
    MasterSymbolString m; for (size_t i = 0; i + 1 < u.size(); i++) m.push_back(u[i]);
    bool crcOk = m.calcCrc() == u.back();
    m_written.push_back(vector<uint8_t>(u.begin(), u.end() - 1));
    m_phase = 1;
    uint8_t zz = u[1];
    if (zz == BROADCAST) return;
    m_rx.push_back(crcOk ? ACK : NAK);
    if (!crcOk) { m_phase = 0; m_cur.clear(); return; }
    if (isMaster(zz)) return;
    vector<uint8_t> key(u.begin() + 2, u.begin() + 4);
    vector<uint8_t> dd;
    for (size_t n = u[4]; ; n--) {  // longest id prefix wins
      vector<uint8_t> k = key; k.insert(k.end(), u.begin() + 5, u.begin() + 5 + n);
      auto it = m_answers.find(k);
      if (it != m_answers.end()) { dd = it->second; break; }
      if (n == 0) break;
    }
    SlaveSymbolString s; s.push_back(static_cast<symbol_t>(dd.size())); for (uint8_t d : dd) s.push_back(d);
    for (size_t i = 0; i < s.size(); i++) esc(&m_rx, s[i]);
    esc(&m_rx, s.calcCrc());
  }
  bool m_open;
  int m_phase;
  std::deque<uint8_t> m_rx;
  vector<uint8_t> m_buf, m_cur;
};

// ---------------------------------------------------------------------------------------------------------------------
namespace ebusd {
struct VerifAccess {
  static result_t send(DirectProtocolHandler* h, unsigned int* to, symbol_t* sym, struct timespec* t) { return h->handleSend(to, sym, t); }
  static result_t recv(DirectProtocolHandler* h, unsigned int to, bool sending, symbol_t sym, struct timespec* t) { return h->handleReceive(to, sending, sym, t); }
  static bool ready(DirectProtocolHandler* h) { return h->m_state == bs_ready; }
  static bool finished(ProtocolHandler* h, BusRequest* r) { return h->m_finishedRequests.remove(r, false); }
  static UserList* users(MainLoop* m) { return &m->m_userList; }
};
}  // namespace ebusd

// The real DirectProtocolHandler; only the hand-over to the bus thread is replaced: instead of blocking until another
// thread has processed the request, the caller itself steps handleSend/handleReceive exactly as run() does.
class StepHandler : public DirectProtocolHandler {
 public:
  StepHandler(const ebus_protocol_config_t config, Device* device, ProtocolListener* listener)
    : DirectProtocolHandler(config, device, listener), m_queued(0) {}
  void step() {
    unsigned int recvTimeout = 0; symbol_t sentSymbol = ESC; struct timespec sentTime;
    result_t result = VerifAccess::send(this, &recvTimeout, &sentSymbol, &sentTime);
    bool sent = result == RESULT_CONTINUE;
    do {
      if (result >= RESULT_OK) result = VerifAccess::recv(this, recvTimeout, sent, sentSymbol, &sentTime);
      recvTimeout = 0; sent = false;
    } while (result == RESULT_CONTINUE);
  }
  result_t addRequest(BusRequest* request, bool wait) override {
    m_queued++;
    result_t r = ProtocolHandler::addRequest(request, false);
    if (r != RESULT_OK || !wait) return r;
    for (int i = 0; i < 2000; i++) {
      if (VerifAccess::finished(this, request)) {
        for (int j = 0; j < 4 && !VerifAccess::ready(this); j++) step();  // let the handler release the bus (final SYN) within this command
        return RESULT_OK;
      }
      step();
    }
    fprintf(stderr, "HARNESS: request did not finish\n"); exit(2);
  }
  size_t m_queued;  // BusRequests handed to the protocol layer
};

// ---------------------------------------------------------------------------------------------------------------------
// a data sink as the MQTT/KNX handlers are: levels taken from the UserInfo for a configured user name
class TestSink : public DataSink {
 public:
  TestSink(const UserInfo* ui, const string& user) : DataSink(ui, user, false) {}
  void startHandler() override {}
  int updated(Message* m) { auto it = m_updatedMessages.find(m->getKey()); return it == m_updatedMessages.end() ? 0 : it->second; }
  const string& levels() const { return m_levels; }
};

// ---------------------------------------------------------------------------------------------------------------------
struct Slot { string kind, circuit, name, level; vector<uint8_t> id; uint8_t value; Message* msg; };

struct World {
  vector<Slot> slots;
  MessageMap* messages = nullptr; ScanHelper* scan = nullptr; BusHandler* bus = nullptr; StepHandler* proto = nullptr;
  FakeTransport* tr = nullptr; MainLoop* loop = nullptr; Queue<Request*>* queue = nullptr;
  string aclPath;
  ~World() {
    if (loop) { loop->shutdown(); delete loop; }
    delete queue;
    delete proto;  // deletes device and transport
    delete bus; delete messages; delete scan;  // same order as cleanup() in main.cpp
  }
};

static const char* userName(long n) { return n == 1 ? "u1" : n == 2 ? "u2" : n == 3 ? "ux" : ""; }
static const char* secretOf(long n) { return n == 1 ? "s1" : n == 2 ? "s2" : n == 3 ? "sd" : n == 9 ? "bad" : ""; }

static World* makeWorld(const JV& w, const string& dir) {
  World* W = new World();
  // ---- ACL file + default levels
  string dsrc = w["dsrc"].s, dl = codes(w["d"]);
  W->aclPath = dir + "/acl.csv";
  {
    std::ofstream f(W->aclPath.c_str());
    f << "# name,secret,levels\n";  // the first line of an ACL file names the columns (comment = default columns)
    if (dsrc == "acl") { f << "*," << secretOf(3); string l = dl; std::replace(l.begin(), l.end(), ';', ','); f << "," << l << "\n"; }
    for (auto& u : w["users"].a) {
      string l = codes(u["l"]);
      if (u["sep"].i == 1) std::replace(l.begin(), l.end(), ';', ',');  // one level per column instead of one column
      f << userName(u["n"].i) << "," << secretOf(u["n"].i) << "," << l << "\n";
    }
  }
  static string s_acl, s_lvl;  // options keep pointers
  s_acl = "--aclfile=" + W->aclPath;
  string dopt = dl; std::replace(dopt.begin(), dopt.end(), ';', ',');
  s_lvl = "--accesslevel=" + dopt;
  vector<char*> argv;
  argv.push_back(const_cast<char*>("ebusd"));
  argv.push_back(const_cast<char*>(s_acl.c_str()));
  if (dsrc == "opt") argv.push_back(const_cast<char*>(s_lvl.c_str()));
  argv.push_back(const_cast<char*>("--pollinterval=0"));
  argv.push_back(const_cast<char*>("--updatecheck=off"));
  argv.push_back(const_cast<char*>("-f"));
  static struct options opt;
  if (parse_main_args(static_cast<int>(argv.size()), argv.data(), nullptr, &opt) != 0) { fprintf(stderr, "HARNESS: bad args\n"); exit(2); }
  // ---- messages
  W->messages = new MessageMap(false, "", false);  // many maps per process: the shared ident field set must survive
  W->scan = new ScanHelper(W->messages, "/nonexistent", "/nonexistent/", "", "", nullptr, false);
  W->messages->setResolver(W->scan);
  std::ostringstream csv;
  size_t k = 0;
  for (auto& m : w["msgs"].a) {
    Slot s; s.kind = m["k"].s; s.circuit = m["c"].s; s.name = m["n"].s; s.level = codes(m["lv"]);
    k++;
    bool wr = s.kind == "w";
    s.id = {0xb5, 0x09, static_cast<uint8_t>(wr ? 0x0e : 0x0d), static_cast<uint8_t>(k)};
    s.value = static_cast<uint8_t>(0x10 + k);
    char idhex[16]; snprintf(idhex, sizeof idhex, "%02x%02x", s.id[2], s.id[3]);
    csv << s.kind << "," << s.circuit << (s.level.empty() ? "" : "#") << s.level << "," << s.name << ",,,08,b509," << idhex << ",v,"
        << (wr ? "m" : "s") << ",UCH\n";
    W->slots.push_back(s);
  }
  std::istringstream in("#\n" + csv.str());  // first line is not used for determining column names
  string err;
  result_t r = W->messages->readFromStream(&in, "world.csv", time(nullptr), false, nullptr, &err);
  if (r != RESULT_OK) { fprintf(stderr, "HARNESS: csv load failed: %s %s\n%s", getResultCode(r), err.c_str(), csv.str().c_str()); exit(2); }
  // ---- bus side
  W->bus = new BusHandler(W->messages, W->scan, opt.pollInterval);
  ebus_protocol_config_t config = {
    .device = "fake", .noDeviceCheck = true, .readOnly = false, .extraLatency = 0, .ownAddress = opt.address,
    .answer = false, .busLostRetries = opt.acquireRetries, .failedSendRetries = opt.sendRetries,
    .busAcquireTimeout = opt.acquireTimeout, .slaveRecvTimeout = opt.receiveTimeout, .lockCount = opt.masterCount,
    .generateSyn = false, .initialSend = false,
  };
  W->tr = new FakeTransport();
  PlainDevice* dev = new PlainDevice(W->tr);
  W->proto = new StepHandler(config, dev, W->bus);
  W->bus->setProtocol(W->proto);
  W->proto->open();
  // ---- resolve the message objects and script the slave
  for (auto& s : W->slots) {
    std::deque<Message*> all;
    W->messages->findAll(s.circuit, s.name, "*", true, true, true, true, true, false, 0, 0, false, &all);
    s.msg = nullptr;
    for (Message* m : all) {
      bool pas = m->isPassive(), wr = m->isWrite();
      if ((s.kind == "u") == pas && (s.kind == "w") == (wr && !pas) && m->getLevel() == s.level && m->getCircuit() == s.circuit) s.msg = m;
    }
    if (!s.msg) { fprintf(stderr, "HARNESS: message %s/%s not found after load\n", s.circuit.c_str(), s.name.c_str()); exit(2); }
    if (s.kind != "w") W->tr->m_answers[s.id] = {s.value};
  }
  // passive messages have been seen on the bus before any client connects
  for (auto& s : W->slots) {
    if (s.kind != "u") continue;
    MasterSymbolString m; m.push_back(0x10); m.push_back(0x08); m.push_back(s.id[0]); m.push_back(s.id[1]); m.push_back(2); m.push_back(s.id[2]); m.push_back(s.id[3]);
    SlaveSymbolString sl; sl.push_back(1); sl.push_back(s.value);
    W->proto->injectMessage(m, sl);
    if (s.msg->getLastUpdateTime() == 0) { fprintf(stderr, "HARNESS: passive inject failed\n"); exit(2); }
  }
  // (injectMessage is meant for the time before the bus thread runs: the first SYN then resets the handler's buffers)
  for (int i = 0; i < 8; i++) W->proto->step();  // a few SYN: signal acquired
  if (!W->proto->hasSignal()) { fprintf(stderr, "HARNESS: no signal\n"); exit(2); }
  // ---- the daemon
  W->queue = new Queue<Request*>();
  W->loop = new MainLoop(opt, W->bus, W->messages, W->scan, W->queue);
  W->loop->start("mainloop");
  return W;
}

// one client connection: like ebusd's Connection, one RequestImpl reused for all lines
struct Client {
  World* W; RequestImpl req;
  explicit Client(World* w, bool http = false) : W(w), req(http) {}
  string send(const string& line) {
    if (!req.add(line.c_str())) { fprintf(stderr, "HARNESS: incomplete request\n"); exit(2); }
    W->queue->push(&req);
    string result;
    req.waitResponse(&result);
    return result;
  }
};

static string hexOf(const vector<uint8_t>& v) { string s; char b[4]; for (uint8_t x : v) { snprintf(b, sizeof b, "%02x", x); s += b; } return s; }

static string rtrim(string s) { while (!s.empty() && (s.back() == '\n' || s.back() == '\r' || s.back() == ' ')) s.pop_back(); return s; }

// classify one response and extract which slot values it discloses
struct Obs { string rc; vector<int> val, bus, pr; int queued; size_t bytes; string user; string raw; };

static int slotOfTelegram(World* W, const vector<uint8_t>& t) {
  for (size_t k = 0; k < W->slots.size(); k++) {
    const Slot& s = W->slots[k];
    if (t.size() >= 5u + 2 && t[2] == s.id[0] && t[3] == s.id[1] && t[4] >= 2 && t[5] == s.id[2] && t[6] == s.id[3]) return static_cast<int>(k + 1);
  }
  return -1;
}
static int slotOfValue(World* W, long v) {
  for (size_t k = 0; k < W->slots.size(); k++) if (W->slots[k].value == v) return static_cast<int>(k + 1);
  return -1;
}

static Obs runCmd(World* W, Client* telnet, const JV& c) {
  Obs o; o.queued = 0;
  string op = c["op"].s;
  long mi = c["m"].i, cu = c["u"].i, cs = c["s"].i;
  const Slot* s = mi >= 1 && static_cast<size_t>(mi) <= W->slots.size() ? &W->slots[mi - 1] : nullptr;
  size_t w0 = W->tr->m_written.size(), q0 = W->proto->m_queued, b0 = W->tr->m_writtenBytes;
  bool http = op[0] == 'g';
  string resp;
  string hexcmd;
  if (s) {
    hexcmd = "08" + hexOf(vector<uint8_t>(s->id.begin(), s->id.begin() + 2)) + (s->kind == "w" ? "03" : "02") + hexOf(vector<uint8_t>(s->id.begin() + 2, s->id.end()))
      + (s->kind == "w" ? "07" : "");
  }
  if (op == "auth") resp = telnet->send(string("auth ") + userName(cu) + " " + secretOf(cs) + "\n");
  else if (op == "auth1") resp = telnet->send(string("auth ") + userName(cu) + "\n");  // secret missing
  else if (op == "r") resp = telnet->send("read " + s->name + "\n");
  else if (op == "rf") resp = telnet->send("read -f " + s->name + "\n");
  else if (op == "rc") resp = telnet->send("read -f -c " + s->circuit + " " + s->name + "\n");
  else if (op == "rp") resp = telnet->send("read -p 2 -c " + s->circuit + " " + s->name + "\n");
  else if (op == "rh") resp = telnet->send("read -f -h " + hexcmd + "\n");
  else if (op == "rhn") resp = telnet->send("read -h " + hexcmd + "\n");
  else if (op == "rhm") resp = telnet->send("read -m 0 -h " + hexcmd + "\n");
  else if (op == "rcn") resp = telnet->send("read -c " + s->circuit + " " + s->name + "\n");
  else if (op == "rm") resp = telnet->send("read -m 0 " + s->name + "\n");
  else if (op == "xr") {  // another connection: authenticate (if a user is given), then read from the bus
    Client other(W);
    if (cu) other.send(string("auth ") + userName(cu) + " " + secretOf(cs) + "\n");
    resp = other.send("read -f -c " + s->circuit + " " + s->name + "\n");
  } else if (op == "bus") {  // master 10 reads the message from slave 08; ebusd receives both parts passively
    MasterSymbolString m; m.push_back(0x10); m.push_back(0x08); m.push_back(s->id[0]); m.push_back(s->id[1]); m.push_back(2); m.push_back(s->id[2]); m.push_back(s->id[3]);
    SlaveSymbolString sl; sl.push_back(1); sl.push_back(s->value);
    vector<uint8_t> wire;
    auto esc = [&wire](uint8_t b) { if (b == ESC) { wire.push_back(ESC); wire.push_back(0); } else if (b == SYN) { wire.push_back(ESC); wire.push_back(1); } else wire.push_back(b); };
    for (size_t i = 0; i < m.size(); i++) esc(m[i]);
    esc(m.calcCrc()); wire.push_back(ACK);
    for (size_t i = 0; i < sl.size(); i++) esc(sl[i]);
    esc(sl.calcCrc()); wire.push_back(ACK); wire.push_back(SYN);
    W->proto->step();  // an idle SYN first
    W->tr->feed(wire);
    for (int i = 0; i < 64 && W->tr->pending(); i++) W->proto->step();
    W->proto->step();
    if (s->msg->getLastUpdateTime() == 0) { fprintf(stderr, "HARNESS: passive reception did not update the message\n"); exit(2); }
    resp = "bus";
  }
  else if (op == "rhc") resp = telnet->send("read -f -c " + s->circuit + " -h " + hexcmd + "\n");
  else if (op == "w") resp = telnet->send("write -c " + s->circuit + " " + s->name + " 7\n");
  else if (op == "wh") resp = telnet->send("write -h " + hexcmd + "\n");
  else if (op == "whc") resp = telnet->send("write -c " + s->circuit + " -h " + hexcmd + "\n");
  else if (http) {
    string q;
    if (op == "gq") q = "required&maxage=0";
    else if (op == "gp") q = "poll=3";
    else if (op == "gw") q = "write";
    else if (op == "gx") q = "exact";
    else if (op == "gm") q = "maxage=300";
    if (cu) q += string(q.empty() ? "" : "&") + "user=" + userName(cu);
    if (cs) q += string(q.empty() ? "" : "&") + "secret=" + secretOf(cs);
    Client h(W, true);
    resp = h.send("GET /data/" + s->circuit + "/" + s->name + (q.empty() ? "" : "?" + q) + " HTTP/1.1\nHost: x\n\n");
  } else { fprintf(stderr, "HARNESS: unknown op %s\n", op.c_str()); exit(2); }
  o.raw = resp;
  string t = rtrim(resp);
  if (http) {
    size_t sp = t.find(' ');
    o.rc = "h" + t.substr(sp + 1, 3);
    // which messages are disclosed: every "name": { block inside "messages" carries zz/id -> identify by "id": [..]
    // an entry is identified by circuit block + name + passive/write flags (unique in every layout)
    for (size_t k = 0; k < W->slots.size(); k++) {
      const Slot& sl = W->slots[k];
      // look for this slot's entry: "<name>": {\n    "name": "<name>",\n    "passive": x,\n    "write": y
      string pat = "\"name\": \"" + sl.name + "\",\n    \"passive\": " + (sl.kind == "u" ? "true" : "false") + ",\n    \"write\": " + (sl.kind == "w" ? "true" : "false");
      size_t cpos = t.find("\n \"" + sl.circuit + "\": {");
      if (cpos == string::npos) continue;
      size_t cend = t.find("\n },", cpos);
      size_t f = t.find(pat, cpos);
      if (f != string::npos && f < cend) o.val.push_back(static_cast<int>(k + 1));
    }
  } else if (op == "bus") {
    o.rc = "bus";
  } else if (op == "auth" || op == "auth1") {
    o.rc = t == "done" ? "authok" : t == "ERR: invalid user name or secret" ? "authbad" : t.compare(0, 6, "usage:") == 0 ? "usage" : "other";
  } else {
    if (t == "ERR: element not found") o.rc = "nf";
    else if (t == "ERR: not authorized") o.rc = "na";
    else if (t.compare(0, 6, "usage:") == 0) o.rc = "usage";
    else if (t.compare(0, 4, "ERR:") == 0) o.rc = "err";
    else {
      o.rc = "ok";
      if (op == "rh" || op == "rhc" || op == "rhn" || op == "rhm") {  // slave data as hex: NN DD
        if (t.size() == 4) { int v = slotOfValue(W, strtol(t.substr(2).c_str(), nullptr, 16)); if (v > 0) o.val.push_back(v); else o.rc = "other"; } else o.rc = "other";
      } else if (op[0] == 'r' || op == "xr") {
        char* e; long v = strtol(t.c_str(), &e, 10);
        int sv = *e ? -1 : slotOfValue(W, v);
        if (sv > 0) o.val.push_back(sv); else o.rc = "other";
      } else if (t != "done" && !(t.size() == 2 && t == "00")) o.rc = "other";
    }
  }
  for (size_t i = w0; i < W->tr->m_written.size(); i++) o.bus.push_back(slotOfTelegram(W, W->tr->m_written[i]));
  o.queued = static_cast<int>(W->proto->m_queued - q0);
  o.bytes = W->tr->m_writtenBytes - b0;
  for (auto& sl : W->slots) o.pr.push_back(static_cast<int>(sl.msg->getPollPriority()));
  o.user = telnet->req.getUser();
  return o;
}

static string obsJson(const Obs& o) {
  int un = o.user == "" ? 0 : o.user == "u1" ? 1 : o.user == "u2" ? 2 : o.user == "ux" ? 3 : 9;
  char b[64];
  string s = "{\"rc\":" + vf::jstr(o.rc) + ",\"val\":" + vf::jints(o.val) + ",\"bus\":" + vf::jints(o.bus) + ",\"pr\":" + vf::jints(o.pr);
  snprintf(b, sizeof b, ",\"q\":%d,\"nb\":%zu,\"usr\":%d}", o.queued, o.bytes, un);
  return s + b;
}

// ---------------------------------------------------------------------------------------------------------------------
static void checkLevelRecords(vf::Out& out, int maxLen) {
  const char alpha[] = {'a', 'b', ';', '*'};
  vector<string> levels;  // canonical order: by length, then lexicographic with a < b
  for (int n = 0; n <= 3; n++) for (int x = 0; x < (1 << n); x++) { string l; for (int i = n - 1; i >= 0; i--) l.push_back((x >> i) & 1 ? 'b' : 'a'); levels.push_back(l); }
  for (int n = 0; n <= maxLen; n++) {
    long cnt = 1; for (int i = 0; i < n; i++) cnt *= 4;
    for (long x = 0; x < cnt; x++) {
      string ls; long y = x; for (int i = 0; i < n; i++) { ls.push_back(alpha[y & 3]); y >>= 2; }
      vector<int> r;
      for (auto& l : levels) r.push_back(Message::checkLevel(l, ls) ? 1 : 0);
      out.raw("{\"f\":\"cl\",\"ls\":" + vf::jbytes(ls) + ",\"r\":" + vf::jints(r) + "}\n");
    }
  }
}

int main(int argc, char** argv) {
  vf::installTerminate();
  if (argc < 3) { fprintf(stderr, "usage: %s cl out.ndjson maxlen | ses out.ndjson worlds.ndjson sessions.ndjson workdir [w0 w1] | show ...\n", argv[0]); return 2; }
  setFacilitiesLogLevel(0xffff, getenv("C16_LOG") ? ll_debug : ll_none);
  string mode = argv[1];
  if (mode == "cl") { vf::Out out(argv[2]); checkLevelRecords(out, atoi(argv[3])); return 0; }
  if (mode == "cl1") {  // replay of one level list
    vf::Out out(argv[2]); string ls = argc > 3 ? argv[3] : "";
    vector<int> r;
    for (int n = 0; n <= 3; n++) for (int x = 0; x < (1 << n); x++) { string l; for (int i = n - 1; i >= 0; i--) l.push_back((x >> i) & 1 ? 'b' : 'a'); r.push_back(Message::checkLevel(l, ls) ? 1 : 0); }
    out.raw("{\"f\":\"cl\",\"ls\":" + vf::jbytes(ls) + ",\"r\":" + vf::jints(r) + "}\n");
    return 0;
  }
  if (mode == "ses" || mode == "show") {
    vf::Out out(argv[2]);
    vector<JV> worlds = readNdjson(argv[3]), sessions = readNdjson(argv[4]);
    string dir = argv[5];
    size_t w0 = argc > 6 ? atol(argv[6]) : 0, w1 = argc > 7 ? atol(argv[7]) : worlds.size();
    char b[96];
    for (size_t wi = w0; wi < w1 && wi < worlds.size(); wi++) {
      const JV& w = worlds[wi];
      // sinks: once per world
      {
        World* W = makeWorld(w, dir);
        for (long su = 0; su <= 3; su++) {
          TestSink sink(VerifAccess::users(W->loop), su == 0 ? "" : userName(su));
          vector<int> upd, fnd, all;
          std::deque<Message*> lst;
          W->messages->findAll("", "", sink.levels(), false, true, true, true, true, true, 0, 0, false, &lst);
          for (auto& s : W->slots) {
            sink.notifyUpdate(s.msg, true);
            upd.push_back(sink.updated(s.msg));
            Message* f = W->messages->find(s.circuit, s.name, sink.levels(), s.kind == "w", s.kind == "u");
            fnd.push_back(f == s.msg ? 1 : 0);
            all.push_back(std::find(lst.begin(), lst.end(), s.msg) != lst.end() ? 1 : 0);
          }
          snprintf(b, sizeof b, "{\"f\":\"sk\",\"w\":%zu,\"su\":%ld,\"upd\":", wi + 1, su);
          out.raw(b); out.raw(vf::jints(upd)); out.raw(",\"fnd\":" + vf::jints(fnd) + ",\"all\":" + vf::jints(all) + "}\n");
        }
        delete W;
      }
      for (size_t si = 0; si < sessions.size(); si++) {
        if (sessions[si]["lay"].i != w["lay"].i) continue;  // a session addresses the slots of one layout
        World* W = makeWorld(w, dir);
        Client telnet(W);
        snprintf(b, sizeof b, "{\"f\":\"ses\",\"w\":%zu,\"s\":%zu,\"o\":[", wi + 1, si + 1);
        string line = b;
        bool first = true;
        for (auto& c : sessions[si]["cmds"].a) {
          Obs o = runCmd(W, &telnet, c);
          if (mode == "show") fprintf(stderr, "w%zu s%zu %s m=%ld u=%ld s=%ld -> %s | %s\n", wi + 1, si + 1, c["op"].s.c_str(), c["m"].i, c["u"].i, c["s"].i, obsJson(o).c_str(), o.raw.substr(0, 1500).c_str());
          if (!first) line += ",";
          first = false;
          line += obsJson(o);
        }
        line += "]}\n";
        out.raw(line);
        delete W;
      }
    }
    return 0;
  }
  return 2;
}
