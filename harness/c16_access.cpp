// C16: access levels on the read / write / poll / hex / HTTP paths and in data sinks.
//
// Two record families are written for TLC to judge (spec/Access.tla, spec/C16Judge.tla):
//   cl    Message::checkLevel on ALL level lists over {a,b,;,*} up to a length bound x all levels over {a,b} of length <= 3
//   ses   an in-process daemon (real MessageMap, UserList read from a generated ACL file, BusHandler, MainLoop running its
//         real run() thread, DirectProtocolHandler + PlainDevice on a fake Transport with an auto-responding slave) replays
//         the (world, session) cases that TLC generated from spec/C16Gen; per command it logs the response class, which
//         message values were disclosed, which telegrams were put on the bus and the poll priorities afterwards.
//   sk    a DataSink test subclass per world and configured sink user: notifyUpdate / find / findAll with its levels.
// No ebusd code lives here: the fake transport, the scripted slave and the client side are test scaffolding only.
#include "c16_daemon.h"

// classify one response and extract which slot values it discloses
struct Obs { string rc; vector<int> val, bus, pr; int queued; size_t bytes; string user; string raw; };

static int slotOfTelegram(World* W, const vector<uint8_t>& t) {
  for (size_t k = 0; k < W->slots.size(); k++) {
    const Slot& s = W->slots[k];
    if (t.size() >= 5u + 2 && t[2] == s.id[0] && t[3] == s.id[1] && t[4] >= 2 && t[5] == s.id[2] && t[6] == s.id[3]) return static_cast<int>(k + 1);
  }
  return -1;
}
static int slotOfValue(World* W, long v) {
  for (size_t k = 0; k < W->slots.size(); k++) if (W->slots[k].value == v) return static_cast<int>(k + 1);
  return -1;
}

static Obs runCmd(World* W, Client* telnet, const JV& c) {
  Obs o; o.queued = 0;
  string op = c["op"].s;
  long mi = c["m"].i, cu = c["u"].i, cs = c["s"].i;
  const Slot* s = mi >= 1 && static_cast<size_t>(mi) <= W->slots.size() ? &W->slots[mi - 1] : nullptr;
  size_t w0 = W->tr->m_written.size(), q0 = W->proto->m_queued, b0 = W->tr->m_writtenBytes;
  bool http = op[0] == 'g';
  string resp;
  string hexcmd;
  if (s) {
    hexcmd = "08" + hexOf(vector<uint8_t>(s->id.begin(), s->id.begin() + 2)) + (s->kind == "w" ? "03" : "02") + hexOf(vector<uint8_t>(s->id.begin() + 2, s->id.end()))
      + (s->kind == "w" ? "07" : "");
  }
  if (op == "auth") resp = telnet->send(string("auth ") + userName(cu) + " " + secretOf(cs) + "\n");
  else if (op == "auth1") resp = telnet->send(string("auth ") + userName(cu) + "\n");  // secret missing
  else if (op == "r") resp = telnet->send("read " + s->name + "\n");
  else if (op == "rf") resp = telnet->send("read -f " + s->name + "\n");
  else if (op == "rc") resp = telnet->send("read -f -c " + s->circuit + " " + s->name + "\n");
  else if (op == "rp") resp = telnet->send("read -p 2 -c " + s->circuit + " " + s->name + "\n");
  else if (op == "rh") resp = telnet->send("read -f -h " + hexcmd + "\n");
  else if (op == "rhn") resp = telnet->send("read -h " + hexcmd + "\n");
  else if (op == "rhm") resp = telnet->send("read -m 0 -h " + hexcmd + "\n");
  else if (op == "rcn") resp = telnet->send("read -c " + s->circuit + " " + s->name + "\n");
  else if (op == "rm") resp = telnet->send("read -m 0 " + s->name + "\n");
  else if (op == "xr") {  // another connection: authenticate (if a user is given), then read from the bus
    Client other(W);
    if (cu) other.send(string("auth ") + userName(cu) + " " + secretOf(cs) + "\n");
    resp = other.send("read -f -c " + s->circuit + " " + s->name + "\n");
  } else if (op == "bus") {  // master 10 reads the message from slave 08; ebusd receives both parts passively
    MasterSymbolString m; m.push_back(0x10); m.push_back(0x08); m.push_back(s->id[0]); m.push_back(s->id[1]); m.push_back(2); m.push_back(s->id[2]); m.push_back(s->id[3]);
    SlaveSymbolString sl; sl.push_back(1); sl.push_back(s->value);
    vector<uint8_t> wire;
    auto esc = [&wire](uint8_t b) { if (b == ESC) { wire.push_back(ESC); wire.push_back(0); } else if (b == SYN) { wire.push_back(ESC); wire.push_back(1); } else wire.push_back(b); };
    for (size_t i = 0; i < m.size(); i++) esc(m[i]);
    esc(m.calcCrc()); wire.push_back(ACK);
    for (size_t i = 0; i < sl.size(); i++) esc(sl[i]);
    esc(sl.calcCrc()); wire.push_back(ACK); wire.push_back(SYN);
    W->proto->step();  // an idle SYN first
    W->tr->feed(wire);
    for (int i = 0; i < 64 && W->tr->pending(); i++) W->proto->step();
    W->proto->step();
    if (s->msg->getLastUpdateTime() == 0) { fprintf(stderr, "HARNESS: passive reception did not update the message\n"); exit(2); }
    resp = "bus";
  }
  else if (op == "rhc") resp = telnet->send("read -f -c " + s->circuit + " -h " + hexcmd + "\n");
  else if (op == "w") resp = telnet->send("write -c " + s->circuit + " " + s->name + " 7\n");
  else if (op == "wh") resp = telnet->send("write -h " + hexcmd + "\n");
  else if (op == "whc") resp = telnet->send("write -c " + s->circuit + " -h " + hexcmd + "\n");
  else if (http) {
    string q;
    if (op == "gq") q = "required&maxage=0";
    else if (op == "gp") q = "poll=3";
    else if (op == "gw") q = "write";
    else if (op == "gx") q = "exact";
    else if (op == "gm") q = "maxage=300";
    if (cu) q += string(q.empty() ? "" : "&") + "user=" + userName(cu);
    if (cs) q += string(q.empty() ? "" : "&") + "secret=" + secretOf(cs);
    Client h(W, true);
    resp = h.send("GET /data/" + s->circuit + "/" + s->name + (q.empty() ? "" : "?" + q) + " HTTP/1.1\nHost: x\n\n");
  } else { fprintf(stderr, "HARNESS: unknown op %s\n", op.c_str()); exit(2); }
  o.raw = resp;
  string t = rtrim(resp);
  if (http) {
    size_t sp = t.find(' ');
    o.rc = "h" + t.substr(sp + 1, 3);
    // which messages are disclosed: every "name": { block inside "messages" carries zz/id -> identify by "id": [..]
    // an entry is identified by circuit block + name + passive/write flags (unique in every layout)
    for (size_t k = 0; k < W->slots.size(); k++) {
      const Slot& sl = W->slots[k];
      // look for this slot's entry: "<name>": {\n    "name": "<name>",\n    "passive": x,\n    "write": y
      string pat = "\"name\": \"" + sl.name + "\",\n    \"passive\": " + (sl.kind == "u" ? "true" : "false") + ",\n    \"write\": " + (sl.kind == "w" ? "true" : "false");
      size_t cpos = t.find("\n \"" + sl.circuit + "\": {");
      if (cpos == string::npos) continue;
      size_t cend = t.find("\n },", cpos);
      size_t f = t.find(pat, cpos);
      if (f != string::npos && f < cend) o.val.push_back(static_cast<int>(k + 1));
    }
  } else if (op == "bus") {
    o.rc = "bus";
  } else if (op == "auth" || op == "auth1") {
    o.rc = t == "done" ? "authok" : t == "ERR: invalid user name or secret" ? "authbad" : t.compare(0, 6, "usage:") == 0 ? "usage" : "other";
  } else {
    if (t == "ERR: element not found") o.rc = "nf";
    else if (t == "ERR: not authorized") o.rc = "na";
    else if (t.compare(0, 6, "usage:") == 0) o.rc = "usage";
    else if (t.compare(0, 4, "ERR:") == 0) o.rc = "err";
    else {
      o.rc = "ok";
      if (op == "rh" || op == "rhc" || op == "rhn" || op == "rhm") {  // slave data as hex: NN DD
        if (t.size() == 4) { int v = slotOfValue(W, strtol(t.substr(2).c_str(), nullptr, 16)); if (v > 0) o.val.push_back(v); else o.rc = "other"; } else o.rc = "other";
      } else if (op[0] == 'r' || op == "xr") {
        char* e; long v = strtol(t.c_str(), &e, 10);
        int sv = *e ? -1 : slotOfValue(W, v);
        if (sv > 0) o.val.push_back(sv); else o.rc = "other";
      } else if (t != "done" && !(t.size() == 2 && t == "00")) o.rc = "other";
    }
  }
  for (size_t i = w0; i < W->tr->m_written.size(); i++) o.bus.push_back(slotOfTelegram(W, W->tr->m_written[i]));
  o.queued = static_cast<int>(W->proto->m_queued - q0);
  o.bytes = W->tr->m_writtenBytes - b0;
  for (auto& sl : W->slots) o.pr.push_back(static_cast<int>(sl.msg->getPollPriority()));
  o.user = telnet->req.getUser();
  return o;
}

static string obsJson(const Obs& o) {
  int un = o.user == "" ? 0 : o.user == "u1" ? 1 : o.user == "u2" ? 2 : o.user == "ux" ? 3 : 9;
  char b[64];
  string s = "{\"rc\":" + vf::jstr(o.rc) + ",\"val\":" + vf::jints(o.val) + ",\"bus\":" + vf::jints(o.bus) + ",\"pr\":" + vf::jints(o.pr);
  snprintf(b, sizeof b, ",\"q\":%d,\"nb\":%zu,\"usr\":%d}", o.queued, o.bytes, un);
  return s + b;
}

// ---------------------------------------------------------------------------------------------------------------------
static void checkLevelRecords(vf::Out& out, int maxLen) {
  const char alpha[] = {'a', 'b', ';', '*'};
  vector<string> levels;  // canonical order: by length, then lexicographic with a < b
  for (int n = 0; n <= 3; n++) for (int x = 0; x < (1 << n); x++) { string l; for (int i = n - 1; i >= 0; i--) l.push_back((x >> i) & 1 ? 'b' : 'a'); levels.push_back(l); }
  for (int n = 0; n <= maxLen; n++) {
    long cnt = 1; for (int i = 0; i < n; i++) cnt *= 4;
    for (long x = 0; x < cnt; x++) {
      string ls; long y = x; for (int i = 0; i < n; i++) { ls.push_back(alpha[y & 3]); y >>= 2; }
      vector<int> r;
      for (auto& l : levels) r.push_back(Message::checkLevel(l, ls) ? 1 : 0);
      out.raw("{\"f\":\"cl\",\"ls\":" + vf::jbytes(ls) + ",\"r\":" + vf::jints(r) + "}\n");
    }
  }
}

int main(int argc, char** argv) {
  vf::installTerminate();
  if (argc < 3) { fprintf(stderr, "usage: %s cl out.ndjson maxlen | ses out.ndjson worlds.ndjson sessions.ndjson workdir [w0 w1] | show ...\n", argv[0]); return 2; }
  setFacilitiesLogLevel(0xffff, getenv("C16_LOG") ? ll_debug : ll_none);
  string mode = argv[1];
  if (mode == "cl") { vf::Out out(argv[2]); checkLevelRecords(out, atoi(argv[3])); return 0; }
  if (mode == "cl1") {  // replay of one level list
    vf::Out out(argv[2]); string ls = argc > 3 ? argv[3] : "";
    vector<int> r;
    for (int n = 0; n <= 3; n++) for (int x = 0; x < (1 << n); x++) { string l; for (int i = n - 1; i >= 0; i--) l.push_back((x >> i) & 1 ? 'b' : 'a'); r.push_back(Message::checkLevel(l, ls) ? 1 : 0); }
    out.raw("{\"f\":\"cl\",\"ls\":" + vf::jbytes(ls) + ",\"r\":" + vf::jints(r) + "}\n");
    return 0;
  }
  if (mode == "ses" || mode == "show") {
    vf::Out out(argv[2]);
    vector<JV> worlds = readNdjson(argv[3]), sessions = readNdjson(argv[4]);
    string dir = argv[5];
    size_t w0 = argc > 6 ? atol(argv[6]) : 0, w1 = argc > 7 ? atol(argv[7]) : worlds.size();
    char b[96];
    for (size_t wi = w0; wi < w1 && wi < worlds.size(); wi++) {
      const JV& w = worlds[wi];
      // sinks: once per world
      {
        World* W = makeWorld(w, dir);
        for (long su = 0; su <= 3; su++) {
          TestSink sink(VerifAccess::users(W->loop), su == 0 ? "" : userName(su));
          vector<int> upd, fnd, all;
          std::deque<Message*> lst;
          W->messages->findAll("", "", sink.levels(), false, true, true, true, true, true, 0, 0, false, &lst);
          for (auto& s : W->slots) {
            sink.notifyUpdate(s.msg, true);
            upd.push_back(sink.updated(s.msg));
            Message* f = W->messages->find(s.circuit, s.name, sink.levels(), s.kind == "w", s.kind == "u");
            fnd.push_back(f == s.msg ? 1 : 0);
            all.push_back(std::find(lst.begin(), lst.end(), s.msg) != lst.end() ? 1 : 0);
          }
          snprintf(b, sizeof b, "{\"f\":\"sk\",\"w\":%zu,\"su\":%ld,\"upd\":", wi + 1, su);
          out.raw(b); out.raw(vf::jints(upd)); out.raw(",\"fnd\":" + vf::jints(fnd) + ",\"all\":" + vf::jints(all) + "}\n");
        }
        delete W;
      }
      for (size_t si = 0; si < sessions.size(); si++) {
        if (sessions[si]["lay"].i != w["lay"].i) continue;  // a session addresses the slots of one layout
        World* W = makeWorld(w, dir);
        Client telnet(W);
        snprintf(b, sizeof b, "{\"f\":\"ses\",\"w\":%zu,\"s\":%zu,\"o\":[", wi + 1, si + 1);
        string line = b;
        bool first = true;
        for (auto& c : sessions[si]["cmds"].a) {
          Obs o = runCmd(W, &telnet, c);
          if (mode == "show") fprintf(stderr, "w%zu s%zu %s m=%ld u=%ld s=%ld -> %s | %s\n", wi + 1, si + 1, c["op"].s.c_str(), c["m"].i, c["u"].i, c["s"].i, obsJson(o).c_str(), o.raw.substr(0, 1500).c_str());
          if (!first) line += ",";
          first = false;
          line += obsJson(o);
        }
        line += "]}\n";
        out.raw(line);
        delete W;
      }
    }
    return 0;
  }
  return 2;
}
