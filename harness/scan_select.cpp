// Scan-based configuration file selection (growth of the specification, spec/ScanSelect.tla): replays the worlds TLC
// generated on the real ScanHelper / MessageMap and logs what the real code chose.
//   usage: scan_select cases.ndjson out.ndjson rootdir [text]
//   a line of cases.ndjson is one case or a batch {"cases":[...]}; every case has a type "t":
//   "sel"  {"addr":ZZ,"has":0|1,"sl":[slave symbols NN DD..],"ents":[[path as character codes, kind],..]}
//          kind 0 = regular file with a self-contained definition, 1 = directory, 2 = regular file whose definition takes
//          circuit and destination from the defaults, 3 = regular file holding a template
//          The entries are created below rootdir/w, a fresh MessageMap + ScanHelper on that local configuration path get
//          the identification the way main.cpp / BusHandler hand it over (getScanMessage(ZZ)->storeLastData(master,
//          slave)), then loadScanConfigFile(ZZ, &file) is called.  Two runs per world: the directory listing order is an
//          input of the real code that the file system decides, so readdir() is interposed at link time (like the virtual
//          clock of other harnesses) and hands out the entries in ascending / descending name order.
//          Logged per run: result code, relative file, loaded files, the messages found afterwards, listing order.
//   "fn"   {"fn":[codes]}                     -> MessageMap::extractDefaultsFromFilename
//   "pm"   {"arg":[codes],"oms":0|1,"pre":0|1} -> ScanHelper::parseMessage (pre=1: the targets already hold 2 symbols)
// No ebusd code lives here.
#include "vf.h"
#include "c18_json.h"
#include <sys/stat.h>
#include <sys/types.h>
#include <dirent.h>
#include <dlfcn.h>
#include <errno.h>
#include <climits>
#include <sstream>
#include <map>
#include <deque>
#include <algorithm>
#include "ebusd/scan.h"
#include "ebusd/bushandler.h"
#include "lib/ebus/message.h"
#include "lib/ebus/data.h"
#include "lib/ebus/symbol.h"
#include "lib/utils/log.h"

using namespace ebusd;
using std::string;
using std::vector;

// ---- controlled directory listing order (link-time interposition of readdir / closedir) -------------------------
static int g_listOrder = 0;   // 0 = as the file system returns it, 1 = ascending by name, 2 = descending by name
struct Listing { std::vector<dirent> entries; size_t pos = 0; };
static std::map<DIR*, Listing>& listings() { static std::map<DIR*, Listing> m; return m; }
typedef dirent* (*readdir_fn)(DIR*);
typedef int (*closedir_fn)(DIR*);
static readdir_fn realReaddir() { static readdir_fn f = reinterpret_cast<readdir_fn>(dlsym(RTLD_NEXT, "readdir")); return f; }
static closedir_fn realClosedir() { static closedir_fn f = reinterpret_cast<closedir_fn>(dlsym(RTLD_NEXT, "closedir")); return f; }
static dirent* orderedReaddir(DIR* d) {
  if (g_listOrder == 0) return realReaddir()(d);
  auto it = listings().find(d);
  if (it == listings().end()) {
    Listing l;
    while (dirent* e = realReaddir()(d)) l.entries.push_back(*e);
    bool desc = g_listOrder == 2;
    std::sort(l.entries.begin(), l.entries.end(), [desc](const dirent& a, const dirent& b) {
      int c = strcmp(a.d_name, b.d_name); return desc ? c > 0 : c < 0; });
    it = listings().emplace(d, l).first;
  }
  Listing& l = it->second;
  return l.pos < l.entries.size() ? &l.entries[l.pos++] : nullptr;
}
extern "C" dirent* readdir(DIR* d) { return orderedReaddir(d); }
extern "C" int closedir(DIR* d) { listings().erase(d); return realClosedir()(d); }

static void die(const string& what) { perror(what.c_str()); exit(2); }

static void mkdirs(const string& path) {  // mkdir -p
  for (size_t i = 1; i <= path.size(); i++) {
    if (i == path.size() || path[i] == '/') {
      string p = path.substr(0, i);
      if (mkdir(p.c_str(), 0755) != 0 && errno != EEXIST) die(p);
    }
  }
}

static void rmtree(const string& path) {  // rm -rf (only below the root handed in)
  DIR* d = opendir(path.c_str());
  if (!d) return;
  vector<string> names;
  while (dirent* e = readdir(d)) {
    string n = e->d_name;
    if (n != "." && n != "..") names.push_back(n);
  }
  closedir(d);
  for (const auto& n : names) {
    string p = path + "/" + n;
    struct stat st;
    if (lstat(p.c_str(), &st) != 0) continue;
    if (S_ISDIR(st.st_mode)) rmtree(p); else unlink(p.c_str());
  }
  rmdir(path.c_str());
}

static void writeFile(const string& path, const string& body) {
  size_t p = path.rfind('/');
  mkdirs(path.substr(0, p));
  FILE* f = fopen(path.c_str(), "w");
  if (!f) die(path);
  fwrite(body.data(), 1, body.size(), f);
  fclose(f);
}

// file bodies: the message name is derived from a running number so that every file contributes its own message
static string bodyFor(int kind, int no) {
  std::ostringstream o;
  if (kind == 0) {          // self-contained: circuit x<no>, explicit destination
    o << "#\nr,x" << no << ",m" << no << ",,,52,b509,0d0" << (no % 10) << ",v,,UCH\n";
  } else if (kind == 2) {   // circuit + destination from the defaults of the file name (needs a default row)
    o << "#\n*r,,,,,,\"b509\",,,,,,,\nr,,m" << no << ",,,,,\"0d0" << (no % 10) << "\",v,,UCH,,,\n";
  } else if (kind == 3) {   // template file
    o << "#\ntt" << no << ",UCH,,,\n";
  }
  return o.str();
}

static string jtext(const string& s) { return vf::jbytes(s); }

static string passthrough(const vfj::JV& v) {
  switch (v.t) {
    case vfj::JV::JNUM: return std::to_string(v.num);
    case vfj::JV::JBOOL: return v.b ? "true" : "false";
    case vfj::JV::JSTR: return vf::jstr(v.s);
    case vfj::JV::JARR: { string r = "["; for (size_t i = 0; i < v.a.size(); i++) { if (i) r += ","; r += passthrough(v.a[i]); } return r + "]"; }
    case vfj::JV::JOBJ: { string r = "{"; for (size_t i = 0; i < v.o.size(); i++) { if (i) r += ","; r += vf::jstr(v.o[i].first) + ":" + passthrough(v.o[i].second); } return r + "}"; }
    default: return "null";
  }
}

struct Stats { long sel = 0, runs = 0, chosen = 0, fn = 0, pm = 0, files = 0; };

// one run of a selection world with the given listing order (1 ascending, 2 descending)
static string runSel(const vfj::JV& c, const string& root, int listOrder, Stats* st, bool asText) {
  const string cfg = root + "/w";
  g_listOrder = 0;
  rmtree(cfg);
  mkdirs(cfg);
  const vfj::JV& ents = c["ents"];
  for (size_t k = 0; k < ents.size(); k++) {
    string rel = ents[k][0].bytes();
    int kind = static_cast<int>(ents[k][1].num);
    if (kind == 1) mkdirs(cfg + "/" + rel);
    else { writeFile(cfg + "/" + rel, bodyFor(kind, static_cast<int>(k) + 1)); st->files++; }
  }
  symbol_t addr = static_cast<symbol_t>(c["addr"].num);
  MessageMap* messages = new MessageMap(false, "", false);   // several maps in one process share the static ident fields
  ScanHelper* scan = new ScanHelper(messages, cfg + "/", cfg + "/", "", "", nullptr, false);
  messages->setResolver(scan);
  int stored = -1;
  if (c["has"].num) {
    Message* message = messages->getScanMessage(addr);
    if (message) {
      MasterSymbolString master;
      SlaveSymbolString slave;
      master.push_back(0xff); master.push_back(addr); master.push_back(0x07); master.push_back(0x04); master.push_back(0x00);
      const vfj::JV& sl = c["sl"];
      for (size_t i = 0; i < sl.size(); i++) slave.push_back(static_cast<symbol_t>(sl[i].num));
      stored = message->storeLastData(master, slave);
    } else {
      stored = -100;    // no scan message for this address (master, SYN, ESC)
    }
  }
  string file = "\x01unset";
  g_listOrder = listOrder;
  result_t rc = scan->loadScanConfigFile(addr, &file);
  st->runs++;
  if (rc == RESULT_OK) st->chosen++;
  vector<string> loaded = messages->getLoadedFiles();
  std::sort(loaded.begin(), loaded.end());
  std::deque<Message*> all;
  messages->findAll("", "", "*", false, true, true, true, true, false, 0, 0, false, &all);
  vector<string> msgs;
  for (const auto m : all) {
    if (m->isScanMessage()) continue;
    msgs.push_back("[" + jtext(m->getCircuit()) + "," + jtext(m->getName()) + "," + std::to_string(m->getDstAddress()) + "]");
  }
  std::sort(msgs.begin(), msgs.end());
  // the listing order of every directory that holds an entry of the world
  string ls = "[";
  {
    std::map<string, bool> dirs;
    for (size_t k = 0; k < ents.size(); k++) {
      string rel = ents[k][0].bytes();
      size_t p = rel.rfind('/');
      dirs[p == string::npos ? "" : rel.substr(0, p)] = true;
    }
    bool first = true;
    for (const auto& d : dirs) {
      DIR* dir = opendir((cfg + "/" + d.first).c_str());
      if (!dir) continue;
      while (dirent* e = readdir(dir)) {
        string n = e->d_name;
        if (n == "." || n == "..") continue;
        if (!first) ls += ",";
        first = false;
        ls += jtext(d.first.empty() ? n : d.first + "/" + n);
      }
      closedir(dir);
    }
  }
  ls += "]";
  std::ostringstream o;
  o << "{\"rc\":" << static_cast<int>(rc) << ",\"stored\":" << stored << ",\"set\":" << (file == "\x01unset" ? 0 : 1)
    << ",\"file\":" << jtext(file == "\x01unset" ? "" : file) << ",\"loaded\":[";
  for (size_t i = 0; i < loaded.size(); i++) o << (i ? "," : "") << jtext(loaded[i]);
  o << "],\"msgs\":[";
  for (size_t i = 0; i < msgs.size(); i++) o << (i ? "," : "") << msgs[i];
  o << "],\"ls\":" << ls << "}";
  if (asText) {
    printf("  run: rc=%d (%s) file=%s loaded=", static_cast<int>(rc), getResultCode(rc), file == "\x01unset" ? "<unset>" : file.c_str());
    for (const auto& l : loaded) printf("%s ", l.c_str());
    printf(" msgs=");
    for (const auto m : all) if (!m->isScanMessage()) printf("%s/%s@%02x ", m->getCircuit().c_str(), m->getName().c_str(), m->getDstAddress());
    printf("\n");
  }
  g_listOrder = 0;
  delete scan;
  delete messages;
  return o.str();
}

int main(int argc, char** argv) {
  vf::installTerminate();
  if (argc < 4) { fprintf(stderr, "usage: %s cases.ndjson out.ndjson rootdir [text]\n", argv[0]); return 2; }
  bool asText = argc > 4 && string(argv[4]) == "text";
  const string root = argv[3];
  if (root.find("/.build/") == string::npos && root.compare(0, 5, "/tmp/") != 0) { fprintf(stderr, "refusing root %s\n", root.c_str()); return 2; }
  setFacilitiesLogLevel(-1, ll_none);
  mkdirs(root);
  vector<vfj::JV> lines = vfj::readFile(argv[1]);
  vector<vfj::JV> cases;
  for (const auto& l : lines) {
    if (l.has("cases")) { for (size_t i = 0; i < l["cases"].size(); i++) cases.push_back(l["cases"][i]); }
    else cases.push_back(l);
  }
  lines.clear();
  Stats st;
  vf::Out o(argv[2]);
  for (const auto& c : cases) {
    const string t = c["t"].s;
    string l = passthrough(c);
    l.pop_back();   // re-open the object
    if (t == "sel") {
      st.sel++;
      size_t n = c["ents"].size();
      if (asText) {
        printf("--- sel addr=%02lx has=%ld sl=", c["addr"].num, c["has"].num);
        for (size_t i = 0; i < c["sl"].size(); i++) printf("%02lx", c["sl"][i].num);
        printf(" ents:");
        for (size_t k = 0; k < n; k++) printf(" %s(%ld)", c["ents"][k][0].bytes().c_str(), c["ents"][k][1].num);
        printf("\n");
      }
      l += ",\"r\":[" + runSel(c, root, 1, &st, asText);
      l += "," + runSel(c, root, 2, &st, asText) + "]}";
    } else if (t == "fn") {
      st.fn++;
      MessageMap messages(false, "", false);
      std::map<string, string> defaults;
      symbol_t dest = 0;
      unsigned int sw = 0, hw = 0;
      bool ok = messages.extractDefaultsFromFilename(c["fn"].bytes(), &defaults, &dest, &sw, &hw);
      std::ostringstream r;
      r << ",\"ok\":" << (ok ? 1 : 0) << ",\"dest\":" << static_cast<int>(dest)
        << ",\"sw\":" << (sw == UINT_MAX ? -1 : static_cast<long>(sw)) << ",\"hw\":" << (hw == UINT_MAX ? -1 : static_cast<long>(hw))
        << ",\"ident\":" << jtext(defaults["name"]) << ",\"circuit\":" << jtext(defaults["circuit"])
        << ",\"suffix\":" << jtext(defaults["suffix"]) << ",\"zz\":" << jtext(defaults["zz"]) << "}";
      l += r.str();
      if (asText) printf("--- fn %s -> ok=%d dest=%02x sw=%ld hw=%ld ident=%s circuit=%s suffix=%s\n", c["fn"].bytes().c_str(), ok, dest,
                         sw == UINT_MAX ? -1 : static_cast<long>(sw), hw == UINT_MAX ? -1 : static_cast<long>(hw),
                         defaults["name"].c_str(), defaults["circuit"].c_str(), defaults["suffix"].c_str());
    } else if (t == "pm") {
      st.pm++;
      MessageMap messages(false, "", false);
      ScanHelper scan(&messages, "/nonexistent/", "/nonexistent/", "", "", nullptr, false);
      MasterSymbolString master;
      SlaveSymbolString slave;
      if (c["pre"].num) { master.push_back(0x31); master.push_back(0x32); slave.push_back(0x33); slave.push_back(0x34); }
      bool ok = scan.parseMessage(c["arg"].bytes(), c["oms"].num != 0, &master, &slave);
      vector<uint8_t> m, s;
      for (size_t i = 0; i < master.size(); i++) m.push_back(master[i]);
      for (size_t i = 0; i < slave.size(); i++) s.push_back(slave[i]);
      l += ",\"ok\":" + string(ok ? "1" : "0") + ",\"m\":" + vf::jbytes(m) + ",\"s\":" + vf::jbytes(s) + "}";
      if (asText) printf("--- pm \"%s\" oms=%ld pre=%ld -> ok=%d m=%s s=%s\n", c["arg"].bytes().c_str(), c["oms"].num, c["pre"].num, ok,
                         vf::jbytes(m).c_str(), vf::jbytes(s).c_str());
    } else {
      fprintf(stderr, "unknown case type %s\n", t.c_str());
      return 2;
    }
    l += "\n";
    o.raw(l);
  }
  rmtree(root + "/w");
  printf("{\"cases\":%zu,\"sel\":%ld,\"runs\":%ld,\"chosen\":%ld,\"fn\":%ld,\"pm\":%ld,\"files\":%ld}\n", cases.size(), st.sel, st.runs,
         st.chosen, st.fn, st.pm, st.files);
  return 0;
}
