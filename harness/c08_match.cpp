// C08 harness: loads TLC-generated definition sets into a real MessageMap (CSV lines through
// MessageMap::readLineFromStream, in the add order of the case), calls the real
// MessageMap::find(master, anyDestination, withRead, withWrite, withPassive, onlyAvailable) for every telegram
// of the case and every lookup mode, and logs the identity of the returned definition.
//
// input (text, written by checks/c08.py from the TLC-generated cases):
//   C <case id> <condition value: 0|1> <also query onlyAvailable=false: 0|1>
//   J <abstract case as JSON, echoed verbatim into the record for the TLC judge>
//   L <csv line of definition k>        (k = 1.., in add order)
//   T <hex of QQ ZZ PB SB NN DD..>
//   E
// output record: {"c":<J>,"load":[1|0 per L],"seen":[..per L..],"res":[[packed per mode]..per T..]}
//   packed = sum over m in 0..7 of digit_m * 6^m, m = 4*withRead + 2*withWrite + withPassive,
//   digit: 0 = built-in scan message, 1 = nullptr, 2..4 = definition 1..3 (add order), 5 = any other object
//   modes per telegram: [any=0/oa=1, any=1/oa=1] (+ [any=0/oa=0, any=1/oa=0] when requested)
#include "vf.h"
#include <sstream>
#include <iostream>
#include <fstream>
#include <map>
#include "lib/ebus/message.h"
#include "lib/utils/log.h"

using namespace ebusd;

static time_t g_now = 1000;
extern "C" time_t time(time_t* t) { if (t) *t = g_now; return g_now; }

namespace ebusd {
struct VerifAccess {
  static Message* scan(MessageMap* m) { return m->m_scanMessage; }
  static const std::vector<symbol_t>& id(const Message* m) { return m->m_id; }
  static const std::vector<std::vector<symbol_t> >& ids(const ChainedMessage* m) { return m->m_ids; }
  static Condition* cond(const Message* m) { return m->m_condition; }
};

class NoResolver : public Resolver {
 public:
  DataFieldTemplates* m_templates;
  DataFieldTemplates* getTemplates(const string& filename) override { return m_templates; }
  result_t loadDefinitionsFromConfigPath(FileReader* reader, const string& filename,
      map<string, string>* defaults, string* errorDescription, bool replace = false) override {
    return RESULT_ERR_NOTFOUND;
  }
};
}  // namespace ebusd

struct Case {
  std::string id, json;
  int ct = 0, oa0 = 0;
  std::vector<std::string> lines;
  std::vector<std::string> tels;
};

static DataFieldTemplates* g_templates;
static NoResolver g_resolver;

static std::string seenOf(Message* m) {
  // attributes of the loaded object: [write, passive, src, dst, conditional, [[id bytes incl. PB SB] per part]]
  std::string o = "[";
  char b[64];
  snprintf(b, sizeof b, "%d,%d,%u,%u,%d,[", m->isWrite() ? 1 : 0, m->isPassive() ? 1 : 0,
           (unsigned)m->getSrcAddress(), (unsigned)m->getDstAddress(), VerifAccess::cond(m) ? 1 : 0);
  o += b;
  if (m->getCount() > 1) {
    const auto& ids = VerifAccess::ids(static_cast<ChainedMessage*>(m));
    for (size_t i = 0; i < ids.size(); i++) {
      if (i) o += ",";
      vf::jbytes(&o, ids[i].data(), ids[i].size());
    }
  } else {
    const auto& id = VerifAccess::id(m);
    vf::jbytes(&o, id.data(), id.size());
  }
  return o + "]]";
}

static void runCase(const Case& c, vf::Out* out) {
  MessageMap* map = new MessageMap(false, "", false);  // deleteData=false: the scan fields are a shared singleton
  map->setResolver(&g_resolver);
  unsigned int lineNo = 0;
  std::vector<std::string> row;
  std::string err;
  {
    std::istringstream hdr("#");
    map->readLineFromStream(&hdr, "c08", false, &lineNo, &row, &err, false, nullptr, nullptr);
  }
  // control message + condition [c] = (ctl flag == 1)
  const char* pre[] = {"r,ctl,flag,,,08,b5ff,,,,UCH", "*[c],ctl,flag,,,,1"};
  for (const char* l : pre) {
    std::istringstream is(l);
    result_t r = map->readLineFromStream(&is, "c08", false, &lineNo, &row, &err, false, nullptr, nullptr);
    if (r != RESULT_OK) { fprintf(stderr, "preamble line failed: %s: %s %s\n", l, getResultCode(r), err.c_str()); exit(2); }
  }
  std::map<std::string, int> byName;
  std::string rec = "{\"c\":" + c.json + ",\"load\":[";
  std::vector<Message*> objs;
  for (size_t k = 0; k < c.lines.size(); k++) {
    std::istringstream is(c.lines[k]);
    size_t before = map->size();
    result_t r = map->readLineFromStream(&is, "c08", false, &lineNo, &row, &err, false, nullptr, nullptr);
    if (k) rec += ",";
    rec += r == RESULT_OK ? "1" : "0";
    char nm[16];
    snprintf(nm, sizeof nm, "m%zu", k + 1);
    byName[nm] = static_cast<int>(k + 1);
    Message* m = nullptr;
    if (r == RESULT_OK) {
      if (map->size() != before + 1) { fprintf(stderr, "line did not create exactly one message: %s\n", c.lines[k].c_str()); exit(2); }
      std::deque<Message*> found;
      map->findAll("c", nm, "*", true, true, true, true, true, false, 0, 0, false, &found);
      if (found.size() != 1) { fprintf(stderr, "cannot identify message %s (%zu)\n", nm, found.size()); exit(2); }
      m = found.front();
    }
    objs.push_back(m);
  }
  rec += "],\"seen\":[";
  for (size_t k = 0; k < objs.size(); k++) {
    if (k) rec += ",";
    rec += objs[k] ? seenOf(objs[k]) : "[]";
  }
  rec += "],\"res\":[";
  // resolve conditions, then let the control message take its value at a later second (one change only)
  std::string rerr;
  result_t rr = map->resolveConditions(false, &rerr);
  if (rr != RESULT_OK) { fprintf(stderr, "resolveConditions: %s %s\n", getResultCode(rr), rerr.c_str()); exit(2); }
  g_now += 10;
  {
    MasterSymbolString mm; SlaveSymbolString ss;
    mm.parseHex("3108b5ff00");
    ss.parseHex(c.ct ? "0101" : "0100");
    Message* ctl = map->find(mm);
    if (!ctl) { fprintf(stderr, "control message not found\n"); exit(2); }
    ctl->storeLastData(mm, ss);
  }
  g_now += 10;
  Message* scan = VerifAccess::scan(map);
  for (size_t ti = 0; ti < c.tels.size(); ti++) {
    MasterSymbolString master;
    if (master.parseHex(c.tels[ti]) != RESULT_OK) { fprintf(stderr, "bad telegram %s\n", c.tels[ti].c_str()); exit(2); }
    if (ti) rec += ",";
    rec += "[";
    int nOa = c.oa0 ? 2 : 1;
    bool first = true;
    for (int oaI = 0; oaI < nOa; oaI++) {
      bool oa = oaI == 0;
      for (int any = 0; any < 2; any++) {
        long packed = 0, mul = 1;
        for (int m = 0; m < 8; m++) {
          Message* f = map->find(master, any != 0, (m & 4) != 0, (m & 2) != 0, (m & 1) != 0, oa);
          // digits (base 6): 0 scan, 1 none, 2..4 definitions 1..3 of the case, 5 any other object
          int digit;
          if (f == nullptr) digit = 1;
          else if (f == scan) digit = 0;
          else {
            digit = 5;
            for (size_t k = 0; k < objs.size() && k < 3; k++) if (objs[k] == f) digit = static_cast<int>(k + 2);
          }
          packed += digit * mul;
          mul *= 6;
        }
        char b[32];
        snprintf(b, sizeof b, first ? "%ld" : ",%ld", packed);
        first = false;
        rec += b;
      }
    }
    rec += "]";
  }
  rec += "]}";
  out->raw(rec);
  out->nl();
  delete map;
}

int main(int argc, char** argv) {
  vf::installTerminate();
  if (argc < 3) { fprintf(stderr, "usage: c08_match cases.txt recs.ndjson\n"); return 2; }
  setFacilitiesLogLevel(0xffff, ll_none);
  g_templates = new DataFieldTemplates();
  g_resolver.m_templates = g_templates;
  std::ifstream in(argv[1]);
  if (!in) { perror(argv[1]); return 2; }
  vf::Out out(argv[2]);
  std::string line;
  Case cur;
  size_t n = 0;
  while (std::getline(in, line)) {
    if (line.empty()) continue;
    char tag = line[0];
    std::string rest = line.size() > 2 ? line.substr(2) : "";
    switch (tag) {
      case 'C': {
        cur = Case();
        std::istringstream is(rest);
        is >> cur.id >> cur.ct >> cur.oa0;
        break;
      }
      case 'J': cur.json = rest; break;
      case 'L': cur.lines.push_back(rest); break;
      case 'T': cur.tels.push_back(rest); break;
      case 'E': runCase(cur, &out); n++; break;
      default: fprintf(stderr, "bad input line: %s\n", line.c_str()); return 2;
    }
  }
  printf("cases=%zu\n", n);
  return 0;
}
