// C10: black-box discovery of field ownership in the real DataField/DataFieldSet objects.
// Input : case file written by TLC (spec/C10Cases.tla): one field sequence per line with P's admissible ownership map(s).
// Output: one ndjson record per case with what the real code did (lengths, bits changed by encoding one field,
//         bits each field's decoding depends on, composition/alone/round-trip mismatch counts). TLC judges them.
// No ebusd code lives here; the field sets are built from CSV text through MappedFileReader -> DataField::create.
#include "vf.h"
#include <map>
#include <sstream>
#include <iostream>
#include <fstream>
#include <algorithm>
#include "lib/ebus/data.h"

using namespace ebusd;
using std::string; using std::vector; using std::map; using std::ostringstream; using std::istringstream;

// ---------------------------------------------------------------------------------------------- tiny JSON reader
struct J {
  enum T { JNUM, JSTR, JARR, JOBJ } t = JNUM;
  long n = 0; string s; vector<J> a; vector<string> keys;   // OBJ: keys[i] -> a[i]
  const J& operator[](const char* k) const { for (size_t i = 0; i < keys.size(); i++) if (keys[i] == k) return a[i];
    fprintf(stderr, "missing key %s\n", k); exit(2); }
};
static void jws(const char*& p) { while (*p == ' ' || *p == '\t') p++; }
static J jparse(const char*& p) {
  J v; jws(p);
  if (*p == '{') { v.t = J::JOBJ; p++; jws(p); if (*p == '}') { p++; return v; }
    for (;;) { J k = jparse(p); jws(p); if (*p != ':') { fprintf(stderr, "json: ':' expected\n"); exit(2); } p++; v.keys.push_back(k.s); v.a.push_back(jparse(p)); jws(p);
      if (*p == ',') { p++; continue; } if (*p == '}') { p++; return v; } fprintf(stderr, "json: '}' expected\n"); exit(2); } }
  if (*p == '[') { v.t = J::JARR; p++; jws(p); if (*p == ']') { p++; return v; }
    for (;;) { v.a.push_back(jparse(p)); jws(p); if (*p == ',') { p++; continue; } if (*p == ']') { p++; return v; } fprintf(stderr, "json: ']' expected\n"); exit(2); } }
  if (*p == '"') { v.t = J::JSTR; p++; while (*p && *p != '"') { if (*p == '\\') p++; v.s.push_back(*p++); } p++; return v; }
  char* e; v.n = strtol(p, &e, 10); if (e == p) { fprintf(stderr, "json: value expected at %.20s\n", p); exit(2); } p = e; return v;
}

// ---------------------------------------------------------------------------------------------- building fields from CSV text
class Reader : public MappedFileReader {
 public:
  explicit Reader(DataFieldTemplates* t) : MappedFileReader(true), m_templates(t), m_fields(nullptr) {}
  result_t getFieldMap(const string& preferLanguage, vector<string>* row, string* errorDescription) const override {
    if (row->empty()) { for (auto s : {"*name", "part", "type", "divisor/values", "unit", "comment"}) row->push_back(s); }
    return RESULT_OK;
  }
  result_t addFromFile(const string& filename, unsigned int lineNo, map<string, string>* row,
                       vector< map<string, string> >* subRows, string* errorDescription, bool replace) override {
    return DataField::create(false, false, false, MAX_POS, m_templates, subRows, errorDescription, &m_fields);
  }
  DataFieldTemplates* m_templates;
  const DataField* m_fields;
};
static DataFieldTemplates* g_templates;
static Reader* g_reader;
static const DataField* createFromCsv(const string& def, result_t* rc) {
  unsigned int lineNo = 1; vector<string> row; string err;
  g_reader->m_fields = nullptr;
  istringstream in(def);
  *rc = g_reader->readLineFromStream(&in, "c10", false, &lineNo, &row, &err, false, nullptr, nullptr);
  const DataField* f = g_reader->m_fields; g_reader->m_fields = nullptr;
  if (*rc != RESULT_OK && f) { delete f; f = nullptr; }
  return f;
}

// ---------------------------------------------------------------------------------------------- symbol strings
struct Buf {  // data of one message part in a real Master/SlaveSymbolString
  bool master; MasterSymbolString m; SlaveSymbolString s;
  explicit Buf(bool isMaster) : master(isMaster) {}
  SymbolString& str() { return master ? static_cast<SymbolString&>(m) : static_cast<SymbolString&>(s); }
  void set(const vector<uint8_t>& d) {
    SymbolString& x = str(); x.clear();
    if (master) { x.push_back(0x10); x.push_back(0x08); x.push_back(0xb5); x.push_back(0x09); }
    x.push_back((symbol_t)d.size());
    for (uint8_t b : d) x.push_back(b);
  }
  void fresh() { SymbolString& x = str(); x.clear(); if (master) { x.push_back(0x10); x.push_back(0x08); x.push_back(0xb5); x.push_back(0x09); } }
  vector<uint8_t> data() { SymbolString& x = str(); vector<uint8_t> d; size_t n = x.getCalculatedDataSize(); const SymbolString& c = x;
    for (size_t i = 0; i < n; i++) d.push_back(c.dataAt(i)); return d; }
};

// ---------------------------------------------------------------------------------------------- case
struct Fld {
  int kind; string type, name, unit, comment; bool master, ign; int b, n, mask;   // b/n/mask: P's ownership (from the case)
  const DataField* alone = nullptr;
  vector<string> vals; vector<vector<uint8_t>> raws;
  int jsonIndex = 0;
};
static const OutputFormat FMT[] = { OF_NONE, OF_NAMES|OF_UNITS|OF_COMMENTS, OF_NUMERIC, OF_JSON,
  OF_JSON|OF_NAMES|OF_UNITS|OF_COMMENTS|OF_ALL_ATTRS, OF_JSON|OF_SHORT };
static const int NFMT = 6;     // + pseudo format NFMT = numeric raw value read
static const uint8_t CAND[][3] = { {0x00,0x00,0x00}, {0x55,0x55,0x55}, {0xAA,0xAA,0xAA}, {0x99,0x99,0x99}, {0x66,0x66,0x66},
  {0x12,0x03,0x15}, {0x0D,0x0C,0x2A}, {0x41,0x5A,0x00}, {0x3E,0x25,0x00}, {0x2A,0x01,0x01}, {0x80,0x7F,0x01}, {0x7F,0x80,0x01},
  {0xFF,0x7F,0x33}, {0x01,0x01,0x01}, {0x1F,0x0A,0x63}, {0x0A,0x05,0x40}, {0x64,0x0E,0x1C}, {0x15,0x2A,0x54}, {0x2A,0x15,0x2B} };

static string rd(const DataField* f, SymbolString& s, const char* name, int fmt, int outIndex = -1) {
  char b[24];
  if (fmt == NFMT) { unsigned int v = 0; result_t rc = f->read(s, 0, name, -1, &v); snprintf(b, sizeof b, "%d|%u", rc, rc == RESULT_OK ? v : 0); return b; }
  ostringstream o;
  result_t rc = f->read(s, 0, false, name, -1, FMT[fmt], outIndex, &o);
  snprintf(b, sizeof b, "%d|", rc);
  return string(b) + o.str();
}
static int rcOf(const string& r) { return atoi(r.c_str()); }
static string textOf(const string& r) { return r.substr(r.find('|') + 1); }

struct Dbg { FILE* f; long n = 0; void note(int id, const char* what, const string& a, const string& b) {
  if (n++ < 2000) fprintf(f, "%d %s: [%s] vs [%s]\n", id, what, a.c_str(), b.c_str()); } };

static string pairs(const vector<int>& masks) {
  string o = "["; char b[32]; bool first = true;
  for (size_t i = 0; i < masks.size(); i++) if (masks[i]) { snprintf(b, sizeof b, first ? "[%zu,%d]" : ",[%zu,%d]", i, masks[i]); o += b; first = false; }
  return o + "]";
}

static void runCase(int id, const J& c, vf::Out& out, Dbg& dbg, uint64_t seed) {
  size_t nf = c["k"].a.size();
  vector<Fld> F(nf);
  // P's admissible ownership maps (more than one only in the unspecified cases); which of them the code realises is
  // decided below from what the real write produces - everything else is then checked against that map
  const vector<J>& alts = c["alts"].a;
  size_t alt = 0;
  int len[2] = {0, 0}, fix[2] = {0, 0};   // index 0 = master, 1 = slave
  string def; char nb[64];
  int jidx = 0;
  for (size_t i = 0; i < nf; i++) {
    Fld& f = F[i];
    f.kind = (int)c["k"].a[i].n; f.type = c["t"].a[i].s; f.master = c["p"].a[i].s == "m";
    f.ign = f.type.compare(0, 3, "IGN") == 0;
    f.b = 0; f.n = (int)alts[0]["own"].a[i].a[1].n; f.mask = (int)alts[0]["own"].a[i].a[2].n;   // n, mask: same in all maps
    if (!f.ign) { snprintf(nb, sizeof nb, "f%zu", i + 1); f.name = nb; snprintf(nb, sizeof nb, "u%zu", i + 1); f.unit = nb; snprintf(nb, sizeof nb, "c%zu", i + 1); f.comment = nb; }
    f.jsonIndex = jidx; if (!f.ign) jidx++;
    string one = f.name + "," + (f.master ? "m" : "s") + "," + f.type + ",," + f.unit + "," + f.comment;
    def += (i ? "," : "") + one;
    result_t rc; f.alone = createFromCsv(one, &rc);
  }
  result_t cr;
  const DataField* set = createFromCsv(def, &cr);
  string rec; char b[256];
  snprintf(b, sizeof b, "{\"id\":%d,\"k\":[", id); rec = b;
  for (size_t i = 0; i < nf; i++) { snprintf(b, sizeof b, i ? ",%d" : "%d", F[i].kind); rec += b; }
  rec += "],\"p\":[";
  for (size_t i = 0; i < nf; i++) { rec += i ? "," : ""; rec += F[i].master ? "\"m\"" : "\"s\""; }
  snprintf(b, sizeof b, "],\"cr\":%d", set ? (int)cr : (cr == RESULT_OK ? -1 : (int)cr)); rec += b;
  string ownStr = "[";   // filled once the map is chosen
  bool aloneOk = true; for (auto& f : F) if (!f.alone) aloneOk = false;
  if (!set || !aloneOk) {
    rec += ",\"own\":[],\"na\":0,\"glf\":[],\"glx\":[],\"g31\":[],\"wr\":[],\"wl\":[],\"wn\":[],\"enc\":[],\"sens\":[],\"nv\":[],\"cm\":0,\"cmf\":0,\"am\":0,\"rt\":0,\"be\":0,\"xe\":0,\"le\":0}\n";
    out.raw(rec); for (auto& f : F) delete f.alone; delete set; return;
  }
  // --- values: decode candidate byte patterns with the stand-alone field, keep those that re-encode identically -----
  for (auto& f : F) {
    if (f.ign) continue;
    vector<int> seen(f.n > 0 ? f.n : 1, 0);
    for (auto& cand : CAND) {
      vector<uint8_t> raw; for (int j = 0; j < f.n; j++) raw.push_back(cand[j % 3] & f.mask);
      Buf d(f.master); d.set(raw);
      string r = rd(f.alone, d.str(), nullptr, 0);
      if (rcOf(r) != RESULT_OK) continue;
      string v = textOf(r);
      if (v.empty() || v == "-" || v.find(';') != string::npos) continue;
      if (std::find(f.vals.begin(), f.vals.end(), v) != f.vals.end()) continue;
      Buf w(f.master); w.fresh(); istringstream in(v); size_t used = 0;
      if (f.alone->write(UI_FIELD_SEPARATOR, 0, &in, &w.str(), &used) != RESULT_OK) continue;
      vector<uint8_t> back = w.data(); if (back != raw) continue;
      // keep a value when it toggles a bit (relative to the first value) that no kept value toggled so far
      bool adds = f.raws.size() < 2;
      if (!adds) for (int j = 0; j < f.n; j++) if ((raw[j] ^ f.raws[0][j]) & ~seen[j]) adds = true;
      if (!adds) continue;
      if (!f.raws.empty()) for (int j = 0; j < f.n; j++) seen[j] |= raw[j] ^ f.raws[0][j];
      f.vals.push_back(v); f.raws.push_back(raw);
    }
  }
  // --- encoding: vary one field at a time, diff the bytes ---------------------------------------------
  vector<vector<int>> enc(nf), sens(nf);
  for (size_t i = 0; i < nf; i++) { enc[i].assign(64, 0); sens[i].assign(64, 0); }
  long cm = 0, am = 0, rt = 0, be = 0, xe = 0, le = 0; int cmf = 0;
  int wr[2] = {0, 0}; size_t wl[2] = {0, 0}, wn[2] = {0, 0};
  auto encode = [&](const vector<int>& pick, vector<uint8_t> res[2], int rcs[2], size_t useds[2]) {
    for (int q = 0; q < 2; q++) {
      string in; bool first = true;
      for (size_t i = 0; i < nf; i++) if (F[i].master == (q == 0) && !F[i].ign) { if (!first) in += UI_FIELD_SEPARATOR; first = false;
        in += F[i].vals.empty() ? string("") : F[i].vals[pick[i] % F[i].vals.size()]; }
      Buf w(q == 0); w.fresh(); istringstream is(in); size_t used = 0;
      rcs[q] = set->write(UI_FIELD_SEPARATOR, 0, &is, &w.str(), &used);
      useds[q] = used; res[q] = w.data();
    }
  };
  for (int base = 0; base < 2; base++) {
    vector<int> pick(nf, base);
    vector<uint8_t> B0[2]; int rc0[2]; size_t u0[2];
    encode(pick, B0, rc0, u0);
    if (base == 0) for (int q = 0; q < 2; q++) { wr[q] = rc0[q]; wl[q] = u0[q]; wn[q] = B0[q].size(); }
    // round trip: decoding what was encoded gives the values back (master fields, then slave fields)
    {
      string expect, got; bool first = true, ok = true;
      for (int q = 0; q < 2; q++) {
        for (size_t i = 0; i < nf; i++) if (F[i].master == (q == 0) && !F[i].ign) { if (!first) expect += UI_FIELD_SEPARATOR; first = false;
          expect += F[i].vals.empty() ? string("") : F[i].vals[pick[i] % F[i].vals.size()]; }
        Buf d(q == 0); d.set(B0[q]); ostringstream o;
        result_t r = set->read(d.str(), 0, !got.empty(), nullptr, -1, OF_NONE, -1, &o);
        if (r < RESULT_OK) ok = false;
        got += o.str();
      }
      if (!ok || rc0[0] != RESULT_OK || rc0[1] != RESULT_OK || got != expect) { rt++; dbg.note(id, "roundtrip", expect, got); }
    }
    for (size_t i = 0; i < nf; i++) {
      if (F[i].ign) continue;
      for (size_t a = 0; a < F[i].vals.size(); a++) {
        if ((int)(a % F[i].vals.size()) == (int)(base % F[i].vals.size())) continue;
        vector<int> p2 = pick; p2[i] = (int)a;
        vector<uint8_t> B[2]; int rcs[2]; size_t us[2];
        encode(p2, B, rcs, us);
        for (int q = 0; q < 2; q++) {
          if (rcs[q] != rc0[q] || B[q].size() != B0[q].size() || us[q] != u0[q]) { le++; continue; }
          for (size_t x = 0; x < B[q].size(); x++) {
            int d = B[q][x] ^ B0[q][x];
            if (!d) continue;
            if (F[i].master == (q == 0)) { if (x < 64) enc[i][x] |= d; } else xe++;
          }
        }
      }
    }
  }
  // --- which admissible map does the code realise?  The one with the length the real write produced and with every field
  //     at the byte where its encoding showed up (first such map; else length only; else the first map).
  {
    auto lenOk = [&](size_t v) { return (size_t)alts[v]["len"].a[0].n == wl[0] && (size_t)alts[v]["len"].a[1].n == wl[1]; };
    auto posOk = [&](size_t v) {
      for (size_t i = 0; i < nf; i++) {
        int first = -1; for (int x = 0; x < 64; x++) if (enc[i][x]) { first = x; break; }
        if (first >= 0 && first != (int)alts[v]["own"].a[i].a[0].n) return false;
      }
      return true; };
    bool found = false;
    for (size_t v = 0; v < alts.size() && !found; v++) if (lenOk(v) && posOk(v)) { alt = v; found = true; }
    for (size_t v = 0; v < alts.size() && !found; v++) if (lenOk(v)) { alt = v; found = true; }
    for (int q = 0; q < 2; q++) { len[q] = (int)alts[alt]["len"].a[q].n; fix[q] = (int)alts[alt]["fix"].a[q].n; }
    for (size_t i = 0; i < nf; i++) F[i].b = (int)alts[alt]["own"].a[i].a[0].n;
  }
  // --- the three length notions -------------------------------------------------------------
  const PartType PT[2] = { pt_masterData, pt_slaveData };
  snprintf(b, sizeof b, ",\"glf\":[%zu,%zu],\"glx\":[%zu,%zu],\"g31\":[%zu,%zu]",
    set->getLength(PT[0], fix[0]), set->getLength(PT[1], fix[1]), set->getLength(PT[0], len[0]), set->getLength(PT[1], len[1]),
    set->getLength(PT[0], MAX_LEN), set->getLength(PT[1], MAX_LEN));
  rec += b;
  // --- decoding: per-field results (selected by name through the set), under every single-bit flip ---------------------
  vf::Rng rng(seed * 1000003ULL + (uint64_t)id);
  for (int q = 0; q < 2; q++) {
    int n = len[q];
    vector<size_t> idx; for (size_t i = 0; i < nf; i++) if (F[i].master == (q == 0)) idx.push_back(i);
    if (idx.empty()) continue;
    for (int base = 0; base < 4; base++) {
      // base 0/1: valid values (unowned bits 0 / 1); base 2/3: seeded random bytes, half of them the special values 00 / FF
      // (null / replacement values have their own formatting paths)
      vector<uint8_t> D(n, base == 1 ? 0xFF : 0x00);
      if (base >= 2) { for (auto& x : D) { unsigned r = rng.below(4); x = r == 0 ? 0x00 : r == 1 ? 0xFF : (uint8_t)rng.below(256); } }
      else {
        for (size_t i : idx) {
          const Fld& f = F[i];
          for (int j = 0; j < f.n && f.b + j < n; j++) {
            uint8_t v = f.ign ? (base ? 0xFF : 0xA5) : (f.raws.empty() ? 0 : f.raws[base % f.raws.size()][j]);
            D[f.b + j] = (uint8_t)((D[f.b + j] & ~f.mask) | (v & f.mask));
          }
        }
      }
      Buf d(q == 0); d.set(D);
      vector<int> fmts;
      if (base == 0) { for (int x = 0; x <= NFMT; x++) fmts.push_back(x); } else if (base == 1) { fmts = {0, 3, NFMT}; }
      else if (base == 2) { fmts = {0, NFMT}; } else { fmts = {1, 3}; }
      // results on the unmodified base
      map<int, vector<string>> R0;
      auto composite = [&](int fmt, const vector<string>& R, const char* what) {   // whole decode == join of the per-field decodes
        if (fmt == NFMT) return;
        string whole = rd(set, d.str(), nullptr, fmt);
        int erc = RESULT_EMPTY; string etext; bool first = true, failed = false;
        vector<std::pair<size_t, size_t>> ends;   // (end of the field's segment in etext, field index)
        for (size_t x = 0; x < idx.size(); x++) {
          if (F[idx[x]].ign) continue;
          int rc = rcOf(R[x]);
          if (rc < 0) { erc = rc; failed = true; break; }
          if (rc == RESULT_EMPTY) continue;
          erc = RESULT_OK;
          if (!first) etext += (FMT[fmt] & OF_JSON) ? "," : ";";
          first = false; etext += textOf(R[x]);
          ends.push_back(std::make_pair(etext.size(), idx[x]));
        }
        if (rcOf(whole) != erc || (!failed && textOf(whole) != etext)) {
          cm++; dbg.note(id, what, whole, etext);
          if (!cmf) {   // which field's text is the first to differ
            string wt = textOf(whole); size_t d = 0;
            while (d < wt.size() && d < etext.size() && wt[d] == etext[d]) d++;
            cmf = ends.empty() ? (int)idx[0] + 1 : (int)ends.back().second + 1;
            for (auto& e : ends) if (d < e.first) { cmf = (int)e.second + 1; break; }
          }
        }
      };
      for (int fmt : fmts) {
        vector<string>& R = R0[fmt];
        for (size_t i : idx) R.push_back(F[i].ign ? string() : rd(set, d.str(), F[i].name.c_str(), fmt));
        composite(fmt, R, "whole-vs-fields");
        if (base < 2 && fmt == 0 && rcOf(rd(set, d.str(), nullptr, 0)) < 0) { be++; dbg.note(id, "base-decode-failed", rd(set, d.str(), nullptr, 0), ""); }
        // each field alone, from its own bytes only
        for (size_t x = 0; x < idx.size(); x++) {
          const Fld& f = F[idx[x]];
          if (f.ign) continue;
          vector<uint8_t> ob; for (int j = 0; j < f.n && f.b + j < n; j++) ob.push_back(D[f.b + j]);
          Buf a(f.master); a.set(ob);
          bool idxFmt = fmt != NFMT && (FMT[fmt] & OF_JSON) && !(FMT[fmt] & OF_NAMES);
          string r = rd(f.alone, a.str(), nullptr, fmt, idxFmt ? f.jsonIndex : -1);
          if (r != R[x]) { am++; dbg.note(id, "alone-vs-set", r, R[x]); }
        }
      }
      // every single-bit flip
      SymbolString& s = d.str();
      for (int byte = 0; byte < n; byte++) for (int bit = 0; bit < 8; bit++) {
        s.dataAt(byte) ^= (symbol_t)(1 << bit);
        for (int fmt : fmts) {
          vector<string> R;
          const vector<string>& RB = R0[fmt];
          for (size_t x = 0; x < idx.size(); x++) {
            const Fld& f = F[idx[x]];
            if (f.ign) { R.push_back(string()); continue; }
            R.push_back(rd(set, s, f.name.c_str(), fmt));
            if (R[x] != RB[x] && byte < 64) sens[idx[x]][byte] |= 1 << bit;
          }
          composite(fmt, R, "whole-vs-fields(flipped)");
        }
        s.dataAt(byte) ^= (symbol_t)(1 << bit);
      }
    }
  }
  for (size_t i = 0; i < nf; i++) { snprintf(b, sizeof b, i ? ",[%d,%d,%d]" : "[%d,%d,%d]", F[i].b, F[i].n, F[i].mask); ownStr += b; }
  rec += ",\"own\":" + ownStr + "]";
  snprintf(b, sizeof b, ",\"na\":%zu", alts.size()); rec += b;
  snprintf(b, sizeof b, ",\"wr\":[%d,%d],\"wl\":[%zu,%zu],\"wn\":[%zu,%zu],\"enc\":[", wr[0], wr[1], wl[0], wl[1], wn[0], wn[1]); rec += b;
  for (size_t i = 0; i < nf; i++) { rec += i ? "," : ""; rec += pairs(enc[i]); }
  rec += "],\"sens\":[";
  for (size_t i = 0; i < nf; i++) { rec += i ? "," : ""; rec += pairs(sens[i]); }
  rec += "],\"nv\":[";
  for (size_t i = 0; i < nf; i++) { snprintf(b, sizeof b, i ? ",%zu" : "%zu", F[i].vals.size()); rec += b; }
  snprintf(b, sizeof b, "],\"cm\":%ld,\"cmf\":%d,\"am\":%ld,\"rt\":%ld,\"be\":%ld,\"xe\":%ld,\"le\":%ld}\n", cm, cmf, am, rt, be, xe, le); rec += b;
  out.raw(rec);
  for (auto& f : F) delete f.alone;
  delete set;
}

int main(int argc, char** argv) {
  vf::installTerminate();
  if (argc < 5) { fprintf(stderr, "usage: %s cases.ndjson out.ndjson firstLine count\n", argv[0]); return 2; }
  long first = atol(argv[3]), count = atol(argv[4]);
  g_templates = new DataFieldTemplates();
  g_reader = new Reader(g_templates);
  { unsigned int lineNo = 0; vector<string> row; string err; istringstream hdr("#");
    g_reader->readLineFromStream(&hdr, "c10", false, &lineNo, &row, &err, false, nullptr, nullptr); }
  std::ifstream in(argv[1]);
  if (!in) { perror(argv[1]); return 2; }
  vf::Out out(argv[2]);
  Dbg dbg; string dn = string(argv[2]) + ".dbg"; dbg.f = fopen(dn.c_str(), "w");
  uint64_t seed = vf::seedFromEnv();
  string line; long ln = 0, done = 0;
  while (std::getline(in, line)) {
    ln++;
    if (ln < first) continue;
    if (ln >= first + count) break;
    const char* p = line.c_str();
    J c = jparse(p);
    runCase((int)c["id"].n, c, out, dbg, seed);
    done++;
  }
  fclose(dbg.f);
  fprintf(stdout, "%ld\n", done);
  return 0;
}
