// In-process ebusd daemon for command-level checks (C16 and the command-semantics growth check): fake transport with a
// scripted slave, stepped protocol handler, world construction from TLC-generated case records, client connections.
// Test scaffolding only - no ebusd code lives here.
#ifndef VERIF_C16_DAEMON_H_
#define VERIF_C16_DAEMON_H_
#include "vf.h"
#include <map>
#include <deque>
#include <sstream>
#include <fstream>
#include <algorithm>
#include "ebusd/main.h"
#include "ebusd/mainloop.h"
#include "ebusd/bushandler.h"
#include "ebusd/scan.h"
#include "ebusd/request.h"
#include "ebusd/datahandler.h"
#include "lib/ebus/protocol_direct.h"
#include "lib/ebus/device_trans.h"
#include "lib/ebus/transport.h"
#include "lib/ebus/message.h"
#include "lib/utils/log.h"

using namespace ebusd;
using std::string;
using std::vector;

// ---------------------------------------------------------------------------------------------------------------------
// virtual wall clock for time(): stands still unless the harness advances it (cache ages become controlled inputs; the
// periodic tasks of MainLoop::run never fire).  clockGettime stays real: it is only used for condition-variable waits.
static volatile time_t g_now = 1700000000;
extern "C" time_t time(time_t* t) { time_t n = g_now; if (t) *t = n; return n; }

// ---------------------------------------------------------------------------------------------------------------------
// minimal JSON reader for the case files written by TLC (objects, arrays, ints, strings)
struct JV {
  enum T { NUL, INT, STR, ARR, OBJ } t = NUL;
  long i = 0; string s; vector<JV> a; std::map<string, JV> o;
  const JV& operator[](const char* k) const { static JV nul; auto it = o.find(k); return it == o.end() ? nul : it->second; }
  const JV& operator[](size_t k) const { return a[k]; }
  size_t size() const { return a.size(); }
};
struct JP {
  const char* p;
  void ws() { while (*p == ' ' || *p == '\t' || *p == '\n' || *p == '\r') p++; }
  JV val() {
    ws(); JV v;
    if (*p == '{') { p++; v.t = JV::OBJ; ws(); if (*p == '}') { p++; return v; }
      while (true) { ws(); JV k = val(); ws(); if (*p != ':') fail(); p++; v.o[k.s] = val(); ws(); if (*p == ',') { p++; continue; } if (*p == '}') { p++; break; } fail(); }
    } else if (*p == '[') { p++; v.t = JV::ARR; ws(); if (*p == ']') { p++; return v; }
      while (true) { v.a.push_back(val()); ws(); if (*p == ',') { p++; continue; } if (*p == ']') { p++; break; } fail(); }
    } else if (*p == '"') { p++; v.t = JV::STR; while (*p != '"') { if (*p == '\\') p++; if (!*p) fail(); v.s.push_back(*p++); } p++;
    } else if (*p == '-' || (*p >= '0' && *p <= '9')) { v.t = JV::INT; char* e; v.i = strtol(p, &e, 10); p = e;
    } else if (!strncmp(p, "true", 4)) { v.t = JV::INT; v.i = 1; p += 4;
    } else if (!strncmp(p, "false", 5)) { v.t = JV::INT; v.i = 0; p += 5;
    } else if (!strncmp(p, "null", 4)) { p += 4;
    } else fail();
    return v;
  }
  void fail() { fprintf(stderr, "HARNESS: bad json near: %.40s\n", p); exit(2); }
};
static vector<JV> readNdjson(const char* path) {
  std::ifstream f(path); if (!f) { perror(path); exit(2); }
  vector<JV> r; string line;
  while (std::getline(f, line)) { if (line.empty()) continue; JP p{line.c_str()}; r.push_back(p.val()); }
  return r;
}
static string codes(const JV& v) { string s; for (auto& c : v.a) s.push_back(static_cast<char>(c.i)); return s; }

// ---------------------------------------------------------------------------------------------------------------------
// the fake transport: an idle bus (SYN whenever nothing else is pending), echo of everything written, and a scripted
// slave at any slave address that ACKs a complete master telegram and answers with the data configured for its id.
struct Telegram { vector<uint8_t> bytes; };  // unescaped QQ ZZ PB SB NN DD.. (without CRC)
class FakeTransport : public Transport {
 public:
  FakeTransport() : Transport("fake", 0), m_open(false), m_phase(0) {}
  string getTransportInfo() const override { return "fake"; }
  result_t open() override { m_open = true; return m_listener ? m_listener->notifyTransportStatus(true) : RESULT_OK; }
  void close() override { m_open = false; }
  bool isValid() override { return m_open; }
  result_t write(const uint8_t* data, size_t len) override {
    for (size_t i = 0; i < len; i++) onWrite(data[i]);
    return RESULT_OK;
  }
  result_t read(unsigned int timeout, const uint8_t** data, size_t* len) override {
    if (m_rx.empty()) { m_rx.push_back(SYN); m_cur.clear(); m_phase = 0; m_idleSyn++; }
    m_buf.assign(m_rx.begin(), m_rx.end());
    *data = m_buf.data(); *len = m_buf.size();
    return RESULT_OK;
  }
  void readConsumed(size_t len) override { while (len-- && !m_rx.empty()) m_rx.pop_front(); }
  result_t openInternal() override { return RESULT_OK; }

  // answer data (DD.. of the slave part) by master "PB SB ID.." key
  // traffic of other participants that ebusd only listens to (already escaped wire bytes)
  void feed(const vector<uint8_t>& wire) { for (uint8_t b : wire) m_rx.push_back(b); }
  bool pending() const { return !m_rx.empty(); }
  std::map<vector<uint8_t>, vector<uint8_t>> m_answers;
  vector<vector<uint8_t>> m_written;   // every complete master telegram seen (unescaped, without CRC)
  vector<vector<uint8_t>> m_writtenAns;  // parallel to m_written: the slave data DD.. answered to it (empty if none)
  size_t m_writtenBytes = 0;           // every byte ebusd asked the transport to write
  size_t m_idleSyn = 0;
  bool m_dynamic = false;              // first answer byte counts the telegrams answered for that id
  std::map<vector<uint8_t>, int> m_count;
  void (*m_onTelegram)(const vector<uint8_t>& telegram) = nullptr;  // tap, called in the writing thread for every complete master telegram

 private:
  static void esc(std::deque<uint8_t>* q, uint8_t b) {
    if (b == ESC) { q->push_back(ESC); q->push_back(0x00); } else if (b == SYN) { q->push_back(ESC); q->push_back(0x01); } else q->push_back(b);
  }
  void onWrite(uint8_t b) {
    m_writtenBytes++;
    m_rx.push_back(b);  // echo
    if (b == SYN) { m_cur.clear(); m_phase = 0; return; }
    if (m_phase != 0) return;  // ACK of ebusd after the slave answer
    m_cur.push_back(b);
    // unescape what was written so far
    vector<uint8_t> u; bool pend = false;
    for (uint8_t c : m_cur) { if (pend) { u.push_back(c == 0 ? ESC : SYN); pend = false; } else if (c == ESC) pend = true; else u.push_back(c); }
    if (pend || u.size() < 6 || u.size() != 5u + u[4] + 1u) return;
    // complete master telegram incl. CRC
    MasterSymbolString m; for (size_t i = 0; i + 1 < u.size(); i++) m.push_back(u[i]);
    bool crcOk = m.calcCrc() == u.back();
    m_written.push_back(vector<uint8_t>(u.begin(), u.end() - 1));
    m_writtenAns.push_back(vector<uint8_t>());
    if (m_onTelegram) m_onTelegram(m_written.back());
    m_phase = 1;
    uint8_t zz = u[1];
    if (zz == BROADCAST) return;
    m_rx.push_back(crcOk ? ACK : NAK);
    if (!crcOk) { m_phase = 0; m_cur.clear(); return; }
    if (isMaster(zz)) return;
    vector<uint8_t> key(u.begin() + 2, u.begin() + 4);
    vector<uint8_t> dd;
    for (size_t n = u[4]; ; n--) {  // longest id prefix wins
      vector<uint8_t> k = key; k.insert(k.end(), u.begin() + 5, u.begin() + 5 + n);
      auto it = m_answers.find(k);
      if (it != m_answers.end()) {
        dd = it->second;
        if (m_dynamic && !dd.empty()) dd[0] = static_cast<uint8_t>(dd[0] + m_count[k]++);  // a new value with every telegram
        break;
      }
      if (n == 0) break;
    }
    m_writtenAns.back() = dd;
    SlaveSymbolString s; s.push_back(static_cast<symbol_t>(dd.size())); for (uint8_t d : dd) s.push_back(d);
    for (size_t i = 0; i < s.size(); i++) esc(&m_rx, s[i]);
    esc(&m_rx, s.calcCrc());
  }
  bool m_open;
  int m_phase;
  std::deque<uint8_t> m_rx;
  vector<uint8_t> m_buf, m_cur;
};

// ---------------------------------------------------------------------------------------------------------------------
namespace ebusd {
struct VerifAccess {
  static result_t send(DirectProtocolHandler* h, unsigned int* to, symbol_t* sym, struct timespec* t) { return h->handleSend(to, sym, t); }
  static result_t recv(DirectProtocolHandler* h, unsigned int to, bool sending, symbol_t sym, struct timespec* t) { return h->handleReceive(to, sending, sym, t); }
  static bool ready(DirectProtocolHandler* h) { return h->m_state == bs_ready; }
  static bool finished(ProtocolHandler* h, BusRequest* r) { return h->m_finishedRequests.remove(r, false); }
  static UserList* users(MainLoop* m) { return &m->m_userList; }
};
}  // namespace ebusd

// The real DirectProtocolHandler; only the hand-over to the bus thread is replaced: instead of blocking until another
// thread has processed the request, the caller itself steps handleSend/handleReceive exactly as run() does.
class StepHandler : public DirectProtocolHandler {
 public:
  StepHandler(const ebus_protocol_config_t config, Device* device, ProtocolListener* listener)
    : DirectProtocolHandler(config, device, listener), m_queued(0) {}
  void step() {
    unsigned int recvTimeout = 0; symbol_t sentSymbol = ESC; struct timespec sentTime;
    result_t result = VerifAccess::send(this, &recvTimeout, &sentSymbol, &sentTime);
    bool sent = result == RESULT_CONTINUE;
    do {
      if (result >= RESULT_OK) result = VerifAccess::recv(this, recvTimeout, sent, sentSymbol, &sentTime);
      recvTimeout = 0; sent = false;
    } while (result == RESULT_CONTINUE);
  }
  result_t addRequest(BusRequest* request, bool wait) override {
    m_queued++;
    result_t r = ProtocolHandler::addRequest(request, false);
    if (r != RESULT_OK || !wait) return r;
    for (int i = 0; i < 2000; i++) {
      if (VerifAccess::finished(this, request)) {
        for (int j = 0; j < 4 && !VerifAccess::ready(this); j++) step();  // let the handler release the bus (final SYN) within this command
        return RESULT_OK;
      }
      step();
    }
    fprintf(stderr, "HARNESS: request did not finish\n"); exit(2);
  }
  size_t m_queued;  // BusRequests handed to the protocol layer
};

// ---------------------------------------------------------------------------------------------------------------------
// a data sink as the MQTT/KNX handlers are: levels taken from the UserInfo for a configured user name
class TestSink : public DataSink {
 public:
  TestSink(const UserInfo* ui, const string& user) : DataSink(ui, user, false) {}
  void startHandler() override {}
  int updated(Message* m) { auto it = m_updatedMessages.find(m->getKey()); return it == m_updatedMessages.end() ? 0 : it->second; }
  const string& levels() const { return m_levels; }
};

// ---------------------------------------------------------------------------------------------------------------------
struct Slot { string kind, circuit, name, level; vector<uint8_t> id; uint8_t value; Message* msg; vector<uint8_t> ans; bool noinj = false; };

struct World {
  vector<Slot> slots;
  MessageMap* messages = nullptr; ScanHelper* scan = nullptr; BusHandler* bus = nullptr; StepHandler* proto = nullptr;
  FakeTransport* tr = nullptr; MainLoop* loop = nullptr; Queue<Request*>* queue = nullptr;
  string aclPath;
  ~World() {
    if (loop) { loop->shutdown(); delete loop; }
    delete queue;
    delete proto;  // deletes device and transport
    delete bus; delete messages; delete scan;  // same order as cleanup() in main.cpp
  }
};

static const char* userName(long n) { return n == 1 ? "u1" : n == 2 ? "u2" : n == 3 ? "ux" : ""; }
static const char* secretOf(long n) { return n == 1 ? "s1" : n == 2 ? "s2" : n == 3 ? "sd" : n == 4 ? "s4" : n == 9 ? "bad" : ""; }

static World* makeWorld(const JV& w, const string& dir) {
  World* W = new World();
  // ---- ACL file + default levels
  string dsrc = w["dsrc"].s, dl = codes(w["d"]);
  W->aclPath = dir + "/acl.csv";
  {
    std::ofstream f(W->aclPath.c_str());
    f << "# name,secret,levels\n";  // the first line of an ACL file names the columns (comment = default columns)
    if (dsrc == "both") { f << "*," << secretOf(3); string l = codes(w["d2"]); std::replace(l.begin(), l.end(), ';', ','); f << "," << l << "\n"; }
    if (dsrc == "acl") { f << "*," << secretOf(3); string l = dl; std::replace(l.begin(), l.end(), ';', ','); f << "," << l << "\n"; }
    for (auto& u : w["users"].a) {
      string l = codes(u["l"]);
      if (u["sep"].i == 1) std::replace(l.begin(), l.end(), ';', ',');  // one level per column instead of one column
      f << userName(u["n"].i) << "," << secretOf(u["sec"].t == JV::INT ? u["sec"].i : u["n"].i) << "," << l << "\n";
    }
  }
  static string s_acl, s_lvl;  // options keep pointers
  s_acl = "--aclfile=" + W->aclPath;
  string dopt = dl; std::replace(dopt.begin(), dopt.end(), ';', ',');
  s_lvl = "--accesslevel=" + dopt;
  vector<char*> argv;
  argv.push_back(const_cast<char*>("ebusd"));
  argv.push_back(const_cast<char*>(s_acl.c_str()));
  if (dsrc == "opt" || dsrc == "both") argv.push_back(const_cast<char*>(s_lvl.c_str()));
  argv.push_back(const_cast<char*>("--pollinterval=0"));
  argv.push_back(const_cast<char*>("--updatecheck=off"));
  argv.push_back(const_cast<char*>("-f"));
  static vector<string> s_extra;  // further daemon options of the world (growth worlds)
  s_extra.clear();
  for (auto& x : w["args"].a) s_extra.push_back(codes(x));
  for (auto& x : s_extra) argv.push_back(const_cast<char*>(x.c_str()));
  static struct options opt;
  if (parse_main_args(static_cast<int>(argv.size()), argv.data(), nullptr, &opt) != 0) { fprintf(stderr, "HARNESS: bad args\n"); exit(2); }
  // ---- messages
  W->messages = new MessageMap(false, "", false);  // many maps per process: the shared ident field set must survive
  W->scan = new ScanHelper(W->messages, "/nonexistent", "/nonexistent/", "", "", nullptr, false);
  W->messages->setResolver(W->scan);
  std::ostringstream csv;
  size_t k = 0;
  // layout 5 (conditional variants): slots 1 and 2 are guarded by [h1] / [h2] on the value of the passive message in slot 3,
  // whose name ends in the value that was seen on the bus ("hw1" / "hw2")
  const bool condLay = w["lay"].i == 5;
  if (condLay) {
    const JV& hm = w["msgs"].a[2];
    string hn = hm["n"].s;
    csv << "*[h1],ca," << hn << ",,,,1\n*[h2],ca," << hn << ",,,,2\n";
  }
  for (auto& m : w["msgs"].a) {
    Slot s; s.kind = m["k"].s; s.level = codes(m["lv"]);
    s.circuit = m["c"].t == JV::ARR ? codes(m["c"]) : m["c"].s;   // growth worlds carry texts as character codes
    s.name = m["n"].t == JV::ARR ? codes(m["n"]) : m["n"].s;
    k++;
    bool wr = s.kind == "w";
    s.id = {0xb5, 0x09, static_cast<uint8_t>(wr ? 0x0e : 0x0d), static_cast<uint8_t>(k)};
    s.value = static_cast<uint8_t>(0x10 + k);
    if (condLay && k == 3) s.value = static_cast<uint8_t>(s.name[s.name.size() - 1] - '0');
    if (m["id"].t == JV::ARR) { s.id.clear(); for (auto& b : m["id"].a) s.id.push_back(static_cast<uint8_t>(b.i)); }   // PB SB ID..
    s.noinj = m["noinj"].i == 1;
    if (m["ans"].t == JV::ARR) { for (auto& b : m["ans"].a) s.ans.push_back(static_cast<uint8_t>(b.i)); if (!s.ans.empty()) s.value = s.ans[0]; }
    char idhex[16]; snprintf(idhex, sizeof idhex, "%02x%02x", s.id[2], s.id[3]);
    if (condLay && k <= 2) csv << "[h" << k << "]";
    csv << s.kind << "," << s.circuit << (s.level.empty() ? "" : "#") << s.level << "," << s.name << ",,,08,b509," << idhex << ",v,"
        << (wr ? "m" : "s") << ",UCH\n";
    W->slots.push_back(s);
  }
  string csvText = w["csv"].t == JV::ARR ? codes(w["csv"]) : csv.str();   // growth worlds bring their own definitions
  std::istringstream in("#\n" + csvText);  // first line is not used for determining column names
  string err;
  result_t r = W->messages->readFromStream(&in, "world.csv", time(nullptr), false, nullptr, &err);
  if (r != RESULT_OK) { fprintf(stderr, "HARNESS: csv load failed: %s %s\n%s", getResultCode(r), err.c_str(), csvText.c_str()); exit(2); }
  if (condLay) {
    string cerr;
    r = W->messages->resolveConditions(false, &cerr);
    if (r != RESULT_OK) { fprintf(stderr, "HARNESS: conditions do not resolve: %s %s\n", getResultCode(r), cerr.c_str()); exit(2); }
  }
  // ---- bus side
  W->bus = new BusHandler(W->messages, W->scan, opt.pollInterval);
  ebus_protocol_config_t config = {
    .device = "fake", .noDeviceCheck = true, .readOnly = false, .extraLatency = 0, .ownAddress = opt.address,
    .answer = false, .busLostRetries = opt.acquireRetries, .failedSendRetries = opt.sendRetries,
    .busAcquireTimeout = opt.acquireTimeout, .slaveRecvTimeout = opt.receiveTimeout, .lockCount = opt.masterCount,
    .generateSyn = false, .initialSend = false,
  };
  W->tr = new FakeTransport();
  PlainDevice* dev = new PlainDevice(W->tr);
  W->proto = new StepHandler(config, dev, W->bus);
  W->bus->setProtocol(W->proto);
  W->proto->open();
  // ---- resolve the message objects and script the slave
  for (auto& s : W->slots) {
    std::deque<Message*> all;
    W->messages->findAll(s.circuit, s.name, "*", true, true, true, true, true, false, 0, 0, false, &all);
    s.msg = nullptr;
    for (Message* m : all) {
      bool pas = m->isPassive(), wr = m->isWrite();
      if ((s.kind == "u") == pas && (s.kind == "w") == (wr && !pas) && m->getLevel() == s.level && m->getCircuit() == s.circuit) s.msg = m;
    }
    if (!s.msg) { fprintf(stderr, "HARNESS: message %s/%s not found after load\n", s.circuit.c_str(), s.name.c_str()); exit(2); }
    if (!s.ans.empty()) W->tr->m_answers[s.id] = s.ans;
    else if (s.kind != "w") W->tr->m_answers[s.id] = {s.value};
  }
  // passive messages have been seen on the bus before any client connects
  for (auto& s : W->slots) {
    if (s.kind != "u" || s.noinj) continue;
    MasterSymbolString m; m.push_back(0x10); m.push_back(0x08); m.push_back(s.id[0]); m.push_back(s.id[1]); m.push_back(2); m.push_back(s.id[2]); m.push_back(s.id[3]);
    SlaveSymbolString sl; sl.push_back(1); sl.push_back(s.value);
    W->proto->injectMessage(m, sl);
    if (s.msg->getLastUpdateTime() == 0) { fprintf(stderr, "HARNESS: passive inject failed\n"); exit(2); }
  }
  if (condLay) {   // vacuity guard: exactly the variant selected by the value on the bus is available
    int hv = W->slots[2].value;
    if (!W->slots[hv - 1].msg->isAvailable() || W->slots[2 - hv].msg->isAvailable()) { fprintf(stderr, "HARNESS: variant selection failed\n"); exit(2); }
  }
  // (injectMessage is meant for the time before the bus thread runs: the first SYN then resets the handler's buffers)
  W->tr->m_dynamic = w["dyn"].i == 1;
  if (w["nosig"].i != 1) {
    for (int i = 0; i < 8; i++) W->proto->step();  // a few SYN: signal acquired
    if (!W->proto->hasSignal()) { fprintf(stderr, "HARNESS: no signal\n"); exit(2); }
  }
  // ---- the daemon
  W->queue = new Queue<Request*>();
  W->loop = new MainLoop(opt, W->bus, W->messages, W->scan, W->queue);
  W->loop->start("mainloop");
  return W;
}

// one client connection: like ebusd's Connection, one RequestImpl reused for all lines
struct Client {
  World* W; RequestImpl req;
  explicit Client(World* w, bool http = false) : W(w), req(http) {}
  string send(const string& line) {
    if (!req.add(line.c_str())) { fprintf(stderr, "HARNESS: incomplete request\n"); exit(2); }
    W->queue->push(&req);
    string result;
    req.waitResponse(&result);
    return result;
  }
};

static string hexOf(const vector<uint8_t>& v) { string s; char b[4]; for (uint8_t x : v) { snprintf(b, sizeof b, "%02x", x); s += b; } return s; }

static string rtrim(string s) { while (!s.empty() && (s.back() == '\n' || s.back() == '\r' || s.back() == ' ')) s.pop_back(); return s; }

#endif  // VERIF_C16_DAEMON_H_
