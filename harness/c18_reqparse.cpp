// C18: drives the real request parsing code with the cases TLC generated from spec/ReqParse.tla
// (plus the natively enumerated character level URIs) and writes ndjson records for TLC to judge.
//   (a) RequestImpl::add + split                      (TCP command lines)
//   (b) RequestImpl::add + split + MainLoop::decodeRequest -> executeGet in an in-process daemon
//       whose HTML root is a temporary directory holding the spec's model file system
//   (c) StringReplacer::parse / checkMatchability / ensureDefault / get / match, used the way
//       MqttHandler uses them for the topic template
#include "vf.h"
#include "c18_json.h"
#include <sys/stat.h>
#include <sys/types.h>
#include <errno.h>
#include <sstream>
#include <map>
#include "ebusd/main.h"
#include "ebusd/mainloop.h"
#include "ebusd/request.h"
#include "ebusd/bushandler.h"
#include "ebusd/scan.h"
#include "lib/ebus/stringhelper.h"
#include "lib/ebus/protocol.h"
#include "lib/utils/log.h"

using namespace ebusd;
using std::string;
using std::vector;

static void mkdirs(const string& path) {  // mkdir -p
  for (size_t i = 1; i <= path.size(); i++) {
    if (i == path.size() || path[i] == '/') {
      string p = path.substr(0, i);
      if (mkdir(p.c_str(), 0755) != 0 && errno != EEXIST) { perror(p.c_str()); exit(2); }
    }
  }
}
static void writeFile(const string& path, const string& body) {
  size_t p = path.rfind('/');
  mkdirs(path.substr(0, p));
  FILE* f = fopen(path.c_str(), "w"); if (!f) { perror(path.c_str()); exit(2); }
  fwrite(body.data(), 1, body.size(), f); fclose(f);
}

struct Daemon {
  options_t opt;
  MessageMap* messages; ScanHelper* scan; BusHandler* bus; ProtocolHandler* proto; Queue<Request*>* queue; MainLoop* loop;
  vector<string> argstore;
  explicit Daemon(const string& htmlRoot, const string& cfgPath) {
    argstore = {"ebusd", "-f", "-n", "-r", "-d", "/dev/null", "--configpath=" + cfgPath, "--htmlpath=" + htmlRoot,
                "--updatecheck=off", "--pollinterval=0"};
    vector<char*> argv; for (auto& s : argstore) argv.push_back(const_cast<char*>(s.c_str()));
    char* envp[] = {nullptr};
    int rc = parse_main_args(static_cast<int>(argv.size()), argv.data(), envp, &opt);
    if (rc != 0) { fprintf(stderr, "parse_main_args failed %d\n", rc); exit(2); }
    messages = new MessageMap(false, "");
    scan = new ScanHelper(messages, cfgPath, cfgPath, "", "", nullptr, false);
    messages->setResolver(scan);
    bus = new BusHandler(messages, scan, 0);
    ebus_protocol_config_t config = {};
    config.device = "/dev/null"; config.noDeviceCheck = true; config.readOnly = true; config.ownAddress = 0x31;
    config.busLostRetries = 3; config.failedSendRetries = 2; config.busAcquireTimeout = 10; config.slaveRecvTimeout = 25;
    proto = ProtocolHandler::create(config, bus);
    if (!proto) { fprintf(stderr, "no protocol\n"); exit(2); }
    bus->setProtocol(proto);
    queue = new Queue<Request*>();
    loop = new MainLoop(opt, bus, messages, scan, queue);
  }
};

// one HTTP exchange: request text -> split arguments, status, body
static void httpRec(vf::Out& o, Daemon& d, const char* src, const string& uri) {
  RequestImpl req(true);
  string text = "GET " + uri + " HTTP/1.1\r\nHost: x\r\n\r\n";
  bool complete = req.add(text.c_str());
  vector<string> args;
  if (complete) req.split(&args);
  int status = -1; string body;
  if (complete) {
    bool connected = true; RequestMode mode = {}; string user; bool reload = false; std::ostringstream os;
    d.loop->decodeRequest(&req, &connected, &mode, &user, &reload, &os);
    string resp = os.str();
    if (resp.compare(0, 9, "HTTP/1.0 ") == 0) status = atoi(resp.c_str() + 9);
    size_t p = resp.find("\r\n\r\n");
    if (p != string::npos) body = resp.substr(p + 4);
  }
  string l = "{\"k\":\"http\",\"src\":\""; l += src; l += "\",\"u\":" + vf::jbytes(uri);
  char b[64]; snprintf(b, sizeof b, ",\"cpl\":%d,\"na\":%d,\"st\":%d", complete ? 1 : 0, static_cast<int>(args.size()), status); l += b;
  l += ",\"m\":" + vf::jbytes(args.size() > 0 ? args[0] : string());
  l += ",\"p\":" + vf::jbytes(args.size() > 1 ? args[1] : string());
  l += ",\"q\":" + vf::jbytes(args.size() > 2 ? args[2] : string());
  l += ",\"body\":" + vf::jbytes(body.size() > 64 ? body.substr(0, 64) : body) + "}\n";
  o.raw(l);
}

int main(int argc, char** argv) {
  vf::installTerminate();
  if (argc < 5) { fprintf(stderr, "usage: %s cases.ndjson outdir quick|thorough fsbase\n", argv[0]); return 2; }
  string outdir = argv[2]; bool thorough = !strcmp(argv[3], "thorough"); string base = argv[4];
  setFacilitiesLogLevel(-1, ll_none);
  vector<vfj::JV> cases = vfj::readFile(argv[1]);

  // model file system (fsbase must be a fresh directory created by the caller)
  string root = base + "/root";
  mkdirs(root); mkdirs(base + "/cfg");
  int nfs = 0;
  for (const auto& c : cases) {
    if (c["k"].s != "fs") continue;
    string rel = c["path"].bytes();
    {  // only plain relative paths: no empty, "." or ".." segment
      std::istringstream segs(rel); string seg; bool bad = rel.empty() || rel[rel.size() - 1] == '/';
      while (std::getline(segs, seg, '/')) bad = bad || seg.empty() || seg == "." || seg == "..";
      if (bad) { fprintf(stderr, "refusing fs path %s\n", rel.c_str()); return 2; }
    }
    writeFile((c["w"].s == "in" ? root : base) + "/" + rel, c["body"].bytes());
    nfs++;
  }
  Daemon d(root, base + "/cfg");

  long n = 0;
  {  // (a) TCP lines
    vf::Out o((outdir + "/tcp.ndjson").c_str());
    for (const auto& c : cases) {
      if (c["k"].s != "tcp") continue;
      string l = "{\"k\":\"tcp\",\"args\":[";
      for (size_t i = 0; i < c["args"].size(); i++) { if (i) l += ","; l += vf::jbytes(c["args"][i].bytes()); }
      l += "],\"lines\":[";
      string outs;
      for (size_t j = 0; j < c["lines"].size(); j++) {
        string line = c["lines"][j].bytes();
        RequestImpl req(false);
        bool complete = req.add((line + "\n").c_str());
        vector<string> args;
        if (complete) req.split(&args);
        if (j) { l += ","; outs += ","; }
        l += vf::jbytes(line);
        outs += complete ? "[" : "[[-1],";   // an incomplete request shows up as a leading [-1] argument
        for (size_t i = 0; i < args.size(); i++) { if (i) outs += ","; outs += vf::jbytes(args[i]); }
        outs += "]";
        n++;
      }
      l += "],\"outs\":[" + outs + "]}\n";
      o.raw(l);
    }
  }
  {  // (b) HTTP: token level URIs from the spec
    vf::Out o((outdir + "/httptok.ndjson").c_str());
    for (const auto& c : cases) { if (c["k"].s == "uri") { httpRec(o, d, "tok", c["u"].bytes()); n++; } }
  }
  if (strcmp(argv[3], "replay")) {  // (b) HTTP: seeded random longer URIs over the spec's token alphabet
    vf::Out o((outdir + "/httprand.ndjson").c_str());
    vector<string> tokens;
    for (const auto& c : cases) if (c["k"].s == "tokens") for (size_t i = 0; i < c["list"].size(); i++) tokens.push_back(c["list"][i].bytes());
    if (tokens.empty()) { fprintf(stderr, "no tokens case\n"); return 2; }
    vf::Rng rng(vf::seedFromEnv());
    long want = thorough ? 100000 : 20000;
    for (long k = 0; k < want; k++) {
      string u = "/";
      unsigned nt = 5 + rng.below(4);
      for (unsigned t = 0; t < nt; t++) u += tokens[rng.below(static_cast<unsigned>(tokens.size()))];
      if (rng.chance(1, 2)) u += "/";
      httpRec(o, d, "rand", u); n++;
    }
  }
  {  // (b) HTTP: every URI up to the length bound over the character alphabet
    vf::Out o((outdir + "/httpchar.ndjson").c_str());
    const char alpha[] = {'%', '2', 'e', 'f', '/', '.', 'a', '?'};
    int maxlen = !strcmp(argv[3], "replay") ? -1 : thorough ? 6 : 5;   // replay: only the cases of the file
    for (int len = 0; len <= maxlen; len++) {
      long total = 1; for (int i = 0; i < len; i++) total *= 8;
      for (long v = 0; v < total; v++) {
        string u; long x = v;
        for (int i = 0; i < len; i++) { u.push_back(alpha[x % 8]); x /= 8; }
        httpRec(o, d, "char", u); n++;
      }
    }
  }
  {  // (c) topic templates
    vf::Out o((outdir + "/tpl.ndjson").c_str());
    vector<vector<string>> triples;
    for (const auto& c : cases) {
      if (c["k"].s != "ids") continue;
      for (size_t i = 0; i < c["triples"].size(); i++) {
        const auto& t = c["triples"][i];
        triples.push_back(vector<string>{t[0].bytes(), t[1].bytes(), t[2].bytes()});
      }
    }
    for (const auto& c : cases) {
      if (c["k"].s != "tpl") continue;
      for (size_t k = 0; k < c["texts"].size(); k++) {
        string text = c["texts"][k].bytes();
        string l = "{\"k\":\"tpl\",\"parts\":[";
        for (size_t i = 0; i < c["parts"].size(); i++) {
          char b[32]; snprintf(b, sizeof b, "%s[%ld,", i ? "," : "", c["parts"][i][0].num); l += b;
          l += vf::jbytes(c["parts"][i][1].bytes()) + "]";
        }
        l += "],\"text\":" + vf::jbytes(text);
        // the way MqttHandler sets up its topic replacer: parse(str, true, true), checkMatchability, ensureDefault
        StringReplacer def, nodef;
        bool pok = def.parse(text, true, true);
        bool mok = pok && def.checkMatchability();
        nodef.parse(text, true, true);      // "topic#" form: no defaults appended
        if (pok) def.ensureDefault();
        char b[64]; snprintf(b, sizeof b, ",\"pok\":%d,\"mok\":%d", pok ? 1 : 0, mok ? 1 : 0); l += b;
        l += ",\"eff\":" + vf::jbytes(def.str()) + ",\"res\":[";
        for (size_t i = 0; pok && i < triples.size(); i++) {
          const auto& x = triples[i];
          if (i) l += ",";
          l += "{\"x\":[" + vf::jbytes(x[0]) + "," + vf::jbytes(x[1]) + "," + vf::jbytes(x[2]) + "]";
          const char* sfx[] = {"/get", "/set", "/list"};
          for (int v = 0; v < 2; v++) {
            const StringReplacer& r = v ? nodef : def;
            string topic = r.get(x[0], x[1], x[2]);
            l += v ? ",\"tn\":" : ",\"td\":"; l += vf::jbytes(topic);
            l += v ? ",\"mn\":[" : ",\"md\":[";
            string prev;
            for (int s = 0; s < 3; s++) {
              // MqttHandler::notifyMqttTopic: direction = part after the last '/', the rest is matched
              string incoming = topic + sfx[s];
              size_t pos = incoming.rfind('/');
              string matchTopic = incoming.substr(0, pos);
              string mc, mn, mf;
              ssize_t ret = r.match(matchTopic, &mc, &mn, &mf);
              char rb[32]; snprintf(rb, sizeof rb, "[%d,", static_cast<int>(ret));
              string one = rb + vf::jbytes(mc) + "," + vf::jbytes(mn) + "," + vf::jbytes(mf) + "]";
              n++;
              if (s && one == prev) continue;   // identical results of the three directions are logged once
              if (s) l += ",";
              l += one; prev = one;
            }
            l += "]";
          }
          l += "}";
        }
        l += "]}\n";
        o.raw(l);
      }
    }
  }
  printf("{\"evaluations\":%ld,\"fs_files\":%d}\n", n, nfs);
  fflush(nullptr);
  _exit(0);  // the daemon objects are not torn down (threads were never started)
}
