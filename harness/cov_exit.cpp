// Linked only into coverage builds (VERIF_COVERAGE=1, tools/coverage.py): harnesses and their forked children leave via _exit(),
// which would skip the gcov dump; this interposes _exit so that the counters are written first.  No ebusd code here.
#include <unistd.h>
#include <sys/syscall.h>
extern "C" void __gcov_dump(void);
extern "C" void _exit(int code) {
  __gcov_dump();
  syscall(SYS_exit_group, code);
  for (;;) {}
}
