// Concurrent histories of the real ebusd::Queue<T> (src/lib/utils/queue.h), recorded for the linearizability check of
// spec/QueueLin.tla.  Usage: queue_lin <out.ndjson> <nhist> [opsPerThread]
// Every call is logged twice: ["inv", op, arg] before it starts and ["ret", result] after it returned; one global atomic
// counter orders all log entries, so the recorded order is consistent with real time (an invocation is logged before the call
// can take effect, a response after it took effect).  Nothing here contributes to a verdict except the logged results.
// Thread 0 is the "flusher": whenever every unfinished worker sits in a blocking call it pushes what they wait for, so that no
// history can hang on the unchanged code; a watchdog turns a worker that still never returns into an event ("hang").
#include "vf.h"
#include <pthread.h>
#include <unistd.h>
#include <atomic>
#include <cstdio>
#include <cstdlib>
#include <cstring>
#include <string>
#include <vector>
#include <algorithm>
#include "lib/utils/queue.h"

using ebusd::Queue;

enum Op { PUSH = 0, POP = 1, PEEK = 2, REM = 3, REMW = 4, POPW = 5 };
static const char* OPN[] = {"push", "pop", "peek", "rem", "remw", "popw"};
struct Ev { long seq; int thr; int inv; int op; int arg; int res; };
struct Step { int op, arg; };

static const int NW = 3;             // worker threads 1..NW, flusher is thread 0
static int g_items[8] = {0, 1, 2, 3, 4, 5, 6, 7};   // item k is &g_items[k]; nullptr is "0"
static std::atomic<long> g_seq;
static Queue<int*>* g_q;
static std::vector<Ev> g_log[NW + 1];
static std::vector<Step> g_prog[NW + 1];
static std::atomic<int> g_state[NW + 1];   // 0 running, 1 in a blocking call, 2 finished
static std::atomic<int> g_waitArg[NW + 1];
static std::atomic<long> g_progress;

static int idOf(int* p) { return p ? *p : 0; }
static int* itemOf(int k) { return k ? &g_items[k] : nullptr; }

static int doOp(int thr, int op, int arg) {
  g_log[thr].push_back(Ev{g_seq.fetch_add(1), thr, 1, op, arg, 0});
  int res = 0;
  switch (op) {
    case PUSH: g_q->push(itemOf(arg)); break;
    case POP: res = idOf(g_q->pop(0)); break;
    case PEEK: res = idOf(g_q->peek()); break;
    case REM: res = g_q->remove(itemOf(arg), false) ? 1 : 0; break;
    case REMW: g_waitArg[thr] = arg; g_state[thr] = 1; res = g_q->remove(itemOf(arg), true) ? 1 : 0; g_state[thr] = 0; break;
    case POPW: g_waitArg[thr] = 0; g_state[thr] = 1; res = idOf(g_q->pop(1)); g_state[thr] = 0; break;
  }
  g_log[thr].push_back(Ev{g_seq.fetch_add(1), thr, 0, op, arg, res});
  g_progress++;
  return res;
}

static void* worker(void* a) {
  int thr = (int)(long)a;
  int k = 0;
  for (const Step& s : g_prog[thr]) {
    doOp(thr, s.op, s.arg);
    if (((k++ + thr) & 3) == 0) sched_yield();
  }
  g_state[thr] = 2;
  return nullptr;
}

int main(int argc, char** argv) {
  if (argc < 3) { fprintf(stderr, "usage: queue_lin out nhist [ops]\n"); return 2; }
  int nh = atoi(argv[2]), ops = argc > 3 ? atoi(argv[3]) : 6;
  vf::Rng rng(vf::seedFromEnv());
  FILE* f = fopen(argv[1], "w");
  long totalEv = 0, hangs = 0, blocking = 0;
  for (int h = 0; h < nh; h++) {
    Queue<int*> q; g_q = &q; g_seq = 0; g_progress = 0;
    for (int t = 0; t <= NW; t++) { g_log[t].clear(); g_prog[t].clear(); g_state[t] = 0; g_waitArg[t] = 0; }
    for (int t = 1; t <= NW; t++) {
      int waits = 0;
      for (int k = 0; k < ops; k++) {
        unsigned r = rng.below(100); Step s;
        if (r < 30) s = Step{PUSH, 1 + (int)rng.below(3)};
        else if (r < 35) s = Step{PUSH, 0};
        else if (r < 55) s = Step{POP, 0};
        else if (r < 65) s = Step{PEEK, 0};
        else if (r < 82) s = Step{REM, 1 + (int)rng.below(3)};
        else if (r < 96 && waits < 2) { s = Step{REMW, 1 + (int)rng.below(3)}; waits++; blocking++; }
        else if (r >= 96 && waits < 2 && (h % 8) == 0) { s = Step{POPW, 0}; waits++; blocking++; }   // pop(1) may take a real second: rare
        else s = Step{POP, 0};
        g_prog[t].push_back(s);
      }
    }
    pthread_t th[NW + 1];
    for (int t = 1; t <= NW; t++) pthread_create(&th[t], nullptr, worker, (void*)(long)t);
    // flusher (thread 0): serve blocked workers; watchdog by progress counter and a generous real-time limit
    long lastProgress = -1; int idle = 0; bool hang = false;
    for (;;) {
      bool allDone = true, allBlockedOrDone = true; int want = -1;
      for (int t = 1; t <= NW; t++) {
        int st = g_state[t];
        if (st != 2) allDone = false;
        if (st == 0) allBlockedOrDone = false;
        if (st == 1 && want < 0) want = g_waitArg[t];
      }
      if (allDone) break;
      if (allBlockedOrDone && want >= 0) {
        usleep(200);  // let the blocked call really reach its wait (affects only which interleavings are sampled)
        bool still = false; for (int t = 1; t <= NW; t++) if (g_state[t] == 1) still = true;
        if (still) doOp(0, PUSH, want);
      } else sched_yield();
      long p = g_progress;
      if (p != lastProgress) { lastProgress = p; idle = 0; } else if (++idle > 4000000) { hang = true; break; }
    }
    if (hang) {  // a worker never returned although what it waits for was pushed again and again: record and give up this process
      hangs++;
      std::vector<Ev> all; for (int t = 0; t <= NW; t++) all.insert(all.end(), g_log[t].begin(), g_log[t].end());
      std::sort(all.begin(), all.end(), [](const Ev& a, const Ev& b) { return a.seq < b.seq; });
      fprintf(f, "{\"h\":%d,\"hang\":1,\"ev\":[", h + 1);
      for (size_t i = 0; i < all.size(); i++) fprintf(f, "%s[%d,\"%s\",\"%s\",%d]", i ? "," : "", all[i].thr, all[i].inv ? "inv" : "ret", OPN[all[i].op], all[i].inv ? all[i].arg : all[i].res);
      fprintf(f, "]}\n"); fflush(f);
      printf("{\"histories\":%d,\"events\":%ld,\"hangs\":%ld,\"blocking_calls\":%ld}\n", h + 1, totalEv, hangs, blocking);
      _exit(0);
    }
    for (int t = 1; t <= NW; t++) pthread_join(th[t], nullptr);
    std::vector<Ev> all; for (int t = 0; t <= NW; t++) all.insert(all.end(), g_log[t].begin(), g_log[t].end());
    std::sort(all.begin(), all.end(), [](const Ev& a, const Ev& b) { return a.seq < b.seq; });
    totalEv += (long)all.size();
    fprintf(f, "{\"h\":%d,\"hang\":0,\"ev\":[", h + 1);
    for (size_t i = 0; i < all.size(); i++) fprintf(f, "%s[%d,\"%s\",\"%s\",%d]", i ? "," : "", all[i].thr, all[i].inv ? "inv" : "ret", OPN[all[i].op], all[i].inv ? all[i].arg : all[i].res);
    fprintf(f, "]}\n");
  }
  fclose(f);
  printf("{\"histories\":%d,\"events\":%ld,\"hangs\":%ld,\"blocking_calls\":%ld}\n", nh, totalEv, hangs, blocking);
  return 0;
}
