// Raw traffic log formatting (growth of the specification, spec/RawLog.tla): feeds the event sequences TLC generated into
// the real ProtocolHandler::notifyDeviceData and captures what it logs.
//   usage: rawlog cases.ndjson out.ndjson workdir [text]
//   a line of cases.ndjson is one case or a batch {"cases":[...]}:
//     {"mode":"file"|"log"|"fbytes"|"lbytes","pre":n,"chunk":0|1,"ev":[[d,v],..]}    d: 1 = received, 0 = sent
//   mode file   --lograwdata with --lograwdatafile: the text goes through a real RotateFile in text mode
//   mode log    --lograwdata without a file: the text goes through logNotice(lf_bus, ..) into the log file
//   mode fbytes / lbytes   --lograwdata=bytes with / without a file
//   pre         number of received filler symbols 0x22 handed over first (brings the line buffer close to its limit)
//   chunk       1: consecutive events of the same direction are handed over in one call (len > 1), 0: one call per event
// A fresh handler (subclass of ProtocolHandler with a dummy device) is used per case; after every call the number of
// complete lines the sink holds is recorded, so that TLC can judge every prefix.  No ebusd code lives here.
#include "vf.h"
#include "c18_json.h"
#include <sys/stat.h>
#include <sstream>
#include "lib/ebus/protocol.h"
#include "lib/ebus/device.h"
#include "lib/utils/log.h"

using namespace ebusd;
using std::string;
using std::vector;

namespace {

class DummyDevice : public Device {
 public:
  const char* getName() const override { return "dummy"; }
  void formatInfo(std::ostringstream* output, bool verbose, bool prefix) override {}
  result_t open() override { return RESULT_OK; }
  bool isValid() override { return true; }
  result_t send(symbol_t value) override { return RESULT_OK; }
  result_t recv(unsigned int timeout, symbol_t* value, ArbitrationState* arbitrationState) override { return RESULT_ERR_TIMEOUT; }
  result_t startArbitration(symbol_t masterAddress) override { return RESULT_OK; }
  bool isArbitrating() const override { return false; }
  bool cancelRunningArbitration(ArbitrationState* arbitrationState) override { return false; }
};

class RawHandler : public ProtocolHandler {
 public:
  explicit RawHandler(const ebus_protocol_config_t& config) : ProtocolHandler(config, new DummyDevice(), nullptr) {}
  void injectMessage(const MasterSymbolString& master, const SlaveSymbolString& slave) override {}
  void run() override {}
  bool hasSignal() const override { return true; }
};

string slurp(const string& path) {
  string r;
  FILE* f = fopen(path.c_str(), "r");
  if (!f) return r;
  char buf[4096];
  size_t n;
  while ((n = fread(buf, 1, sizeof buf, f)) > 0) r.append(buf, n);
  fclose(f);
  return r;
}

// the complete lines of the sink without their time stamp / facility prefix
vector<string> contentLines(const string& text, bool logMode) {
  vector<string> lines;
  size_t p = 0;
  while (p < text.size()) {
    size_t q = text.find('\n', p);
    if (q == string::npos) break;          // incomplete line: not counted
    string l = text.substr(p, q - p);
    p = q + 1;
    if (logMode) {
      size_t b = l.find("] ");
      l = b == string::npos ? "?" + l : l.substr(b + 2);
    } else {
      l = l.size() >= 24 ? l.substr(24) : "?" + l;   // "YYYY-MM-DD hh:mm:ss.mmm "
    }
    lines.push_back(l);
  }
  return lines;
}

}  // namespace

int main(int argc, char** argv) {
  vf::installTerminate();
  if (argc < 4) { fprintf(stderr, "usage: %s cases.ndjson out.ndjson workdir [text]\n", argv[0]); return 2; }
  bool asText = argc > 4 && string(argv[4]) == "text";
  const string wd = argv[3];
  mkdir(wd.c_str(), 0755);
  const string rawPath = wd + "/raw.log", logPath = wd + "/ebusd.log";
  setFacilitiesLogLevel(-1, ll_none);
  setFacilitiesLogLevel(1 << lf_bus, ll_notice);
  vector<vfj::JV> lines = vfj::readFile(argv[1]);
  vector<vfj::JV> cases;
  for (const auto& l : lines) {
    if (l.has("cases")) { for (size_t i = 0; i < l["cases"].size(); i++) cases.push_back(l["cases"][i]); }
    else cases.push_back(l);
  }
  lines.clear();
  long ncalls = 0, nsymbols = 0, nlines = 0;
  vf::Out o(argv[2]);
  for (const auto& c : cases) {
    const string mode = c["mode"].s;
    bool logMode = mode == "log" || mode == "lbytes";
    bool bytes = mode == "fbytes" || mode == "lbytes";
    const string sink = logMode ? logPath : rawPath;
    unlink(sink.c_str());
    if (logMode && !setLogFile(logPath.c_str())) { fprintf(stderr, "cannot open %s\n", logPath.c_str()); return 2; }
    ebus_protocol_config_t config = {};
    config.ownAddress = 0x31;
    RawHandler* h = new RawHandler(config);
    if (!logMode) h->setLogRawFile(rawPath.c_str(), 100000);
    if (!h->toggleLogRaw(bytes)) { fprintf(stderr, "raw logging not enabled\n"); return 2; }
    // the calls: filler first (one call per symbol), then the events
    vector<std::pair<int, symbol_t>> evs;
    long pre = c["pre"].num;
    for (long i = 0; i < pre; i++) evs.emplace_back(1, 0x22);
    for (size_t i = 0; i < c["ev"].size(); i++) evs.emplace_back(static_cast<int>(c["ev"][i][0].num), static_cast<symbol_t>(c["ev"][i][1].num));
    bool chunk = c["chunk"].num != 0;
    vector<int> ends, cnt;
    size_t i = 0;
    while (i < evs.size()) {
      size_t j = i + 1;
      if (chunk && i >= static_cast<size_t>(pre)) while (j < evs.size() && evs[j].first == evs[i].first) j++;
      vector<symbol_t> data;
      for (size_t k = i; k < j; k++) data.push_back(evs[k].second);
      h->notifyDeviceData(data.data(), data.size(), evs[i].first == 1);
      ncalls++; nsymbols += static_cast<long>(data.size());
      if (j > static_cast<size_t>(pre)) {          // the prefix of every call that reaches into the events is judged
        ends.push_back(static_cast<int>(j));
        cnt.push_back(static_cast<int>(contentLines(slurp(sink), logMode).size()));
      }
      i = j;
    }
    vector<string> out = contentLines(slurp(sink), logMode);
    nlines += static_cast<long>(out.size());
    delete h;
    if (logMode) closeLogFile();
    string l = "{\"mode\":" + vf::jstr(mode) + ",\"pre\":" + std::to_string(pre) + ",\"chunk\":" + (chunk ? "1" : "0") + ",\"ev\":[";
    for (size_t k = 0; k < c["ev"].size(); k++) l += string(k ? "," : "") + "[" + std::to_string(c["ev"][k][0].num) + "," + std::to_string(c["ev"][k][1].num) + "]";
    l += "],\"ends\":" + vf::jints(ends) + ",\"cnt\":" + vf::jints(cnt) + ",\"lines\":[";
    for (size_t k = 0; k < out.size(); k++) l += (k ? "," : "") + vf::jbytes(out[k]);
    l += "]}\n";
    o.raw(l);
    if (asText) {
      printf("--- %s pre=%ld chunk=%d:", mode.c_str(), pre, chunk ? 1 : 0);
      for (size_t k = 0; k < c["ev"].size(); k++) printf(" %c%02lx", c["ev"][k][0].num ? '<' : '>', c["ev"][k][1].num);
      printf("\n");
      for (const auto& s : out) printf("    |%s|\n", s.c_str());
    }
  }
  unlink(rawPath.c_str()); unlink((rawPath + ".old").c_str()); unlink(logPath.c_str());
  printf("{\"cases\":%zu,\"calls\":%ld,\"symbols\":%ld,\"lines\":%ld}\n", cases.size(), ncalls, nsymbols, nlines);
  return 0;
}
