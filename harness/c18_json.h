// Minimal JSON reader for the case files TLC writes (ndjson: ints, strings, bools, arrays, objects).
// Used by the C18/C19 harnesses.  No ebusd code here.
#ifndef VERIF_C18_JSON_H_
#define VERIF_C18_JSON_H_
#include <string>
#include <vector>
#include <utility>
#include <cstdio>
#include <cstdlib>

namespace vfj {

struct JV {
  enum T { JNUL, JBOOL, JNUM, JSTR, JARR, JOBJ } t = JNUL;   // J prefix: ebusd headers #define NUM etc.
  long num = 0;
  bool b = false;
  std::string s;
  std::vector<JV> a;
  std::vector<std::pair<std::string, JV>> o;
  const JV& operator[](const char* k) const {
    for (const auto& e : o) if (e.first == k) return e.second;
    fprintf(stderr, "json: missing key %s\n", k); exit(2);
  }
  bool has(const char* k) const { for (const auto& e : o) if (e.first == k) return true; return false; }
  const JV& operator[](size_t i) const { if (i >= a.size()) { fprintf(stderr, "json: index\n"); exit(2); } return a[i]; }
  const JV& operator[](int i) const { return (*this)[static_cast<size_t>(i)]; }
  size_t size() const { return a.size(); }
  // array of character codes -> byte string
  std::string bytes() const {
    if (t != JARR) { fprintf(stderr, "json: bytes() of non-array\n"); exit(2); }
    std::string r; for (const auto& e : a) r.push_back(static_cast<char>(e.num)); return r;
  }
};

inline void ws(const char*& p) { while (*p == ' ' || *p == '\t' || *p == '\n' || *p == '\r') p++; }
inline void fail(const char* p) { fprintf(stderr, "json: parse error at: %.40s\n", p); exit(2); }

inline JV parse(const char*& p) {
  JV v; ws(p);
  if (*p == '[') {
    v.t = JV::JARR; p++; ws(p);
    if (*p == ']') { p++; return v; }
    for (;;) { v.a.push_back(parse(p)); ws(p); if (*p == ',') { p++; continue; } if (*p == ']') { p++; return v; } fail(p); }
  }
  if (*p == '{') {
    v.t = JV::JOBJ; p++; ws(p);
    if (*p == '}') { p++; return v; }
    for (;;) {
      ws(p); if (*p != '"') fail(p);
      JV k = parse(p); ws(p); if (*p != ':') fail(p); p++;
      v.o.emplace_back(k.s, parse(p)); ws(p);
      if (*p == ',') { p++; continue; } if (*p == '}') { p++; return v; } fail(p);
    }
  }
  if (*p == '"') {
    v.t = JV::JSTR; p++;
    while (*p && *p != '"') { if (*p == '\\') { p++; if (!*p) fail(p); } v.s.push_back(*p++); }
    if (*p != '"') fail(p); p++; return v;
  }
  if (*p == 't' || *p == 'f') { v.t = JV::JBOOL; v.b = *p == 't'; p += v.b ? 4 : 5; return v; }
  if (*p == 'n') { p += 4; return v; }
  if (*p == '-' || (*p >= '0' && *p <= '9')) { char* e; v.t = JV::JNUM; v.num = strtol(p, &e, 10); p = e; return v; }
  fail(p); return v;
}

// read an ndjson file, one value per line
inline std::vector<JV> readFile(const char* path) {
  std::vector<JV> r;
  FILE* f = fopen(path, "r"); if (!f) { perror(path); exit(2); }
  std::string line; int c;
  while ((c = fgetc(f)) != EOF) {
    if (c == '\n') { if (!line.empty()) { const char* p = line.c_str(); r.push_back(parse(p)); } line.clear(); }
    else line.push_back(static_cast<char>(c));
  }
  if (!line.empty()) { const char* p = line.c_str(); r.push_back(parse(p)); }
  fclose(f);
  return r;
}

}  // namespace vfj
#endif  // VERIF_C18_JSON_H_
