// C04 growth: the request side of the REAL BusHandler (PollRequest / ScanRequest / grab table / seen-address flags / scan
// results) on top of the REAL DirectProtocolHandler + PlainDevice over a simulated bus, in step mode with a virtual clock.
//
//   graph  out.ndjson key=value...          breadth-first extraction of the reachable graph (one edge = one bus cycle or one
//                                           client call); every node is re-executed from the initial state in a forked child
//                                           (MessageMap keeps file-static state), every edge runs in a forked grandchild
//   replay out.ndjson tokens.txt key=value  one linear execution (path graph, same format)
//   random out.ndjson steps key=value...    seeded random linear execution (incl. scanAndWait clients as coroutines)
//
// Output: ndjson, one node per line {"id":n,"succ":[{"in":"<token>","ev":[{event},..],"to":m},..]}; with recs=<file> every
// distinct notify / message / poll-scheduling record is written once more for per-record S fidelity judging.
// Observation only (no ebusd code lives here, nothing in /repo is touched):
//   * the real BusHandler is wrapped as ProtocolListener by a forwarding tap (status / seen / message callbacks)
//   * the handler is a subclass of DirectProtocolHandler overriding the virtual addRequest: every request object the
//     BusHandler hands over is queued behind a forwarding proxy whose notify() calls the real notify() and logs it with the
//     request's state before and after; deleting the proxy deletes the real object exactly as the handler would
//   * global operator delete recognises the real request objects (poisoned + quarantined: later writes are detected)
// The environment (bus simulator) only BOUNDS THE SEARCH; no verdict is computed here.
#include "vf.h"
#include <map>
#include <set>
#include <deque>
#include <sstream>
#include <fstream>
#include <algorithm>
#include <functional>
#include <new>
#include <ucontext.h>
#include <malloc.h>
#include <signal.h>
#include <sys/wait.h>
#include "ebusd/scan.h"
#include "lib/ebus/message.h"
#include "lib/ebus/data.h"
#include "lib/ebus/symbol.h"
#include "lib/ebus/result.h"
#include "lib/ebus/protocol.h"
#include "lib/ebus/protocol_direct.h"
#include "lib/ebus/device_trans.h"
#include "lib/ebus/transport.h"
#include "lib/utils/clock.h"
#include "lib/utils/log.h"
// PollRequest / ScanRequest / GrabbedMessage have no EBUSD_VERIF hook: their private state is read (never written) through
// the access-specifier trick the guide allows; every header bushandler.h includes was included above.
#define private public
#define protected public
#include "ebusd/bushandler.h"
#undef private
#undef protected

using namespace ebusd;
using std::string;
using std::vector;

// ---------------------------------------------------------------- virtual clock
static uint64_t g_ms = 5000000;
static long g_sec = 200000;
namespace ebusd {
void clockGettime(struct timespec* t) { t->tv_sec = (time_t)(g_ms / 1000); t->tv_nsec = (long)(g_ms % 1000) * 1000000L; }
uint64_t clockGetMillis() { return g_ms; }
}
extern "C" time_t time(time_t* t) { time_t v = (time_t)g_sec; if (t) *t = v; return v; }

// ---------------------------------------------------------------- events of the current edge
static string g_ev;
static void ev(const string& s) { if (!g_ev.empty()) g_ev += ","; g_ev += s; }
static string jb(const SymbolString& s) { string o; vf::jbytes(&o, s.data(), s.size()); return o; }
static string ji(long v) { return std::to_string(v); }
static void bad(const string& what, long a = 0) { ev("{\"e\":\"bad\",\"what\":\"" + what + "\",\"a\":" + ji(a) + "}"); }

// ---------------------------------------------------------------- configuration
struct Cfg {
  unsigned pollInterval = 1, busLost = 1, lock = 3;
  bool simple = true, chained = true, scanmsg = true;          // message definitions present
  bool f1 = false, f2 = false, loss = true, arblose = true, nak = true, crc = true, to = true, ok1 = true;  // environment
  int scan = 1;                     // client token SCAN (startScan(false, "*")) while fewer than this many scan request objects are alive
  bool scanfull = false;            // client token SCANFULL is not offered (254 slaves)
  vector<uint8_t> scanw;            // client tokens SCANW=<zz> (scanAndWait as coroutine; linear modes and tree mode)
  int preseen = 2;                  // telegrams to slaves 08 (, 15) were seen before the first step => scan slaves 08 (, 15)
  bool grab = true;
  long maxNodes = 200000;
  int workers = 4;
  int depth = 0;                    // > 0: bounded exploration (no fix-point claimed)
  string recs;
  uint8_t own = 0x31;
};
static Cfg C;
static vector<uint8_t> hexList(const char* s) {
  vector<uint8_t> v;
  while (*s) { if (*s == ',') { s++; continue; } unsigned x; if (sscanf(s, "%2x", &x) != 1) break; v.push_back((uint8_t)x); s += 2; }
  return v;
}
static void parseArg(const string& a) {
  size_t p = a.find('=');
  string k = a.substr(0, p), v = p == string::npos ? "1" : a.substr(p + 1);
  bool b = v != "0";
  if (k == "pollinterval") C.pollInterval = atoi(v.c_str()); else if (k == "buslost") C.busLost = atoi(v.c_str());
  else if (k == "lock") C.lock = atoi(v.c_str());
  else if (k == "simple") C.simple = b; else if (k == "chained") C.chained = b; else if (k == "scanmsg") C.scanmsg = b;
  else if (k == "f1") C.f1 = b; else if (k == "f2") C.f2 = b; else if (k == "loss") C.loss = b; else if (k == "arblose") C.arblose = b;
  else if (k == "nak") C.nak = b; else if (k == "crc") C.crc = b; else if (k == "to") C.to = b; else if (k == "ok1") C.ok1 = b;
  else if (k == "scan") C.scan = atoi(v.c_str()); else if (k == "scanw") C.scanw = hexList(v.c_str()); else if (k == "preseen") C.preseen = atoi(v.c_str());
  else if (k == "grab") C.grab = b; else if (k == "maxnodes") C.maxNodes = atol(v.c_str()); else if (k == "workers") C.workers = atoi(v.c_str());
  else if (k == "depth") C.depth = atoi(v.c_str()); else if (k == "recs") C.recs = v;
  else { fprintf(stderr, "unknown arg %s\n", a.c_str()); exit(2); }
}

// ---------------------------------------------------------------- environment decisions (named, consulted lazily)
struct Used { string chosen; vector<string> opts; };
struct Dec {
  vector<string> want; size_t pos = 0; vector<Used> used; vf::Rng* rng = nullptr; bool mismatch = false;
  void reset(const vector<string>& w) { want = w; pos = 0; used.clear(); mismatch = false; }
};
static Dec g_dec;
static const string& decide(const vector<string>& opts) {
  size_t c = 0;
  if (g_dec.rng) {
    // random mode: the first option (the regular behaviour) gets half of the weight
    c = g_dec.rng->chance(1, 2) ? 0 : g_dec.rng->below((unsigned)opts.size());
  } else if (g_dec.pos < g_dec.want.size()) {
    auto it = std::find(opts.begin(), opts.end(), g_dec.want[g_dec.pos]);
    if (it == opts.end()) g_dec.mismatch = true; else c = (size_t)(it - opts.begin());
  }
  g_dec.pos++;
  g_dec.used.push_back(Used{opts[c], opts});
  return g_dec.used.back().opts[c];
}
static string labelOf(const vector<Used>& u) { string s; for (const Used& x : u) { if (!s.empty()) s += "."; s += x.chosen; } return s; }

// ---------------------------------------------------------------- bus simulator (fake transport)
static uint8_t crcStep(uint8_t c, uint8_t v) { for (int i = 0; i < 8; i++) c = (uint8_t)((c & 0x80) ? ((c << 1) ^ 0x9B) : (c << 1)); return c ^ v; }
struct BusSim : public Transport {
  std::deque<uint8_t> rx;       // symbols on the wire not yet read by ebusd
  vector<uint8_t> cur;          // what ebusd wrote since the last SYN (raw)
  int phase = 0;                // 0 idle/collecting a master telegram, 1 response delivered (ebusd acknowledges), 2 telegram over
  bool afterSyn = false;        // the last symbol ebusd read was a SYN
  int pending = 0;              // 1: nobody answers (time-out), 2: the signal disappears (time-out + 2 s)
  int srep = 0;
  bool valid = false;
  uint8_t cell = 0;
  BusSim() : Transport("sim", 0) {}
  string getTransportInfo() const override { return "sim"; }
  result_t openInternal() override { return RESULT_OK; }
  result_t open() override { valid = true; return m_listener ? m_listener->notifyTransportStatus(true) : RESULT_OK; }
  void close() override { if (!valid) return; valid = false; rx.clear(); cur.clear(); phase = 0; pending = 0; if (m_listener) m_listener->notifyTransportStatus(false); }
  bool isValid() override { return valid; }
  bool idle() const { return rx.empty() && cur.empty() && phase == 0 && pending == 0; }
  void key(string* k) const {
    k->push_back((char)rx.size()); for (uint8_t x : rx) k->push_back((char)x);
    k->push_back((char)cur.size()); for (uint8_t x : cur) k->push_back((char)x);
    k->push_back((char)phase); k->push_back((char)afterSyn); k->push_back((char)pending); k->push_back((char)srep); k->push_back((char)valid);
  }
  void esc(uint8_t b) { if (b == ESC) { rx.push_back(ESC); rx.push_back(0); } else if (b == SYN) { rx.push_back(ESC); rx.push_back(1); } else rx.push_back(b); }
  void telegram(const vector<uint8_t>& bytes, bool badCrc = false) {  // bytes + CRC, escaped
    uint8_t c = 0;
    for (uint8_t b : bytes) {
      if (b == ESC) { c = crcStep(c, ESC); c = crcStep(c, 0); } else if (b == SYN) { c = crcStep(c, ESC); c = crcStep(c, 1); } else c = crcStep(c, b);
      esc(b);
    }
    if (badCrc) { c ^= 0x10; if (c == ESC || c == SYN) c ^= 0x01; }
    esc(c);
  }
  static vector<uint8_t> answerOf(const vector<uint8_t>& u, bool alt) {  // u = unescaped master telegram without CRC
    uint8_t pb = u[2], sb = u[3];
    if (pb == 0x07 && sb == 0x04) return {0x0a, 0xb5, 0x42, 0x41, 0x49, 0x30, 0x30, 0x02, 0x04, 0x96, 0x02};
    if (pb == 0xb5 && sb == 0x09 && u[4] >= 2 && u[5] == 0x0d) {
      if (u[6] == 0x01) return {0x01, (uint8_t)(alt ? 0x22 : 0x11)};
      if (u[6] == 0x02) return {0x01, 0x33};
      if (u[6] == 0x03) return {0x01, 0x44};
    }
    if (pb == 0xb5 && sb == 0x09 && u[4] >= 1 && u[5] == 0x24) return {0x01, 0x55};
    return {0x00};
  }
  void respond(const vector<uint8_t>& u, bool again) {
    vector<string> o{"ok"};
    bool isPa = u[2] == 0xb5 && u[3] == 0x09 && u[4] >= 2 && u[5] == 0x0d && u[6] == 0x01;
    if (C.ok1 && isPa) o.push_back("ok1");
    if (C.crc) o.push_back("crc");
    if (!again) { if (C.nak) o.push_back("nak"); if (C.to) o.push_back("to"); if (C.loss) o.push_back("L"); }
    const string& d = decide(o);
    if (d == "ok" || d == "ok1" || d == "crc") {
      if (!again) rx.push_back(ACK);
      telegram(answerOf(u, d == "ok1"), d == "crc"); phase = 1;
    } else if (d == "nak") { rx.push_back(NAK); cur.clear(); phase = 0; }
    else if (d == "to") pending = 1;
    else pending = 2;
  }
  vector<uint8_t> lastMaster;
  result_t write(const uint8_t* data, size_t len) override {
    if (!valid) return RESULT_ERR_DEVICE;
    for (size_t i = 0; i < len; i++) {
      uint8_t b = data[i];
      if (afterSyn && cur.empty() && phase == 0 && b != SYN) {   // arbitration position
        afterSyn = false;
        vector<string> o{"w"}; if (C.arblose) o.push_back("l");
        if (decide(o) == "w") { rx.push_back(b); cur.push_back(b); }
        else { rx.push_back(0x03); rx.push_back(SYN); }           // a master of higher priority wins and gives up at once
        continue;
      }
      rx.push_back(b);   // echo
      if (b == SYN) { cur.clear(); phase = 0; srep = 0; continue; }
      if (phase == 0) {
        cur.push_back(b);
        vector<uint8_t> u; bool pend = false;
        for (uint8_t c : cur) { if (pend) { u.push_back(c == 0 ? ESC : SYN); pend = false; } else if (c == ESC) pend = true; else u.push_back(c); }
        if (pend || u.size() < 6 || u.size() != 5u + u[4] + 1u) continue;
        u.pop_back();  // CRC (ebusd's CRC computation is C02's subject)
        uint8_t zz = u[1];
        if (zz == BROADCAST) { phase = 2; continue; }
        if (isMaster(zz)) { rx.push_back(ACK); phase = 2; continue; }
        lastMaster = u;
        respond(u, false);
      } else if (phase == 1) {
        if (b == ACK) phase = 2;
        else if (b == NAK) { if (srep == 0) { srep = 1; respond(lastMaster, true); } else phase = 2; }
      }
    }
    return RESULT_OK;
  }
  result_t read(unsigned int timeout, const uint8_t** data, size_t* len) override {
    if (!valid) return RESULT_ERR_DEVICE;
    if (rx.empty()) {
      if (timeout == 0) return RESULT_ERR_TIMEOUT;
      if (pending || phase != 0 || !cur.empty()) {   // ebusd waits for something that does not come
        if (pending == 2) g_sec += 2;
        g_ms += timeout; pending = 0; phase = 0; cur.clear(); afterSyn = false;
        return RESULT_ERR_TIMEOUT;
      }
      vector<string> o{"s"};
      if (afterSyn) { if (C.f1) o.push_back("f1"); if (C.f2) o.push_back("f2"); }
      if (C.loss) o.push_back("L");
      const string& d = decide(o);
      if (d == "s") { g_sec += 1; rx.push_back(SYN); }
      else if (d == "f1") telegram({0x10, 0xfe, 0xb5, 0x16, 0x01, 0x07});
      else if (d == "f2") { telegram({0x10, 0x08, 0xb5, 0x09, 0x02, 0x0d, 0x01}); rx.push_back(ACK); telegram({0x01, 0x11}); rx.push_back(ACK); }
      else { g_sec += 2; g_ms += timeout; afterSyn = false; return RESULT_ERR_TIMEOUT; }
    }
    cell = rx.front();
    *data = &cell; *len = 1;
    return RESULT_OK;
  }
  void readConsumed(size_t n) override {
    while (n-- && !rx.empty()) { afterSyn = rx.front() == SYN; rx.pop_front(); }
  }
};

// ---------------------------------------------------------------- watched heap objects (the real request objects)
struct Watch { void* p; size_t size; int rid; int state; };   // state 1 live, 2 deleted (poisoned, quarantined)
static Watch g_watch[64]; static int g_nwatch = 0;
static void onRealDelete(int rid);
void* operator new(size_t n) { void* p = malloc(n ? n : 1); if (!p) { fprintf(stderr, "out of memory\n"); _exit(3); } return p; }
void operator delete(void* p) noexcept {
  if (!p) return;
  for (int i = 0; i < g_nwatch; i++) if (g_watch[i].p == p) {
    if (g_watch[i].state == 1) { g_watch[i].state = 2; onRealDelete(g_watch[i].rid); memset(p, 0xDB, g_watch[i].size); }
    else bad("request-object-deleted-twice", g_watch[i].rid);
    return;   // quarantined: never handed out again
  }
  free(p);
}
static void checkQuarantine() {
  for (int i = 0; i < g_nwatch; i++) if (g_watch[i].state == 2) {
    const unsigned char* q = (const unsigned char*)g_watch[i].p;
    for (size_t k = 0; k < g_watch[i].size; k++) if (q[k] != 0xDB) { bad("request-object-written-after-delete", g_watch[i].rid); memset(g_watch[i].p, 0xDB, g_watch[i].size); break; }
  }
}

// ---------------------------------------------------------------- the world
struct Proxy;
struct Live { int rid; BusRequest* real; Proxy* proxy; int kind; bool del; };   // kind 1 poll, 2 scan, 0 other
static vector<Live> g_live;          // requests between "new" and "del"
struct VHandler;
static MessageMap* g_map; static ScanHelper* g_scanHelper; static BusHandler* g_bus; static BusSim* g_sim; static PlainDevice* g_dev; static VHandler* g_h;
static int g_deadProxies = 0;

namespace ebusd {
struct VerifAccess {
  static const MasterSymbolString& master(BusRequest* r) { return r->m_master; }
  static unsigned retries(BusRequest* r) { return r->m_busLostRetries; }
  static void iter(DirectProtocolHandler* h, Device* dev) {   // the body of run(), as in harness/proto.cpp
    bool valid = dev->isValid();
    if (valid && !h->m_reconnect) {
      unsigned int recvTimeout = 0; symbol_t sentSymbol = ESC; struct timespec sentTime;
      result_t result = h->handleSend(&recvTimeout, &sentSymbol, &sentTime);
      bool sent = result == RESULT_CONTINUE;
      do {
        if (result >= RESULT_OK) result = h->handleReceive(recvTimeout, sent, sentSymbol, &sentTime);
        recvTimeout = 0; sent = false;
      } while (result == RESULT_CONTINUE);
    } else {
      if (!valid) h->setState(bs_noSignal, RESULT_ERR_DEVICE);
      h->m_reconnect = false;
      result_t result = dev->open();
      if (result != RESULT_OK) h->setState(bs_noSignal, result);
    }
  }
  static bool takeFinished(ProtocolHandler* h, BusRequest* r) { return h->m_finishedRequests.remove(r, false); }
  static std::list<BusRequest*>& nextq(ProtocolHandler* h) { return h->m_nextRequests.m_queue; }
  static std::list<BusRequest*>& finq(ProtocolHandler* h) { return h->m_finishedRequests.m_queue; }
  static BusRequest* cur(DirectProtocolHandler* h) { return h->m_currentRequest; }
  static void handlerKey(DirectProtocolHandler* h, BaseDevice* d, string* k) {
    int f[] = {h->m_state, h->m_escape, h->m_crc, h->m_crcValid, h->m_repeat, (int)h->m_nextSendPos, h->m_currentAnswering, (int)h->m_remainLockCount,
               (int)h->m_lockCount, (int)h->m_generateSynInterval, h->m_listenerState, (int)h->m_masterCount, h->m_addressConflict, h->m_reconnect,
               h->m_lastReceive == 0 ? 3 : (int)std::min<long>(g_sec - (long)h->m_lastReceive, 2), d->m_arbitrationMaster, (int)d->m_arbitrationCheck,
               (int)h->m_command.size(), (int)h->m_response.size()};
    for (int x : f) { k->push_back((char)(x & 0xff)); k->push_back((char)((x >> 8) & 0xff)); }
    for (int i = 0; i < 256; i++) if (h->m_seenAddresses[i]) k->push_back((char)i);
    k->push_back('|');
  }
  static int busState(DirectProtocolHandler* h) { return h->m_state; }
  // BusHandler
  static time_t lastPoll(BusHandler* b) { return b->m_lastPoll; }
  static unsigned running(BusHandler* b) { return b->m_runningScans; }
  static symbol_t* flags(BusHandler* b) { return b->m_seenAddresses; }
  static std::map<symbol_t, vector<string>>& results(BusHandler* b) { return b->m_scanResults; }
  static std::map<uint64_t, GrabbedMessage>& grabbed(BusHandler* b) { return b->m_grabbedMessages; }
  static bool grabOn(BusHandler* b) { return b->m_grabMessages; }
  // messages
  static std::map<uint64_t, vector<Message*>>& byKey(MessageMap* m) { return m->m_messagesByKey; }
  static vector<Message*>& pollVec(MessageMap* m) { return m->m_pollMessages.c; }
  static const vector<symbol_t>& id(const Message* m) { return m->m_id; }
  static time_t upd(const Message* m) { return m->m_lastUpdateTime; }
  static time_t chg(const Message* m) { return m->m_lastChangeTime; }
  static unsigned order(const Message* m) { return m->m_pollOrder; }
  static time_t lastPollTime(const Message* m) { return m->m_lastPollTime; }
  static size_t parts(const ChainedMessage* m) { return m->m_ids.size(); }
  static const SlaveSymbolString& partSlave(const ChainedMessage* m, size_t i) { return *m->m_lastSlaveDatas[i]; }
  static const MasterSymbolString& partMaster(const ChainedMessage* m, size_t i) { return *m->m_lastMasterDatas[i]; }
  static time_t partSlaveTime(const ChainedMessage* m, size_t i) { return m->m_lastSlaveUpdateTimes[i]; }
  static time_t partMasterTime(const ChainedMessage* m, size_t i) { return m->m_lastMasterUpdateTimes[i]; }
};
}  // namespace ebusd

// message identity for the records: template number * 1000 + destination (170 = any)
static int midOf(const Message* m) {
  if (!m) return 0;
  const vector<symbol_t>& id = VerifAccess::id(m);
  int t = 9;
  if (id.size() >= 2 && id[0] == 0x07 && id[1] == 0x04) t = 3;
  else if (id.size() >= 3 && id[0] == 0xb5 && id[1] == 0x09 && id[2] == 0x24) t = 4;
  else if (id.size() >= 3 && id[0] == 0xb5 && id[1] == 0x09 && id[2] == 0x0d) t = id.size() >= 4 && id[3] == 0x01 ? 1 : 2;
  return t * 1000 + m->getDstAddress();
}
static int age(time_t t) { return t == 0 ? -1 : (int)std::min<long>(g_sec - (long)t, 2); }

static vector<Message*> allMessages() {
  std::set<Message*> seen; vector<Message*> v;
  for (auto& kv : VerifAccess::byKey(g_map)) for (Message* m : kv.second) if (seen.insert(m).second) v.push_back(m);
  Message* s = g_map->getScanMessage(); if (s && seen.insert(s).second) v.push_back(s);
  std::sort(v.begin(), v.end(), [](Message* a, Message* b) { int x = midOf(a), y = midOf(b); return x != y ? x < y : a->isPassive() < b->isPassive(); });
  return v;
}
// observable data of one message: per part [slave bytes, age of the slave update]
struct PartObs { vector<uint8_t> slave; long t; };
static vector<PartObs> partsOf(Message* m) {
  vector<PartObs> v;
  ChainedMessage* c = dynamic_cast<ChainedMessage*>(m);
  if (c) {
    for (size_t i = 0; i < VerifAccess::parts(c); i++) { const SlaveSymbolString& s = VerifAccess::partSlave(c, i); v.push_back(PartObs{vector<uint8_t>(s.data(), s.data() + s.size()), (long)VerifAccess::partSlaveTime(c, i)}); }
  } else {
    const SlaveSymbolString& s = m->getLastSlaveData(); v.push_back(PartObs{vector<uint8_t>(s.data(), s.data() + s.size()), (long)VerifAccess::upd(m)});
  }
  return v;
}
struct WorldObs {
  std::map<int, vector<PartObs>> msgs;               // active (non-passive) messages by mid
  std::map<int, int> flags;                          // address -> seen flags
  std::map<int, vector<string>> results;             // address -> scan result texts
  int running;
  std::map<uint64_t, std::pair<unsigned, string>> grab;   // key -> (count, last master / last slave as json)
};
static WorldObs observe() {
  WorldObs w;
  for (Message* m : allMessages()) if (!m->isPassive()) w.msgs[midOf(m)] = partsOf(m);
  symbol_t* f = VerifAccess::flags(g_bus);
  for (int a = 0; a < 256; a++) if (f[a]) w.flags[a] = f[a];
  for (auto& kv : VerifAccess::results(g_bus)) w.results[kv.first] = kv.second;
  w.running = (int)VerifAccess::running(g_bus);
  for (auto& kv : VerifAccess::grabbed(g_bus)) w.grab[kv.first] = std::make_pair(kv.second.m_count, jb(kv.second.m_lastMaster) + "," + jb(kv.second.m_lastSlave));
  return w;
}
static string jtext(const string& s) { return vf::jbytes(s); }   // texts as lists of character codes
// differences between two observations, as event fields
static string diffFields(const WorldObs& a, const WorldObs& b) {
  string st = "\"st\":[", fl = "\"fl\":[", sr = "\"sr\":[";
  bool f1 = true, f2 = true, f3 = true;
  for (auto& kv : b.msgs) {
    auto it = a.msgs.find(kv.first);
    for (size_t i = 0; i < kv.second.size(); i++) {
      bool had = it != a.msgs.end() && i < it->second.size();
      if (had && it->second[i].slave == kv.second[i].slave && it->second[i].t == kv.second[i].t) continue;
      if (!had && kv.second[i].t == 0) continue;
      st += string(f1 ? "" : ",") + "[" + ji(kv.first) + "," + ji((long)i) + "," + vf::jbytes(kv.second[i].slave) + "," + ji(kv.second[i].t == g_sec ? 1 : 0) + "]"; f1 = false;
    }
  }
  std::set<int> addrs; for (auto& kv : a.flags) addrs.insert(kv.first); for (auto& kv : b.flags) addrs.insert(kv.first);
  for (int ad : addrs) {
    int x = a.flags.count(ad) ? a.flags.at(ad) : 0, y = b.flags.count(ad) ? b.flags.at(ad) : 0;
    if (x != y) { fl += string(f2 ? "" : ",") + "[" + ji(ad) + "," + ji(x) + "," + ji(y) + "]"; f2 = false; }
  }
  addrs.clear(); for (auto& kv : a.results) addrs.insert(kv.first); for (auto& kv : b.results) addrs.insert(kv.first);
  for (int ad : addrs) {
    vector<string> x = a.results.count(ad) ? a.results.at(ad) : vector<string>(), y = b.results.count(ad) ? b.results.at(ad) : vector<string>();
    if (x == y) continue;
    // [address, texts before (lengths), texts after (lengths), first changed index, the new text there]
    size_t k = 0; while (k < x.size() && k < y.size() && x[k] == y[k]) k++;
    string lx = "[", ly = "[";
    for (size_t i = 0; i < x.size(); i++) lx += (i ? "," : "") + ji((long)x[i].size());
    for (size_t i = 0; i < y.size(); i++) ly += (i ? "," : "") + ji((long)y[i].size());
    sr += string(f3 ? "" : ",") + "[" + ji(ad) + "," + lx + "]," + ly + "]," + ji((long)k) + "," + jtext(k < y.size() ? y[k] : string()) + "]"; f3 = false;
  }
  return st + "]," + fl + "]," + sr + "],\"run\":[" + ji(a.running) + "," + ji(b.running) + "]";
}

static string reqJson(BusRequest* r, int kind) {
  if (kind == 1) {
    PollRequest* p = static_cast<PollRequest*>(r);
    return "{\"k\":\"poll\",\"msg\":" + ji(midOf(p->m_message)) + ",\"idx\":" + ji((long)p->m_index) + ",\"n\":" + ji((long)p->m_message->getCount()) + ",\"master\":" + jb(p->m_master) + "}";
  }
  if (kind == 2) {
    ScanRequest* s = static_cast<ScanRequest*>(r);
    string sl = "[", al = "[", le = "[";
    for (size_t i = 0; i < s->m_slaves.size(); i++) sl += (i ? "," : "") + ji(s->m_slaves[i]);
    for (size_t i = 0; i < s->m_allMessages.size(); i++) al += (i ? "," : "") + ji(midOf(s->m_allMessages[i]) / 1000);
    for (size_t i = 0; i < s->m_messages.size(); i++) le += (i ? "," : "") + ji(midOf(s->m_messages[i]) / 1000);
    return "{\"k\":\"scan\",\"del\":" + ji(s->deleteOnFinish()) + ",\"slaves\":" + sl + "],\"all\":" + al + "],\"left\":" + le + "],\"msg\":" + ji(midOf(s->m_message)) +
           ",\"idx\":" + ji((long)s->m_index) + ",\"n\":" + ji((long)s->m_message->getCount()) + ",\"nidx\":" + ji((long)s->m_notifyIndex) + ",\"res\":" + ji(s->m_result) + ",\"master\":" + jb(s->m_master) + "}";
  }
  return "{\"k\":\"other\",\"master\":" + jb(VerifAccess::master(r)) + "}";
}
static string reqKey(BusRequest* r, int kind) { return reqJson(r, kind); }

static Live* liveOfReal(BusRequest* r) { for (Live& l : g_live) if (l.real == r) return &l; return nullptr; }
static int ridOfProxy(BusRequest* p);

// ---- proxy: what the protocol handler queues instead of the real object
struct Proxy : public BusRequest {
  BusRequest* real; int rid; int kind; bool dead;
  Proxy(BusRequest* r, int id, int k) : BusRequest(VerifAccess::master(r), r->deleteOnFinish()), real(r), rid(id), kind(k), dead(false) {}
  bool notify(result_t result, const SlaveSymbolString& slave) override {
    if (dead) { bad("notify-on-deleted-request", rid); return false; }
    Live* l = liveOfReal(real);
    if (!l) { bad("notify-on-deleted-request", rid); return false; }
    if (result == RESULT_OK) g_sec += 1;   // the clock ticks between the completion of the telegram and the callback
    string pre = reqJson(real, kind);
    WorldObs a = observe();
    bool restart = real->notify(result, slave);
    WorldObs b = observe();
    ev("{\"e\":\"ntf\",\"rid\":" + ji(rid) + ",\"res\":" + ji(result) + ",\"slave\":" + jb(slave) + ",\"restart\":" + ji(restart) + ",\"pre\":" + pre + ",\"post\":" + reqJson(real, kind) + "," + diffFields(a, b) + "}");
    return restart;
  }
  ~Proxy() override {
    if (dead) { bad("handler-deleted-request-twice", rid); return; }
    dead = true; g_deadProxies++;
    if (m_deleteOnFinish && real) {   // deleting the queued object deletes the request
      BusRequest* r = real; real = nullptr;
      if (liveOfReal(r)) delete r; else bad("handler-deletes-request-that-is-already-deleted", rid);
    }
  }
  static void operator delete(void*) {}   // proxies are never reused: a second delete is reported, not a crash
};
static int ridOfProxy(BusRequest* p) { for (Live& l : g_live) if ((BusRequest*)l.proxy == p) return l.rid; return p ? -2 : 0; }
static void onRealDelete(int rid) {
  ev("{\"e\":\"del\",\"rid\":" + ji(rid) + "}");
  for (size_t i = 0; i < g_live.size(); i++) if (g_live[i].rid == rid) { g_live.erase(g_live.begin() + i); break; }
}

// ---- coroutine for blocking client calls (scanAndWait)
static ucontext_t g_mainCtx, g_coCtx; static bool g_coActive = false, g_coWaiting = false, g_inCo = false;
static char* g_coStack = nullptr; static int g_coAddr = 0;
static void coYield() { g_coWaiting = true; g_inCo = false; swapcontext(&g_coCtx, &g_mainCtx); g_inCo = true; g_coWaiting = false; }

struct VHandler : public DirectProtocolHandler {
  VHandler(const ebus_protocol_config_t config, Device* device, ProtocolListener* listener) : DirectProtocolHandler(config, device, listener) {}
  result_t addRequest(BusRequest* request, bool wait) override {
    int kind = dynamic_cast<PollRequest*>(request) ? 1 : dynamic_cast<ScanRequest*>(request) ? 2 : 0;
    int rid = 1; for (;;) { bool used = false; for (Live& l : g_live) if (l.rid == rid) used = true; if (!used) break; rid++; }
    Proxy* p = new Proxy(request, rid, kind);
    if (g_nwatch == 64) {   // quarantine full: the oldest deleted object is checked a last time and released
      checkQuarantine();
      for (int i = 0; i < g_nwatch; i++) if (g_watch[i].state == 2) { free(g_watch[i].p); memmove(&g_watch[i], &g_watch[i + 1], (size_t)(g_nwatch - i - 1) * sizeof(Watch)); g_nwatch--; break; }
    }
    if (g_nwatch < 64) g_watch[g_nwatch++] = Watch{(void*)dynamic_cast<void*>(request), malloc_usable_size(dynamic_cast<void*>(request)), rid, 1};
    else bad("more-than-64-live-request-objects");
    g_live.push_back(Live{rid, request, p, kind, request->deleteOnFinish()});
    ev("{\"e\":\"new\",\"rid\":" + ji(rid) + ",\"del\":" + ji(request->deleteOnFinish()) + ",\"wait\":" + ji(wait) + ",\"req\":" + reqJson(request, kind) + "}");
    result_t r = ProtocolHandler::addRequest(p, false);
    if (r != RESULT_OK) { ev("{\"e\":\"rejected\",\"rid\":" + ji(rid) + ",\"res\":" + ji(r) + "}"); p->real = nullptr; return r; }
    if (!wait) return r;
    if (!g_inCo) { bad("blocking-call-outside-client-context", rid); return RESULT_ERR_TIMEOUT; }
    while (!VerifAccess::takeFinished(this, p)) coYield();
    ev("{\"e\":\"fin\",\"rid\":" + ji(rid) + "}");
    return RESULT_OK;
  }
};

// ---- tap: the ProtocolListener the handler talks to; forwards everything to the real BusHandler
struct Tap : public ProtocolListener {
  BusHandler* b = nullptr;
  void notifyProtocolStatus(ProtocolState state, result_t result) override {
    if (state != ps_empty) { b->notifyProtocolStatus(state, result); return; }
    // poll scheduling: what the scheduler saw and what it did
    int lp = age(VerifAccess::lastPoll(b));
    vector<Message*>& pv = VerifAccess::pollVec(g_map);
    size_t before = g_live.size();
    string pq = "[";
    { vector<Message*> s(pv); std::sort(s.begin(), s.end(), [](Message* x, Message* y) { return midOf(x) < midOf(y); });
      unsigned base = ~0u; for (Message* m : s) base = std::min(base, VerifAccess::order(m));
      for (size_t i = 0; i < s.size(); i++) pq += (i ? "," : "") + ("[" + ji(midOf(s[i])) + "," + ji((long)(VerifAccess::order(s[i]) - base)) + "," + ji(age(VerifAccess::upd(s[i]))) + "]"); }
    pq += "]";
    b->notifyProtocolStatus(state, result);
    int created = g_live.size() > before ? g_live.back().rid : 0;
    ev("{\"e\":\"pse\",\"lastpoll\":" + ji(lp) + ",\"pq\":" + pq + ",\"created\":" + ji(created) + ",\"msg\":" +
       ji(created && g_live.back().kind == 1 ? midOf(static_cast<PollRequest*>(g_live.back().real)->m_message) : 0) + ",\"lastpoll2\":" + ji(age(VerifAccess::lastPoll(b))) + "}");
  }
  void notifyProtocolSeenAddress(symbol_t a) override {
    WorldObs x = observe(); b->notifyProtocolSeenAddress(a); WorldObs y = observe();
    ev("{\"e\":\"seen\",\"a\":" + ji(a) + "," + diffFields(x, y) + "}");
  }
  void notifyProtocolMessage(MessageDirection dir, const MasterSymbolString& m, const SlaveSymbolString& s) override {
    WorldObs x = observe(); b->notifyProtocolMessage(dir, m, s); WorldObs y = observe();
    // grab table: every entry whose count or data changed
    string g = "[";
    bool first = true; long total0 = 0, total1 = 0;
    for (auto& kv : x.grab) total0 += kv.second.first;
    for (auto& kv : y.grab) {
      total1 += kv.second.first;
      auto it = x.grab.find(kv.first);
      if (it != x.grab.end() && it->second == kv.second) continue;
      g += string(first ? "" : ",") + "[" + ji((long)(it == x.grab.end() ? 0 : 1)) + "," + ji((long)kv.second.first - (long)(it == x.grab.end() ? 0 : it->second.first)) + "," + kv.second.second + "]"; first = false;
    }
    for (auto& kv : x.grab) if (!y.grab.count(kv.first)) { g += string(first ? "" : ",") + "[1," + ji(-(long)kv.second.first) + ",[],[]]"; first = false; }
    ev("{\"e\":\"msg\",\"dir\":" + ji(dir) + ",\"m\":" + jb(m) + ",\"s\":" + jb(s) + ",\"grabon\":" + ji(VerifAccess::grabOn(b)) + ",\"grab\":" + g + "],\"gtotal\":" + ji(total1 - total0) + "," + diffFields(x, y) + "}");
  }
};
static Tap g_tap;

static void construct() {
  g_map = new MessageMap(false, "", false);
  g_scanHelper = new ScanHelper(g_map, "/nonexistent", "/nonexistent/", "", "", nullptr, false);
  g_map->setResolver(g_scanHelper);
  string csv = "#\n";
  if (C.simple) csv += "r1,cir,pa,,,08,b509,0d01,,,UCH\n";
  if (C.chained) csv += "r1,cir,pc,,,08,b509,0d02;0d03,x,,UCH,,,,y,,UCH\n";
  if (C.scanmsg) csv += "r,scan,sx,,,,b509,24,,,UCH\n";
  std::istringstream in(csv);
  string err;
  result_t r = g_map->readFromStream(&in, "world.csv", time(nullptr), false, nullptr, &err);
  if (r != RESULT_OK) { fprintf(stderr, "HARNESS: csv load failed: %s %s\n%s", getResultCode(r), err.c_str(), csv.c_str()); exit(2); }
  g_bus = new BusHandler(g_map, g_scanHelper, C.pollInterval);
  if (!C.grab) g_bus->enableGrab(false);
  ebus_protocol_config_t cfg; memset(&cfg, 0, sizeof cfg);
  cfg.device = "sim"; cfg.noDeviceCheck = true; cfg.readOnly = false; cfg.extraLatency = 0; cfg.ownAddress = C.own; cfg.answer = false;
  cfg.busLostRetries = C.busLost; cfg.failedSendRetries = 0; cfg.busAcquireTimeout = 10; cfg.slaveRecvTimeout = 25;
  cfg.lockCount = C.lock; cfg.generateSyn = false; cfg.initialSend = false;
  g_sim = new BusSim();
  g_dev = new PlainDevice(g_sim);
  g_tap.b = g_bus;
  g_h = new VHandler(cfg, g_dev, &g_tap);
  g_bus->setProtocol(g_h);
  g_h->open();
  for (int i = 0; i < C.preseen && i < 2; i++) {   // traffic seen before the first step: somebody read from slave 08 (15)
    MasterSymbolString m; for (uint8_t x : {0x10, i == 0 ? 0x08 : 0x15, 0xb5, 0x10, 0x01, 0x00}) m.push_back((uint8_t)x);
    SlaveSymbolString s; s.push_back(1); s.push_back(0);
    g_h->injectMessage(m, s);
  }
  g_ev.clear();
}

// ---------------------------------------------------------------- state key (normalised projection) and node summary
static string stateKey() {
  string k;
  VerifAccess::handlerKey(g_h, g_dev, &k);
  g_sim->key(&k);
  // queues and requests
  auto q = [&](std::list<BusRequest*>& l) { for (BusRequest* r : l) { k.push_back((char)ridOfProxy(r)); k.push_back((char)VerifAccess::retries(r)); } k.push_back('|'); };
  q(VerifAccess::nextq(g_h)); q(VerifAccess::finq(g_h));
  k.push_back((char)ridOfProxy(VerifAccess::cur(g_h)));
  for (Live& l : g_live) {
    // a finished request nobody will ever look at again (not queued, not current, not waited for) can only be deleted:
    // its internals are left out of the key
    bool pending = ridOfProxy(VerifAccess::cur(g_h)) == l.rid || l.proxy == nullptr;
    for (BusRequest* r : VerifAccess::nextq(g_h)) if ((BusRequest*)l.proxy == r) pending = true;
    bool waited = !l.del && g_coActive;
    k.push_back((char)l.rid);
    if (pending || waited) k += reqKey(l.real, l.kind); else k += "finished";
  }
  k.push_back('|');
  // bus handler
  k.push_back((char)age(VerifAccess::lastPoll(g_bus))); k.push_back((char)VerifAccess::running(g_bus)); k.push_back((char)VerifAccess::grabOn(g_bus));
  symbol_t* f = VerifAccess::flags(g_bus); for (int a = 0; a < 256; a++) if (f[a]) { k.push_back((char)a); k.push_back((char)f[a]); }
  k.push_back('|');
  for (auto& kv : VerifAccess::results(g_bus)) { k.push_back((char)kv.first); for (const string& s : kv.second) { k += s; k.push_back(1); } k.push_back(2); }
  k.push_back('|');
  for (auto& kv : VerifAccess::grabbed(g_bus)) { k += std::to_string(kv.first); k += jb(kv.second.m_lastMaster); k += jb(kv.second.m_lastSlave); }
  k.push_back('|');
  // messages: data, ages (clamped), poll order relative to the smallest, poll time ranks
  vector<Message*> all = allMessages();
  vector<Message*>& pv = VerifAccess::pollVec(g_map);
  unsigned base = ~0u; vector<long> times;
  for (Message* m : pv) { base = std::min(base, VerifAccess::order(m)); times.push_back((long)VerifAccess::lastPollTime(m)); }
  std::sort(times.begin(), times.end()); times.erase(std::unique(times.begin(), times.end()), times.end());
  for (Message* m : pv) k += ji(midOf(m)) + ",";   // heap layout of the poll queue
  for (Message* m : all) {
    k += ji(midOf(m)); k.push_back(m->isPassive() ? 'p' : 'a');
    k += jb(m->getLastMasterData()); k += jb(m->getLastSlaveData());
    k.push_back((char)age(VerifAccess::upd(m))); k.push_back(VerifAccess::chg(m) ? 1 : 0);
    if (m->getPollPriority() > 0) { k += ji((long)(VerifAccess::order(m) - base)); k.push_back(','); k += ji((long)(std::lower_bound(times.begin(), times.end(), (long)VerifAccess::lastPollTime(m)) - times.begin())); }
    ChainedMessage* c = dynamic_cast<ChainedMessage*>(m);
    if (c) for (size_t i = 0; i < VerifAccess::parts(c); i++) {
      k += jb(VerifAccess::partMaster(c, i)); k += jb(VerifAccess::partSlave(c, i));
      k.push_back((char)age(VerifAccess::partMasterTime(c, i))); k.push_back((char)age(VerifAccess::partSlaveTime(c, i)));
    }
    k.push_back(';');
  }
  k.push_back((char)(g_coActive ? (g_coWaiting ? 2 : 1) : 0)); k.push_back((char)g_coAddr);
  return k;
}

// observation at the end of every edge: queues, live requests, flags, running scans, result presence
static bool g_leak = false;   // more live request objects than any scenario needs: exploration stops here (the monitors report the leak)
static void endObs(bool step) {
  checkQuarantine();
  if (g_live.size() > 8 && !g_leak) { g_leak = true; bad("more-than-8-live-request-objects", (long)g_live.size()); }
  string nq = "[", fq = "[", lv = "[", fl = "[", rs = "[";
  bool f = true; for (BusRequest* r : VerifAccess::nextq(g_h)) { nq += (f ? "" : ",") + ji(ridOfProxy(r)); f = false; }
  f = true; for (BusRequest* r : VerifAccess::finq(g_h)) { fq += (f ? "" : ",") + ji(ridOfProxy(r)); f = false; }
  f = true; for (Live& l : g_live) { lv += (f ? "" : ",") + ji(l.rid); f = false; }
  symbol_t* fg = VerifAccess::flags(g_bus);
  f = true; for (int a = 0; a < 256; a++) if (fg[a]) { fl += string(f ? "" : ",") + "[" + ji(a) + "," + ji(fg[a]) + "]"; f = false; }
  f = true; for (auto& kv : VerifAccess::results(g_bus)) { long n = 0; for (const string& s : kv.second) n += (long)s.size(); rs += string(f ? "" : ",") + "[" + ji(kv.first) + "," + ji(n) + "]"; f = false; }
  ev("{\"e\":\"obs\",\"nextq\":" + nq + "],\"finq\":" + fq + "],\"cur\":" + ji(ridOfProxy(VerifAccess::cur(g_h))) + ",\"live\":" + lv + "],\"flags\":" + fl + "],\"results\":" + rs +
     "],\"step\":" + ji(step) + ",\"running\":" + ji(VerifAccess::running(g_bus)) + ",\"nosignal\":" + ji(VerifAccess::busState(g_h) == bs_noSignal) + ",\"co\":" + ji(g_coActive) + "}");
}

// ---------------------------------------------------------------- client calls
static void coMain() {
  g_inCo = true;
  int a = g_coAddr;
  WorldObs x = observe();
  result_t r = g_bus->scanAndWait((symbol_t)a, false, false);
  WorldObs y = observe();
  std::ostringstream out; bool have = g_bus->formatScanResult((symbol_t)a, false, &out);
  string lens = "[";
  if (y.results.count(a)) for (size_t i = 0; i < y.results[a].size(); i++) lens += (i ? "," : "") + ji((long)y.results[a][i].size());
  ev("{\"e\":\"swret\",\"a\":" + ji(a) + ",\"res\":" + ji(r) + ",\"have\":" + ji(have) + ",\"entry\":" + ji((long)y.results.count(a)) + ",\"lens\":" + lens + "],\"text\":" + jtext(out.str()) + "," + diffFields(x, y) + "}");
  g_coActive = false; g_inCo = false;
}
static void coResume() { if (g_coActive && g_coWaiting) swapcontext(&g_mainCtx, &g_coCtx); }
static bool execClient(const string& tok) {
  if (tok == "SCAN") {
    WorldObs x = observe();
    size_t before = g_live.size();
    result_t r = g_bus->startScan(false, "*");
    WorldObs y = observe();
    string fl = "[";
    for (auto& kv : x.flags) fl += string(fl.size() > 1 ? "," : "") + "[" + ji(kv.first) + "," + ji(kv.second) + "]";
    ev("{\"e\":\"scancall\",\"res\":" + ji(r) + ",\"flags\":" + fl + "],\"req\":" + (g_live.size() > before ? reqJson(g_live.back().real, g_live.back().kind) : string("{\"k\":\"none\"}")) +
       ",\"scanmsg\":" + ji(C.scanmsg) + "," + diffFields(x, y) + "}");
    return true;
  }
  if (tok.compare(0, 6, "SCANW=") == 0) {
    if (g_coActive) return false;
    g_coAddr = (int)strtoul(tok.c_str() + 6, nullptr, 16);
    if (!g_coStack) g_coStack = (char*)malloc(256 * 1024);
    getcontext(&g_coCtx); g_coCtx.uc_stack.ss_sp = g_coStack; g_coCtx.uc_stack.ss_size = 256 * 1024; g_coCtx.uc_link = &g_mainCtx;
    makecontext(&g_coCtx, coMain, 0);
    g_coActive = true; g_coWaiting = false;
    ev("{\"e\":\"swcall\",\"a\":" + ji(g_coAddr) + "}");
    swapcontext(&g_mainCtx, &g_coCtx);
    return true;
  }
  return false;
}
static vector<string> clientTokens() {
  vector<string> v;
  int alive = 0; for (Live& l : g_live) if (l.kind == 2) alive++;
  if (C.scan > 0 && (alive < C.scan || VerifAccess::running(g_bus) > 0)) v.push_back("SCAN");
  if (!g_coActive) for (uint8_t a : C.scanw) { char b[16]; snprintf(b, sizeof b, "SCANW=%02x", a); v.push_back(b); }
  return v;
}

// one edge: a client call, or one bus cycle with the given environment decisions; returns the label actually executed
static string execEdge(const string& tok) {
  g_ev.clear();
  if (tok == "SCAN" || tok.compare(0, 6, "SCANW=") == 0) {
    if (!execClient(tok)) bad("client-call-not-applicable");
    endObs(false);
    return tok;
  }
  vector<string> want;
  size_t p = 0; while (p < tok.size()) { size_t e = tok.find('.', p); want.push_back(tok.substr(p, e == string::npos ? e : e - p)); p = e == string::npos ? tok.size() : e + 1; }
  if (!g_dec.rng) g_dec.reset(want); else { g_dec.pos = 0; g_dec.used.clear(); }
  int n = 0;
  do { VerifAccess::iter(g_h, g_dev); coResume(); } while (!g_sim->idle() && ++n < 400);
  if (n >= 400) bad("bus-cycle-does-not-end");
  if (g_dec.mismatch) bad("replayed-decision-not-offered");
  endObs(true);
  return labelOf(g_dec.used);
}

// ---------------------------------------------------------------- process helpers
static void writeAll(int fd, const string& s) { size_t off = 0; while (off < s.size()) { ssize_t w = write(fd, s.data() + off, s.size() - off); if (w <= 0) _exit(4); off += (size_t)w; } }
static string readAll(int fd) { string s; char buf[65536]; ssize_t r; while ((r = read(fd, buf, sizeof buf)) > 0) s.append(buf, (size_t)r); return s; }
static void crashHandler(int sig) {
  // a crash inside the real code (e.g. a call through a deleted request object) is an observation, not a harness failure
  const char* m = sig == SIGSEGV ? "CRASH 11\n" : sig == SIGBUS ? "CRASH 7\n" : "CRASH 6\n";
  (void)!write(2, m, strlen(m)); _exit(40 + (sig == SIGSEGV ? 1 : sig == SIGBUS ? 2 : 3));
}
static string hexKey(const string& k) {   // 128-bit digest of the state key: the coordinator must stay small (fork cost grows with its size)
  uint64_t a = 0xcbf29ce484222325ULL, b = 0x84222325cbf29ce4ULL;
  for (unsigned char c : k) { a = (a ^ c) * 0x100000001b3ULL; b = (b + c + 0x9E3779B97F4A7C15ULL) * 0xff51afd7ed558ccdULL; b ^= b >> 29; }
  a ^= a >> 33; a *= 0xc4ceb9fe1a85ec53ULL; a ^= a >> 33; b ^= (uint64_t)k.size() * 0xBF58476D1CE4E5B9ULL; b ^= b >> 31;
  char o[40]; snprintf(o, sizeof o, "%016llx%016llx", (unsigned long long)a, (unsigned long long)b);
  return o;
}
// runs one edge in a forked child; result line: label \t key \t events \t used decisions (chosen:opt,opt;...)
static string edgeInChild(const string& tok) {
  int p[2]; if (pipe(p)) _exit(5);
  pid_t c = fork();
  if (c < 0) _exit(6);
  if (c == 0) {
    close(p[0]);
    string label = execEdge(tok);
    string used;
    for (const Used& u : g_dec.used) { used += u.chosen + ":"; for (size_t i = 0; i < u.opts.size(); i++) used += (i ? "," : "") + u.opts[i]; used += ";"; }
    writeAll(p[1], label + "\t" + (g_leak ? string("CRASH-leak-") : string()) + hexKey(stateKey()) + "\t" + g_ev + "\t" + used + "\n");
    _exit(0);
  }
  close(p[1]);
  string r = readAll(p[0]); close(p[0]);
  int st; waitpid(c, &st, 0);
  if (!WIFEXITED(st) || WEXITSTATUS(st) != 0) {
    int code = WIFEXITED(st) ? WEXITSTATUS(st) : 100 + WTERMSIG(st);
    return tok + "\tCRASH" + std::to_string(code) + "\t{\"e\":\"bad\",\"what\":\"crash-in-real-code\",\"a\":" + std::to_string(code) + "}\t\n";
  }
  return r;
}
// all outgoing edges of the current state (the caller is a child that replayed the path to the node)
static string expandHere() {
  string all;
  for (const string& t : clientTokens()) all += edgeInChild(t);
  vector<string> work{""}; std::set<string> tried{""}, done;
  while (!work.empty()) {
    string tk = work.back(); work.pop_back();
    string line = edgeInChild(tk);
    size_t t1 = line.find('\t'), t3 = line.rfind('\t');
    string label = line.substr(0, t1);
    if (!done.insert(label).second) continue;
    all += line;
    // alternatives: every prefix of the used decisions with one other option at its end
    string used = line.substr(t3 + 1); if (!used.empty() && used.back() == '\n') used.pop_back();
    vector<string> chosen; vector<vector<string>> opts;
    size_t q = 0;
    while (q < used.size()) {
      size_t e = used.find(';', q); string one = used.substr(q, e - q); q = e + 1;
      size_t c = one.find(':'); chosen.push_back(one.substr(0, c));
      vector<string> o; size_t s = c + 1; while (s <= one.size()) { size_t e2 = one.find(',', s); o.push_back(one.substr(s, e2 == string::npos ? e2 : e2 - s)); if (e2 == string::npos) break; s = e2 + 1; }
      opts.push_back(o);
    }
    string prefix;
    for (size_t i = 0; i < chosen.size(); i++) {
      for (const string& o : opts[i]) if (o != chosen[i]) { string alt = prefix + (prefix.empty() ? "" : ".") + o; if (tried.insert(alt).second) work.push_back(alt); }
      prefix += (prefix.empty() ? "" : ".") + chosen[i];
    }
  }
  return all;
}

// ---------------------------------------------------------------- graph extraction
struct NodeInfo { int parent; string label; int depth; bool sink; };
static int cmdGraph(const char* outPath) {
  vf::Out out(outPath);
  std::map<string, long> ids;
  vector<NodeInfo> info(2);
  std::deque<long> queue;
  std::set<string> recs;
  {  // initial key (computed in a child like every other state)
    int p[2]; if (pipe(p)) return 2;
    pid_t c = fork();
    if (c == 0) { close(p[0]); writeAll(p[1], hexKey(stateKey())); _exit(0); }
    close(p[1]); string k = readAll(p[0]); close(p[0]); int st; waitpid(c, &st, 0);
    ids[k] = 1; info[1] = NodeInfo{0, "", 0, false}; queue.push_back(1);
  }
  struct Job { long id; pid_t pid; int fd; };
  std::deque<Job> jobs;
  long nedges = 0, written = 0; bool capped = false; int maxDepth = 0; long crashes = 0;
  auto start = [&](long id) {
    vector<string> path; for (long x = id; x != 1; x = info[x].parent) path.push_back(info[x].label);
    std::reverse(path.begin(), path.end());
    int p[2]; if (pipe(p)) exit(2);
    pid_t c = fork();
    if (c < 0) { perror("fork"); exit(2); }
    if (c == 0) {
      close(p[0]);
      for (Job& j : jobs) close(j.fd);
      for (const string& t : path) execEdge(t);
      writeAll(p[1], expandHere());
      _exit(0);
    }
    close(p[1]);
    jobs.push_back(Job{id, c, p[0]});
  };
  while (!queue.empty() || !jobs.empty()) {
    while (!queue.empty() && (int)jobs.size() < C.workers) {
      long id = queue.front();
      if (info[id].sink || (C.depth > 0 && info[id].depth >= C.depth)) { queue.pop_front(); jobs.push_back(Job{id, 0, -1}); continue; }
      queue.pop_front(); start(id);
    }
    Job j = jobs.front(); jobs.pop_front();
    string res;
    if (j.fd >= 0) {
      res = readAll(j.fd); close(j.fd);
      int st; waitpid(j.pid, &st, 0);
      if (!WIFEXITED(st) || WEXITSTATUS(st) != 0) { fprintf(stderr, "expansion of node %ld failed (status %d)\n", j.id, st); return 2; }
    }
    if (j.id != written + 1) { fprintf(stderr, "bfs order broken\n"); return 2; }
    maxDepth = std::max(maxDepth, info[j.id].depth);
    string line = "{\"id\":" + std::to_string(j.id) + ",\"succ\":[";
    std::istringstream rs(res); string l; bool first = true;
    while (std::getline(rs, l)) {
      size_t t1 = l.find('\t'), t2 = l.find('\t', t1 + 1), t3 = l.find('\t', t2 + 1);
      string label = l.substr(0, t1), key = l.substr(t1 + 1, t2 - t1 - 1), evs = l.substr(t2 + 1, t3 - t2 - 1);
      if (key.compare(0, 5, "CRASH") == 0) crashes++;
      long to;
      auto it = ids.find(key);
      if (it != ids.end()) to = it->second;
      else if ((long)ids.size() >= C.maxNodes) { capped = true; continue; }
      else { to = (long)ids.size() + 1; ids[key] = to; info.push_back(NodeInfo{(int)j.id, label, info[j.id].depth + 1, key.compare(0, 5, "CRASH") == 0}); queue.push_back(to); }
      line += string(first ? "" : ",") + "{\"in\":\"" + label + "\",\"ev\":[" + evs + "],\"to\":" + std::to_string(to) + "}"; first = false;
      nedges++;
      if (!C.recs.empty()) {   // distinct records for S fidelity: split the top-level event objects
        int depth = 0; size_t s0 = 0;
        for (size_t i = 0; i < evs.size(); i++) {
          if (evs[i] == '{') { if (depth == 0) s0 = i; depth++; }
          else if (evs[i] == '}') { depth--; if (depth == 0) { string one = evs.substr(s0, i - s0 + 1); if (one.compare(0, 10, "{\"e\":\"obs\"") != 0) recs.insert(one); } }
        }
      }
    }
    out.raw(line + "]}\n"); written++;
  }
  // nodes that were discovered but never expanded because of maxnodes do not exist: ids are dense by construction
  if (!C.recs.empty()) { vf::Out r(C.recs.c_str()); for (const string& s : recs) r.raw(s + "\n"); }
  bool fix = !capped && C.depth == 0;
  printf("{\"nodes\":%ld,\"edges\":%ld,\"fixpoint\":%s,\"depth\":%d,\"records\":%zu,\"crashes\":%ld}\n", (long)ids.size(), nedges, fix ? "true" : "false", maxDepth, recs.size(), crashes);
  return 0;
}

// ---------------------------------------------------------------- linear executions
static int cmdReplay(const char* inPath, const char* outPath) {
  std::ifstream f(inPath); if (!f) { perror(inPath); return 2; }
  vf::Out out(outPath);
  string tk; long id = 1;
  std::set<string> recs;
  while (std::getline(f, tk)) {
    while (!tk.empty() && (tk.back() == '\n' || tk.back() == '\r')) tk.pop_back();
    string label = execEdge(tk);
    out.raw("{\"id\":" + std::to_string(id) + ",\"succ\":[{\"in\":\"" + label + "\",\"ev\":[" + g_ev + "],\"to\":" + std::to_string(id + 1) + "}]}\n");
    fflush(out.f);
    id++;
  }
  out.raw("{\"id\":" + std::to_string(id) + ",\"succ\":[]}\n");
  printf("{\"nodes\":%ld,\"edges\":%ld}\n", id, id - 1);
  return 0;
}
static int cmdRandom(const char* outPath, long steps) {
  vf::Out out(outPath);
  vf::Rng rng(vf::seedFromEnv());
  long id = 1, clientCalls = 0;
  for (long k = 0; k < steps; k++) {
    string label;
    vector<string> ct = clientTokens();
    if (!ct.empty() && rng.below(100) < 6) { label = execEdge(ct[rng.below((unsigned)ct.size())]); clientCalls++; }
    else { g_dec.rng = &rng; label = execEdge(""); g_dec.rng = nullptr; }
    out.raw("{\"id\":" + std::to_string(id) + ",\"succ\":[{\"in\":\"" + label + "\",\"ev\":[" + g_ev + "],\"to\":" + std::to_string(id + 1) + "}]}\n");
    fflush(out.f);
    id++;
    if (g_leak) break;
  }
  out.raw("{\"id\":" + std::to_string(id) + ",\"succ\":[]}\n");
  printf("{\"nodes\":%ld,\"edges\":%ld,\"random\":true,\"client_calls\":%ld}\n", id, id - 1, clientCalls);
  return 0;
}

// linear modes run in a forked child writing line by line: a crash inside the real code (e.g. a call through a deleted
// request object) ends the execution with a "bad" event instead of killing the harness
static int inChild(const char* outPath, const std::function<int()>& body) {
  fflush(nullptr);
  pid_t c = fork();
  if (c < 0) { perror("fork"); return 2; }
  if (c == 0) { int r = body(); fflush(nullptr); _exit(r); }
  int st; waitpid(c, &st, 0);
  if (WIFEXITED(st) && WEXITSTATUS(st) < 40) return WEXITSTATUS(st);
  int code = WIFEXITED(st) ? WEXITSTATUS(st) : 100 + WTERMSIG(st);
  std::ifstream f(outPath); string l; vector<string> lines;
  while (std::getline(f, l)) if (!l.empty() && l.back() == '}') lines.push_back(l);
  f.close();
  while (!lines.empty() && lines.back().find("\"succ\":[]}") != string::npos) lines.pop_back();
  vf::Out out(outPath);
  for (const string& x : lines) out.raw(x + "\n");
  long id = (long)lines.size() + 1;
  out.raw("{\"id\":" + std::to_string(id) + ",\"succ\":[{\"in\":\"?\",\"ev\":[{\"e\":\"bad\",\"what\":\"crash-in-real-code\",\"a\":" + std::to_string(code) + "}],\"to\":" + std::to_string(id + 1) + "}]}\n");
  out.raw("{\"id\":" + std::to_string(id + 1) + ",\"succ\":[]}\n");
  printf("{\"nodes\":%ld,\"edges\":%ld,\"crashed\":%d}\n", id + 1, id, code);
  return 0;
}

int main(int argc, char** argv) {
  vf::installTerminate();
  setFacilitiesLogLevel(0xffff, ll_none);
  if (argc < 3) { fprintf(stderr, "usage: c04_bushandler graph out.ndjson key=value... | replay out.ndjson tokens.txt key=value... | random out.ndjson steps key=value...\n"); return 2; }
  string mode = argv[1];
  int first = mode == "graph" ? 3 : 4;
  for (int i = first; i < argc; i++) parseArg(argv[i]);
  signal(SIGSEGV, crashHandler); signal(SIGBUS, crashHandler); signal(SIGABRT, crashHandler);
  construct();
  if (mode == "graph") return cmdGraph(argv[2]);
  if (mode == "replay") return inChild(argv[2], [&]() { return cmdReplay(argv[3], argv[2]); });
  if (mode == "random") return inChild(argv[2], [&]() { return cmdRandom(argv[2], atol(argv[3])); });
  return 2;
}
