// C05 / C06: records of the real decoding (and decode->encode->decode->encode chains) of every built-in data
// type for TLC to judge.  Definitions are created with DataField::create (so derive(), value lists, bit fields
// are the real ones); values are read with DataField::read -> DataType::readSymbols and written with
// DataField::write -> DataType::writeSymbols.
//
// usage: c05_decode <out-prefix> quick|thorough c05|c06|enc <group> [cases.ndjson]
//   writes <out-prefix>.NNN.ndjson (records) and <out-prefix>.NNN.idx (one line per family: where, how many, domain)
#include "vf.h"
#include <map>
#include <set>
#include <sstream>
#include <algorithm>
#include <functional>
#include "lib/ebus/symbol.h"
#include "lib/ebus/result.h"
#include "lib/ebus/datatype.h"
#include "lib/ebus/data.h"
using namespace ebusd;
using std::string; using std::vector; using std::map;
typedef vector<uint8_t> Bytes;

static bool g_thorough = false;
static string g_mode = "c05";
static vf::Rng* g_rng = nullptr;

// ---- sharded output -------------------------------------------------------------------------------------------
struct Sink {
  string prefix; int shard = -1; FILE* rf = nullptr; FILE* xf = nullptr; long line = 0; long limit = 120000;
  long total = 0;
  void open() {
    close(); shard++; line = 0;
    char b[32]; snprintf(b, sizeof b, ".%03d", shard);
    rf = fopen((prefix + b + ".ndjson").c_str(), "w"); xf = fopen((prefix + b + ".idx").c_str(), "w");
    if (!rf || !xf) { perror("open shard"); exit(2); }
    setvbuf(rf, nullptr, _IOFBF, 1 << 20);
  }
  void close() { if (rf) fclose(rf); if (xf) fclose(xf); rf = xf = nullptr; }
  // family bracket
  long famAt = 0; string famHead; std::set<Bytes> famPats;
  void beginFamily(const string& head) { if (!rf || line >= limit) open(); famAt = line + 1; famHead = head; famPats.clear(); }
  void endFamily(const char* dom) {
    fprintf(xf, "{%s,\"dom\":\"%s\",\"at\":%ld,\"n\":%ld,\"u\":%zu,\"sh\":%d}\n", famHead.c_str(), dom, famAt, line + 1 - famAt,
            famPats.size(), shard);
  }
  void rec(const string& s) { fwrite(s.data(), 1, s.size(), rf); fputc('\n', rf); line++; total++; }
};
static Sink g_out;

// ---- definitions ---------------------------------------------------------------------------------------------
static const char* VLISTS[] = { "", "0=off;1=on;2=auto;254=max", "1=a;2=b", "0=zero;1000=k;65534=max", "1=one;5=five",
                                "0=z;1=a;2=b;3=c", "1=x;99=y" };

struct Def {
  string key;      // key of the type table (as registered: "BCD:2", "HDA:3", "STR", "BI3")
  int len;         // length argument for adjustable types (bytes, bits for BIx; 255 = '*'), 0 = none
  int div;         // user divisor, 0 = none
  int vl;          // value list id, 0 = none
  bool master;
  const DataField* field;
  size_t nbytes;   // data bytes consumed (for '*': chosen per pattern)
  string head;     // json fragment identifying the definition
};

static string vlJson(int vl) {
  if (!vl) return "";
  string o = ",\"vl\":[";
  std::istringstream st(VLISTS[vl]); string tok; bool first = true;
  while (std::getline(st, tok, ';')) {
    size_t eq = tok.find('=');
    if (!first) o += ","; first = false;
    o += "[" + tok.substr(0, eq) + "," + vf::jbytes(tok.substr(eq + 1)) + "]";
  }
  return o + "]";
}

static Def* makeDef(const string& key, int len, int div, int vl, bool master = true) {
  Def* d = new Def{key, len, div, vl, master, nullptr, 0, ""};
  string type = key;
  std::transform(type.begin(), type.end(), type.begin(), ::tolower);
  if (len == 255) type += ":*"; else if (len > 0) type += ":" + std::to_string(len);
  vector< map<string, string> > rows(1);
  rows[0]["name"] = "x";
  rows[0]["part"] = master ? "m" : "s";
  rows[0]["type"] = type;
  if (div) rows[0]["divisor"] = std::to_string(div);
  if (vl) rows[0]["values"] = VLISTS[vl];
  DataFieldTemplates templ;
  string err;
  const DataField* f = nullptr;
  result_t rc = DataField::create(master, false, false, MAX_POS + 10, &templ, &rows, &err, &f);
  if (rc != RESULT_OK || !f) {
    fprintf(stderr, "HARNESS: cannot create %s div=%d vl=%d: %d %s\n", type.c_str(), div, vl, rc, err.c_str());
    exit(2);
  }
  d->field = f;
  const DataType* dt = static_cast<const SingleDataField*>(f)->getDataType();
  size_t bits = dt->getBitCount();
  d->nbytes = dt->isAdjustableLength() ? (bits % 8 ? 1 : (len == 0 ? 1 : len)) : (bits + 7) / 8;
  char b[160];
  snprintf(b, sizeof b, "\"t\":\"%s\",\"l\":%d,\"d\":%d,\"v\":%d,\"m\":%d", key.c_str(), len, div, vl, master ? 1 : 0);
  d->head = b;
  return d;
}

static const OutputFormat FMT[] = {
  OF_SHORT, OF_SHORT | OF_JSON, OF_SHORT | OF_NUMERIC, OF_SHORT | OF_VALUENAME, OF_SHORT | OF_JSON | OF_VALUENAME };

static void fill(SymbolString* s, bool master, const Bytes& b) {
  if (master) { s->push_back(0x10); s->push_back(0xfe); s->push_back(0x07); s->push_back(0x00); }
  s->push_back((symbol_t)b.size());
  for (uint8_t x : b) s->push_back(x);
}
static result_t decode(const Def& d, const Bytes& b, int fmt, string* text) {
  std::ostringstream out;
  result_t rc;
  if (d.master) { MasterSymbolString s; fill(&s, true, b); rc = d.field->read(s, 0, false, nullptr, 0, FMT[fmt], -1, &out); }
  else { SlaveSymbolString s; fill(&s, false, b); rc = d.field->read(s, 0, false, nullptr, 0, FMT[fmt], -1, &out); }
  *text = out.str();
  return rc;
}
static result_t encode(const Def& d, const string& text, Bytes* b) {
  std::istringstream in(text);
  result_t rc; size_t used = 0;
  b->clear();
  if (d.master) {
    MasterSymbolString s; fill(&s, true, Bytes());
    rc = d.field->write(UI_FIELD_SEPARATOR, 0, &in, &s, &used);
    for (size_t i = 0; i < s.getCalculatedDataSize(); i++) b->push_back(s.dataAt(i));
  } else {
    SlaveSymbolString s; fill(&s, false, Bytes());
    rc = d.field->write(UI_FIELD_SEPARATOR, 0, &in, &s, &used);
    for (size_t i = 0; i < s.getCalculatedDataSize(); i++) b->push_back(s.dataAt(i));
  }
  return rc;
}

// one record ---------------------------------------------------------------------------------------------------
static string g_vl;   // cached ",vl:[..]" of the current definition
static void emit(const Def& d, int fmt, const Bytes& b) {
  char h[96];
  g_out.famPats.insert(b);
  string text;
  if (g_mode == "c05") {
    result_t rc = decode(d, b, fmt, &text);
    snprintf(h, sizeof h, ",\"f\":%d,\"rc\":%d,\"b\":", fmt, rc);
    g_out.rec("{" + d.head + g_vl + h + vf::jbytes(b) + ",\"o\":" + vf::jbytes(text) + "}");
    return;
  }
  // c06: decode -> encode -> decode -> encode
  result_t rc1 = decode(d, b, 0, &text), rc2 = RESULT_EMPTY, rc3 = RESULT_EMPTY, rc4 = RESULT_EMPTY;
  Bytes b2, b4; string t3;
  if (rc1 == RESULT_OK) {
    rc2 = encode(d, text, &b2);
    if (rc2 == RESULT_OK) {
      rc3 = decode(d, b2, 0, &t3);
      if (rc3 == RESULT_OK) rc4 = encode(d, t3, &b4);
    }
  }
  snprintf(h, sizeof h, ",\"f\":0,\"rc\":%d,\"rc2\":%d,\"rc3\":%d,\"rc4\":%d,\"b\":", rc1, rc2, rc3, rc4);
  g_out.rec("{" + d.head + g_vl + h + vf::jbytes(b) + ",\"o\":" + vf::jbytes(text) + ",\"b2\":" + vf::jbytes(b2)
            + ",\"o3\":" + vf::jbytes(t3) + ",\"b4\":" + vf::jbytes(b4) + "}");
}

// pattern domains ------------------------------------------------------------------------------------------------
static const uint8_t BND[] = {0x00, 0x01, 0x09, 0x0a, 0x0c, 0x0d, 0x10, 0x17, 0x18, 0x19, 0x1f, 0x20, 0x23, 0x24, 0x25, 0x3b, 0x3c,
                              0x59, 0x5a, 0x60, 0x63, 0x64, 0x7f, 0x80, 0x81, 0x90, 0x99, 0x9a, 0xa0, 0xc8, 0xc9, 0xfe, 0xff};
static const int NBND = sizeof BND;

typedef std::function<void(const Bytes&)> PatFn;

static void all8(const PatFn& f) { for (int v = 0; v < 256; v++) f(Bytes{(uint8_t)v}); }
static void all16(const PatFn& f) { for (int v = 0; v < 65536; v++) f(Bytes{(uint8_t)(v & 0xff), (uint8_t)(v >> 8)}); }
// stratified sample of the 16 bit patterns: one per 16-block of the low byte for every high byte, the same
// transposed, and all pairs of boundary bytes
static int g_step16 = 2;   // 16 / (patterns per high byte): 2 => 4096 stratified patterns (x2: transposed)
static void sample16(const PatFn& f) {
  std::set<int> s;
  for (int hi = 0; hi < 256; hi++) for (int blk = g_rng->below(g_step16); blk < 16; blk += g_step16) {
    int lo = blk * 16 + g_rng->below(16);
    s.insert(hi * 256 + lo); s.insert(lo * 256 + hi);
  }
  for (int i = 0; i < NBND; i++) for (int j = 0; j < NBND; j++) s.insert(BND[i] * 256 + BND[j]);
  for (int v = 0; v < 64; v++) { s.insert(v); s.insert(65535 - v); s.insert(32768 - 32 + v); }
  for (int v : s) f(Bytes{(uint8_t)(v & 0xff), (uint8_t)(v >> 8)});
}
static void wide(size_t n, int nrand, bool fewBoundaries, const PatFn& f) {
  static const uint8_t B6[] = {0x00, 0x01, 0x7f, 0x80, 0xfe, 0xff, 0x99, 0x63};
  int nb = fewBoundaries ? 4 : (n == 3 ? 8 : 6);
  Bytes b(n);
  std::function<void(size_t)> rec = [&](size_t i) {
    if (i == n) { f(b); return; }
    for (int k = 0; k < nb; k++) { b[i] = B6[fewBoundaries ? (k * 5) % 6 : k]; rec(i + 1); }
  };
  rec(0);
  for (int i = 0; i < nrand; i++) {
    unsigned kind = g_rng->below(5);
    for (size_t k = 0; k < n; k++) {
      if (kind == 0) b[k] = (uint8_t)g_rng->below(256);
      else if (kind == 1) b[k] = (uint8_t)(g_rng->below(10) * 16 + g_rng->below(10));   // BCD digits
      else if (kind == 2) b[k] = (uint8_t)g_rng->below(100);                            // HCD digits
      else if (kind == 3) b[k] = g_rng->chance(1, 3) ? BND[g_rng->below(NBND)] : (uint8_t)g_rng->below(256);
      else b[k] = (k + 2 >= n) ? (g_rng->chance(1, 2) ? 0x00 : 0xff) : (uint8_t)g_rng->below(256);   // small magnitudes
    }
    if (kind == 4 && g_rng->chance(1, 2)) std::reverse(b.begin(), b.end());
    f(b);
  }
}

static void family(const Def& d, int fmt, const char* dom, const std::function<void(const PatFn&)>& gen) {
  char h[32]; snprintf(h, sizeof h, ",\"f\":%d", fmt);
  g_out.beginFamily(d.head + h);
  g_vl = vlJson(d.vl);
  gen([&](const Bytes& b) { emit(d, fmt, b); });
  g_out.endFamily(dom);
}
// the standard domain of a fixed width definition; light = thinner sample (quick tier, secondary divisors/formats)
static void standard(const Def& d, int fmt, bool exhaustive16, bool light = false) {
  if (d.nbytes == 1) family(d, fmt, "all8", all8);
  else if (d.nbytes == 2) {
    g_step16 = light ? 4 : 2;
    if (exhaustive16) family(d, fmt, "all16", all16); else family(d, fmt, light ? "s16l" : "s16", sample16);
  } else {
    int nr = g_thorough ? (light ? 4000 : 20000) : (light ? 120 : 500);
    size_t n = d.nbytes;
    family(d, fmt, n == 3 ? "w24" : "w32", [&](const PatFn& f) { wide(n, nr, light && !g_thorough, f); });
  }
}
static vector<int> fmts() { return g_mode == "c05" ? vector<int>{0, 1} : vector<int>{0}; }

// ---- groups ------------------------------------------------------------------------------------------------------
static const char* NUM1[] = {"UCH", "U1L", "SCH", "S1L", "D1B", "D1C", "BCD", "BCD:1", "HCD:1"};
static const char* NUM2[] = {"PIN", "BCD:2", "HCD:2", "D2B", "D2C", "FLT", "FLR", "UIN", "UIR", "U2L", "U2B", "SIN", "SIR", "S2L", "S2B"};
static const char* NUM3[] = {"BCD:3", "HCD:3", "U3N", "U3R", "U3L", "U3B", "S3N", "S3R", "S3L", "S3B"};
static const char* NUM4[] = {"BCD:4", "HCD", "HCD:4", "ULG", "ULR", "U4L", "U4B", "SLG", "SLR", "S4L", "S4B"};

static bool builtinDiv(const string& k) { return k == "D1C" || k == "D2B" || k == "D2C" || k == "FLT" || k == "FLR"; }

static void groupNum1() {
  for (const char* k : NUM1) for (int div : {0, 10, 100, -10}) {
    if (div < 0 && builtinDiv(k)) continue;
    Def* d = makeDef(k, 0, div, 0);
    for (int f : fmts()) if (f == 0 || div == 0 || div == 10) standard(*d, f, true);
  }
}
static void groupNum2(int part, int parts) {
  int idx = 0;
  for (const char* k : NUM2) for (int div : {0, 10, 100, 1000, -10}) {
    if (div < 0 && builtinDiv(k)) continue;
    if ((idx++ % parts) != part) continue;
    Def* d = makeDef(k, 0, div, 0);
    for (int f : fmts()) if (f == 0 || div == 0) standard(*d, f, g_thorough && f == 0, !(f == 0 && (div == 0 || div == 10)));
  }
}
static void groupNum34() {
  for (const char* k : NUM3) for (int div : {0, 10, -10}) {
    Def* d = makeDef(k, 0, div, 0);
    for (int f : fmts()) if (f == 0 || div == 0) standard(*d, f, false, f != 0 || div != 0);
  }
  for (const char* k : NUM4) for (int div : {0, 10, -10}) {
    Def* d = makeDef(k, 0, div, 0);
    for (int f : fmts()) if (f == 0 || div == 0) standard(*d, f, false, f != 0 || div != 0);
  }
  for (const char* k : {"EXP", "EXR"}) {
    Def* d = makeDef(k, 0, 0, 0);
    for (int f : fmts()) family(*d, f, "w32", [&](const PatFn& fn) {
      bool rev = string(k) == "EXR";
      Bytes r{0x00, 0x00, 0xc0, 0x7f}; if (rev) std::reverse(r.begin(), r.end());
      fn(r); wide(4, g_thorough ? 20000 : 1500, false, fn);
    });
  }
}
static void groupBits() {
  static const int MAXB[] = {7, 7, 6, 5, 4, 3, 2, 1};
  for (int bit = 0; bit < 8; bit++) {
    string k = "BI" + std::to_string(bit);
    if (bit == 7) { Def* d = makeDef(k, 0, 0, 0); for (int f : fmts()) standard(*d, f, true); continue; }
    for (int n = 0; n <= MAXB[bit]; n++) { Def* d = makeDef(k, n, 0, 0); for (int f : fmts()) standard(*d, f, true); }
  }
}
static void groupLists() {
  struct L { const char* k; int len; int vl; } ls[] = {
    {"BDY", 0, 0}, {"HDY", 0, 0}, {"UCH", 0, 1}, {"U1L", 0, 2}, {"UIN", 0, 3}, {"BI3", 3, 4}, {"BI0", 2, 5}, {"BCD", 0, 6}};
  for (auto& l : ls) {
    Def* d = makeDef(l.k, l.len, 0, l.vl);
    vector<int> fs = g_mode == "c05" ? vector<int>{0, 1, 2, 3, 4} : vector<int>{0};
    for (int f : fs) standard(*d, f, g_thorough && f == 0);
  }
}

// dates ---------------------------------------------------------------------------------------------------------
static int bcd(int v) { return ((v / 10) << 4) | (v % 10); }
static bool leap(int y) { return (y % 4 == 0 && y % 100 != 0) || y % 400 == 0; }
static int mlen(int y, int m) { static const int L[] = {31, 28, 31, 30, 31, 30, 31, 31, 30, 31, 30, 31}; return m == 2 && leap(y) ? 29 : L[m - 1]; }
static void groupDates(int part, int parts) {
  int idx = 0;
  for (const char* k : {"BDA", "HDA", "BDA:4", "HDA:4", "BDA:3", "HDA:3", "BDZ"}) {
    if ((idx++ % parts) != part) continue;
    Def* d = makeDef(k, 0, 0, 0);
    string ks = k;
    bool isBcd = k[0] == 'B', four = d->nbytes == 4, zero = ks == "BDZ";
    bool dup = ks == "BDA:4" || ks == "HDA:4";
    // every calendar day 2000..2099 in both tiers; the registered duplicates (BDA:4, HDA:4) in the quick tier:
    // every 6th day plus every month start and all days 28..31
    bool fullCentury = g_thorough || !dup;
    for (int f : fmts()) {
      if (f == 1 && (dup || !g_thorough) && ks != "HDA") continue;
      bool full = fullCentury && (f == 0 || g_thorough);
      // every calendar day 2000..2099 (weekday byte correct, every 5th record a wrong or odd one)
      family(*d, f, full ? "days" : "somedays", [&](const PatFn& fn) {
        long n = 36524;  // days since 01.01.1900 of 01.01.2000; weekday = n % 7 (0 = Monday)
        long cnt = 0;
        for (int y = 2000; y <= 2099; y++) for (int m = 1; m <= 12; m++) for (int dd = 1; dd <= mlen(y, m); dd++, n++, cnt++) {
          if (!full && !(cnt % 6 == 0 || dd >= 28 || dd == 1)) continue;
          int wd = (int)(n % 7) + (zero ? 0 : 1);
          if (cnt % 5 == 4) wd = g_rng->below(4) == 0 ? (int)g_rng->below(256) : (int)g_rng->below(8);
          Bytes b;
          b.push_back(isBcd ? bcd(dd) : dd); b.push_back(isBcd ? bcd(m) : m);
          if (four) b.push_back((uint8_t)wd);
          b.push_back(isBcd ? bcd(y - 2000) : y - 2000);
          fn(b);
        }
      });
      // invalid and boundary patterns (JSON: only the core block)
      if (f == 0 || g_thorough) family(*d, f, "bnd", [&](const PatFn& fn) {
        static const uint8_t YY[] = {0x04, 0xff, 0x64, 0x00, 0x24, 0x63, 0x99, 0x9a, 0xa0, 0xfe};
        int ny = g_thorough ? 10 : 3;
        for (int dd = 0; dd < 256; dd++) for (int m = 0; m < 256; m++) {
          bool core = (dd <= 0x32 || dd >= 0xfe) && (m <= 0x13 || m >= 0xfe);
          if (!core) {
            if (f != 0) continue;
            if (!g_thorough && (dd * 31 + m * 7) % 64 != 0) continue;
            if (g_thorough && dup && (dd + m) % 4 != 0) continue;
          }
          for (int yi = 0; yi < ny; yi++) {
            if (!core && yi != (dd + m) % 3) continue;
            Bytes b{(uint8_t)dd, (uint8_t)m};
            if (four) b.push_back((uint8_t)g_rng->below(9));
            b.push_back(YY[yi]);
            fn(b);
          }
        }
        if (f == 0) for (int yy = 0; yy < 256; yy++) for (int i = 0; i < NBND; i++) for (int j = 0; j < NBND; j++) {
          if ((i * NBND + j + yy) % (g_thorough ? 4 : 53) != 0) continue;
          Bytes b{BND[i], BND[j]};
          if (four) b.push_back((uint8_t)g_rng->below(256));
          b.push_back((uint8_t)yy);
          fn(b);
        }
      });
    }
  }
}

// day counts: DAY (every value) and DTM (every calendar day of its range, in both tiers) -----------------------------------
static void groupDayCounts() {
  Def* day = makeDef("DAY", 0, 0, 0);
  for (int f : fmts()) {
    if (g_thorough || f == 0) family(*day, f, "all16", all16);       // every day count, independent of the tier
    else { g_step16 = 4; family(*day, f, "s16l", [&](const PatFn& fn) {
      for (int v = 0; v < 800; v++) fn(Bytes{(uint8_t)(v & 0xff), (uint8_t)(v >> 8)});
      sample16(fn); }); }
  }
  Def* dtm = makeDef("DTM", 0, 0, 0);
  for (int f : fmts()) {
    bool full = f == 0 || g_thorough;     // JSON in the quick tier: every 6th day, all leap days and year ends
    family(*dtm, f, full ? "dtm" : "dtmq", [&](const PatFn& fn) {
      auto put = [&](uint32_t v) { fn(Bytes{(uint8_t)v, (uint8_t)(v >> 8), (uint8_t)(v >> 16), (uint8_t)(v >> 24)}); };
      const uint32_t maxv = 0x02da4e1f;
      int y = 2009, m = 1, dd = 1;
      for (uint32_t day0 = 0; day0 * 1440 <= maxv; day0++) {      // every calendar day 01.01.2009 .. 31.12.2099
        bool special = (m == 2 && dd >= 28) || dd == 1 || dd == mlen(y, m);
        if (full || day0 % 6 == 0 || special) {
          put(day0 * 1440);                                        // 00:00
          put(day0 * 1440 + 1 + g_rng->below(1438));               // a random minute
          if (g_thorough || special || day0 % 7 == 0) put(day0 * 1440 + 1439);   // 23:59
          if (g_thorough) put(day0 * 1440 + g_rng->below(1440));
        }
        if (++dd > mlen(y, m)) { dd = 1; if (++m > 12) { m = 1; y++; } }
      }
      for (uint32_t mi = 0; mi < 1440; mi++) put(g_rng->below(33237) * 1440 + mi);   // every minute of a day
      put(maxv); put(maxv + 1); put(0xffffffffu); put(0x7fffffffu); put(0x80000000u);
      for (int i = 0; i < 2000; i++) put((uint32_t)g_rng->next());
    });
  }
}

// times ---------------------------------------------------------------------------------------------------------
static void groupTimes() {
  for (const char* k : {"BTM", "HTM", "VTM", "MIN"}) {
    Def* d = makeDef(k, 0, 0, 0);
    for (int f : fmts()) {
      if (g_thorough && f == 0) family(*d, f, "all16", all16);
      else if (string(k) == "MIN") family(*d, f, "min", [&](const PatFn& fn) {
        for (int v = 0; v <= 1500; v++) fn(Bytes{(uint8_t)(v & 0xff), (uint8_t)(v >> 8)});
        sample16(fn);
      }); else family(*d, f, "s16", sample16);
    }
  }
  for (const char* k : {"TTM", "TTH", "TTQ"}) { Def* d = makeDef(k, 0, 0, 0); for (int f : fmts()) family(*d, f, "all8", all8); }
  for (const char* k : {"BTI", "HTI", "VTI"}) {
    Def* d = makeDef(k, 0, 0, 0);
    bool isBcd = k[0] == 'B', rev = k[0] != 'H';
    for (int f : fmts()) {
      if (f == 1 && !g_thorough) continue;
      bool allTimes = g_thorough && f == 0;
      family(*d, f, allTimes ? "alltimes" : "times", [&](const PatFn& fn) {
        for (int h = 0; h <= 24; h++) for (int m = 0; m < 60; m++) for (int s = 0; s < 60; s++) {
          if (!allTimes && !(g_rng->below(30) == 0 || (m % 59 == 0 && s % 59 == 0))) continue;
          Bytes b{(uint8_t)(isBcd ? bcd(h) : h), (uint8_t)(isBcd ? bcd(m) : m), (uint8_t)(isBcd ? bcd(s) : s)};
          if (rev) std::reverse(b.begin(), b.end());
          fn(b);
        }
      });
      family(*d, f, "bnd", [&](const PatFn& fn) {
        for (int i = 0; i < NBND; i++) for (int j = 0; j < NBND; j++) for (int l = 0; l < NBND; l++)
          if ((g_thorough && f == 0) || (i + j * 5 + l * 3) % 8 == 0) fn(Bytes{BND[i], BND[j], BND[l]});
        wide(3, g_thorough && f == 0 ? 20000 : 1000, false, fn);
      });
    }
  }
}

// strings -------------------------------------------------------------------------------------------------------
static void groupStrings() {
  for (const char* k : {"STR", "NTS", "HEX", "IGN"}) {
    for (int len : {0, 1, 2, 3, 5, 10, 16, 31, 255}) {
      if (string(k) == "IGN" && len != 0 && len != 3 && len != 255) continue;
      Def* d = makeDef(k, len, 0, 0);
      for (int f : fmts()) {
        if (len <= 1) { family(*d, f, "all8", all8); continue; }
        family(*d, f, "strings", [&](const PatFn& fn) {
          int n = g_thorough ? 3000 : 300;
          for (int i = 0; i < n; i++) {
            size_t L = len == 255 ? 1 + g_rng->below(24) : (size_t)len;
            Bytes b(L);
            unsigned kind = g_rng->below(6);
            for (size_t p = 0; p < L; p++) {
              if (kind <= 2) b[p] = (uint8_t)(0x20 + g_rng->below(0x5f));                      // printable
              else if (kind == 3) b[p] = g_rng->chance(1, 6) ? 0 : (uint8_t)(0x20 + g_rng->below(0x5f));   // with NULs
              else if (kind == 4) b[p] = g_rng->chance(1, 4) ? (uint8_t)"\"\\ -"[g_rng->below(4)] : (uint8_t)(0x20 + g_rng->below(0x5f));
              else b[p] = (uint8_t)g_rng->below(256);
            }
            if (kind == 2) for (size_t p = L - g_rng->below((unsigned)L + 1); p < L; p++) b[p] = string(k) == "NTS" ? 0 : 0x20;  // padded
            fn(b);
          }
          if (len == 2) { for (int i = 0; i < NBND; i++) for (int j = 0; j < NBND; j++) fn(Bytes{BND[i], BND[j]}); }
        });
      }
    }
  }
}

static void groupTem() {
  for (bool master : {true, false}) {
    Def* d = makeDef("TEM_P", 0, 0, 0, master);
    for (int f : fmts()) standard(*d, f, g_thorough && f == 0);
  }
}

// ---- pairs: a probe field decoded as the SECOND field of a message, through one DataFieldSet and one output stream --
// (a field's text must not depend on what the preceding field left behind in the stream state)
struct Spec { const char* key; int len; int div; vector<Bytes> pats; };
static string typeStr(const Spec& sp) {
  string type = sp.key;
  std::transform(type.begin(), type.end(), type.begin(), ::tolower);
  if (sp.len > 0) type += ":" + std::to_string(sp.len);
  return type;
}
static const DataField* makePairSet(const Spec& a, const Spec& b) {
  vector< map<string, string> > rows(2);
  const Spec* sp[2] = {&a, &b};
  for (int i = 0; i < 2; i++) {
    rows[i]["name"] = i == 0 ? "x" : "y";
    rows[i]["part"] = "m";
    rows[i]["type"] = typeStr(*sp[i]);
    if (sp[i]->div) rows[i]["divisor"] = std::to_string(sp[i]->div);
  }
  DataFieldTemplates templ; string err; const DataField* f = nullptr;
  result_t rc = DataField::create(true, false, false, MAX_POS + 10, &templ, &rows, &err, &f);
  if (rc != RESULT_OK || !f) { fprintf(stderr, "HARNESS: cannot create pair %s,%s: %d %s\n", a.key, b.key, rc, err.c_str()); exit(2); }
  return f;
}
static Bytes f32(float v, bool rev) {
  uint32_t u; memcpy(&u, &v, 4);
  Bytes b{(uint8_t)u, (uint8_t)(u >> 8), (uint8_t)(u >> 16), (uint8_t)(u >> 24)};
  if (rev) std::reverse(b.begin(), b.end());
  return b;
}
static void emitPair(const Def& fd, const Def& pd, const DataField* set, int fmt, const Bytes& fb, const Bytes& pb) {
  string fo, po;
  result_t frc = decode(fd, fb, fmt, &fo), prc = decode(pd, pb, fmt, &po);      // each alone, fresh stream
  Bytes all(fb); all.insert(all.end(), pb.begin(), pb.end());
  MasterSymbolString ms; fill(&ms, true, all);
  std::ostringstream out;
  result_t rc = set->read(ms, 0, false, nullptr, -1, FMT[fmt], -1, &out);         // both through one stream
  g_out.famPats.insert(all);
  char x[200];
  snprintf(x, sizeof x, ",\"f\":%d,\"rc\":%d,\"ft\":\"%s\",\"fl\":%d,\"fd\":%d,\"fn\":%zu,\"frc\":%d,\"prc\":%d,\"b\":",
           5 + fmt, rc, fd.key.c_str(), fd.len, fd.div, fb.size(), frc, prc);
  g_out.rec("{" + pd.head + x + vf::jbytes(all) + ",\"o\":" + vf::jbytes(out.str()) + ",\"fo\":" + vf::jbytes(fo)
            + ",\"po\":" + vf::jbytes(po) + "}");
}
static void groupPairs() {
  if (g_mode != "c05") return;
  vector<Bytes> fl, fr;
  for (float v : {1234.5f, 0.123456f, 1e10f, -2.5f, 0.25f, 100.0f, 0.0f, 3.14159274f, 1e-5f, 123456.789f}) { fl.push_back(f32(v, false)); fr.push_back(f32(v, true)); }
  fl.push_back(Bytes{0x00, 0x00, 0xc0, 0x7f}); fr.push_back(Bytes{0x7f, 0xc0, 0x00, 0x00});      // replacement
  vector<Spec> firsts = {
    {"D2C", 0, 0, {{0x38, 0x01}, {0xff, 0xff}}}, {"D1C", 0, 0, {{0x27}, {0xff}}}, {"D2B", 0, 0, {{0x80, 0x13}}},
    {"UCH", 0, 10, {{0x26}}}, {"UCH", 0, -10, {{0x26}}}, {"SIN", 0, 1000, {{0xa6, 0xff}}}, {"FLT", 0, 0, {{0x39, 0x30}}},
    {"EXP", 0, 0, {f32(0.0f, false), f32(1234.5f, false), f32(1e-7f, false)}}, {"EXR", 0, 0, {f32(0.0f, true)}},
    {"HEX", 2, 0, {{0x0a, 0xff}}}, {"BDA:3", 0, 0, {{0x26, 0x10, 0x14}}}, {"HTM", 0, 0, {{0x15, 0x04}}}, {"STR", 3, 0, {{0x61, 0x62, 0x20}}},
    {"PIN", 0, 0, {{0x01, 0x00}}}, {"UIN", 0, 0, {{0x39, 0x30}}}, {"BCD", 0, 0, {{0x26}}}, {"BI3", 3, 0, {{0x28}}}};
  vector<Spec> probes = {
    {"EXP", 0, 0, fl}, {"EXR", 0, 0, fr}, {"EXP", 0, 10, {fl[0], fl[1], fl[6]}}, {"EXP", 0, -10, {fl[0], fl[3]}},
    {"FLT", 0, 0, {{0x39, 0x30}, {0xa6, 0xff}, {0x00, 0x80}}}, {"D2C", 0, 0, {{0x38, 0x01}, {0x01, 0x00}}}, {"D2B", 0, 10, {{0x80, 0x13}}},
    {"UCH", 0, 10, {{0x26}, {0xff}}}, {"SIN", 0, -10, {{0xa6, 0xff}}}, {"UCH", 0, 0, {{0x26}, {0x00}}}, {"SLG", 0, 0, {{0x15, 0xcd, 0x5b, 0x07}}},
    {"ULG", 0, 10, {{0x15, 0xcd, 0x5b, 0x07}}}, {"BCD", 0, 0, {{0x26}, {0x05}}}, {"PIN", 0, 0, {{0x00, 0x07}}}, {"BCD:2", 0, 0, {{0x26, 0x01}}},
    {"BDA:3", 0, 0, {{0x01, 0x02, 0x03}}}, {"HDA:3", 0, 0, {{0x1a, 0x0a, 0x0e}}}, {"DAY", 0, 0, {{0xd0, 0xa3}}}, {"DTM", 0, 0, {{0x73, 0x12, 0x80, 0x00}}},
    {"BTI", 0, 0, {{0x58, 0x04, 0x21}}}, {"HTM", 0, 0, {{0x05, 0x04}}}, {"MIN", 0, 0, {{0x05, 0x00}}}, {"TTM", 0, 0, {{0x05}}},
    {"HEX", 2, 0, {{0x0a, 0x0b}}}, {"BI3", 3, 0, {{0x28}}}, {"TEM_P", 0, 0, {{0x03, 0x2d}}}};
  for (const Spec& pr : probes) {
    Def* pd = makeDef(pr.key, pr.len, pr.div, 0);
    for (int fmt : {0, 1}) {
      char h[32]; snprintf(h, sizeof h, ",\"f\":%d", 5 + fmt);
      g_out.beginFamily(pd->head + h);
      for (const Spec& fs : firsts) {
        if (fs.key[0] == 'B' && fs.key[1] == 'I' && pr.key[0] == 'B' && pr.key[1] == 'I') continue;   // bit fields would share the byte
        Def* fd = makeDef(fs.key, fs.len, fs.div, 0);
        const DataField* set = makePairSet(fs, pr);
        for (const Bytes& fb : fs.pats) for (const Bytes& pb : pr.pats) emitPair(*fd, *pd, set, fmt, fb, pb);
      }
      g_out.endFamily("pairs");
    }
  }
}

// ---- replay of TLC generated text cases (C06 clause B): text -> encode -> decode -> encode -------------------------
static long jint(const string& line, const char* key) {
  string k = string("\"") + key + "\":";
  size_t p = line.find(k);
  if (p == string::npos) { fprintf(stderr, "HARNESS: case line without %s\n", key); exit(2); }
  return strtol(line.c_str() + p + k.size(), nullptr, 10);
}
static string jstrv(const string& line, const char* key) {
  string k = string("\"") + key + "\":\"";
  size_t p = line.find(k);
  if (p == string::npos) { fprintf(stderr, "HARNESS: case line without %s\n", key); exit(2); }
  size_t e = line.find('"', p + k.size());
  return line.substr(p + k.size(), e - p - k.size());
}
static void replayTexts(const char* file) {
  FILE* f = fopen(file, "r");
  if (!f) { perror(file); exit(2); }
  g_out.limit = 100000000;   // one shard: the judge compares the replayed set with the generated one
  char* buf = nullptr; size_t cap = 0; ssize_t n;
  while ((n = getline(&buf, &cap, f)) > 0) {
    string line(buf, (size_t)n);
    if (line.find("\"xs\"") == string::npos) continue;
    Def* d = makeDef(jstrv(line, "t"), (int)jint(line, "l"), (int)jint(line, "d"), (int)jint(line, "v"), jint(line, "m") == 1);
    g_out.beginFamily(d->head + ",\"f\":9");
    g_vl = vlJson(d->vl);
    size_t p = line.find("\"xs\":[") + 6;
    std::set<string> seen;
    // p at the '[' of a text, or at ']' closing the list
    while (p < line.size() && line[p] == '[') {
      string text; p++;
      while (line[p] != ']') { text.push_back((char)strtol(line.c_str() + p, nullptr, 10)); while (line[p] != ',' && line[p] != ']') p++; if (line[p] == ',') p++; }
      p++; if (line[p] == ',') p++;
      seen.insert(text);
      Bytes b2, b4; string t3;
      result_t rc2 = encode(*d, text, &b2), rc3 = RESULT_EMPTY, rc4 = RESULT_EMPTY;
      if (rc2 == RESULT_OK) { rc3 = decode(*d, b2, 0, &t3); if (rc3 == RESULT_OK) rc4 = encode(*d, t3, &b4); }
      char h[96];
      snprintf(h, sizeof h, ",\"f\":9,\"rc\":0,\"rc2\":%d,\"rc3\":%d,\"rc4\":%d,\"b\":[],\"o\":[],\"x\":", rc2, rc3, rc4);
      g_out.rec("{" + d->head + g_vl + h + vf::jbytes(text) + ",\"b2\":" + vf::jbytes(b2) + ",\"o3\":" + vf::jbytes(t3)
                + ",\"b4\":" + vf::jbytes(b4) + "}");
    }
    for (size_t k = 0; k < seen.size(); k++) g_out.famPats.insert(Bytes{(uint8_t)(k & 0xff), (uint8_t)((k >> 8) & 0xff), (uint8_t)(k >> 16)});
    g_out.endFamily("texts");
  }
  free(buf); fclose(f);
}

// ---- replay of single records (evidence/replay/*.json): same definition and input, fresh run ------------------------
static Bytes jarr(const string& line, const char* key) {
  string k = string("\"") + key + "\":[";
  size_t p = line.find(k);
  Bytes out;
  if (p == string::npos) return out;
  p += k.size();
  while (line[p] != ']') { out.push_back((uint8_t)strtol(line.c_str() + p, nullptr, 10)); while (line[p] != ',' && line[p] != ']') p++; if (line[p] == ',') p++; }
  return out;
}
static void replayRecords(const char* file) {
  FILE* f = fopen(file, "r");
  if (!f) { perror(file); exit(2); }
  char* buf = nullptr; size_t cap = 0; ssize_t n;
  while ((n = getline(&buf, &cap, f)) > 0) {
    string line(buf, (size_t)n);
    if (line.find("\"t\"") == string::npos) continue;
    Def* d = makeDef(jstrv(line, "t"), (int)jint(line, "l"), (int)jint(line, "d"), (int)jint(line, "v"), jint(line, "m") == 1);
    int fmt = (int)jint(line, "f");
    if (fmt == 9) {   // text case: rewrite as a one-text group and reuse the text replay
      string tmp = string(file) + ".case";
      FILE* o = fopen(tmp.c_str(), "w");
      fprintf(o, "{\"t\":\"%s\",\"l\":%d,\"d\":%d,\"v\":%d,\"m\":%d,\"xs\":[%s]}\n", d->key.c_str(), d->len, d->div, d->vl,
              d->master ? 1 : 0, vf::jbytes(jarr(line, "x")).c_str());
      fclose(o);
      replayTexts(tmp.c_str());
      remove(tmp.c_str());
      continue;
    }
    Bytes b = jarr(line, "b");
    if (fmt == 5 || fmt == 6) {   // pair record: first field definition in ft/fl/fd, fn = number of bytes of the first field
      string ft = jstrv(line, "ft");
      Spec fs{ft.c_str(), (int)jint(line, "fl"), (int)jint(line, "fd"), {}}, ps{d->key.c_str(), d->len, d->div, {}};
      Def* fd = makeDef(ft, fs.len, fs.div, 0);
      size_t fn = (size_t)jint(line, "fn");
      char h[32]; snprintf(h, sizeof h, ",\"f\":%d", fmt);
      g_out.beginFamily(d->head + h);
      emitPair(*fd, *d, makePairSet(fs, ps), fmt - 5, Bytes(b.begin(), b.begin() + fn), Bytes(b.begin() + fn, b.end()));
      g_out.endFamily("replay");
      continue;
    }
    family(*d, fmt, "replay", [&](const PatFn& fn) { fn(b); });
  }
  free(buf); fclose(f);
}

int main(int argc, char** argv) {
  vf::installTerminate();
  if (argc < 5) { fprintf(stderr, "usage: %s out-prefix quick|thorough c05|c06 group [cases.ndjson]\n", argv[0]); return 2; }
  g_out.prefix = argv[1];
  g_thorough = !strcmp(argv[2], "thorough");
  g_mode = argv[3];
  string group = argv[4];
  unsigned gh = 0; for (char c : group) gh = gh * 31 + (unsigned char)c;
  vf::Rng rng(vf::seedFromEnv() * 1000003ULL + gh % 1000);
  g_rng = &rng;
  if (group == "num1") groupNum1();
  else if (group.compare(0, 5, "num2.") == 0) { int p = 0, n = 1; sscanf(group.c_str() + 5, "%d/%d", &p, &n); groupNum2(p, n); }
  else if (group == "num34") groupNum34();
  else if (group == "bits") groupBits();
  else if (group == "lists") groupLists();
  else if (group == "dates") groupDates(0, 1);
  else if (group.compare(0, 6, "dates.") == 0) { int p = 0, n = 1; sscanf(group.c_str() + 6, "%d/%d", &p, &n); groupDates(p, n); }
  else if (group == "days") groupDayCounts();
  else if (group == "times") groupTimes();
  else if (group == "strings") groupStrings();
  else if (group == "tem") groupTem();
  else if (group == "pairs") groupPairs();
  else if (group == "texts" && argc > 5) replayTexts(argv[5]);
  else if (group == "replay" && argc > 5) replayRecords(argv[5]);
  else { fprintf(stderr, "unknown group %s\n", group.c_str()); return 2; }
  g_out.close();
  printf("%ld records %d shards\n", g_out.total, g_out.shard + 1);
  return 0;
}
