// Growth check "MQTT data handler": drives the REAL MqttHandler (src/ebusd/mqtthandler.cpp + datahandler.cpp), created and fed
// by the REAL MainLoop of the in-process daemon (c16_daemon.h), against a fake MqttClient supplied here (the harness is linked
// WITHOUT mqttclient.cpp / mqttclient_mosquitto.cpp; `MqttClient::create` below is the mock seam).
//
// Stepping: MqttHandler::run() calls MqttClient::run() exactly once per loop iteration.  The fake client parks the handler
// thread inside that call until the driver releases it, so one event "M" = one iteration of the real run() loop body (from the
// return of client->run() to the next call).  Incoming topics, CONNACK and connection loss are delivered inside client->run(),
// as libmosquitto does from mosquitto_loop().  MainLoop's sink feed runs once per client command (event "F" sends a no-op
// command).  time() is virtual (c16_daemon.h); clockGettime() lies per thread: the handler thread sees a time in the past (its
// Wait(1)/Wait(5) return at once), MainLoop's thread a time far ahead (its queue pop(5) blocks until a command arrives).
// One forked process per (world, session): the option statics of mqtthandler.cpp cannot be reset.
//
// Output: one ndjson record per session {"w","s","o":[per event {"outs":[...],"pr":[poll priorities],"sg":bus signal 0/1}]}, every out item is
// {"k":"pub|sub|bus|in|run","t":[..],"p":[..],"r":n,"q":n,"e":n}:
//   pub: t topic, p payload, r retain, q qos, e 1 = publishEmptyTopic      sub: t topic filter
//   bus: t master telegram QQ ZZ PB SB NN DD.. (unescaped, no CRC), p slave data DD.. answered by the scripted slave
//   in : the fake client starts delivering incoming message number r of this iteration (t topic, p payload)
//   run: client->run() was called: r = connected flag before, q = after, e = 1 if the CONNACK is delivered now
#include "c16_daemon.h"
#include "ebusd/mqttclient.h"
#include <pthread.h>
#include <sys/wait.h>
#include <sys/stat.h>
#include <mutex>
#include <condition_variable>
#include <chrono>

static string num(long v) { char b[24]; snprintf(b, sizeof b, "%ld", v); return b; }

// ---------------------------------------------------------------------------------------------------------------------
// per-thread clock
static pthread_t g_mainThread;
static thread_local int t_role = 0;  // 0 unknown, 1 driver, 2 mqtt handler thread
namespace ebusd {
void clockGettime(struct timespec* t) {
  clock_gettime(CLOCK_REALTIME, t);
  if (t_role == 2) t->tv_sec -= 7 * 24 * 3600;                      // handler thread: every timed wait is already over
  else if (t_role == 0 && !pthread_equal(pthread_self(), g_mainThread)) t->tv_sec += 24 * 3600;  // MainLoop: waits for a request
}
uint64_t clockGetMillis() {
  struct timespec t; clock_gettime(CLOCK_REALTIME, &t);
  return static_cast<uint64_t>(t.tv_sec) * 1000 + static_cast<uint64_t>(t.tv_nsec / 1000000);
}
}  // namespace ebusd

// ---------------------------------------------------------------------------------------------------------------------
// the event log of the current driver event
static std::mutex g_mx;
static std::condition_variable g_cv;
static vector<string> g_outs;
static void emitRaw(const char* k, const string& t, const string& p, long r, long q, long e) {
  std::lock_guard<std::mutex> l(g_mx);
  g_outs.push_back(string("{\"k\":\"") + k + "\",\"t\":" + vf::jbytes(t) + ",\"p\":" + vf::jbytes(p) + ",\"r\":" + num(r) + ",\"q\":" + num(q)
                   + ",\"e\":" + num(e) + "}");
}
static string bytesStr(const vector<uint8_t>& v) { return string(v.begin(), v.end()); }
// telegrams ebusd wrote are logged by the fake transport; they are moved into the event log in front of whatever is emitted
// next, so that the order of telegrams and publishes inside one iteration is the real one (one thread is active at a time)
static World* g_W = nullptr;
static size_t g_busSeen = 0;
static void flushBus() {
  if (!g_W || !g_W->tr) return;
  for (; g_busSeen < g_W->tr->m_written.size(); g_busSeen++)
    emitRaw("bus", bytesStr(g_W->tr->m_written[g_busSeen]), bytesStr(g_W->tr->m_writtenAns[g_busSeen]), 0, 0, 0);
}
static void emit(const char* k, const string& t, const string& p, long r, long q, long e) { flushBus(); emitRaw(k, t, p, r, q, e); }

// ---------------------------------------------------------------------------------------------------------------------
// the fake MQTT client
struct Incoming { string topic, data; };
class FakeMqtt : public MqttClient {
 public:
  FakeMqtt(const mqtt_client_config_t config, MqttClientListener* listener) : MqttClient(config, listener) {}
  bool connect(bool& isAsync, bool& connected) override {
    isAsync = false;
    if (!m_brokerUp) { connected = false; return true; }   // like a refused TCP connect: retried from run()
    connected = true; m_connack = true; m_lost = false;      // "assume success until connect_callback says otherwise"
    return true;
  }
  bool run(bool allowReconnect, bool& connected) override {
    t_role = 2;
    {  // park until the driver releases one iteration
      std::unique_lock<std::mutex> l(g_mx);
      m_parked = true; g_cv.notify_all();
      g_cv.wait(l, [this] { return m_go; });
      m_go = false; m_parked = false;
    }
    bool c0 = connected;
    if (!m_brokerUp || m_lost) {
      m_subs.clear(); m_connack = false;
      if (connected) { m_lost = false; connected = false; emit("run", "", "", c0, 0, 0); m_queue.clear(); return true; }  // communication error
      m_lost = false;
      if (!m_brokerUp) { emit("run", "", "", c0, 0, 0); m_queue.clear(); return false; }  // reconnect (if allowed) fails as well
    }
    if (!connected) {
      if (allowReconnect) { connected = true; m_connack = true; }  // mosquitto_reconnect succeeded, CONNACK comes with the next loop
      emit("run", "", "", c0, connected, 0); m_queue.clear();
      return false;
    }
    bool ack = m_connack;
    emit("run", "", "", c0, 1, ack);
    if (ack) { m_connack = false; m_listener->notifyMqttStatus(true); }
    vector<Incoming> q; q.swap(m_queue);
    long k = 0;
    for (auto& in : q) {
      if (!matches(in.topic)) continue;   // no subscription covers it: the broker does not deliver
      emit("in", in.topic, in.data, ++k, 0, 0);
      m_listener->notifyMqttTopic(in.topic, in.data);
    }
    return false;
  }
  void publishTopic(const string& topic, const string& data, int qos, bool retain) override { emit("pub", topic, data, retain, qos, 0); }
  void publishEmptyTopic(const string& topic, int qos, bool retain) override { emit("pub", topic, "", retain, qos, 1); }
  void subscribeTopic(const string& topic) override { emit("sub", topic, "", 0, 0, 0); m_subs.push_back(topic); }

  // MQTT topic filter match (levels separated by '/', '+' one level, trailing '#' any remainder incl. the parent level)
  static bool filterMatch(const string& f, const string& t) {
    size_t i = 0, j = 0;
    while (i < f.size()) {
      if (f[i] == '#') return true;
      if (f[i] == '+') { while (j < t.size() && t[j] != '/') j++; i++; continue; }
      if (j >= t.size()) return f.compare(i, string::npos, "/#") == 0;
      if (f[i] != t[j]) return false;
      i++; j++;
    }
    return j == t.size();
  }
  bool matches(const string& t) const { for (auto& f : m_subs) if (filterMatch(f, t)) return true; return false; }

  bool m_brokerUp = true, m_connack = false, m_lost = false;
  bool m_parked = false, m_go = false;
  vector<string> m_subs;
  vector<Incoming> m_queue;
};
static FakeMqtt* g_client = nullptr;
static bool g_brokerUpAtStart = true;
namespace ebusd {
MqttClient* MqttClient::create(mqtt_client_config_t config, MqttClientListener* listener) {
  g_client = new FakeMqtt(config, listener);
  g_client->m_brokerUp = g_brokerUpAtStart;
  if (config.lastWillTopic) emit("will", config.lastWillTopic, config.lastWillData ? config.lastWillData : "", 1, 0, 0);
  return g_client;
}
}  // namespace ebusd

static bool waitParked(int seconds) {
  std::unique_lock<std::mutex> l(g_mx);
  return g_cv.wait_for(l, std::chrono::seconds(seconds), [] { return g_client && g_client->m_parked; });
}
static bool stepHandler() {
  { std::lock_guard<std::mutex> l(g_mx); g_client->m_parked = false; g_client->m_go = true; }
  g_cv.notify_all();
  return waitParked(60);
}

// ---------------------------------------------------------------------------------------------------------------------
static void passive(World* W, const Slot& s, const JV& data) {
  MasterSymbolString m; m.push_back(0x10); m.push_back(0x08); m.push_back(s.id[0]); m.push_back(s.id[1]);
  m.push_back(static_cast<symbol_t>(s.id.size() - 2)); for (size_t i = 2; i < s.id.size(); i++) m.push_back(s.id[i]);
  SlaveSymbolString sl; sl.push_back(static_cast<symbol_t>(data.size())); for (auto& x : data.a) sl.push_back(static_cast<symbol_t>(x.i));
  vector<uint8_t> wire;
  auto esc = [&wire](uint8_t x) { if (x == ESC) { wire.push_back(ESC); wire.push_back(0); } else if (x == SYN) { wire.push_back(ESC); wire.push_back(1); } else wire.push_back(x); };
  for (size_t i = 0; i < m.size(); i++) esc(m[i]);
  esc(m.calcCrc()); wire.push_back(ACK);
  for (size_t i = 0; i < sl.size(); i++) esc(sl[i]);
  esc(sl.calcCrc()); wire.push_back(ACK); wire.push_back(SYN);
  W->proto->step();
  W->tr->feed(wire);
  for (int i = 0; i < 64 && W->tr->pending(); i++) W->proto->step();
  W->proto->step();
}

static string runSession(const JV& w, const JV& sess, const string& dir, size_t wi, size_t si, bool show) {
  g_now = 1700000000;
  g_brokerUpAtStart = w["brokerdown"].i != 1;
  if (w["intfile"].t == JV::ARR && w["intfile"].size()) {  // the integration file named in the world's --mqttint=mqttint.cfg option
    if (chdir(dir.c_str()) != 0) { perror("chdir"); exit(2); }
    std::ofstream f("mqttint.cfg");
    f << codes(w["intfile"]);
  }
  World* W = makeWorld(w, dir);
  g_W = W;
  if (!g_client) { fprintf(stderr, "HARNESS: no MQTT client was created (mqttport option missing?)\n"); exit(2); }
  if (!waitParked(60)) { fprintf(stderr, "HARNESS: MQTT handler thread did not start\n"); exit(2); }
  Client telnet(W);
  string line = "{\"w\":" + num(wi + 1) + ",\"s\":" + num(si + 1) + ",\"o\":[";
  // what happened during construction/start (last will, anything published before the first iteration) is event 0
  bool first = true;
  auto flush = [&](const string& what) {
    string o = "{\"outs\":[";
    flushBus();
    {
      std::lock_guard<std::mutex> l(g_mx);
      for (size_t i = 0; i < g_outs.size(); i++) { if (i) o += ","; o += g_outs[i]; }
      g_outs.clear();
    }
    o += "],\"pr\":[";
    for (size_t k = 0; k < W->slots.size(); k++) { if (k) o += ","; o += num(static_cast<long>(W->slots[k].msg->getPollPriority())); }
    o += "],\"sg\":" + num(W->proto->hasSignal() ? 1 : 0) + "}";
    if (show) fprintf(stderr, "w%zu s%zu %-28s -> %s\n", wi + 1, si + 1, what.c_str(), o.c_str());
    if (!first) line += ",";
    first = false;
    line += o;
  };
  flush("(start)");
  for (auto& c : sess["ev"].a) {
    const string& e = c["e"].s;
    string what = e;
    if (e == "T") { g_now += c["n"].i; what += num(c["n"].i); }
    else if (e == "U") { passive(W, W->slots[c["m"].i - 1], c["v"]); what += " m" + num(c["m"].i); }
    else if (e == "F") { telnet.send("nosuchcommand\n"); }
    else if (e == "R") { const Slot& s = W->slots[c["m"].i - 1]; what += " " + rtrim(telnet.send("read -f -c " + s.circuit + " " + s.name + "\n")); }
    else if (e == "I") {  // the topic is the world's base topic number b + "/" + direction + argument (all computed by the specification)
      string tp = c["tp"].t == JV::ARR && c["tp"].size() ? codes(c["tp"]) : codes(w["bases"][c["b"].i - 1]) + "/" + codes(c["d"]) + codes(c["a"]);
      g_client->m_queue.push_back({tp, codes(c["pl"])}); what += " " + tp + " " + codes(c["pl"]);
    }
    else if (e == "D") { g_client->m_brokerUp = false; g_client->m_lost = true; }
    else if (e == "B") { g_client->m_brokerUp = true; }
    else if (e == "M") { if (!stepHandler()) { fprintf(stderr, "HARNESS: MQTT handler iteration did not return to the client\n"); exit(2); } }
    else if (e == "S") { W->loop->shutdown(); }   // (not used by generated sessions)
    else { fprintf(stderr, "HARNESS: unknown event %s\n", e.c_str()); exit(2); }
    flush(what);
  }
  line += "]}\n";
  return line;
}

int main(int argc, char** argv) {
  vf::installTerminate();
  if (argc < 6) { fprintf(stderr, "usage: %s run|show out.ndjson worlds.ndjson sessions.ndjson workdir [jobs [w s]]\n", argv[0]); return 2; }
  setFacilitiesLogLevel(0xffff, getenv("C16_LOG") ? ll_debug : ll_none);
  g_mainThread = pthread_self();
  t_role = 1;
  string mode = argv[1];
  vector<JV> worlds = readNdjson(argv[3]), sessions = readNdjson(argv[4]);
  string dir = argv[5];
  int jobs = argc > 6 ? atoi(argv[6]) : 4;
  long onlyW = argc > 8 ? atol(argv[7]) : 0, onlyS = argc > 8 ? atol(argv[8]) : 0;
  struct Pair { size_t w, s; };
  vector<Pair> pairs;
  for (size_t wi = 0; wi < worlds.size(); wi++)
    for (size_t si = 0; si < sessions.size(); si++) {
      if (sessions[si]["fam"].i != worlds[wi]["fam"].i) continue;
      if (onlyW && (static_cast<long>(wi + 1) != onlyW || static_cast<long>(si + 1) != onlyS)) continue;
      pairs.push_back({wi, si});
    }
  // workers: pair k is handled by worker k % jobs, each pair in its own forked process
  vector<pid_t> workers;
  for (int j = 0; j < jobs; j++) {
    pid_t wp = fork();
    if (wp < 0) { perror("fork"); return 2; }
    if (wp == 0) {
      string part = dir + "/part." + num(j);
      FILE* pf = fopen(part.c_str(), "w");
      if (!pf) { perror(part.c_str()); _exit(2); }
      string sub = dir + "/j" + num(j);
      mkdir(sub.c_str(), 0777);
      for (size_t k = j; k < pairs.size(); k += jobs) {
        int fd[2];
        if (pipe(fd) != 0) { perror("pipe"); _exit(2); }
        fflush(nullptr);
        pid_t cp = fork();
        if (cp < 0) { perror("fork"); _exit(2); }
        if (cp == 0) {
          close(fd[0]);
          string line = runSession(worlds[pairs[k].w], sessions[pairs[k].s], sub, pairs[k].w, pairs[k].s, mode == "show");
          size_t off = 0;
          while (off < line.size()) { ssize_t n = write(fd[1], line.data() + off, line.size() - off); if (n <= 0) _exit(4); off += n; }
          close(fd[1]);
          _exit(0);   // no teardown: the threads of the daemon are simply dropped with the process
        }
        close(fd[1]);
        string line; char buf[65536]; ssize_t n;
        while ((n = read(fd[0], buf, sizeof buf)) > 0) line.append(buf, n);
        close(fd[0]);
        int st = 0;
        waitpid(cp, &st, 0);
        if (!WIFEXITED(st) || WEXITSTATUS(st) != 0 || line.empty() || line.back() != '\n') {
          if (WIFEXITED(st) && WEXITSTATUS(st) == 2) { fprintf(stderr, "HARNESS: session w%zu s%zu failed in the harness\n", pairs[k].w + 1, pairs[k].s + 1); _exit(2); }
          line = "{\"w\":" + num(pairs[k].w + 1) + ",\"s\":" + num(pairs[k].s + 1) + ",\"crash\":" + num(WIFSIGNALED(st) ? WTERMSIG(st) : 1000 + WEXITSTATUS(st)) + ",\"o\":[]}\n";
        }
        fprintf(pf, "%zu\t%s", k, line.c_str());
      }
      fclose(pf);
      _exit(0);
    }
    workers.push_back(wp);
  }
  bool bad = false;
  for (pid_t wp : workers) { int st = 0; waitpid(wp, &st, 0); if (!WIFEXITED(st) || WEXITSTATUS(st) != 0) bad = true; }
  if (bad) { fprintf(stderr, "HARNESS: a worker failed\n"); return 2; }
  // merge in pair order
  vector<string> lines(pairs.size());
  for (int j = 0; j < jobs; j++) {
    std::ifstream f((dir + "/part." + num(j)).c_str());
    string l;
    while (std::getline(f, l)) { size_t tab = l.find('\t'); if (tab == string::npos) continue; lines[atol(l.c_str())] = l.substr(tab + 1) + "\n"; }
  }
  vf::Out out(argv[2]);
  for (size_t k = 0; k < lines.size(); k++) {
    if (lines[k].empty()) { fprintf(stderr, "HARNESS: record %zu missing\n", k); return 2; }
    out.raw(lines[k]);
  }
  return 0;
}
