// C11: records of the real CRC / escaping / address-class functions for TLC to judge.
#include "vf.h"
#include "lib/ebus/symbol.h"
#include "lib/ebus/result.h"
using namespace ebusd;

static std::string hexOf(const std::vector<uint8_t>& v, bool upper) {
  std::string s; char b[4];
  for (uint8_t x : v) { snprintf(b, sizeof b, upper ? "%02X" : "%02x", x); s += b; }
  return s;
}
static void parseRec(vf::Out& o, const char* f, const std::vector<uint8_t>& in, bool escaped, bool upper) {
  MasterSymbolString m;
  std::string hex = hexOf(in, upper);
  result_t rc = escaped ? m.parseHexEscaped(hex) : m.parseHex(hex);
  std::vector<uint8_t> out(m.data(), m.data() + m.size());
  char b[64]; snprintf(b, sizeof b, "{\"f\":\"%s\",\"rc\":%d,\"in\":", f, rc);
  o.raw(b); o.raw(vf::jbytes(in)); o.raw(",\"out\":"); o.raw(vf::jbytes(out)); o.raw("}\n");
}
static void crcRec(vf::Out& o, const std::vector<uint8_t>& in, bool master) {
  MasterSymbolString m; SlaveSymbolString s;
  for (uint8_t x : in) { if (master) m.push_back(x); else s.push_back(x); }
  symbol_t c = master ? m.calcCrc() : s.calcCrc();
  char b[64]; snprintf(b, sizeof b, "{\"f\":\"calc\",\"r\":%u,\"in\":", c);
  o.raw(b); o.raw(vf::jbytes(in)); o.raw("}\n");
}

int main(int argc, char** argv) {
  vf::installTerminate();
  if (argc < 3) { fprintf(stderr, "usage: %s out.ndjson quick|thorough\n", argv[0]); return 2; }
  vf::Out o(argv[1]);
  bool thorough = !strcmp(argv[2], "thorough");
  vf::Rng rng(vf::seedFromEnv());
  char b[128];
  // all 65536 update steps, one record per crc value
  for (int c = 0; c < 256; c++) {
    std::vector<uint8_t> r;
    for (int v = 0; v < 256; v++) { symbol_t x = (symbol_t)c; SymbolString::updateCrc((symbol_t)v, &x); r.push_back(x); }
    snprintf(b, sizeof b, "{\"f\":\"upd\",\"c\":%d,\"r\":", c); o.raw(b); o.raw(vf::jbytes(r)); o.raw("}\n");
  }
  // all 256 addresses
  for (int a = 0; a < 256; a++) {
    symbol_t s = (symbol_t)a;
    snprintf(b, sizeof b, "{\"f\":\"addr\",\"a\":%d,\"m\":%d,\"sm\":%d,\"sl\":%u,\"ma\":%u,\"n\":%u,\"v1\":%d,\"v0\":%d}\n",
      a, isMaster(s), isSlaveMaster(s), getSlaveAddress(s), getMasterAddress(s), getMasterNumber(s),
      isValidAddress(s, true), isValidAddress(s, false));
    o.raw(b);
  }
  // calcCrc on all strings of length <= 2 (length 2: one record per first byte)
  crcRec(o, {}, true);
  for (int a = 0; a < 256; a++) {
    crcRec(o, {(uint8_t)a}, (a & 1) != 0);
    std::vector<uint8_t> r;
    for (int v = 0; v < 256; v++) { MasterSymbolString m; m.push_back((symbol_t)a); m.push_back((symbol_t)v); r.push_back(m.calcCrc()); }
    snprintf(b, sizeof b, "{\"f\":\"calc2\",\"a\":%d,\"r\":", a); o.raw(b); o.raw(vf::jbytes(r)); o.raw("}\n");
  }
  // seeded random long strings, rich in A9/AA
  int nlong = thorough ? 20000 : 2000;
  for (int i = 0; i < nlong; i++) {
    std::vector<uint8_t> in; unsigned n = 3 + rng.below(thorough ? 40 : 24);
    for (unsigned k = 0; k < n; k++) in.push_back(rng.chance(1, 4) ? (rng.chance(1, 2) ? 0xA9 : 0xAA) : (uint8_t)rng.below(256));
    crcRec(o, in, rng.chance(1, 2));
  }
  // parseHexEscaped / parseHex on all byte strings of length <= 2
  parseRec(o, "pe", {}, true, false); parseRec(o, "ph", {}, false, false);
  for (int a = 0; a < 256; a++) {
    parseRec(o, "pe", {(uint8_t)a}, true, (a & 1) != 0); parseRec(o, "ph", {(uint8_t)a}, false, (a & 2) != 0);
    for (int v = 0; v < 256; v++) {
      parseRec(o, "pe", {(uint8_t)a, (uint8_t)v}, true, ((a ^ v) & 1) != 0);
      if (thorough || ((a * 7 + v) % 16) == 0) parseRec(o, "ph", {(uint8_t)a, (uint8_t)v}, false, (v & 1) != 0);
    }
  }
  // length 3 (4 in thorough) over a class alphabet
  static const uint8_t alpha[] = {0x00, 0x01, 0x02, 0xA8, 0xA9, 0xAA, 0xAB, 0xFF, 0x10, 0x7F, 0x80, 0xFE, 0x09, 0x0A, 0x9A, 0xA0,
    0x03, 0x55, 0xC9, 0xCA, 0x29, 0x2A, 0x99, 0x9B, 0xB9, 0xBA, 0x0F, 0xF0, 0x31, 0x36, 0x15, 0x42};
  int na = thorough ? 32 : 12;
  for (int x = 0; x < na; x++) for (int y = 0; y < na; y++) for (int z = 0; z < na; z++) {
    parseRec(o, "pe", {alpha[x], alpha[y], alpha[z]}, true, false);
    if (thorough && x < 8 && y < 8 && z < 8) for (int w = 0; w < 8; w++) parseRec(o, "pe", {alpha[x], alpha[y], alpha[z], alpha[w]}, true, true);
  }
  // round trip: escape a random raw string (done here only as transport: the *oracle* recomputes Escape)
  int nrt = thorough ? 20000 : 3000;
  for (int i = 0; i < nrt; i++) {
    std::vector<uint8_t> in; unsigned n = rng.below(12);
    for (unsigned k = 0; k < n; k++) {
      unsigned r = rng.below(8);
      if (r == 0) { in.push_back(0xA9); in.push_back(rng.chance(3, 4) ? (uint8_t)rng.below(2) : (uint8_t)rng.below(256)); }
      else if (r == 1) in.push_back(rng.chance(1, 8) ? 0xAA : 0xA9);
      else in.push_back((uint8_t)rng.below(256));
    }
    parseRec(o, "pe", in, true, rng.chance(1, 2));
  }
  return 0;
}
