// C19: drives the real CSV reader and the definition dump with the cases TLC generated from spec/Csv.tla.
//   (i)  FileReader::splitFields on every writing of every field list
//   (ii) load the specification's configuration text into a real MessageMap (readFromStream), read the attributes
//        of the loaded messages, dump (MessageMap::dump as --dumpconfig does, Message::dump as "find -f" does),
//        load the dump into a fresh MessageMap, read the attributes again, dump again.
// Records go to ndjson files for TLC to judge.  No ebusd code lives here.
#include "vf.h"
#include "c18_json.h"
#include <sstream>
#include <map>
#include <deque>
#include <algorithm>
#include <iterator>
// ConstantDataField has no accessor for its value/verify flag and no VerifAccess hook yet
#define private public
#include "lib/ebus/data.h"
#undef private
#include "lib/ebus/filereader.h"
#include "lib/ebus/datatype.h"
#include "lib/ebus/message.h"
#include "lib/utils/log.h"

using namespace ebusd;
using std::string;
using std::vector;

namespace ebusd {
struct VerifAccess {
  static const vector<vector<symbol_t>>& chainIds(const ChainedMessage* m) { return m->m_ids; }
  static const vector<size_t>& chainLengths(const ChainedMessage* m) { return m->m_lengths; }
  static const DataField* data(const Message* m) { return m->m_data; }
  static const vector<symbol_t>& id(const Message* m) { return m->m_id; }
  static const vector<const SingleDataField*>& fields(const DataFieldSet* s) { return s->m_fields; }
  static size_t length(const SingleDataField* f) { return f->m_length; }
};

class CaseResolver : public Resolver {
 public:
  DataFieldTemplates* templates;
  CaseResolver() : templates(new DataFieldTemplates()) {}
  DataFieldTemplates* getTemplates(const string& filename) override { return templates; }
  result_t loadDefinitionsFromConfigPath(FileReader* reader, const string& filename, map<string, string>* defaults,
      string* errorDescription, bool replace = false) override { return RESULT_ERR_NOTFOUND; }
};
}  // namespace ebusd

static string jtext(const string& s) { return vf::jbytes(s); }

static string fieldAttr(const SingleDataField* f) {
  const DataType* t = f->getDataType();
  std::ostringstream o;
  int kind = 1; string vals = "[]", cval = "[]"; int cver = 0;
  if (const ValueListDataField* vl = dynamic_cast<const ValueListDataField*>(f)) {
    kind = 2; vals = "[";
    bool first = true;
    for (const auto& it : vl->getList()) {   // std::map: ascending by number
      if (!first) vals += ",";
      first = false;
      vals += "[" + std::to_string(it.first) + "," + jtext(it.second) + "]";
    }
    vals += "]";
  } else if (const ConstantDataField* cf = dynamic_cast<const ConstantDataField*>(f)) {
    kind = 3; cval = jtext(cf->m_value); cver = cf->m_verify ? 1 : 0;
  }
  int div = 0;
  if (t->isNumeric()) div = reinterpret_cast<const NumberDataType*>(t)->getDivisor();
  PartType pt = f->getPartType();
  o << "{\"name\":" << jtext(static_cast<const AttributedItem*>(f)->getName()) << ",\"part\":" << (pt == pt_masterData ? 1 : pt == pt_slaveData ? 2 : 0)
    << ",\"tid\":" << jtext(t->getId()) << ",\"len\":" << VerifAccess::length(f) << ",\"bits\":";
  // bit types report their own bit count, all others 8 per byte of the field
  o << (t->getBitCount() < 8 ? t->getBitCount() : 8 * VerifAccess::length(f));
  o << ",\"div\":" << div << ",\"kind\":" << kind << ",\"vals\":" << vals << ",\"cval\":" << cval << ",\"cver\":" << cver
    << ",\"unit\":" << jtext(f->getAttribute("unit")) << ",\"comment\":" << jtext(f->getAttribute("comment")) << "}";
  return o.str();
}

static string idList(const vector<symbol_t>& id) { return vf::jbytes(vector<uint8_t>(id.begin(), id.end())); }

static string msgAttr(const Message* m) {
  std::ostringstream o;
  o << "{\"w\":" << (m->isWrite() ? 1 : 0) << ",\"p\":" << (m->isPassive() ? 1 : 0) << ",\"prio\":" << m->getPollPriority()
    << ",\"circuit\":" << jtext(m->getCircuit()) << ",\"name\":" << jtext(m->getName()) << ",\"comment\":"
    << jtext(m->getAttribute("comment"))
    << ",\"qq\":" << (m->getSrcAddress() == SYN ? -1 : static_cast<int>(m->getSrcAddress()))
    << ",\"zz\":" << (m->getDstAddress() == SYN ? -1 : static_cast<int>(m->getDstAddress())) << ",\"ids\":[";
  if (const ChainedMessage* c = dynamic_cast<const ChainedMessage*>(m)) {
    const auto& ids = VerifAccess::chainIds(c); const auto& lens = VerifAccess::chainLengths(c);
    for (size_t i = 0; i < ids.size(); i++) o << (i ? "," : "") << "[" << idList(ids[i]) << "," << lens[i] << "]";
  } else {
    o << "[" << idList(VerifAccess::id(m)) << ",-1]";
  }
  o << "],\"fields\":[";
  const DataField* d = VerifAccess::data(m);
  if (const DataFieldSet* s = dynamic_cast<const DataFieldSet*>(d)) {
    const auto& fs = VerifAccess::fields(s);
    for (size_t i = 0; i < fs.size(); i++) o << (i ? "," : "") << fieldAttr(fs[i]);
  } else if (const SingleDataField* f = dynamic_cast<const SingleDataField*>(d)) {
    o << fieldAttr(f);
  }
  o << "]}";
  return o.str();
}

struct Gen { int rc; string err; string attrs; string dump; string finddump; int count; };

// load a configuration text into a fresh MessageMap, read attributes, dump
static Gen loadAndDump(const string& text) {
  Gen g; g.count = 0;
  MessageMap* messages = new MessageMap(false, "", false);   // several maps in one process share the static scan fields
  CaseResolver* res = new CaseResolver();
  messages->setResolver(res);
  std::istringstream is(text);
  string err;
  g.rc = messages->readFromStream(&is, "defs.csv", 0, false, nullptr, &err);
  g.err = err;
  std::deque<Message*> all;
  messages->findAll("", "", "*", false, true, true, true, true, true, 0, 0, false, &all);
  g.attrs = "["; g.finddump = "[";
  for (const auto m : all) {
    if (g.count) { g.attrs += ","; g.finddump += ","; }
    g.attrs += msgAttr(m);
    std::ostringstream o; m->dump(nullptr, true, OF_NONE, &o);     // "find -f"
    g.finddump += jtext(o.str());
    g.count++;
  }
  g.attrs += "]"; g.finddump += "]";
  std::ostringstream o;
  messages->dump(true, OF_DEFINITION, &o);                           // "--dumpconfig"
  g.dump = o.str();
  delete messages;
  delete res->templates; delete res;
  return g;
}

static string passthrough(const vfj::JV& v);   // re-serialise a parsed JSON value
static string passthrough(const vfj::JV& v) {
  switch (v.t) {
    case vfj::JV::JNUM: return std::to_string(v.num);
    case vfj::JV::JBOOL: return v.b ? "true" : "false";
    case vfj::JV::JSTR: return vf::jstr(v.s);
    case vfj::JV::JARR: { string r = "["; for (size_t i = 0; i < v.a.size(); i++) { if (i) r += ","; r += passthrough(v.a[i]); } return r + "]"; }
    case vfj::JV::JOBJ: { string r = "{"; for (size_t i = 0; i < v.o.size(); i++) { if (i) r += ","; r += vf::jstr(v.o[i].first) + ":" + passthrough(v.o[i].second); } return r + "}"; }
    default: return "null";
  }
}

int main(int argc, char** argv) {
  vf::installTerminate();
  if (argc < 4) { fprintf(stderr, "usage: %s cases.ndjson outdir quick|thorough\n", argv[0]); return 2; }
  string outdir = argv[2];
  setFacilitiesLogLevel(-1, ll_none);
  vector<vfj::JV> cases = vfj::readFile(argv[1]);
  long nsplit = 0, nload = 0, ndump = 0;
  {
    vf::Out o((outdir + "/split.ndjson").c_str());
    for (const auto& c : cases) {
      if (c["k"].s != "split") continue;
      string l = "{\"k\":\"split\",\"fields\":" + passthrough(c["fields"]) + ",\"lines\":" + passthrough(c["lines"]) + ",\"outs\":[";
      for (size_t j = 0; j < c["lines"].size(); j++) {
        string line = c["lines"][j].bytes();
        std::istringstream is(line + "\nZ\n");        // a sentinel line follows: it must be left unread
        vector<string> row; unsigned int lineNo = 4;   // not the first line of a file
        bool ok = FileReader::splitFields(&is, &row, &lineNo);
        string remaining((std::istreambuf_iterator<char>(is)), std::istreambuf_iterator<char>());
        bool rest = remaining != "Z\n";               // consumed more (or less) than the one line?
        if (j) l += ",";
        l += "{\"ok\":" + string(ok ? "1" : "0") + ",\"ln\":" + std::to_string(lineNo) + ",\"rest\":" + (rest ? "1" : "0") + ",\"row\":[";
        for (size_t i = 0; i < row.size(); i++) { if (i) l += ","; l += jtext(row[i]); }
        l += "]}";
        nsplit++;
      }
      l += "]}\n";
      o.raw(l);
    }
  }
  {
    vf::Out o((outdir + "/defs.ndjson").c_str());
    for (const auto& c : cases) {
      if (c["k"].s != "defs") continue;
      const char* variants[] = {"canon", "alt"};
      for (const char* v : variants) {
        string text = c[v].bytes();
        Gen g1 = loadAndDump(text);
        Gen g2 = loadAndDump(g1.dump);
        nload += 2; ndump += 2 + g1.count + g2.count;
        string l = "{\"k\":\"defs\",\"v\":\"" + string(v) + "\",\"D\":" + passthrough(c["D"]) + ",\"text\":" + jtext(text);
        l += ",\"rc1\":" + std::to_string(g1.rc) + ",\"a1\":" + g1.attrs + ",\"d1\":" + jtext(g1.dump) + ",\"f1\":" + g1.finddump;
        l += ",\"rc2\":" + std::to_string(g2.rc) + ",\"a2\":" + g2.attrs + ",\"d2\":" + jtext(g2.dump) + ",\"f2\":" + g2.finddump;
        l += ",\"err\":" + vf::jstr(g1.err + "|" + g2.err) + "}\n";
        o.raw(l);
      }
    }
  }
  printf("{\"split_calls\":%ld,\"loads\":%ld,\"dumps\":%ld}\n", nsplit, nload, ndump);
  return 0;
}
