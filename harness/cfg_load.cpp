// Configuration loading (growth of the specification, spec/ConfigLoad.tla): loads the files TLC generated into the real
// DataFieldTemplates + MessageMap and logs what the real code made of them.
//   per case {"tpl":[line..],"msg":[line..]} (lines = lists of character codes; a file line may hold a batch {"cases":[..]})
//     1. template file  -> DataFieldTemplates::readFromStream; result code, error line, all stored templates read back
//     2. message file   -> MessageMap::readFromStream (resolver hands out the templates of step 1); result code, error
//                          line, attributes of all resulting messages
//     3. (only when 2 succeeded) MessageMap::dump as --dumpconfig does -> fresh MessageMap *without* templates ->
//        attributes again -> dump again                                                     (the C19 clause)
// Records go to one ndjson file for TLC to judge.  No ebusd code lives here.
#include "vf.h"
#include "c18_json.h"
#include <sstream>
#include <map>
#include <deque>
#include <algorithm>
// ConstantDataField / DataFieldTemplates have no accessor for value, verify flag, template table and no VerifAccess hook
#define private public
#include "lib/ebus/data.h"
#undef private
#include "lib/ebus/filereader.h"
#include "lib/ebus/datatype.h"
#include "lib/ebus/message.h"
#include "lib/utils/log.h"

using namespace ebusd;
using std::string;
using std::vector;

namespace ebusd {
struct VerifAccess {
  static const vector<vector<symbol_t>>& chainIds(const ChainedMessage* m) { return m->m_ids; }
  static const vector<size_t>& chainLengths(const ChainedMessage* m) { return m->m_lengths; }
  static const DataField* data(const Message* m) { return m->m_data; }
  static const vector<symbol_t>& id(const Message* m) { return m->m_id; }
  static const vector<const SingleDataField*>& fields(const DataFieldSet* s) { return s->m_fields; }
  static size_t length(const SingleDataField* f) { return f->m_length; }
};

class CaseResolver : public Resolver {
 public:
  DataFieldTemplates* templates;
  explicit CaseResolver(DataFieldTemplates* t) : templates(t) {}
  DataFieldTemplates* getTemplates(const string& filename) override { return templates; }
  result_t loadDefinitionsFromConfigPath(FileReader* reader, const string& filename, map<string, string>* defaults,
      string* errorDescription, bool replace = false) override { return RESULT_ERR_NOTFOUND; }
};
}  // namespace ebusd

static string jtext(const string& s) { return vf::jbytes(s); }

static string fieldAttr(const SingleDataField* f) {
  const DataType* t = f->getDataType();
  std::ostringstream o;
  int kind = 1; string vals = "[]", cval = "[]"; int cver = 0;
  if (const ValueListDataField* vl = dynamic_cast<const ValueListDataField*>(f)) {
    kind = 2; vals = "[";
    bool first = true;
    for (const auto& it : vl->getList()) {   // std::map: ascending by number
      if (!first) vals += ",";
      first = false;
      vals += "[" + std::to_string(it.first) + "," + jtext(it.second) + "]";
    }
    vals += "]";
  } else if (const ConstantDataField* cf = dynamic_cast<const ConstantDataField*>(f)) {
    kind = 3; cval = jtext(cf->m_value); cver = cf->m_verify ? 1 : 0;
  }
  int div = 0;
  if (t->isNumeric()) div = reinterpret_cast<const NumberDataType*>(t)->getDivisor();
  PartType pt = f->getPartType();
  o << "{\"name\":" << jtext(static_cast<const AttributedItem*>(f)->getName())
    << ",\"part\":" << (pt == pt_masterData ? 1 : pt == pt_slaveData ? 2 : 0)
    << ",\"tid\":" << jtext(t->getId()) << ",\"len\":" << VerifAccess::length(f) << ",\"bits\":";
  o << (t->getBitCount() < 8 ? t->getBitCount() : 8 * VerifAccess::length(f));
  o << ",\"div\":" << div << ",\"kind\":" << kind << ",\"vals\":" << vals << ",\"cval\":" << cval << ",\"cver\":" << cver
    << ",\"unit\":" << jtext(f->getAttribute("unit")) << ",\"comment\":" << jtext(f->getAttribute("comment")) << "}";
  return o.str();
}

static string fieldList(const DataField* d) {
  string o = "[";
  if (const DataFieldSet* s = dynamic_cast<const DataFieldSet*>(d)) {
    const auto& fs = VerifAccess::fields(s);
    for (size_t i = 0; i < fs.size(); i++) o += (i ? "," : "") + fieldAttr(fs[i]);
  } else if (const SingleDataField* f = dynamic_cast<const SingleDataField*>(d)) {
    o += fieldAttr(f);
  }
  return o + "]";
}

static string idList(const vector<symbol_t>& id) { return vf::jbytes(vector<uint8_t>(id.begin(), id.end())); }

static string msgAttr(const Message* m) {
  std::ostringstream o;
  o << "{\"w\":" << (m->isWrite() ? 1 : 0) << ",\"p\":" << (m->isPassive() ? 1 : 0) << ",\"prio\":" << m->getPollPriority()
    << ",\"circuit\":" << jtext(m->getCircuit()) << ",\"level\":" << jtext(m->getLevel())
    << ",\"name\":" << jtext(m->getName()) << ",\"comment\":" << jtext(m->getAttribute("comment"))
    << ",\"qq\":" << (m->getSrcAddress() == SYN ? -1 : static_cast<int>(m->getSrcAddress()))
    << ",\"zz\":" << (m->getDstAddress() == SYN ? -1 : static_cast<int>(m->getDstAddress())) << ",\"ids\":[";
  if (const ChainedMessage* c = dynamic_cast<const ChainedMessage*>(m)) {
    const auto& ids = VerifAccess::chainIds(c); const auto& lens = VerifAccess::chainLengths(c);
    for (size_t i = 0; i < ids.size(); i++) o << (i ? "," : "") << "[" << idList(ids[i]) << "," << lens[i] << "]";
  } else {
    o << "[" << idList(VerifAccess::id(m)) << ",-1]";
  }
  o << "],\"fields\":" << fieldList(VerifAccess::data(m)) << "}";
  return o.str();
}

// the line number the reader reports for a failed load: "<filename>:<line>: <code>..." inside the error description
static int errorLine(const string& err, const string& filename) {
  size_t p = err.rfind(filename + ":");
  if (p == string::npos) return -1;
  p += filename.size() + 1;
  size_t q = p;
  while (q < err.size() && err[q] >= '0' && err[q] <= '9') q++;
  if (q == p) return -1;
  return atoi(err.substr(p, q - p).c_str());
}

static string joinLines(const vfj::JV& lines) {
  string text;
  for (size_t i = 0; i < lines.size(); i++) { text += lines[i].bytes(); text += "\n"; }
  return text;
}

struct Gen { int rc = 0; int line = 0; string err; string attrs = "[]"; string dump; int count = 0; size_t size = 0; };

static Gen loadMessages(const string& text, DataFieldTemplates* templates, const string& filename, bool withDump) {
  Gen g;
  MessageMap* messages = new MessageMap(false, "", false);   // several maps in one process share the static scan fields
  CaseResolver* res = new CaseResolver(templates);
  messages->setResolver(res);
  std::istringstream is(text);
  string err;
  g.rc = messages->readFromStream(&is, filename, 0, false, nullptr, &err);
  g.err = err;
  g.line = g.rc == RESULT_OK ? 0 : errorLine(err, filename);
  std::deque<Message*> all;
  messages->findAll("", "", "*", false, true, true, true, true, true, 0, 0, false, &all);
  g.attrs = "[";
  for (const auto m : all) {
    if (g.count) g.attrs += ",";
    g.attrs += msgAttr(m);
    g.count++;
  }
  g.attrs += "]";
  g.size = messages->size();
  if (withDump) {
    std::ostringstream o;
    messages->dump(true, OF_DEFINITION, &o);                           // "--dumpconfig"
    g.dump = o.str();
  }
  delete messages;
  delete res;
  return g;
}

static string passthrough(const vfj::JV& v) {
  switch (v.t) {
    case vfj::JV::JNUM: return std::to_string(v.num);
    case vfj::JV::JBOOL: return v.b ? "true" : "false";
    case vfj::JV::JSTR: return vf::jstr(v.s);
    case vfj::JV::JARR: { string r = "["; for (size_t i = 0; i < v.a.size(); i++) { if (i) r += ","; r += passthrough(v.a[i]); } return r + "]"; }
    case vfj::JV::JOBJ: { string r = "{"; for (size_t i = 0; i < v.o.size(); i++) { if (i) r += ","; r += vf::jstr(v.o[i].first) + ":" + passthrough(v.o[i].second); } return r + "}"; }
    default: return "null";
  }
}

int main(int argc, char** argv) {
  vf::installTerminate();
  if (argc < 3) { fprintf(stderr, "usage: %s cases.ndjson out.ndjson [text]\n", argv[0]); return 2; }
  bool asText = argc > 3 && string(argv[3]) == "text";     // human readable (probing / replay)
  setFacilitiesLogLevel(-1, ll_none);
  vector<vfj::JV> lines = vfj::readFile(argv[1]);
  vector<vfj::JV> cases;                                   // a line is one case or a batch {"cases":[...]}
  for (const auto& l : lines) {
    if (l.has("cases")) { for (size_t i = 0; i < l["cases"].size(); i++) cases.push_back(l["cases"][i]); }
    else cases.push_back(l);
  }
  lines.clear();
  long ntpl = 0, nmsg = 0, nreload = 0, ndump = 0, nmessages = 0;
  vf::Out o(argv[2]);
  for (const auto& c : cases) {
    string tplText = joinLines(c["tpl"]), msgText = joinLines(c["msg"]);
    DataFieldTemplates* templates = new DataFieldTemplates();
    string terr;
    int trc = RESULT_OK, tline = 0;
    if (c["tpl"].size() > 0) {     // no template file at all: nothing is read (an empty stream is a different case)
      std::istringstream is(tplText);
      trc = templates->readFromStream(&is, "tpl.csv", 0, false, nullptr, &terr);
      tline = trc == RESULT_OK ? 0 : errorLine(terr, "tpl.csv");
      ntpl++;
    }
    string T = "[";
    bool first = true;
    for (const auto& it : templates->m_fieldsByName) {
      if (!first) T += ",";
      first = false;
      T += "{\"key\":" + jtext(it.first) + ",\"set\":" + (it.second->isSet() ? "1" : "0") + ",\"fields\":" + fieldList(it.second) + "}";
    }
    T += "]";
    string l = "{\"tpl\":" + passthrough(c["tpl"]) + ",\"msg\":" + passthrough(c["msg"]);
    l += ",\"trc\":" + std::to_string(trc) + ",\"tln\":" + std::to_string(tline) + ",\"T\":" + T;
    Gen g1, g2;
    int did = 0;
    if (trc == RESULT_OK) {
      did = 1;
      g1 = loadMessages(msgText, templates, "defs.csv", true);
      nmsg++; ndump++; nmessages += g1.count;
      if (g1.rc == RESULT_OK) {
        DataFieldTemplates* none = new DataFieldTemplates();
        g2 = loadMessages(g1.dump, none, "dump.csv", true);
        delete none;
        did = 2; nreload++; ndump++;
      }
    }
    l += ",\"did\":" + std::to_string(did) + ",\"mrc\":" + std::to_string(g1.rc) + ",\"mln\":" + std::to_string(g1.line);
    l += ",\"n\":" + std::to_string(g1.size) + ",\"M\":" + g1.attrs + ",\"d1\":" + jtext(g1.dump);
    l += ",\"rc2\":" + std::to_string(g2.rc) + ",\"M2\":" + g2.attrs + ",\"d2\":" + jtext(g2.dump);
    l += ",\"err\":" + vf::jstr(terr + "|" + g1.err + "|" + g2.err) + "}\n";
    if (asText) {
      printf("--- templates:\n%s--- messages:\n%s=> trc=%d line=%d T=%s\n=> mrc=%d line=%d n=%zu\n", tplText.c_str(), msgText.c_str(),
             trc, tline, T.c_str(), g1.rc, g1.line, g1.size);
      printf("   err=%s\n   dump:\n%s   reload rc=%d\n", (terr + "|" + g1.err + "|" + g2.err).c_str(), g1.dump.c_str(), g2.rc);
    }
    o.raw(l);
    delete templates;
  }
  printf("{\"cases\":%zu,\"template_loads\":%ld,\"message_loads\":%ld,\"reloads\":%ld,\"dumps\":%ld,\"messages\":%ld}\n",
         cases.size(), ntpl, nmsg, nreload, ndump, nmessages);
  return 0;
}
