// Common helpers of the verification harnesses (no ebusd code lives here).
#ifndef VERIF_VF_H_
#define VERIF_VF_H_
#ifdef HAVE_CONFIG_H
#  include <config.h>
#endif
#include <cstdio>
#include <cstdlib>
#include <cstdint>
#include <cstring>
#include <string>
#include <vector>
#include <exception>
#include <unistd.h>

namespace vf {

// ndjson output -------------------------------------------------------------------------------
struct Out {
  FILE* f;
  explicit Out(const char* path) { f = fopen(path, "w"); if (!f) { perror(path); exit(2); } setvbuf(f, nullptr, _IOFBF, 1 << 20); }
  ~Out() { if (f) fclose(f); }
  void raw(const char* s) { fputs(s, f); }
  void raw(const std::string& s) { fwrite(s.data(), 1, s.size(), f); }
  void nl() { fputc('\n', f); }
};

inline void jbytes(std::string* o, const uint8_t* d, size_t n) {
  o->push_back('[');
  char b[8];
  for (size_t i = 0; i < n; i++) { snprintf(b, sizeof b, i ? ",%u" : "%u", d[i]); o->append(b); }
  o->push_back(']');
}
inline std::string jbytes(const std::vector<uint8_t>& v) { std::string o; jbytes(&o, v.data(), v.size()); return o; }
inline std::string jbytes(const std::string& v) { std::string o; jbytes(&o, (const uint8_t*)v.data(), v.size()); return o; }
inline std::string jints(const std::vector<int>& v) {
  std::string o = "["; char b[16];
  for (size_t i = 0; i < v.size(); i++) { snprintf(b, sizeof b, i ? ",%d" : "%d", v[i]); o += b; }
  return o + "]";
}
// JSON string (ASCII only; everything else goes as byte lists)
inline std::string jstr(const std::string& s) {
  std::string o = "\"";
  for (unsigned char c : s) {
    if (c == '"' || c == '\\') { o.push_back('\\'); o.push_back(c); }
    else if (c < 0x20 || c >= 0x7f) { char b[8]; snprintf(b, sizeof b, "\\u%04x", c); o += b; }
    else o.push_back(c);
  }
  return o + "\"";
}

// deterministic PRNG (splitmix64) seeded from VERIF_SEED -----------------------------------------
struct Rng {
  uint64_t s;
  explicit Rng(uint64_t seed) : s(seed * 0x9E3779B97F4A7C15ULL + 12345) {}
  uint64_t next() { uint64_t z = (s += 0x9E3779B97F4A7C15ULL); z = (z ^ (z >> 30)) * 0xBF58476D1CE4E5B9ULL;
    z = (z ^ (z >> 27)) * 0x94D049BB133111EBULL; return z ^ (z >> 31); }
  unsigned below(unsigned n) { return n ? (unsigned)(next() % n) : 0; }
  bool chance(unsigned num, unsigned den) { return below(den) < num; }
};
inline uint64_t seedFromEnv() { const char* s = getenv("VERIF_SEED"); return s && *s ? strtoull(s, nullptr, 10) : 1; }

// a harness must never die silently with a truncated record file
inline void installTerminate() {
  std::set_terminate([]() { fprintf(stderr, "HARNESS-TERMINATE: uncaught exception\n"); fflush(nullptr); _exit(3); });
}

}  // namespace vf
#endif  // VERIF_VF_H_
