// Minimal JSON reader for case files emitted by TLC (ndJsonSerialize): objects, arrays, integers, strings, booleans.
// No ebusd code lives here.
#ifndef VERIF_VFJSON_H_
#define VERIF_VFJSON_H_
#include <cstdio>
#include <cstdlib>
#include <map>
#include <string>
#include <vector>
#include <fstream>

namespace vfj {

struct Val {
  enum Kind { NUL, NUM, STR, ARR, OBJ, BOOL } kind = NUL;
  long num = 0;
  std::string str;
  std::vector<Val> arr;
  std::map<std::string, Val> obj;
  const Val& operator[](const char* k) const {
    static const Val none;
    auto it = obj.find(k);
    return it == obj.end() ? none : it->second;
  }
  bool has(const char* k) const { return obj.find(k) != obj.end(); }
  // array of character codes / bytes -> string
  std::string codes() const { std::string s; for (const Val& v : arr) s.push_back(static_cast<char>(v.num)); return s; }
  std::vector<int> ints() const { std::vector<int> r; for (const Val& v : arr) r.push_back(static_cast<int>(v.num)); return r; }
};

struct Parser {
  const std::string& s;
  size_t p = 0;
  explicit Parser(const std::string& str) : s(str) {}
  [[noreturn]] void fail(const char* what) {
    fprintf(stderr, "JSON parse error (%s) at %zu in: %.200s\n", what, p, s.c_str());
    exit(2);
  }
  void ws() { while (p < s.size() && (s[p] == ' ' || s[p] == '\t' || s[p] == '\r' || s[p] == '\n')) p++; }
  Val value() {
    ws();
    if (p >= s.size()) fail("eof");
    Val v;
    char c = s[p];
    if (c == '{') {
      v.kind = Val::OBJ; p++; ws();
      if (s[p] == '}') { p++; return v; }
      for (;;) {
        ws();
        Val k = value();
        if (k.kind != Val::STR) fail("key");
        ws();
        if (s[p] != ':') fail("colon");
        p++;
        v.obj[k.str] = value();
        ws();
        if (s[p] == ',') { p++; continue; }
        if (s[p] == '}') { p++; return v; }
        fail("object");
      }
    }
    if (c == '[') {
      v.kind = Val::ARR; p++; ws();
      if (s[p] == ']') { p++; return v; }
      for (;;) {
        v.arr.push_back(value());
        ws();
        if (s[p] == ',') { p++; continue; }
        if (s[p] == ']') { p++; return v; }
        fail("array");
      }
    }
    if (c == '"') {
      v.kind = Val::STR; p++;
      while (p < s.size() && s[p] != '"') {
        if (s[p] == '\\') {
          p++;
          char e = s[p];
          if (e == 'n') v.str.push_back('\n');
          else if (e == 't') v.str.push_back('\t');
          else if (e == 'u') { v.str.push_back(static_cast<char>(strtol(s.substr(p + 1, 4).c_str(), nullptr, 16))); p += 4; }
          else v.str.push_back(e);
          p++;
        } else {
          v.str.push_back(s[p++]);
        }
      }
      p++;
      return v;
    }
    if (c == 't' && s.compare(p, 4, "true") == 0) { v.kind = Val::BOOL; v.num = 1; p += 4; return v; }
    if (c == 'f' && s.compare(p, 5, "false") == 0) { v.kind = Val::BOOL; v.num = 0; p += 5; return v; }
    if (c == 'n' && s.compare(p, 4, "null") == 0) { p += 4; return v; }
    if (c == '-' || (c >= '0' && c <= '9')) {
      size_t q = p;
      if (s[q] == '-') q++;
      while (q < s.size() && s[q] >= '0' && s[q] <= '9') q++;
      v.kind = Val::NUM;
      v.num = atol(s.substr(p, q - p).c_str());  // NOLINT: case files only hold small integers
      p = q;
      return v;
    }
    fail("value");
  }
};

inline Val parse(const std::string& line) { Parser ps(line); return ps.value(); }

inline std::vector<Val> readNdjson(const char* path) {
  std::ifstream f(path);
  if (!f) { perror(path); exit(2); }
  std::vector<Val> out;
  std::string line;
  while (std::getline(f, line)) {
    if (line.find_first_not_of(" \t\r\n") == std::string::npos) continue;
    out.push_back(parse(line));
  }
  return out;
}

}  // namespace vfj
#endif  // VERIF_VFJSON_H_
