// Growth check "command semantics": replays TLC-generated sessions of read / write / find commands (with clock ticks in
// between) on the in-process daemon of c16_daemon.h and logs, per command, the answer text (character codes), every
// telegram ebusd put on the bus, the poll priorities and whether each message holds data.  spec/CommandsJudge.tla judges.
// The command TEXT is rendered here from the structured command record of spec/Commands.tla (one option per field).
#include "c16_daemon.h"

static string num(long v) { char b[24]; snprintf(b, sizeof b, "%ld", v); return b; }
static string hex2(long v) { char b[8]; snprintf(b, sizeof b, "%02lx", v & 0xff); return b; }

static string render(const JV& c) {
  string op = c["op"].s, t;
  if (op == "read") {
    t = "read";
    string ca = c["cache"].s;
    if (ca == "f") t += " -f"; else if (ca.size() > 1 && ca[0] == 'm') t += " -m " + ca.substr(1);
    if (c["s"].i) t += " -s " + hex2(c["s"].i);
    if (c["d"].i) t += " -d " + hex2(c["d"].i);
    if (c["c"].size()) t += " -c " + codes(c["c"]);
    if (c["p"].i) t += " -p " + num(c["p"].i);
    long v = c["v"].i;
    if (v == 4) t += " -V"; else if (v == 5) t += " -V -V"; else for (long i = 0; i < v; i++) t += " -v";
    if (c["num"].s == "n") t += " -n"; else if (c["num"].s == "N") t += " -N";
    if (c["i"].size()) t += " -i " + codes(c["i"]);
    t += " " + codes(c["n"]);
    if (c["fld"].size()) { t += " " + codes(c["fld"]); if (c["fi"].i >= 0) t += "." + num(c["fi"].i); }
  } else if (op == "write") {
    t = "write";
    if (c["s"].i) t += " -s " + hex2(c["s"].i);
    if (c["d"].i) t += " -d " + hex2(c["d"].i);
    if (c["c"].size()) t += " -c " + codes(c["c"]);
    t += " " + codes(c["n"]);
    if (c["hasval"].i) t += " " + codes(c["val"]);
  } else if (op == "find") {
    t = "find";
    long v = c["v"].i;
    if (v == 4) t += " -V"; else for (long i = 0; i < v; i++) t += " -v";
    if (c["fr"].i) t += " -r";
    if (c["fw"].i) t += " -w";
    if (c["fp"].i) t += " -p";
    if (c["fa"].i) t += " -a";
    if (c["fd"].i) t += " -d";
    if (c["fh"].i) t += " -h";
    if (c["fe"].i) t += " -e";
    if (c["fid"].size()) t += " -i " + codes(c["fid"]);
    if (c["c"].size()) t += " -c " + codes(c["c"]);
    if (c["n"].size()) t += " " + codes(c["n"]);
  }
  return t;
}

int main(int argc, char** argv) {
  vf::installTerminate();
  if (argc < 6) { fprintf(stderr, "usage: %s cmd|show out.ndjson worlds.ndjson sessions.ndjson workdir [w0 w1]\n", argv[0]); return 2; }
  setFacilitiesLogLevel(0xffff, getenv("C16_LOG") ? ll_debug : ll_none);
  string mode = argv[1];
  vf::Out out(argv[2]);
  vector<JV> worlds = readNdjson(argv[3]), sessions = readNdjson(argv[4]);
  string dir = argv[5];
  size_t w0 = argc > 6 ? atol(argv[6]) : 0, w1 = argc > 7 ? atol(argv[7]) : worlds.size();
  char b[96];
  for (size_t wi = w0; wi < w1 && wi < worlds.size(); wi++) {
    const JV& w = worlds[wi];
    for (size_t si = 0; si < sessions.size(); si++) {
      if (sessions[si]["fam"].i != w["fam"].i) continue;
      g_now = 1700000000;
      World* W = makeWorld(w, dir);
      Client telnet(W);
      snprintf(b, sizeof b, "{\"w\":%zu,\"s\":%zu,\"o\":[", wi + 1, si + 1);
      string line = b;
      bool first = true;
      for (auto& c : sessions[si]["cmds"].a) {
        g_now += c["tk"].i;
        size_t t0 = W->tr->m_written.size();
        string text, resp;
        if (c["op"].s == "bus") {  // another master reads slot m; ebusd listens
          const Slot& s = W->slots[c["m"].i - 1];
          MasterSymbolString m; m.push_back(0x10); m.push_back(0x08); m.push_back(s.id[0]); m.push_back(s.id[1]);
          m.push_back(static_cast<symbol_t>(s.id.size() - 2)); for (size_t i = 2; i < s.id.size(); i++) m.push_back(s.id[i]);
          SlaveSymbolString sl; sl.push_back(static_cast<symbol_t>(c["data"].size())); for (auto& x : c["data"].a) sl.push_back(static_cast<symbol_t>(x.i));
          vector<uint8_t> wire;
          auto esc = [&wire](uint8_t x) { if (x == ESC) { wire.push_back(ESC); wire.push_back(0); } else if (x == SYN) { wire.push_back(ESC); wire.push_back(1); } else wire.push_back(x); };
          for (size_t i = 0; i < m.size(); i++) esc(m[i]);
          esc(m.calcCrc()); wire.push_back(ACK);
          for (size_t i = 0; i < sl.size(); i++) esc(sl[i]);
          esc(sl.calcCrc()); wire.push_back(ACK); wire.push_back(SYN);
          W->proto->step();
          W->tr->feed(wire);
          for (int i = 0; i < 64 && W->tr->pending(); i++) W->proto->step();
          W->proto->step();
          text = "(bus)"; resp = "bus";
        } else {
          text = render(c);
          resp = rtrim(telnet.send(text + "\n"));
        }
        string o = "{\"a\":" + vf::jbytes(resp) + ",\"bus\":[";
        for (size_t i = t0; i < W->tr->m_written.size(); i++) { if (i > t0) o += ","; o += vf::jbytes(W->tr->m_written[i]); }
        o += "],\"pr\":[";
        for (size_t k = 0; k < W->slots.size(); k++) { if (k) o += ","; o += num(static_cast<long>(W->slots[k].msg->getPollPriority())); }
        o += "],\"dat\":[";
        for (size_t k = 0; k < W->slots.size(); k++) { if (k) o += ","; o += W->slots[k].msg->getLastUpdateTime() ? "1" : "0"; }
        o += "]}";
        if (mode == "show") fprintf(stderr, "w%zu s%zu +%lds  %-40s -> %s | %s\n", wi + 1, si + 1, c["tk"].i, text.c_str(), resp.substr(0, 300).c_str(), o.substr(o.find("\"bus\"")).c_str());
        if (!first) line += ",";
        first = false;
        line += o;
      }
      line += "]}\n";
      out.raw(line);
      delete W;
    }
  }
  return 0;
}
