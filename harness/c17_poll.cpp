// C17: polling is starvation-free and proportional to priority.
// Drives the poll scheduler of a real MessageMap (Message::m_pollOrder/m_pollPriority/m_lastPollTime, the file-static
// g_lastPollOrder, MessagePriorityQueue) through its public API under a virtual clock.
//   graph  <cfg> <out.ndjson>          breadth-first extraction of the reachable transition graph
//   replay <cfg> <inputs> <out.ndjson> one linear execution (chain graph, same format)
//   random <cfg> <out.ndjson> <steps>  seeded random linear execution (N <= 10, priorities 1..9)
// cfg (text): "N p1..pN maxnodes cap alphabet"  alphabet = letters of n(ext) s(etprio) a(dd back) f(ront) c(ondition use)
//             r(emove+re-add) t(ick) v(ictim: setprio on the last message only) x (a second, independent MessageMap with
//             its own poll message is cleared and reloaded, alternately destroyed and recreated) p (replace: the definition of a message is read again with replace=true and a
//             new priority -> MessageMap::add(..., replace) removes the old instance) R (reload of the main map:
//             clear() + all definitions read again); setprio priorities follow the alphabet
//             (random mode: 1..9; optional 6th argument = period in selections at which the last message's priority is
//             toggled between 8 and 9, as two clients adjusting the same message would do).
// g_lastPollOrder cannot be reset inside a process, therefore every re-execution from the initial state runs in a
// forked child of the (pristine) coordinator process.
#include "vf.h"
#include <sstream>
#include <fstream>
#include <map>
#include <set>
#include <deque>
#include <algorithm>
#include <time.h>
#include <sys/wait.h>
#include "lib/ebus/message.h"
#include "lib/ebus/data.h"
#include "lib/ebus/result.h"
#include "lib/utils/log.h"

static const time_t T0 = 1000000;
static time_t g_now = T0;
extern "C" time_t time(time_t* t) { if (t) *t = g_now; return g_now; }
namespace ebusd {
void clockGettime(struct timespec* t) { t->tv_sec = g_now; t->tv_nsec = 0; }
uint64_t clockGetMillis() { return (uint64_t)g_now * 1000; }

struct VerifAccess {
  static unsigned int& order(Message* m) { return m->m_pollOrder; }
  static size_t& prio(Message* m) { return m->m_pollPriority; }
  static time_t lastPoll(const Message* m) { return m->m_lastPollTime; }
  static bool used(const Message* m) { return m->m_usedByCondition; }
  static void setUsed(Message* m, bool u) { m->m_usedByCondition = u; }
  static void setLastPoll(Message* m, time_t t) { m->m_lastPollTime = t; }
  static std::vector<Message*>& vec(MessageMap* mm) { return mm->m_pollMessages.c; }
  static Condition* cond(MessageMap* mm, const std::string& key) { auto it = mm->m_conditions.find(key); return it == mm->m_conditions.end() ? nullptr : it->second; }
};

class NullResolver : public Resolver {
 public:
  DataFieldTemplates* m_templates;
  NullResolver() : m_templates(new DataFieldTemplates()) {}
  DataFieldTemplates* getTemplates(const std::string&) override { return m_templates; }
  result_t loadDefinitionsFromConfigPath(FileReader*, const std::string&, std::map<std::string, std::string>*,
      std::string*, bool) override { return RESULT_ERR_NOTFOUND; }
};
}  // namespace ebusd
using namespace ebusd;
using std::string;
using std::vector;

struct Cfg { int n; vector<int> prios; int maxNodes; int cap; string alpha; vector<int> setPrios; };
static Cfg readCfg(const char* path) {
  std::ifstream in(path);
  if (!in) { perror(path); exit(2); }
  Cfg c; in >> c.n; c.prios.resize(c.n);
  for (int i = 0; i < c.n; i++) in >> c.prios[i];
  in >> c.maxNodes >> c.cap >> c.alpha;
  int p;
  while (in >> p) c.setPrios.push_back(p);
  return c;
}

struct Live {
  const Cfg* cfg;
  MessageMap* map;
  NullResolver* resolver;
  vector<Message*> msgs;
  Message* probe;
  MessageMap* other;          // as MainLoop::m_newlyDefinedMessages: shares only the file-static g_lastPollOrder
  unsigned int otherOps;
  unsigned int condNo;
  unsigned int lineNo;
  string defLine(int i, int prio = -1) const {
    int p = prio < 0 ? cfg->prios[i] : prio;
    char pc[4] = ""; if (p > 0) snprintf(pc, sizeof pc, "%d", p);      // priority 0: a read message without poll priority
    char b[128]; snprintf(b, sizeof b, "r%s,cir,m%d,,,08,b509,0d%02x00,,,UCH", pc, i + 1, i + 1); return b;
  }
  bool readLine(const string& l, bool replace = false) {
    std::istringstream is(l); vector<string> row; string e;
    return map->readLineFromStream(&is, "p.csv", false, &lineNo, &row, &e, replace, nullptr, nullptr) == RESULT_OK;
  }
  Message* lookup(int i) { char b[16]; snprintf(b, sizeof b, "m%d", i + 1); return map->find("cir", b, "*", false); }
  explicit Live(const Cfg* c) : cfg(c), condNo(0), lineNo(0) {
    g_now = T0;
    resolver = new NullResolver();
    map = new MessageMap(false, "", false);
    map->setResolver(resolver);
    readLine("#");
    for (int i = 0; i < cfg->n; i++) {
      if (!readLine(defLine(i))) { fprintf(stderr, "definition %d did not load\n", i); exit(2); }
      msgs.push_back(lookup(i));
      if (!msgs.back()) { fprintf(stderr, "message %d not found\n", i); exit(2); }
    }
    // a message that is never polled: used only to read the file-static g_lastPollOrder through the real code
    if (!readLine("r,cir,probe,,,08,b509,0dff00,,,UCH")) exit(2);
    probe = map->find("cir", "probe", "*", false);
    other = nullptr; otherOps = 0;
    loadOther();
  }
  void loadOther() {
    if (!other) other = new MessageMap(true, "", false);    // constructed as the daemon constructs its second map
    unsigned int ln = 0; vector<string> row; string e;
    std::istringstream h("#"); other->readLineFromStream(&h, "o.csv", false, &ln, &row, &e, false, nullptr, nullptr);
    std::istringstream d("r2,oth,o1,,,08,b509,0dfd00,,,UCH"); other->readLineFromStream(&d, "o.csv", false, &ln, &row, &e, false, nullptr, nullptr);
  }
  // g_lastPollOrder = order a message gets when its priority is raised from 0 to 1, minus 1 (Message::setPollPriority)
  unsigned int gLast() {
    time_t keep = g_now;
    probe->setPollPriority(1);
    unsigned int g = VerifAccess::order(probe) - 1;
    VerifAccess::prio(probe) = 0; VerifAccess::order(probe) = 0;
    g_now = keep;
    return g;
  }
  int indexOf(const Message* m) const {
    for (size_t i = 0; i < msgs.size(); i++) if (msgs[i] == m) return (int)i + 1;
    return m == probe ? 98 : (m ? 99 : 0);
  }
};

// inputs: kind + message (1-based) + argument
struct Input { char k; int m; int a; };
static vector<Input> alphabet(const Cfg& c) {
  vector<Input> v;
  for (char k : c.alpha) {
    if (k == 'n') v.push_back({'n', 0, 0});
    else if (k == 't') v.push_back({'t', 0, 1});
    else if (k == 'x') v.push_back({'x', 0, 0});
    else if (k == 'p') { for (int m = 1; m <= c.n; m++) for (int p : c.setPrios) v.push_back({'p', m, p}); }
    else if (k == 'R') v.push_back({'R', 0, 0});
    else if (k == 'v') { for (int p : c.setPrios) v.push_back({'s', c.n, p}); }   // priority changes of one victim (the last message) only
    else if (k == 'E') { /* no input: asks for the exact (forked) extraction */ }
    else if (k != 'p' && k != 'v' && k != 'x' && k != 'R') for (int m = 1; m <= c.n; m++) {
      if (k == 's') { for (int p : c.setPrios) v.push_back({'s', m, p}); }
      else v.push_back({k, m, 0});
    }
  }
  return v;
}
static const char* kindName(char k) {
  switch (k) { case 'n': return "next"; case 's': return "setprio"; case 'a': return "addback"; case 'f': return "addfront";
               case 'c': return "conduse"; case 'r': return "readd"; case 'x': return "otherclear"; case 'R': return "reload"; case 'p': return "replace"; default: return "tick"; }
}
static char kindChar(const string& s) {
  if (s == "next") return 'n'; if (s == "setprio") return 's'; if (s == "addback") return 'a'; if (s == "addfront") return 'f';
  if (s == "conduse") return 'c'; if (s == "readd") return 'r'; if (s == "otherclear") return 'x'; if (s == "reload") return 'R'; if (s == "replace") return 'p'; return 't';
}

static int apply(Live& L, const Input& in) {
  switch (in.k) {
    case 'n': return L.indexOf(L.map->getNextPoll());
    case 't': g_now += in.a; return 0;
    case 's': {   // as every caller in mainloop.cpp / mqtthandler.cpp does
      Message* m = L.msgs[in.m - 1];
      if (m->setPollPriority((size_t)in.a)) { L.map->addPollMessage(false, m); return 1; }
      return 0;
    }
    case 'a': L.map->addPollMessage(false, L.msgs[in.m - 1]); return 0;
    case 'f': L.map->addPollMessage(true, L.msgs[in.m - 1]); return 0;
    case 'c': {   // the real path: a (new, value-less) condition that refers to the message is defined and resolved:
                  // MessageMap::resolveCondition -> SimpleCondition::resolve -> setUsedByCondition + addPollMessage(true, ...)
      char name[32]; snprintf(name, sizeof name, "cm%d_%u", in.m, ++L.condNo);
      char line[96]; snprintf(line, sizeof line, "*[%s],cir,m%d,,,,", name, in.m);
      if (!L.readLine(line)) return 2;
      Condition* c = VerifAccess::cond(L.map, string("p.csv:") + name);
      if (!c) return 3;
      string err;
      return L.map->resolveCondition(nullptr, c, &err) == RESULT_OK ? 0 : 4;
    }
    case 'x': {   // the other map is cleared and its definition read again; every second time it is destroyed and recreated
      if (L.otherOps++ % 2) { delete L.other; L.other = nullptr; } else L.other->clear();
      L.loadOther();
      return 0;
    }
    case 'R': {   // reload of the main map: clear() + all definitions again (new instances)
      L.map->clear();
      for (int i = 0; i < L.cfg->n; i++) { if (!L.readLine(L.defLine(i))) return 2; L.msgs[i] = L.lookup(i); if (!L.msgs[i]) return 3; }
      if (!L.readLine("r,cir,probe,,,08,b509,0dff00,,,UCH")) return 4;
      L.probe = L.map->find("cir", "probe", "*", false);
      return L.probe ? 0 : 5;
    }
    case 'p': {   // the daemon's path (define -r, reload of a file with the same key): the definition is read again with
                  // replace=true; MessageMap::add removes (deletes) the instance with the same key/name and adds the new one
      if (!L.readLine(L.defLine(in.m - 1, in.a), true)) return 2;
      L.msgs[in.m - 1] = L.lookup(in.m - 1);
      return L.msgs[in.m - 1] ? 0 : 3;
    }
    case 'r': {   // reload of one definition: remove (deletes the instance) and read the CSV line again
      L.map->remove(L.msgs[in.m - 1]);
      L.msgs[in.m - 1] = nullptr;
      if (!L.readLine(L.defLine(in.m - 1))) return 2;
      L.msgs[in.m - 1] = L.lookup(in.m - 1);
      return L.msgs[in.m - 1] ? 0 : 3;
    }
  }
  return -1;
}

// ---- state: concrete (for the record, relative to T0) and normalised (visited-key) --------------------------------
struct Snap { unsigned int g; vector<unsigned int> ord; vector<int> prio, used; vector<long> lp; vector<int> vec; long now; };
static Snap snap(Live& L) {
  Snap s; s.g = L.gLast(); s.now = (long)(g_now - T0);
  for (Message* m : L.msgs) {
    s.ord.push_back(VerifAccess::order(m)); s.prio.push_back((int)m->getPollPriority()); s.used.push_back(VerifAccess::used(m) ? 1 : 0);
    time_t t = VerifAccess::lastPoll(m); s.lp.push_back(t >= T0 ? 1000 + (long)(t - T0) : (long)t);
  }
  for (Message* m : VerifAccess::vec(L.map)) s.vec.push_back(L.indexOf(m));
  return s;
}
// State restore (graphs without re-add only).  g_lastPollOrder is a file-static that can only be raised (by polling a
// helper message of a second map), so the state is restored up to a common translation of all poll orders and
// g_lastPollOrder; poll orders are only ever compared or subtracted.  Reported paths are re-executed exactly (replay).
static void raiseGLast(unsigned int target) {
  static MessageMap* aux = nullptr; static Message* am = nullptr;
  if (!aux) {
    aux = new MessageMap(false, "", false);
    unsigned int ln = 0; vector<string> row; string e;
    std::istringstream h("#"); aux->readLineFromStream(&h, "a.csv", false, &ln, &row, &e, false, nullptr, nullptr);
    std::istringstream d("r1,aux,y,,,08,b509,0dfe00,,,UCH"); aux->readLineFromStream(&d, "a.csv", false, &ln, &row, &e, false, nullptr, nullptr);
    am = aux->find("aux", "y", "*", false);
    if (!am) { fprintf(stderr, "aux message missing\n"); exit(2); }
  }
  VerifAccess::order(am) = target;
  aux->getNextPoll();
}
static void restore(Live& L, const Snap& s) {
  unsigned int real = L.gLast();
  if (real < s.g) { raiseGLast(s.g); real = L.gLast(); if (real != s.g) { fprintf(stderr, "cannot raise g_lastPollOrder\n"); exit(2); } }
  unsigned int d = real - s.g;
  for (size_t i = 0; i < L.msgs.size(); i++) {
    Message* m = L.msgs[i];
    VerifAccess::order(m) = s.ord[i] + d; VerifAccess::prio(m) = (size_t)s.prio[i]; VerifAccess::setUsed(m, s.used[i] != 0);
    VerifAccess::setLastPoll(m, s.lp[i] >= 1000 ? T0 + (s.lp[i] - 1000) : (time_t)s.lp[i]);
  }
  vector<Message*>& c = VerifAccess::vec(L.map);
  c.clear();
  for (int v : s.vec) c.push_back(L.msgs[v - 1]);
  g_now = T0 + s.now;
}
static string snapJson(const Snap& s) {
  std::ostringstream o;
  o << "{\"g\":" << s.g << ",\"now\":" << s.now << ",\"vec\":" << vf::jints(s.vec) << ",\"prio\":" << vf::jints(s.prio)
    << ",\"used\":" << vf::jints(s.used) << ",\"ord\":[";
  for (size_t i = 0; i < s.ord.size(); i++) o << (i ? "," : "") << s.ord[i];
  o << "],\"lp\":[";
  for (size_t i = 0; i < s.lp.size(); i++) o << (i ? "," : "") << s.lp[i];
  o << "]}";
  return o.str();
}
// visited-key: vector order + keys relative to the global minimum (the minimum itself capped: it only matters for a
// re-added message, which restarts at order 0) + last poll times as dense ranks (small absolute values kept)
static string keyOf(const Snap& s, int cap) {
  // the minimum is taken over g_lastPollOrder and the messages that are polled; a message without priority keeps its
  // old order, which is recorded as (capped) distance behind that minimum
  unsigned int base = s.g;
  for (size_t i = 0; i < s.ord.size(); i++) if (s.prio[i] > 0) base = std::min(base, s.ord[i]);
  std::ostringstream k;
  k << "b" << std::min<unsigned int>(base, (unsigned int)cap) << "g" << (s.g - base) << "v";
  for (int v : s.vec) k << v << ",";
  vector<long> times;
  for (long t : s.lp) if (t >= 1000) times.push_back(t);
  std::sort(times.begin(), times.end()); times.erase(std::unique(times.begin(), times.end()), times.end());
  bool nowIsMax = !times.empty() && times.back() == 1000 + s.now;
  for (size_t i = 0; i < s.ord.size(); i++) {
    long t = s.lp[i];
    long r = t >= 1000 ? 100 + (std::lower_bound(times.begin(), times.end(), t) - times.begin()) : t;
    long rel = (long)s.ord[i] - (long)base;
    if (s.prio[i] == 0 && rel < -(long)cap) rel = -(long)cap - 1;
    k << "|" << rel << "," << s.prio[i] << "," << s.used[i] << "," << r;
  }
  k << "n" << (nowIsMax ? 1 : 0);
  return k.str();
}
static int kindCode(char k) { switch (k) { case 'n': return 1; case 's': return 2; case 'a': return 3; case 'f': return 4; case 'c': return 5; case 'r': return 6; case 'x': return 8; case 'R': return 9; case 'p': return 10; default: return 7; } }
static string edgeJson(const Input& in, int out, int to) {
  char b[96]; snprintf(b, sizeof b, "[%d,%d,%d,%d,%d]", kindCode(in.k), in.m, in.a, out, to); return b;
}
static bool g_withState = true;
// node header: public priorities always, the concrete state unless switched off (big graphs)
static string nodeHead(int id, const string& stJson) {
  size_t a = stJson.find("\"prio\":"), b = stJson.find(']', a);
  string prio = stJson.substr(a + 7, b - a - 6);
  return "{\"id\":" + std::to_string(id) + ",\"p\":" + prio + (g_withState ? ",\"st\":" + stJson : string()) + ",\"succ\":[";
}
// ---- graph extraction ---------------------------------------------------------------------------------------------
static void writeAll(int fd, const string& s) { size_t off = 0; while (off < s.size()) { ssize_t w = write(fd, s.data() + off, s.size() - off); if (w <= 0) _exit(4); off += (size_t)w; } }
static string readAll(int fd) { string s; char buf[65536]; ssize_t r; while ((r = read(fd, buf, sizeof buf)) > 0) s.append(buf, (size_t)r); return s; }

static int cmdGraphRestore(const Cfg& cfg, const char* outPath) {
  vector<Input> sigma = alphabet(cfg);
  std::map<string, int> seen;
  std::deque<int> queue;
  vector<Snap> snaps(2);
  vector<int> depth(2);
  Live L(&cfg);
  snaps[1] = snap(L); seen[keyOf(snaps[1], cfg.cap)] = 1; queue.push_back(1); depth[1] = 0;
  vf::Out o(outPath);
  long edges = 0; bool capped = false; int maxDepth = 0, written = 0;
  while (!queue.empty()) {
    int id = queue.front(); queue.pop_front();
    maxDepth = std::max(maxDepth, depth[id]);
    if (id != written + 1) { fprintf(stderr, "bfs order broken\n"); return 2; }
    string line = nodeHead(id, snapJson(snaps[id]));
    for (size_t i = 0; i < sigma.size(); i++) {
      restore(L, snaps[id]);
      int out = apply(L, sigma[i]);
      Snap s = snap(L);
      // re-base the translated snapshot on the node's own frame so that recorded values stay small
      string key = keyOf(s, cfg.cap);
      int to;
      auto it = seen.find(key);
      if (it != seen.end()) to = it->second;
      else if ((int)seen.size() >= cfg.maxNodes) { capped = true; continue; }
      else {
        to = (int)seen.size() + 1; seen[key] = to;
        unsigned int base = s.g; for (unsigned int x : s.ord) base = std::min(base, x);
        unsigned int keep = std::min<unsigned int>(base, 1000);   // cosmetic: keep absolute values small
        s.g -= base - keep; for (unsigned int& x : s.ord) x -= base - keep;
        snaps.push_back(s); depth.push_back(depth[id] + 1); queue.push_back(to);
      }
      if (line.back() == ']') line += ',';
      line += edgeJson(sigma[i], out, to);
      edges++;
    }
    o.raw(line + "]}\n"); written++;
  }
  printf("{\"nodes\":%d,\"edges\":%ld,\"capped\":%s,\"depth\":%d,\"inputs\":%d,\"mode\":\"restore\"}\n", (int)seen.size(), edges, capped ? "true" : "false", maxDepth, (int)sigma.size());
  return 0;
}

// exact mode (alphabets with re-add): every node is re-executed from the initial state in a forked child; in the child
// the tick is undone on the clock, each re-add runs in a grandchild, getNextPoll runs last.
static void expandInChild(const Cfg& cfg, const vector<Input>& sigma, const vector<int>& path, int fd) {
  Live L(&cfg);
  for (int i : path) apply(L, sigma[i]);
  vector<string> res(sigma.size());
  auto record = [&](size_t i) { int out = apply(L, sigma[i]); Snap s = snap(L); return std::to_string(out) + "\t" + keyOf(s, cfg.cap) + "\t" + snapJson(s) + "\n"; };
  for (size_t i = 0; i < sigma.size(); i++) {
    if (sigma[i].k == 't') { time_t keep = g_now; res[i] = record(i); g_now = keep; continue; }
    int p[2]; if (pipe(p)) _exit(5);
    pid_t g = fork();
    if (g < 0) _exit(6);
    if (g == 0) { close(p[0]); writeAll(p[1], record(i)); _exit(0); }
    close(p[1]); res[i] = readAll(p[0]); close(p[0]);
    int st; waitpid(g, &st, 0);
    if (WIFSIGNALED(st)) res[i] = "CRASH\n";           // the real code died on this input: recorded as an event
    else if (!WIFEXITED(st) || WEXITSTATUS(st) != 0) _exit(7);
  }
  string all; for (const string& r : res) all += r;
  writeAll(fd, all);
}

static int cmdGraph(char** argv) {
  Cfg cfg = readCfg(argv[2]);
  if (cfg.alpha.find_first_of("rxRpE") == string::npos) return cmdGraphRestore(cfg, argv[3]);   // those need exact re-execution
  vector<Input> sigma = alphabet(cfg);
  std::map<string, int> seen;
  std::deque<int> queue;
  vector<std::pair<int, int> > parent(2);   // (parent id, input) - the coordinator stays small: fork cost grows with its size
  vector<string> stateOf(2);
  {
    int p[2]; if (pipe(p)) return 2;
    pid_t c = fork();
    if (c == 0) { close(p[0]); Live L(&cfg); Snap s = snap(L); writeAll(p[1], keyOf(s, cfg.cap) + "\t" + snapJson(s)); _exit(0); }
    close(p[1]); string r = readAll(p[0]); close(p[0]); int st; waitpid(c, &st, 0);
    size_t t = r.find('\t');
    seen[r.substr(0, t)] = 1; stateOf[1] = r.substr(t + 1);
    queue.push_back(1);
  }
  vf::Out o(argv[3]);
  long edges = 0, crashes = 0; bool capped = false; int maxDepth = 0;
  while (!queue.empty()) {
    int id = queue.front(); queue.pop_front();
    vector<int> path;
    for (int x = id; x != 1; x = parent[x].first) path.push_back(parent[x].second);
    std::reverse(path.begin(), path.end());
    maxDepth = std::max(maxDepth, (int)path.size());
    int p[2]; if (pipe(p)) return 2;
    pid_t c = fork();
    if (c < 0) { perror("fork"); return 2; }
    if (c == 0) { close(p[0]); expandInChild(cfg, sigma, path, p[1]); _exit(0); }
    close(p[1]);
    string res = readAll(p[0]); close(p[0]);
    int st; waitpid(c, &st, 0);
    if (!WIFEXITED(st) || WEXITSTATUS(st) != 0) { fprintf(stderr, "child failed st=%d\n", st); return 2; }
    std::istringstream rs(res);
    string l;
    string line = nodeHead(id, stateOf[id]);
    stateOf[id].clear(); stateOf[id].shrink_to_fit();
    for (size_t i = 0; i < sigma.size(); i++) {
      if (!std::getline(rs, l)) { fprintf(stderr, "short result\n"); return 2; }
      if (l == "CRASH") {   // edge with out = -99 that stays in the node: nothing can be said about the state after it
        if (line.back() == ']') line += ',';
        line += edgeJson(sigma[i], -99, id); edges++; crashes++;
        continue;
      }
      size_t t1 = l.find('\t'), t2 = l.find('\t', t1 + 1);
      int out = atoi(l.substr(0, t1).c_str());
      string key = l.substr(t1 + 1, t2 - t1 - 1), stj = l.substr(t2 + 1);
      int to;
      auto it = seen.find(key);
      if (it != seen.end()) to = it->second;
      else if ((int)seen.size() >= cfg.maxNodes) { capped = true; continue; }
      else {
        to = (int)seen.size() + 1;
        seen[key] = to; stateOf.push_back(stj); parent.push_back(std::make_pair(id, (int)i));
        queue.push_back(to);
      }
      if (line.back() == ']') line += ',';
      line += edgeJson(sigma[i], out, to);
      edges++;
    }
    o.raw(line + "]}\n");    // BFS assigns ids in discovery order and expands in id order: lines are written in id order
  }
  printf("{\"nodes\":%d,\"edges\":%ld,\"capped\":%s,\"depth\":%d,\"inputs\":%d,\"mode\":\"fork\",\"crashes\":%ld}\n", (int)seen.size(), edges, capped ? "true" : "false", maxDepth, (int)sigma.size(), crashes);
  return 0;
}

// ---- linear executions ------------------------------------------------------------------------------------------
// The execution runs in a forked child that writes node by node (head, then the edge once the input returned); if the
// real code dies from a signal the parent closes the open node with an edge out = -99 ("crash in real code").
static void chain(const char* path, const Cfg& cfg, const vector<Input>& ins) {
  { vf::Out trunc(path); }
  pid_t c = fork();
  if (c < 0) { perror("fork"); exit(2); }
  if (c == 0) {
    FILE* f = fopen(path, "a"); if (!f) _exit(8);
    Live L(&cfg);
    int id = 1;
    for (size_t i = 0; i <= ins.size(); i++) {
      Snap s = snap(L);
      string head = nodeHead(id, snapJson(s));
      fputs(head.c_str(), f); fflush(f);
      string rest;
      if (i < ins.size()) { int out = apply(L, ins[i]); rest = edgeJson(ins[i], out, id + 1); }
      rest += "]}\n";
      fputs(rest.c_str(), f); fflush(f);
      id++;
    }
    fclose(f); _exit(0);
  }
  int st; waitpid(c, &st, 0);
  if (WIFSIGNALED(st)) {
    std::ifstream in(path); std::stringstream ss; ss << in.rdbuf(); string all = ss.str();
    size_t done = (size_t)std::count(all.begin(), all.end(), '\n');     // complete nodes = inputs that returned
    size_t cut = all.rfind('\n'); all = cut == string::npos ? "" : all.substr(0, cut + 1);
    // the open node is rewritten from its last complete predecessor's view: re-run is not possible, so close it by hand
    std::ifstream in2(path); std::stringstream s2; s2 << in2.rdbuf(); string raw = s2.str();
    string open = raw.substr(cut == string::npos ? 0 : cut + 1);
    FILE* f = fopen(path, "w"); fputs(all.c_str(), f);
    if (!open.empty() && done < ins.size()) { fputs(open.c_str(), f); fputs(edgeJson(ins[done], -99, (int)done + 1).c_str(), f); fputs("]}\n", f); }
    fclose(f);
    fprintf(stderr, "crash in real code at step %zu (signal %d)\n", done + 1, WTERMSIG(st));
  } else if (!WIFEXITED(st) || WEXITSTATUS(st) != 0) { fprintf(stderr, "execution child failed st=%d\n", st); exit(2); }
}
static int cmdReplay(char** argv) {
  Cfg cfg = readCfg(argv[2]);
  std::ifstream in(argv[3]);
  vector<Input> ins; string k; int m, a;
  while (in >> k >> m >> a) ins.push_back({kindChar(k), m, a});
  chain(argv[4], cfg, ins);
  return 0;
}
static int cmdRandom(char** argv) {
  Cfg cfg = readCfg(argv[2]);
  int steps = atoi(argv[4]);
  int pertPerMille = argv[5] ? atoi(argv[5]) : 100;
  int togglePeriod = argv[5] && argv[6] ? atoi(argv[6]) : 0;
  int sinceToggle = 0, togglePrio = 8;
  vf::Rng rng(vf::seedFromEnv());
  vector<Input> ins;
  string pert;
  for (char k : cfg.alpha) if (k != 'n' && k != 't' && k != 'v' && k != 'E') pert += k;
  for (int s = 0; s < steps; s++) {
    if (!pert.empty() && rng.below(1000) < (unsigned)pertPerMille) {
      char k = pert[rng.below((unsigned)pert.size())];
      int m = (k == 'x' || k == 'R') ? 0 : 1 + (int)rng.below((unsigned)cfg.n);
      ins.push_back({k, m, (k == 's' || k == 'p') ? 1 + (int)rng.below(9) : 0});
    } else if (cfg.alpha.find('t') != string::npos && rng.below(10) == 0) ins.push_back({'t', 0, 1});
    else {
      ins.push_back({'n', 0, 0});
      if (togglePeriod > 0 && ++sinceToggle >= togglePeriod) { sinceToggle = 0; togglePrio = 17 - togglePrio; ins.push_back({'s', cfg.n, togglePrio}); }
    }
  }
  chain(argv[3], cfg, ins);
  return 0;
}

int main(int argc, char** argv) {
  vf::installTerminate();
  setFacilitiesLogLevel(0xffff, ll_none);
  g_withState = !getenv("C17_NOSTATE");
  if (argc >= 4 && !strcmp(argv[1], "graph")) return cmdGraph(argv);
  if (argc >= 5 && !strcmp(argv[1], "replay")) return cmdReplay(argv);
  if (argc >= 5 && !strcmp(argv[1], "random")) return cmdRandom(argv);
  fprintf(stderr, "usage: %s graph|replay|random ...\n", argv[0]);
  return 2;
}
