// Client-connection layer of the daemon (src/ebusd/network.cpp, request.cpp, the request loop of mainloop.cpp, tcpsocket,
// notify): recorded concurrent histories for the trace validation of spec/NetHandoff.tla.
//   net_handoff run <out.ndjson> <nhist> [families]    seeded histories (VERIF_SEED), one ndjson line per history
//   net_handoff probe <script...>                      manual session for looking at the real behaviour (stderr)
// The real Network (accept loop + one Connection thread per client) and the real MainLoop run in-process on the scaffolding of
// c16_daemon.h (fake transport with a scripted slave, stepped protocol handler, virtual time()); clients are real TCP sockets
// on 127.0.0.1 (ephemeral port).  Every event gets a number from one global atomic counter:
//   inv   - logged BEFORE the bytes that complete a request line are sent
//   resp  - logged AFTER a complete response block (terminated by an empty line) has been received and parsed
//   exec  - logged by the fake transport IN THE MAINLOOP THREAD when a command puts a telegram on the bus (the telegram names
//           the message): an observable linearization point of `read` commands
//   push / eof / close / tick / blank / partial / hang / connfail - see below
// so the recorded order is consistent with real time.  Nothing here contributes to a verdict except the logged events; the
// parsing of response blocks is purely syntactic.  Watchdogs are counted in polls without progress (generous) and turn a hang
// into an event; no verdict depends on wall-clock time.
#include "c16_daemon.h"
#include <pthread.h>
#include <poll.h>
#include <signal.h>
#include <sys/socket.h>
#include <netinet/in.h>
#include <netinet/tcp.h>
#include <arpa/inet.h>
#include <atomic>
#define private public
#include "ebusd/network.h"
#undef private

// ---------------------------------------------------------------------------------------------------------------------
// world: 3 own circuits c1..c3 with messages m1,m2 (tags 1..6) and a shared circuit cs with m1,m2 (tags 7,8).
// The slave answers "<count>;<tag>" (count = number of earlier bus reads of that message), so a value names its message.
static const int NTAG = 8;
static int circuitOfTag(int tag) { return tag <= 6 ? (tag + 1) / 2 : 4; }
static int msgOfTag(int tag) { return tag <= 6 ? 2 - (tag % 2) : tag - 6; }
static const char* circuitName(int c) { return c == 1 ? "c1" : c == 2 ? "c2" : c == 3 ? "c3" : "cs"; }
static int tagOf(const string& circuit, const string& name) {
  int c = circuit == "c1" ? 1 : circuit == "c2" ? 2 : circuit == "c3" ? 3 : circuit == "cs" ? 4 : 0;
  int m = name == "m1" ? 1 : name == "m2" ? 2 : 0;
  if (!c || !m) return 0;
  return c <= 3 ? (c - 1) * 2 + m : 6 + m;
}

static string worldJson() {
  string csv, msgs;
  for (int tag = 1; tag <= NTAG; tag++) {
    char b[160];
    snprintf(b, sizeof b, "r,%s,m%d,,,08,b509,0d%02x,v,s,UCH,,,,t,s,UCH\n", circuitName(circuitOfTag(tag)), msgOfTag(tag), tag);
    csv += b;
    snprintf(b, sizeof b, "%s{\"k\":\"r\",\"c\":\"%s\",\"n\":\"m%d\",\"lv\":[],\"id\":[181,9,13,%d],\"ans\":[0,%d]}", tag > 1 ? "," : "",
             circuitName(circuitOfTag(tag)), msgOfTag(tag), tag, tag);
    msgs += b;
  }
  return "{\"dsrc\":\"\",\"d\":[],\"users\":[],\"args\":[],\"dyn\":1,\"msgs\":[" + msgs + "],\"csv\":" + vf::jbytes(csv) + "}";
}

// ---------------------------------------------------------------------------------------------------------------------
// event log
struct Ev { long seq; int conn; const char* type; string x; long y; string z; };
static const int MAXT = 8;              // log 0 = MainLoop thread (fake transport), 1..K clients, MAXT-1 = driver
static std::atomic<long> g_seq;
static vector<Ev> g_log[MAXT];
static void logEv(int logId, int conn, const char* type, const string& x = "", long y = 0, const string& z = "[]") {
  g_log[logId].push_back(Ev{g_seq.fetch_add(1), conn, type, x, y, z});
}

// stall of the MainLoop thread inside a bus read (forces "client went away while its request is being executed")
static std::atomic<int> g_stallTag, g_stallRelease;
static void onTelegram(const vector<uint8_t>& t) {
  int tag = t.size() >= 7 && t[2] == 0xb5 && t[3] == 0x09 && t[5] == 0x0d ? t[6] : 0;
  logEv(0, 0, "exec", "", tag);
  if (tag && g_stallTag == tag) {
    for (long i = 0; i < 200000 && !g_stallRelease; i++) sched_yield();   // bounded: only shapes the interleaving
    g_stallTag = 0;
  }
}

// ---------------------------------------------------------------------------------------------------------------------
struct Daemon {
  World* W = nullptr; Network* net = nullptr; uint16_t port = 0, httpPort = 0;
};
static uint16_t portOfFd(int fd) {
  struct sockaddr_in a; socklen_t l = sizeof a; memset(&a, 0, sizeof a);
  if (getsockname(fd, (struct sockaddr*)&a, &l) != 0) return 0;
  return ntohs(a.sin_port);
}
static uint16_t freePort() {
  int fd = socket(AF_INET, SOCK_STREAM, 0); struct sockaddr_in a; memset(&a, 0, sizeof a);
  a.sin_family = AF_INET; a.sin_addr.s_addr = htonl(INADDR_LOOPBACK); a.sin_port = 0;
  if (bind(fd, (struct sockaddr*)&a, sizeof a) != 0) { close(fd); return 0; }
  uint16_t p = portOfFd(fd); close(fd); return p;
}
static Daemon* startDaemon(const string& dir, bool withHttp) {
  Daemon* D = new Daemon();
  JP p{nullptr}; string wj = worldJson(); p.p = wj.c_str();
  JV w = p.val();
  D->W = makeWorld(w, dir);
  D->W->tr->m_onTelegram = onTelegram;
  for (int attempt = 0; attempt < 20; attempt++) {
    uint16_t hp = withHttp ? freePort() : 0;
    D->net = new Network(true, 0, hp, D->W->queue);
    bool ok = D->net->m_listening && (!withHttp || (D->net->m_httpServer && portOfFd(D->net->m_httpServer->getFD()) == hp));
    if (ok) { D->port = portOfFd(D->net->m_tcpServer->getFD()); D->httpPort = hp; break; }
    delete D->net; D->net = nullptr;
  }
  if (!D->net || !D->port) { fprintf(stderr, "HARNESS: cannot bind loopback ports\n"); exit(2); }
  D->net->start("network");
  return D;
}
// same order as main.cpp: the main loop ends first, then cleanup() deletes the network, the main loop, the queue
static void stopDaemon(Daemon* D) {
  D->W->loop->shutdown();
  D->W->loop->join();
  delete D->net;
  delete D->W;
  delete D;
}

static int connectTo(uint16_t port) {
  for (int attempt = 0; attempt < 50; attempt++) {
    int fd = socket(AF_INET, SOCK_STREAM, 0);
    struct sockaddr_in a; memset(&a, 0, sizeof a);
    a.sin_family = AF_INET; a.sin_addr.s_addr = htonl(INADDR_LOOPBACK); a.sin_port = htons(port);
    if (connect(fd, (struct sockaddr*)&a, sizeof a) == 0) { int one = 1; setsockopt(fd, IPPROTO_TCP, TCP_NODELAY, &one, sizeof one); return fd; }
    close(fd);
    usleep(2000);
  }
  return -1;
}
// let the accept loop run (it cleans up ended connections - and thereby closes their sockets - only after >10 wake-ups or
// an idle second): a connection that is opened and closed again
static void kick(uint16_t port) { int fd = connectTo(port); if (fd >= 0) close(fd); }

// ---------------------------------------------------------------------------------------------------------------------
// client side stream parser (syntactic only)
struct Parser {
  int logId, conn; bool http;
  string buf; vector<string> block; bool listening = false; int blocks = 0; long bytes = 0; bool sawEof = false;
  static bool isNum(const string& s) { if (s.empty() || s.size() > 9) return false; for (char c : s) if (c < '0' || c > '9') return false; return true; }
  // "<circuit> <name> = <count>;<tag>" or "... = no data stored"
  static bool updLine(const string& l, int* tag, long* val) {
    size_t p1 = l.find(' '); if (p1 == string::npos) return false;
    size_t p2 = l.find(" = ", p1 + 1); if (p2 == string::npos) return false;
    string c = l.substr(0, p1), n = l.substr(p1 + 1, p2 - p1 - 1), v = l.substr(p2 + 3);
    *tag = tagOf(c, n); if (!*tag) return false;
    if (v == "no data stored") { *val = -1; return true; }
    size_t s = v.find(';'); if (s == string::npos) return false;
    string a = v.substr(0, s), b = v.substr(s + 1);
    if (!isNum(a) || !isNum(b) || atoi(b.c_str()) != *tag) return false;
    *val = atol(a.c_str()); return true;
  }
  void emitBlock() {
    blocks++;
    string cls = "other"; long y = 0; string z = "[]";
    const string& l0 = block[0];
    int tag; long val;
    size_t s = l0.find(';');
    if (block.size() == 1 && s != string::npos && isNum(l0.substr(0, s)) && isNum(l0.substr(s + 1))) {
      cls = "val"; y = atol(l0.substr(s + 1).c_str()); z = "[" + std::to_string(atol(l0.substr(0, s).c_str())) + "]";
    } else if (updLine(l0, &tag, &val)) {
      bool all = true; string zz = "["; int circ = circuitOfTag(tag);
      for (size_t i = 0; i < block.size(); i++) {
        if (!updLine(block[i], &tag, &val) || circuitOfTag(tag) != circ) { all = false; break; }
        zz += (i ? ",[" : "[") + std::to_string(tag) + "," + std::to_string(val) + "]";
      }
      if (all) { cls = "find"; y = circ; z = zz + "]"; }
    } else if (block.size() == 1 && l0 == "ERR: command not found") cls = "errnf";
    else if (l0.compare(0, 5, "ERR: ") == 0) cls = "err";
    else if (block.size() == 1 && l0 == "connection closed") cls = "closed";
    else if (block.size() == 1 && l0 == "listen started") { cls = "lstart"; listening = true; }
    else if (block.size() == 1 && l0 == "listen continued") { cls = "lcont"; listening = true; }
    else if (block.size() == 1 && l0 == "listen stopped") { cls = "lstop"; listening = false; }
    else if (l0.compare(0, 9, "version: ") == 0) cls = "info";
    else if (l0.compare(0, 6, "usage:") == 0) cls = "usage";
    if (cls == "other" || cls == "err") { string t; for (auto& l : block) { t += l; t += "\n"; } z = vf::jbytes(t.substr(0, 120)); }
    logEv(logId, conn, "resp", cls, y, z);
    block.clear();
  }
  void feed(const char* d, size_t n) {
    bytes += static_cast<long>(n); buf.append(d, n);
    if (http) return;
    size_t pos;
    while ((pos = buf.find('\n')) != string::npos) {
      string line = buf.substr(0, pos); buf.erase(0, pos + 1);
      if (line.empty()) { if (block.empty()) logEv(logId, conn, "blank"); else emitBlock(); continue; }
      int tag; long val;
      if (listening && block.empty() && line.find(" = ") != string::npos) {  // update line; tag 0: not a message of the test world
        if (!updLine(line, &tag, &val)) { tag = 0; val = 0; }
        logEv(logId, conn, "push", "", tag, "[" + std::to_string(val) + "]"); continue;
      }
      block.push_back(line);
    }
  }
  void eof() {
    sawEof = true;
    if (http) {  // one response: status line, headers, empty line, body
      if (!buf.empty()) {
        long status = 0; bool lenOk = true; int btag = 0;
        if (buf.compare(0, 7, "HTTP/1.") == 0 && buf.size() >= 12) status = atol(buf.substr(9, 3).c_str());
        size_t he = buf.find("\r\n\r\n");
        string body = he == string::npos ? "" : buf.substr(he + 4);
        size_t cl = buf.find("Content-Length: ");
        if (cl != string::npos && cl < he) lenOk = static_cast<size_t>(atol(buf.c_str() + cl + 16)) == body.size();
        // the body of /data/<circuit>/<name> names circuit and message
        for (int t = 1; t <= NTAG; t++) {
          string ck = string("\"") + circuitName(circuitOfTag(t)) + "\": {", mk = "\"m" + std::to_string(msgOfTag(t)) + "\": {";
          size_t a = body.find(ck); if (a != string::npos && body.find(mk, a) != string::npos) { btag = btag ? -1 : t; }
        }
        blocks++;
        logEv(logId, conn, "resp", he == string::npos ? "other" : "http", status, "[" + std::to_string(lenOk ? 1 : 0) + "," + std::to_string(btag) + "]");
      }
    } else if (!block.empty() || !buf.empty()) {
      string t; for (auto& l : block) { t += l; t += "\n"; } t += buf;
      logEv(logId, conn, "partial", "", 0, vf::jbytes(t.substr(0, 120)));
    }
    logEv(logId, conn, "eof");
  }
};

// ---------------------------------------------------------------------------------------------------------------------
// client programs
enum OpK { SEND, AWAIT, TICK, QUITEOF, CLOSE, STALL, RELEASE, PAUSE, WAITPUSH, SHUTWR };
struct Inv { string kind; int tag; };
struct Op { OpK k; vector<string> chunks; vector<Inv> invs; int arg; string text; };
struct ClientCtx {
  int id; Daemon* D; bool http; vector<Op> prog; Parser ps; int fd = -1; int sent = 0; bool hang = false; bool dead = false;
  int expectNoResp = 0;
};
static std::atomic<int> g_hangs;
static const int WATCHDOG_POLLS = 1500;   // x 10 ms without any progress

// wait until `wantBlocks` response blocks have been parsed / unsolicited bytes arrived / eof; kicks = open and close dummy
// connections while waiting for eof.  Gives up after `limit` polls (10 ms each) without any received byte.
static bool pump(ClientCtx* c, int wantBlocks, bool untilEof, bool kicks, long wantPushBytes = -1, int limit = WATCHDOG_POLLS) {
  char data[4096]; int idle = 0;
  while (true) {
    if (!untilEof && wantPushBytes < 0 && c->ps.blocks >= wantBlocks) return true;
    if (wantPushBytes >= 0 && c->ps.bytes > wantPushBytes) return true;
    if (c->ps.sawEof) return untilEof;
    struct pollfd p; p.fd = c->fd; p.events = POLLIN; p.revents = 0;
    int r = poll(&p, 1, 10);
    if (r > 0) {
      ssize_t n = recv(c->fd, data, sizeof data, 0);
      if (n > 0) { c->ps.feed(data, static_cast<size_t>(n)); idle = 0; continue; }
      c->ps.eof(); continue;
    }
    if (kicks && (idle % 2) == 0 && idle < 60) kick(c->D->port);
    if (++idle > limit) return false;
  }
}

static void* clientThread(void* a) {
  ClientCtx* c = static_cast<ClientCtx*>(a);
  c->fd = connectTo(c->http ? c->D->httpPort : c->D->port);
  if (c->fd < 0) { logEv(c->id, c->id, "connfail"); c->dead = true; return nullptr; }
  int expected = 0;  // response blocks expected so far (one per non-empty complete line)
  for (const Op& op : c->prog) {
    if (c->dead) break;
    switch (op.k) {
      case SEND: {
        for (size_t i = 0; i < op.chunks.size(); i++) {
          if (i + 1 == op.chunks.size()) for (const Inv& v : op.invs) { logEv(c->id, c->id, "inv", v.kind, v.tag); if (v.kind != "empty") expected++; }
          const string& ch = op.chunks[i];
          if (send(c->fd, ch.data(), ch.size(), MSG_NOSIGNAL) < 0) { logEv(c->id, c->id, "senderr"); }
          if (i + 1 < op.chunks.size()) { if (op.arg > 0) usleep(static_cast<useconds_t>(op.arg)); else sched_yield(); }
        }
        break;
      }
      case AWAIT:
        if (!pump(c, expected, false, false)) { logEv(c->id, c->id, "hang", "await"); c->hang = true; c->dead = true; g_hangs++; }
        break;
      case WAITPUSH:   // listen mode: wait for unsolicited data (the connection polls every 2 s)
        if (!pump(c, 0, false, false, c->ps.bytes)) { logEv(c->id, c->id, "hang", "push"); c->hang = true; c->dead = true; g_hangs++; }
        break;
      case TICK: g_now += op.arg; logEv(c->id, 0, "tick", "", op.arg); break;
      case PAUSE: usleep(static_cast<useconds_t>(op.arg)); break;
      case STALL: g_stallRelease = 0; g_stallTag = op.arg; break;
      case RELEASE: g_stallRelease = 1; break;
      case QUITEOF:
        // arg 1 (after input that the daemon is known to mangle): the quit itself may have been swallowed - say it again
        // after a quiet period instead of running into the watchdog (each repetition is a logged request of its own)
        for (int rep = 0; op.arg == 1 && rep < 6 && !c->ps.sawEof; rep++) {
          if (pump(c, 0, true, true, -1, 8 << rep)) break;
          logEv(c->id, c->id, "inv", "quit", 0);
          send(c->fd, "quit\n", 5, MSG_NOSIGNAL);
        }
        if (!pump(c, 0, true, true)) { logEv(c->id, c->id, "hang", "eof"); c->hang = true; c->dead = true; g_hangs++; }
        break;
      case SHUTWR:   // like `echo cmd | nc -N`: no more input, but the answers are still wanted
        logEv(c->id, c->id, "shut");
        shutdown(c->fd, SHUT_WR);
        break;
      case CLOSE:
        logEv(c->id, c->id, "close");
        if (op.arg == 1) { struct linger l; l.l_onoff = 1; l.l_linger = 0; setsockopt(c->fd, SOL_SOCKET, SO_LINGER, &l, sizeof l); }  // RST
        close(c->fd); c->fd = -1; c->dead = true;
        break;
    }
  }
  if (c->fd >= 0 && !c->hang) { close(c->fd); c->fd = -1; }
  return nullptr;
}

// ---------------------------------------------------------------------------------------------------------------------
static string reqLine(const string& kind, int tag, vf::Rng* rng) {
  char b[96];
  const char* cn = circuitName(circuitOfTag(tag ? tag : 1)); int mn = msgOfTag(tag ? tag : 1);
  if (kind == "fread") { snprintf(b, sizeof b, rng && rng->chance(1, 3) ? "r -f -c %s m%d" : "read -f -c %s m%d", cn, mn); return b; }
  if (kind == "cread") { snprintf(b, sizeof b, rng && rng->chance(1, 3) ? "r -c %s m%d" : "read -c %s m%d", cn, mn); return b; }
  if (kind == "find") { snprintf(b, sizeof b, "find -c %s", circuitName(tag)); return b; }   // tag = circuit here
  if (kind == "bogus") { snprintf(b, sizeof b, "bogus%d", tag); return b; }
  if (kind == "info") return "info";
  if (kind == "help") return rng && rng->chance(1, 2) ? "help" : "?";
  if (kind == "quit") return rng && rng->chance(1, 2) ? "quit" : "q";
  if (kind == "listen") return rng && rng->chance(1, 2) ? "listen" : "l";
  if (kind == "lstop") return "listen stop";
  if (kind == "empty") return "";
  return kind;
}
static vector<string> chunked(const string& s, int parts, vf::Rng* rng) {
  vector<string> r; size_t pos = 0;
  for (int i = 1; i < parts && s.size() - pos > 1; i++) { size_t n = 1 + rng->below(static_cast<unsigned>(s.size() - pos - 1)); r.push_back(s.substr(pos, n)); pos += n; }
  r.push_back(s.substr(pos));
  return r;
}
static Op sendReq(const string& kind, int tag, vf::Rng* rng, int parts = 1, bool crlf = false) {
  Op o; o.k = SEND; o.arg = rng->chance(1, 4) ? static_cast<int>(rng->below(300)) : 0;
  string line = reqLine(kind, tag, rng) + (crlf ? "\r\n" : "\n");
  o.chunks = chunked(line, parts, rng); o.invs.push_back(Inv{kind, tag});
  o.text = "send " + vf::jstr(line) + (parts > 1 ? " in " + std::to_string(o.chunks.size()) + " chunks" : "");
  return o;
}
static Op simple(OpK k, int arg = 0, const string& text = "") { Op o; o.k = k; o.arg = arg; o.text = text; return o; }

struct History { string family; vector<string> feat; vector<ClientCtx> clients; };

// a random ordinary request of connection k (own circuit or the shared one)
static void randomReq(int k, vf::Rng* rng, string* kind, int* tag) {
  unsigned r = rng->below(100);
  int own = (k - 1) * 2 + 1 + static_cast<int>(rng->below(2)), shared = 7 + static_cast<int>(rng->below(2));
  bool sh = rng->chance(2, 5);
  if (r < 28) { *kind = "fread"; *tag = sh ? shared : own; }
  else if (r < 56) { *kind = "cread"; *tag = sh ? shared : own; }
  else if (r < 74) { *kind = "find"; *tag = sh ? 4 : k; }
  else if (r < 88) { *kind = "bogus"; *tag = k * 10 + static_cast<int>(rng->below(10)); }
  else if (r < 92) { *kind = "info"; *tag = 0; }
  else if (r < 95) { *kind = "help"; *tag = 0; }
  else { *kind = "bogus"; *tag = k * 10 + static_cast<int>(rng->below(10)); }
}

static void endProgram(ClientCtx* c, vf::Rng* rng, bool forceQuit, bool risky = false) {
  if (forceQuit || rng->chance(2, 3)) { c->prog.push_back(sendReq("quit", 0, rng)); c->prog.push_back(simple(QUITEOF, risky ? 1 : 0, risky ? "read until eof (repeat quit after silence)" : "read until eof")); }
  else { c->prog.push_back(simple(AWAIT, 0, "await")); c->prog.push_back(simple(CLOSE, 0, "close")); }
}

static History genHistory(const string& fam, vf::Rng* rng) {
  History h; h.family = fam;
  int K = 2 + static_cast<int>(rng->below(2));
  if (fam == "http") K = 2;
  h.clients.resize(static_cast<size_t>(K));
  for (int k = 1; k <= K; k++) {
    ClientCtx& c = h.clients[static_cast<size_t>(k - 1)];
    c.id = k; c.http = fam == "http"; c.ps.logId = k; c.ps.conn = k; c.ps.http = c.http;
    string kind; int tag;
    if (fam == "plain") {
      int n = 3 + static_cast<int>(rng->below(4));
      for (int i = 0; i < n; i++) {
        randomReq(k, rng, &kind, &tag);
        c.prog.push_back(sendReq(kind, tag, rng, 1 + static_cast<int>(rng->below(3)), rng->chance(1, 5)));
        c.prog.push_back(simple(AWAIT, 0, "await"));
      }
      endProgram(&c, rng, false);
    } else if (fam == "halfclose") {  // the pattern of contrib/scripts: write the command, close the sending side, read to the end
      int n = static_cast<int>(rng->below(3));
      for (int i = 0; i < n; i++) { randomReq(k, rng, &kind, &tag); c.prog.push_back(sendReq(kind, tag, rng, 1 + static_cast<int>(rng->below(2)))); c.prog.push_back(simple(AWAIT, 0, "await")); }
      randomReq(k, rng, &kind, &tag);
      c.prog.push_back(sendReq(kind, tag, rng, 1 + static_cast<int>(rng->below(2))));
      if (rng->chance(1, 3)) c.prog.push_back(simple(PAUSE, static_cast<int>(rng->below(2000))));
      c.prog.push_back(simple(SHUTWR, 0, "shutdown(SHUT_WR)"));
      c.prog.push_back(simple(QUITEOF, 0, "read until eof"));
    } else if (fam == "pipe") {  // several lines sent without waiting for the responses (separate writes; TCP may merge them)
      int n = 2 + static_cast<int>(rng->below(2));
      for (int i = 0; i < n; i++) { randomReq(k, rng, &kind, &tag); if (kind == "empty") kind = "bogus"; c.prog.push_back(sendReq(kind, tag ? tag : k, rng)); }
      endProgram(&c, rng, true, true);
    } else if (fam == "multi") {  // two lines in ONE write, or a line plus the beginning of the next
      randomReq(k, rng, &kind, &tag);
      c.prog.push_back(sendReq(kind, tag, rng)); c.prog.push_back(simple(AWAIT, 0, "await"));
      if (k == 1) {
        string k1, k2; int t1, t2; randomReq(k, rng, &k1, &t1); randomReq(k, rng, &k2, &t2);
        if (k1 == "empty") k1 = "bogus"; if (k2 == "empty") k2 = "bogus";
        if (!t1) t1 = k; if (!t2) t2 = k;
        string l1 = reqLine(k1, t1, rng) + "\n", l2 = reqLine(k2, t2, rng) + "\n";
        Op o; o.k = SEND; o.arg = 0;
        if (rng->chance(1, 2)) { o.chunks.push_back(l1 + l2); o.text = "send " + vf::jstr(l1 + l2) + " in one write"; }
        else { size_t cut = 1 + rng->below(static_cast<unsigned>(l2.size() - 1)); o.chunks.push_back(l1 + l2.substr(0, cut)); o.chunks.push_back(l2.substr(cut));
               o.text = "send " + vf::jstr(l1 + l2.substr(0, cut)) + " then " + vf::jstr(l2.substr(cut)); }
        // the first line is complete with the first write, the second with the last
        o.invs.push_back(Inv{k1, t1}); o.invs.push_back(Inv{k2, t2});
        c.prog.push_back(o);
        endProgram(&c, rng, true, true);
      } else {
        randomReq(k, rng, &kind, &tag); c.prog.push_back(sendReq(kind, tag, rng)); c.prog.push_back(simple(AWAIT, 0, "await"));
        endProgram(&c, rng, false);
      }
    } else if (fam == "empty") {  // an empty line (nothing is awaited for it), the next line follows at once or after a pause
      randomReq(k, rng, &kind, &tag);
      c.prog.push_back(sendReq(kind, tag, rng)); c.prog.push_back(simple(AWAIT, 0, "await"));
      if (k == 1) {
        bool pause = rng->chance(1, 2);
        c.prog.push_back(sendReq("empty", 0, rng, 1, rng->chance(1, 3)));
        if (pause) c.prog.push_back(simple(PAUSE, 20000, "pause 20 ms"));
        randomReq(k, rng, &kind, &tag); c.prog.push_back(sendReq(kind, tag, rng));
        endProgram(&c, rng, true, true);
      } else endProgram(&c, rng, false);
    } else if (fam == "junk" || fam == "nul") {
      randomReq(k, rng, &kind, &tag);
      c.prog.push_back(sendReq(kind, tag, rng)); c.prog.push_back(simple(AWAIT, 0, "await"));
      if (k == 1) {
        Op o; o.k = SEND; o.arg = 0; string g;
        unsigned v = fam == "nul" ? 9 : rng->below(4);
        if (v == 0) { for (int i = 0; i < 40; i++) g.push_back(static_cast<char>(0x80 + rng->below(128))); o.text = "send 40 bytes >= 0x80 + newline"; }
        else if (v == 1) { int n = 300 + static_cast<int>(rng->below(1500)); for (int i = 0; i < n; i++) g.push_back(static_cast<char>('a' + rng->below(26))); o.text = "send a line of " + std::to_string(n) + " letters"; }
        else if (v == 2) { for (int i = 0; i < 30; i++) { char ch = static_cast<char>(1 + rng->below(31)); if (ch == '\n' || ch == '\r') ch = '\t'; g.push_back(ch); } o.text = "send 30 control characters + newline"; }
        else if (v == 3) { g = "read -c \"c1 m1"; o.text = "send a line with an unbalanced quote"; }
        else { g = string("bog") + '\0' + "us"; o.text = "send \"bog\\0us\\n\" (NUL inside the line)"; }
        g += "\n";
        o.chunks = chunked(g, g.size() > 256 ? 3 : 1, rng); o.invs.push_back(Inv{"junk", 0});
        c.prog.push_back(o);
        // (NUL: no await, the line is known to stay unanswered; the following request shows what became of it)
        if (fam == "junk") c.prog.push_back(simple(AWAIT, 0, "await"));
        randomReq(k, rng, &kind, &tag); if (kind == "empty") kind = "bogus";
        c.prog.push_back(sendReq(kind, tag ? tag : k, rng));
        if (fam == "junk") c.prog.push_back(simple(AWAIT, 0, "await"));
        endProgram(&c, rng, true, true);
      } else {
        randomReq(k, rng, &kind, &tag); c.prog.push_back(sendReq(kind, tag, rng)); c.prog.push_back(simple(AWAIT, 0, "await"));
        endProgram(&c, rng, false);
      }
    } else if (fam == "abandon") {  // the client goes away while its request is outstanding / half sent
      if (k == 1) {
        randomReq(k, rng, &kind, &tag);
        c.prog.push_back(sendReq(kind, tag, rng)); c.prog.push_back(simple(AWAIT, 0, "await"));
        unsigned v = rng->below(4);
        int own = 1 + static_cast<int>(rng->below(2));
        if (v == 0) {  // forced read, MainLoop held inside the bus access until the socket is closed
          c.prog.push_back(simple(STALL, own, "hold the main loop inside the bus read of tag " + std::to_string(own)));
          c.prog.push_back(sendReq("fread", own, rng));
          c.prog.push_back(simple(PAUSE, 300));
          c.prog.push_back(simple(CLOSE, static_cast<int>(rng->below(2)), "close while the request is being executed"));
          c.prog.push_back(simple(RELEASE));
        } else if (v == 1) {
          c.prog.push_back(sendReq(rng->chance(1, 2) ? "fread" : "find", rng->chance(1, 2) ? own : 1, rng));
          c.prog.push_back(simple(CLOSE, static_cast<int>(rng->below(2)), "close without reading the response"));
        } else if (v == 2) {  // half a line, then close: must never be executed
          Op o; o.k = SEND; o.arg = 0; string l = reqLine("fread", own, rng); o.chunks.push_back(l.substr(0, l.size() - 1 - rng->below(3)));
          o.text = "send " + vf::jstr(o.chunks[0]) + " (no newline)"; c.prog.push_back(o);
          c.prog.push_back(simple(PAUSE, 200));
          c.prog.push_back(simple(CLOSE, static_cast<int>(rng->below(2)), "close"));
        } else {
          c.prog.push_back(sendReq("fread", own, rng)); c.prog.push_back(sendReq("quit", 0, rng));
          c.prog.push_back(simple(CLOSE, 0, "close without reading"));
        }
      } else {
        int n = 2 + static_cast<int>(rng->below(3));
        for (int i = 0; i < n; i++) { randomReq(k, rng, &kind, &tag); c.prog.push_back(sendReq(kind, tag, rng)); c.prog.push_back(simple(AWAIT, 0, "await")); }
        endProgram(&c, rng, false);
      }
    } else if (fam == "listen" || fam == "listenwait") {
      // connection 1 listens; connection 2 changes values and advances the (virtual) time; see P for what is demanded
      if (k == 1) {
        c.prog.push_back(sendReq("listen", 0, rng)); c.prog.push_back(simple(AWAIT, 0, "await"));
        c.prog.push_back(simple(PAUSE, 2000 + static_cast<int>(rng->below(3000))));
        bool wait = fam == "listenwait";
        if (wait) {  // a change of its own followed by a clock step: the 2 s poll of the connection must announce it unasked
          c.prog.push_back(sendReq("fread", 1 + static_cast<int>(rng->below(2)), rng)); c.prog.push_back(simple(AWAIT, 0, "await"));
          c.prog.push_back(simple(TICK, 1, "advance time by 1 s"));
          c.prog.push_back(simple(WAITPUSH, 0, "wait for an unsolicited update line (the connection polls every 2 s)"));
        }
        int n = 1 + static_cast<int>(rng->below(3));
        for (int i = 0; i < n; i++) {
          unsigned r = rng->below(4);
          if (r == 0) c.prog.push_back(sendReq("bogus", 10 + i, rng)); else if (r == 1) c.prog.push_back(sendReq("cread", 1 + static_cast<int>(rng->below(2)), rng));
          else if (r == 2) c.prog.push_back(sendReq("listen", 0, rng)); else c.prog.push_back(sendReq("fread", 7, rng));
          c.prog.push_back(simple(AWAIT, 0, "await"));
        }
        if (rng->chance(2, 3)) {
          c.prog.push_back(sendReq("lstop", 0, rng)); c.prog.push_back(simple(AWAIT, 0, "await"));
          c.prog.push_back(sendReq("cread", 7, rng)); c.prog.push_back(simple(AWAIT, 0, "await"));
          endProgram(&c, rng, false);
        } else if (rng->chance(1, 2)) endProgram(&c, rng, true);
        else c.prog.push_back(simple(CLOSE, 0, "close while listening"));
      } else {
        int n = 2 + static_cast<int>(rng->below(3));
        for (int i = 0; i < n; i++) {
          c.prog.push_back(sendReq("fread", rng->chance(1, 2) ? 7 : (k - 1) * 2 + 1, rng)); c.prog.push_back(simple(AWAIT, 0, "await"));
          c.prog.push_back(simple(TICK, 1, "advance time by 1 s"));
        }
        endProgram(&c, rng, false);
      }
    } else if (fam == "http") {
      unsigned v = rng->below(6); string r; string kind2 = "hget"; int t = (k - 1) * 2 + 1 + static_cast<int>(rng->below(2));
      char b[128];
      if (v <= 2) { snprintf(b, sizeof b, "GET /data/%s/m%d HTTP/1.1\r\nHost: x\r\n\r\n", circuitName(circuitOfTag(t)), msgOfTag(t)); r = b; }
      else if (v == 3) { snprintf(b, sizeof b, "GET /data/%s/m%d?maxage=0 HTTP/1.0\n\n", circuitName(circuitOfTag(t)), msgOfTag(t)); r = b; kind2 = "hgetf"; }
      else if (v == 4) { r = "POST /data HTTP/1.1\r\n\r\n"; kind2 = "hbad"; t = 0; }
      else { r = "GET\r\n\r\n"; kind2 = "hbad"; t = 0; }
      Op o; o.k = SEND; o.arg = rng->chance(1, 3) ? static_cast<int>(rng->below(300)) : 0;
      o.chunks = chunked(r, 1 + static_cast<int>(rng->below(3)), rng); o.invs.push_back(Inv{kind2, t});
      o.text = "send " + vf::jstr(r) + " in " + std::to_string(o.chunks.size()) + " chunks";
      c.prog.push_back(o);
      c.prog.push_back(simple(QUITEOF, 0, "read until eof"));
    }
  }
  return h;
}

// ---------------------------------------------------------------------------------------------------------------------
static string initState(Daemon* D) {
  // projection of the shared state the sequential specification starts from: per message the number of bus reads so far
  // (next answer of the scripted slave) and the stored value (-1: none)
  string cnt = "[", val = "[";
  for (int tag = 1; tag <= NTAG; tag++) {
    const Slot& s = D->W->slots[static_cast<size_t>(tag - 1)];
    auto it = D->W->tr->m_count.find(s.id);
    long n = it == D->W->tr->m_count.end() ? 0 : it->second;
    long v = -1;
    if (s.msg->getLastUpdateTime() > 0) {
      std::ostringstream o; s.msg->decodeLastData(pt_any, false, nullptr, -1, OF_NONE, &o);
      v = atol(o.str().c_str());
    }
    cnt += (tag > 1 ? "," : "") + std::to_string(n); val += (tag > 1 ? "," : "") + std::to_string(v);
  }
  return "\"cnt\":" + cnt + "],\"val\":" + val + "]";
}

static bool runHistory(Daemon* D, History* h, int hno, FILE* f, long* totalEv) {
  g_seq = 0; g_stallTag = 0; g_stallRelease = 0;
  for (int t = 0; t < MAXT; t++) g_log[t].clear();
  string init = initState(D);
  size_t K = h->clients.size();
  vector<pthread_t> th(K);
  for (size_t k = 0; k < K; k++) { h->clients[k].D = D; pthread_create(&th[k], nullptr, clientThread, &h->clients[k]); }
  for (size_t k = 0; k < K; k++) pthread_join(th[k], nullptr);
  g_stallRelease = 1;
  // quiesce: every request that was sent completely is executed before the next history starts (a request of an abandoned
  // connection may still be on its way): a sentinel connection whose request is answered after all of them is not enough
  // (other connections' requests are independent), so wait until the accept loop has no running connection left
  bool hang = false;
  for (auto& c : h->clients) if (c.hang) hang = true;
  if (!hang) {
    for (int i = 0; i < 3000; i++) {
      bool running = false;
      // (reading the list from here is a benign race of the harness: entries are only appended/erased by the accept thread)
      kick(D->port);
      usleep(300);
      for (Connection* cn : D->net->m_connections) if (cn->isRunning()) running = true;
      if (!running) break;
    }
  }
  vector<Ev> all; for (int t = 0; t < MAXT; t++) all.insert(all.end(), g_log[t].begin(), g_log[t].end());
  std::sort(all.begin(), all.end(), [](const Ev& a, const Ev& b) { return a.seq < b.seq; });
  *totalEv += static_cast<long>(all.size());
  string line = "{\"h\":" + std::to_string(hno) + ",\"fam\":\"" + h->family + "\",\"nc\":" + std::to_string(K) + ",\"hang\":" + (hang ? "1" : "0") + "," + init + ",\"ev\":[";
  for (size_t i = 0; i < all.size(); i++) {
    line += i ? ",[" : "[";
    line += std::to_string(all[i].conn) + ",\"" + all[i].type + "\"," + vf::jstr(all[i].x) + "," + std::to_string(all[i].y) + "," + all[i].z + "]";
  }
  line += "],\"prog\":[";
  for (size_t k = 0; k < K; k++) {
    line += k ? ",[" : "[";
    bool first = true;
    for (auto& o : h->clients[k].prog) { if (o.text.empty()) continue; line += (first ? "" : ",") + vf::jstr(o.text); first = false; }
    line += "]";
  }
  line += "]}\n";
  fputs(line.c_str(), f); fflush(f);
  return !hang;
}

// ---------------------------------------------------------------------------------------------------------------------
// shutdown while clients are active (the order of main.cpp: MainLoop::shutdown + join, then delete Network): does the
// destructor of Network come back?  TLC finds a hang in the model (MC_NetHandoff_obs_down.cfg): a connection that pushes its
// request after the destructor drained the queue waits for ever in waitResponse, and the destructor waits for ever in join.
static std::atomic<int> g_downStop;
struct DownClient { uint16_t port; unsigned seed; long requests; };
static void* downClient(void* a) {
  DownClient* dc = static_cast<DownClient*>(a);
  vf::Rng rng(dc->seed);
  int fd = connectTo(dc->port);
  if (fd < 0) return nullptr;
  char data[512];
  while (!g_downStop) {
    if (send(fd, "bogus\n", 6, MSG_NOSIGNAL) < 0) break;
    dc->requests++;
    string buf; bool eof = false;
    for (int i = 0; i < 400 && !g_downStop; i++) {   // (a stuck connection never answers: leave when the round is over)
      struct pollfd p; p.fd = fd; p.events = POLLIN; p.revents = 0;
      if (poll(&p, 1, 10) <= 0) continue;
      ssize_t n = recv(fd, data, sizeof data, 0);
      if (n <= 0) { eof = true; break; }
      buf.append(data, static_cast<size_t>(n));
      if (buf.size() >= 2 && buf.compare(buf.size() - 2, 2, "\n\n") == 0) break;
    }
    if (eof) break;
    usleep(static_cast<useconds_t>(rng.below(300000)));   // think time: the connection is idle when the queue is drained
  }
  close(fd);
  return nullptr;
}
static void* downStopper(void* a) { stopDaemon(static_cast<Daemon*>(a)); return nullptr; }
static int downRace(const string& dir, int rounds) {
  const int K = 24;
  vf::Rng rng(vf::seedFromEnv());
  long total = 0;
  for (int r = 1; r <= rounds; r++) {
    Daemon* D = startDaemon(dir, false);
    g_downStop = 0;
    DownClient dc[K]; pthread_t th[K];
    for (int k = 0; k < K; k++) { dc[k] = DownClient{D->port, static_cast<unsigned>(rng.next()), 0}; pthread_create(&th[k], nullptr, downClient, &dc[k]); }
    usleep(static_cast<useconds_t>(30000 + rng.below(40000)));
    pthread_t st; pthread_create(&st, nullptr, downStopper, D);
    struct timespec ts; clock_gettime(CLOCK_REALTIME, &ts); ts.tv_sec += 20;   // generous: the destructor needs ~0.1 s
    int rc = pthread_timedjoin_np(st, nullptr, &ts);
    g_downStop = 1;
    for (int k = 0; k < K; k++) total += dc[k].requests;
    if (rc != 0) {
      printf("{\"rounds\":%d,\"requests\":%ld,\"shutdown_hang\":1}\n", r, total);
      fflush(nullptr);
      if (getenv("VF_HANG_PAUSE")) { fprintf(stderr, "HANG pid %d\n", getpid()); sleep(static_cast<unsigned>(atoi(getenv("VF_HANG_PAUSE")))); }
      _exit(0);
    }
    for (int k = 0; k < K; k++) pthread_join(th[k], nullptr);
  }
  printf("{\"rounds\":%d,\"requests\":%ld,\"shutdown_hang\":0}\n", rounds, total);
  return 0;
}

int main(int argc, char** argv) {
  vf::installTerminate();
  signal(SIGPIPE, SIG_IGN);
  setFacilitiesLogLevel(0xffff, getenv("C16_LOG") ? ll_debug : ll_none);
  if (argc < 3) { fprintf(stderr, "usage: net_handoff run out.ndjson nhist [families] | probe ...\n"); return 2; }
  string mode = argv[1];
  string dir = "/tmp";
  if (const char* d = getenv("VF_WORKDIR")) dir = d;
  if (mode == "probe") {
    Daemon* D = startDaemon(dir, true);
    fprintf(stderr, "ports %d %d\n", D->port, D->httpPort);
    int fd = connectTo(argc > 3 && string(argv[2]) == "http" ? D->httpPort : D->port);
    for (int i = 3; i < argc; i++) {
      string s = argv[i];
      if (s == "TICK") { g_now += 1; continue; }
      if (s == "WAIT") { usleep(2500000); }
      else {
        string t; for (size_t k = 0; k < s.size(); k++) { if (s[k] == '\\' && k + 1 < s.size()) { k++; t.push_back(s[k] == 'n' ? '\n' : s[k] == 'r' ? '\r' : s[k] == '0' ? '\0' : s[k]); } else t.push_back(s[k]); }
        send(fd, t.data(), t.size(), MSG_NOSIGNAL);
        fprintf(stderr, ">>> %s\n", s.c_str());
      }
      usleep(300000);
      char data[8192]; struct pollfd p; p.fd = fd; p.events = POLLIN;
      while (poll(&p, 1, 200) > 0) { ssize_t n = recv(fd, data, sizeof data - 1, 0); if (n <= 0) { fprintf(stderr, "<<< EOF\n"); break; } data[n] = 0; fprintf(stderr, "<<< [%s]\n", vf::jstr(string(data, static_cast<size_t>(n))).c_str()); }
    }
    close(fd);
    stopDaemon(D);
    return 0;
  }
  if (mode == "downrace") return downRace(dir, atoi(argv[2]));
  if (mode != "run" || argc < 4) return 2;
  int nh = atoi(argv[3]);
  vector<string> fams;   // "fam*count,fam*count,..." (shuffled) or "fam,fam,..." (round robin up to nhist)
  {
    string fs = argc > 4 ? argv[4] : "plain,plain,plain,pipe,multi,empty,junk,nul,abandon,listen,http";
    vector<string> items; size_t p; while ((p = fs.find(',')) != string::npos) { items.push_back(fs.substr(0, p)); fs.erase(0, p + 1); } items.push_back(fs);
    bool counted = false;
    for (auto& it : items) { size_t st = it.find('*'); if (st != string::npos) { counted = true; int n = atoi(it.c_str() + st + 1); for (int i = 0; i < n; i++) fams.push_back(it.substr(0, st)); } else fams.push_back(it); }
    if (counted) { vf::Rng sh(vf::seedFromEnv() + 77); for (size_t i = fams.size(); i > 1; i--) std::swap(fams[i - 1], fams[sh.below(static_cast<unsigned>(i))]); }
    else { vector<string> rr; for (int i = 0; i < nh; i++) rr.push_back(fams[static_cast<size_t>(i) % fams.size()]); fams = rr; }
    nh = static_cast<int>(fams.size());
  }
  vf::Rng rng(vf::seedFromEnv());
  FILE* f = fopen(argv[2], "w");
  if (!f) { perror(argv[2]); return 2; }
  Daemon* D = startDaemon(dir, true);
  long totalEv = 0; int done = 0, restarts = 0;
  for (int h = 1; h <= nh; h++) {
    // the scripted slave counts in one byte: start a fresh daemon before a counter gets near the end of its range
    // (this also runs the shutdown path of Network / MainLoop with all connections ended)
    bool fresh = false;
    for (auto& kv : D->W->tr->m_count) if (kv.second > 180) fresh = true;
    if (fresh) { stopDaemon(D); g_now = 1700000000; D = startDaemon(dir, true); restarts++; }
    History hist = genHistory(fams[static_cast<size_t>(h - 1)], &rng);
    struct timespec t0, t1; clock_gettime(CLOCK_MONOTONIC, &t0);
    bool ok = runHistory(D, &hist, h, f, &totalEv);
    clock_gettime(CLOCK_MONOTONIC, &t1);
    if (getenv("VF_TIMING")) fprintf(stderr, "h%d %s %.3fs\n", h, hist.family.c_str(), (t1.tv_sec - t0.tv_sec) + (t1.tv_nsec - t0.tv_nsec) / 1e9);
    done++;
    if (!ok) {  // a client never got its answer: threads of the daemon may be stuck for ever - stop here
      fclose(f);
      printf("{\"histories\":%d,\"events\":%ld,\"hangs\":%d,\"aborted\":1}\n", done, totalEv, g_hangs.load());
      fflush(nullptr); _exit(0);
    }
  }
  fclose(f);
  stopDaemon(D);
  printf("{\"histories\":%d,\"events\":%ld,\"hangs\":%d,\"aborted\":0,\"restarts\":%d}\n", done, totalEv, g_hangs.load(), restarts);
  return 0;
}
