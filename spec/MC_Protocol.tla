------------------------------ MODULE MC_Protocol ------------------------------
(* S => P for the protocol stack by pure model checking, no code involved: the code-shaped model Protocol.tla is      *)
(* driven by an environment alphabet of the same shape as delivChoices / echoChoices of harness/proto.cpp (one         *)
(* representative per byte class at every position of the telegram grammar, timeouts, faults, submissions from the     *)
(* client and from inside the ps_empty callback), and the P monitors of BusMonitors.tla (RecvMon C01, SendMon C02,      *)
(* TxMon C03, ReqMon C04, AnswerMon C15) run in lock-step on the events S produces, folded over a step's events         *)
(* exactly as ProtoGraph.tla folds them over an edge of the extracted graph.  S is known to be faithful to the code    *)
(* by ProtocolFidelity; this run is design assurance and a vacuity guard for P, its result cannot change with /repo.   *)
EXTENDS Protocol, BusMonitors

CONSTANTS QQs, ZZs, PBs, SBs, Datas, Junk, Winners,      \* byte representatives (sets), Junk: one byte
          NNMax, SNNMax,                                   \* length bytes offered: 0..NNMax / 0..SNNMax
          LongTo, LongToAny, ReadErr, WriteErr, EchoFaults, ArbNone, LateEcho, EscQQ, OpenFail, Reconnect,   \* BOOLEAN switches
          SubmitWhen,                                      \* 0 never, 1 while noSignal/skip/ready, 2 always
          Mons                                             \* monitors switched on: subset of {"r", "s", "t", "q", "a"}

(* configurations of ebusd (PC <- ... in the .cfg); the monitors' view Cfg is derived from the same record *)
MCPC_request == [DefaultPC EXCEPT !.reqs = <<[master |-> <<49, 21, 181, 9, 1, 169>>, kind |-> 0, restarts |-> 0]>>]     \* 3115b50901a9
MCPC_bcdel   == [DefaultPC EXCEPT !.reqs = <<[master |-> <<49, 254, 181, 9, 0>>, kind |-> 1, restarts |-> 0]>>, !.buslost = 1]
MCPC_answer  == [DefaultPC EXCEPT !.answer = 1,
                   !.answers = <<[src |-> 170, dst |-> 54, pb |-> 181, sb |-> 9, id |-> <<66>>, answer |-> <<1, 66>>],
                                 [src |-> 170, dst |-> 54, pb |-> 181, sb |-> 9, id |-> <<>>, answer |-> <<0>>]>>]
MCPC_gensyn  == [DefaultPC EXCEPT !.gensyn = 1, !.reqs = <<[master |-> <<49, 254, 181, 9, 0>>, kind |-> 0, restarts |-> 0]>>]
MCCfg == [own |-> PC.own, lock |-> PC.lock, gensyn |-> PC.gensyn, readonly |-> PC.readonly, answers |-> PC.answers]

VARIABLES st, mon, lastIn, ubv       \* ubv: the last step needed key arithmetic that is undefined behaviour in C++
vars == <<st, mon, lastIn, ubv>>
View == <<st, mon, ubv>>

(***************************************************************************)
(* environment alphabet (harness: delivChoices, echoChoices, canSubmit)    *)
(***************************************************************************)
Idle(t) == t.ph \in {P_DEAD, P_QQ, P_DONE}
JunkByte == CHOOSE j \in Junk : TRUE
SymChoices(t) ==
  IF t.esc = 1 THEN {0, 1, JunkByte, SYN}
  ELSE CASE t.ph \in {P_DEAD, P_DONE} -> {SYN} \cup Junk
         [] t.ph = P_QQ -> {SYN} \cup QQs \cup (IF EscQQ THEN {ESC} ELSE {})
         [] t.ph = P_ZZ -> ZZs \cup {SYN}
         [] t.ph = P_PB -> PBs \cup {SYN}
         [] t.ph = P_SB -> SBs \cup {SYN}
         [] t.ph = P_NN -> 0..NNMax \cup {SYN}
         [] t.ph = P_SNN -> 0..SNNMax \cup {SYN}
         [] t.ph \in {P_DATA, P_SDATA} -> Datas \cup {SYN}
         [] t.ph \in {P_CRC, P_SCRC} ->
              LET good == t.crc
                  bad0 == SXorTab[good][16]
                  bad == IF bad0 \in {ESC, SYN} THEN SXorTab[bad0][1] ELSE bad0 IN
              {IF good \in {ESC, SYN} THEN ESC ELSE good, bad, SYN}
         [] t.ph \in {P_ACK, P_SACK} -> {ACK, NAK, JunkByte, SYN}

DelivChoices(s) ==
  {[d |-> "to", dv |-> <<>>]}
  \cup (IF LateEcho /\ s.arbCheck # 0 THEN {[d |-> "sym", dv |-> <<s.arbMaster>>]} ELSE {})
  \cup (IF LongTo /\ (Idle(s.trk) \/ LongToAny) THEN {[d |-> "tl", dv |-> <<>>]} ELSE {})
  \cup (IF ReadErr THEN {[d |-> "er", dv |-> <<>>]} ELSE {})
  \cup {[d |-> "sym", dv |-> <<b>>] : b \in SymChoices(s.trk)}

EchoChoices(t, w) ==
  {[e |-> "s", ex |-> 0]}
  \cup (IF t.ph = P_QQ /\ t.mrep = 0 /\ IsMaster(w)         \* arbitration position: collisions
        THEN {[e |-> "x", ex |-> h] : h \in Winners \ {w}} \cup (IF ArbNone THEN {[e |-> "n", ex |-> 0]} ELSE {})
        ELSE IF EchoFaults
        THEN LET c0 == SXorTab[w][4]  c == IF c0 \in {SYN, ESC} THEN SXorTab[w][64] ELSE c0 IN {[e |-> "x", ex |-> c], [e |-> "n", ex |-> 0]}
        ELSE {})

(* step tokens without the echo decision *)
BaseToks(s) ==
  {[TokDefault EXCEPT !.w = w, !.cb = cb, !.d = dl.d, !.dv = dl.dv, !.of = o] :
     w \in (IF WriteErr THEN BOOLEAN ELSE {FALSE}),
     cb \in {-1} \cup (IF PC.cbsubmit = 1 THEN {r \in 0..(NReq - 1) : CanSubmit(s, r)} ELSE {}),
     dl \in DelivChoices(s),
     o \in (IF OpenFail /\ s.valid = 0 THEN BOOLEAN ELSE {FALSE})}
(* the echo decision is consulted for the first byte written in the step: its alternatives depend on the byte and on   *)
(* the tracker at that moment, which StepF reports for the token with the default echo                                 *)
EchoFor(s, base) == LET r == StepF(s, base) IN IF r.eu THEN EchoChoices(r.echoT, r.echoW) ELSE {[e |-> "s", ex |-> 0]}
StepTokens(s) == UNION {{[base EXCEPT !.e = ec.e, !.ex = ec.ex] : ec \in EchoFor(s, base)} : base \in BaseToks(s)}

ClientTokens(s) ==
  {[TokDefault EXCEPT !.kind = "sub", !.r = r] :
     r \in {q \in 0..(NReq - 1) : CanSubmit(s, q) /\ (SubmitWhen = 2 \/ (SubmitWhen = 1 /\ s.state \in {BS_noSignal, BS_skip, BS_ready}))}}
  \cup {[TokDefault EXCEPT !.kind = "poll", !.r = r] : r \in {q \in 0..(NReq - 1) : ReqKind(q) # 1 /\ s.rstatus[q + 1] = 2}}
  \cup (IF Reconnect /\ s.reconnect = 0 THEN {[TokDefault EXCEPT !.kind = "reconnect"]} ELSE {})

EnvTokens(s) == ClientTokens(s) \cup StepTokens(s)

(***************************************************************************)
(* monitors, folded as in ProtoGraph.tla (events outside the logged kinds  *)
(* of the P-on-G runs -- st, seen, open, reconnect -- are not shown)        *)
(***************************************************************************)
OnR == "r" \in Mons  OnS == "s" \in Mons  OnT == "t" \in Mons  OnQ == "q" \in Mons  OnA == "a" \in Mons
MonKinds == {"rx", "tx", "to", "err", "close", "msg", "sub", "subcb", "ntf", "del", "fin", "bad", "nofin"}
MonInit == [rm |-> RecvInit, sm |-> SendInit, tm |-> TxInit, qm |-> ReqInit, am |-> AnsInit]
MonEv(m, e) ==
  [rm |-> IF OnR \/ OnT \/ OnA THEN RecvEv(m.rm, e) ELSE m.rm,
   sm |-> IF OnS THEN SendEv(m.sm, m.qm, e) ELSE m.sm,
   tm |-> IF OnT THEN TxEv(m.tm, m.rm, m.am, m.qm, e) ELSE m.tm,
   qm |-> IF OnQ \/ OnS \/ OnT THEN ReqEv(m.qm, e) ELSE m.qm,
   am |-> IF OnA THEN AnsEv(m.am, m.rm, e) ELSE m.am]
RECURSIVE FoldMon(_, _, _)
FoldMon(m, evs, k) == IF k > Len(evs) THEN m ELSE FoldMon(MonEv(m, evs[k]), evs, k + 1)
StepMon(m, evs0) == LET evs == SelectSeq(evs0, LAMBDA e : e[1] \in MonKinds)
                        m2 == FoldMon(m, evs, 1) IN
                    IF OnQ THEN [m2 EXCEPT !.qm = ReqQuiescent(m2.qm, evs)] ELSE m2

(***************************************************************************)
(* the transition system                                                   *)
(***************************************************************************)
Init == st = InitState /\ mon = MonInit /\ lastIn = TokDefault /\ ubv = FALSE
Next == \E tok \in EnvTokens(st) :
          LET r == StepF(st, tok) IN
          /\ st' = r.post
          /\ mon' = StepMon(mon, r.ev)
          /\ lastIn' = tok
          /\ ubv' = r.ub

Bad == IF OnR /\ mon.rm.bad # "" THEN mon.rm.bad
       ELSE IF OnS /\ mon.sm.bad # "" THEN mon.sm.bad
       ELSE IF OnT /\ mon.tm.bad # "" THEN mon.tm.bad
       ELSE IF OnQ /\ mon.qm.bad # "" THEN mon.qm.bad
       ELSE IF OnA /\ mon.am.bad # "" THEN mon.am.bad ELSE ""
MonOk == Bad = "" \/ ~PrintT(<<"VF", "MON", Bad>>)

(* S-level invariants (not properties of ebusd, sanity of the model): no undefined key arithmetic within the bounds,  *)
(* the device waits for its arbitration byte only while an arbitration is requested                                   *)
NoUb == ~ubv
ArbSane == st.arbCheck # 0 => st.arbMaster # SYN
=============================================================================
