------------------------------ MODULE NetHandoff ------------------------------
(* The client-connection layer of the daemon: command port / HTTP port, the    *)
(* hand-off of requests from the connection threads to the main loop and back. *)
(*                                                                             *)
(* P  (first part) - the command port as a client may rely on it, written from *)
(*    what the repository documents: the help texts of the commands (`quit`:   *)
(*    "Close connection", `listen`: "Listen for updates ... [stop]", `read -f`:*)
(*    "force reading from the bus", `-m SECONDS`: "only return cached value if *)
(*    age is less than SECONDS"), the reference client src/tools/ebusctl.cpp   *)
(*    (one command per line; the response ends with an empty line; while       *)
(*    listening, data arrives unsolicited; nothing is awaited for an empty     *)
(*    line) and the helper scripts in contrib/scripts (echo "cmd" | nc).       *)
(*    Abstract state: connection -> queue of outstanding request lines, plus   *)
(*    the shared value store the commands read (so that responses of           *)
(*    concurrent connections must be explainable by ONE order of execution:    *)
(*    linearizability, the linearization point of a request is its execution   *)
(*    by the main loop).                                                       *)
(*      - every complete non-empty line gets exactly one response block        *)
(*      - blocks of one connection come in the order of its lines              *)
(*      - a block answers the line at the head of ITS connection's queue: a    *)
(*        value names its message, messages are per connection in the test     *)
(*        world, so a block delivered to the wrong connection is rejected      *)
(*      - `quit` answers "connection closed", then that connection ends; the   *)
(*        listener and the other connections go on                             *)
(*      - update lines arrive only between "listen started" and "listen        *)
(*        stopped" of the same connection and carry values that were read      *)
(*      - junk lines (control characters, bytes >= 0x80, very long lines, an   *)
(*        unbalanced quote) get one error/usage block and do not wedge         *)
(*      - HTTP: one response per connection, then the server closes            *)
(*    Left open (not documented): what a response to junk says, whether a      *)
(*    cached value is used or the bus is read when both are allowed, what      *)
(*    happens to lines behind a `quit`, duplicate update lines, whether a      *)
(*    request of a vanished client is still executed, HTTP keep-alive.         *)
(*                                                                             *)
(* S  (second part) - a code-shaped model of the hand-off: Connection::run,    *)
(*    RequestImpl::add / waitResponse / setResult, Queue<Request*>, the        *)
(*    request loop of MainLoop::run, Network::~Network.  Functional style: the *)
(*    operators map a state record to the set of its successors together with  *)
(*    the observable events of the step; MC_NetHandoff.tla runs them against   *)
(*    the P monitor (S => P), checks the lifetime hazard "the main loop or the *)
(*    queue refers to a RequestImpl whose connection thread has ended" and     *)
(*    eventual response under fairness.                                        *)
EXTENDS Naturals, Integers, Sequences, FiniteSets, TLC

(* ======================================================================== P *)
Conns == 1..3
Tags == 1..8                 \* messages of the test world: circuits 1..3 own two each, circuit 4 is shared
CircuitOf(t) == IF t <= 6 THEN (t + 1) \div 2 ELSE 4
TagSeqOf(c) == IF c = 4 THEN <<7, 8>> ELSE <<2 * c - 1, 2 * c>>

BusKinds == {"fread", "cread", "hget", "hgetf"}      \* may be executed by a bus read (observable: exec event)
CloseKinds == {"quit", "hget", "hgetf", "hbad"}      \* the connection ends after the response
Kinds == BusKinds \cup CloseKinds \cup {"find", "bogus", "junk", "info", "help", "listen", "lstop", "empty"}

PInit(cnt0, val0) ==
  [out |-> [c \in Conns |-> <<>>],       \* outstanding request lines per connection, oldest first
   val |-> val0, cnt |-> cnt0,           \* per message: stored value (-1 none), number of bus reads so far (= next value)
   srvl |-> [c \in Conns |-> FALSE],     \* listening mode as of the executed requests
   strl |-> [c \in Conns |-> FALSE],     \* listening mode as of the response blocks received
   cst |-> [c \in Conns |-> "open"]]     \* open / closing (close announced) / closed (by the client) / eof (by the server)

NewReq(kind, tag) == [k |-> kind, t |-> tag, st |-> "sent", rc |-> "", rt |-> 0, rz |-> <<>>]

PInvOk(p, c, kind) == p.cst[c] \in {"open", "closing"} /\ kind \in Kinds
PInv(p, c, kind, tag) == [p EXCEPT !.out[c] = Append(@, NewReq(kind, tag))]

RECURSIVE FirstSentFrom(_, _)
FirstSentFrom(q, i) == IF i > Len(q) THEN 0 ELSE IF q[i].st = "sent" THEN i ELSE FirstSentFrom(q, i + 1)
FirstSent(q) == FirstSentFrom(q, 1)
ClosingBefore(q, i) == \E j \in 1..(i - 1) : q[j].k \in CloseKinds

(* execution of the oldest not yet executed line of connection c; bus = it reads the message from the bus *)
PLinOk(p, c, bus, tag) ==
  LET q == p.out[c]  i == FirstSent(q) IN
  /\ i > 0
  /\ ~ClosingBefore(q, i)                   \* nothing is executed behind a quit / an HTTP request
  /\ IF bus THEN q[i].k \in BusKinds /\ q[i].t = tag
            ELSE /\ q[i].k # "fread"
                 /\ q[i].k = "cread" => p.val[q[i].t] >= 0

ResultOf(p, c, r, bus) ==
  CASE r.k \in {"fread", "cread"} -> <<"val", r.t, <<IF bus THEN p.cnt[r.t] ELSE p.val[r.t]>> >>
    [] r.k = "find" -> <<"find", r.t, [n \in 1..2 |-> <<TagSeqOf(r.t)[n], p.val[TagSeqOf(r.t)[n]]>>]>>
    [] r.k = "bogus" -> <<"errnf", 0, <<>> >>
    [] r.k = "junk" -> <<"anyerr", 0, <<>> >>
    [] r.k = "info" -> <<"info", 0, <<>> >>
    [] r.k = "help" -> <<"usage", 0, <<>> >>
    [] r.k = "quit" -> <<"closed", 0, <<>> >>
    [] r.k = "listen" -> <<IF p.srvl[c] THEN "lcont" ELSE "lstart", 0, <<>> >>
    [] r.k = "lstop" -> <<"lstop", 0, <<>> >>
    [] r.k \in {"hget", "hgetf"} -> <<"http", 200, <<1, r.t>> >>
    [] r.k = "hbad" -> <<"http4xx", 0, <<>> >>
    [] OTHER -> <<"none", 0, <<>> >>

RemoveAt(q, i) == SubSeq(q, 1, i - 1) \o SubSeq(q, i + 1, Len(q))

PLin(p, c, bus) ==
  LET q == p.out[c]  i == FirstSent(q)  r == q[i]  res == ResultOf(p, c, r, bus)
      p1 == IF r.k = "empty" THEN [p EXCEPT !.out[c] = RemoveAt(q, i)]       \* nothing is awaited for an empty line
            ELSE [p EXCEPT !.out[c][i] = [r EXCEPT !.st = "done", !.rc = res[1], !.rt = res[2], !.rz = res[3]]]
      p2 == IF bus THEN [p1 EXCEPT !.val[r.t] = p.cnt[r.t], !.cnt[r.t] = p.cnt[r.t] + 1] ELSE p1
  IN IF r.k = "listen" THEN [p2 EXCEPT !.srvl[c] = TRUE]
     ELSE IF r.k = "lstop" THEN [p2 EXCEPT !.srvl[c] = FALSE] ELSE p2

Match(r, cls, y, z) ==
  CASE r.rc = "anyerr" -> cls \in {"errnf", "err", "usage"}
    [] r.rc = "http" -> cls = "http" /\ y = 200 /\ z = r.rz
    [] r.rc = "http4xx" -> cls = "http" /\ y >= 400 /\ y < 500
    [] OTHER -> /\ cls = r.rc
                /\ cls \in {"val", "find"} => (y = r.rt /\ z = r.rz)

PRespOk(p, c, cls, y, z) ==
  /\ p.cst[c] = "open"
  /\ p.out[c] # <<>> /\ Head(p.out[c]).st = "done"
  /\ Match(Head(p.out[c]), cls, y, z)
PResp(p, c, cls) ==
  LET p0 == [p EXCEPT !.out[c] = Tail(@)]
      p1 == IF Head(p.out[c]).k \in CloseKinds THEN [p0 EXCEPT !.cst[c] = "closing"] ELSE p0 IN
  IF cls \in {"lstart", "lcont"} THEN [p1 EXCEPT !.strl[c] = TRUE]
  ELSE IF cls = "lstop" THEN [p1 EXCEPT !.strl[c] = FALSE] ELSE p1

(* an update line: only while listening, and about a value that was really read *)
PPushOk(p, c, tag, z) == p.cst[c] = "open" /\ p.strl[c] /\ tag \in Tags /\ z[1] >= 0 /\ z[1] < p.cnt[tag]

(* the server closes: only behind the answered quit / HTTP request; lines behind it stay unanswered *)
PEofOk(p, c) == p.cst[c] = "closing"
PClose(p, c, how) == [p EXCEPT !.cst[c] = how]

(* end of a history: every line of a connection that is still open has been answered *)
PFinalOk(p) == \A c \in Conns : p.cst[c] = "open" => p.out[c] = <<>>

=============================================================================
