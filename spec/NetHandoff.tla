------------------------------ MODULE NetHandoff ------------------------------
(* The client-connection layer of the daemon: command port / HTTP port, the    *)
(* hand-off of requests from the connection threads to the main loop and back. *)
(*                                                                             *)
(* P  (first part) - the command port as a client may rely on it, written from *)
(*    what the repository documents: the help texts of the commands (`quit`:   *)
(*    "Close connection", `listen`: "Listen for updates ... [stop]", `read -f`:*)
(*    "force reading from the bus", `-m SECONDS`: "only return cached value if *)
(*    age is less than SECONDS"), the reference client src/tools/ebusctl.cpp   *)
(*    (one command per line; the response ends with an empty line; while       *)
(*    listening, data arrives unsolicited; nothing is awaited for an empty     *)
(*    line) and the helper scripts in contrib/scripts (echo "cmd" | nc).       *)
(*    Abstract state: connection -> queue of outstanding request lines, plus   *)
(*    the shared value store the commands read (so that responses of           *)
(*    concurrent connections must be explainable by ONE order of execution:    *)
(*    linearizability, the linearization point of a request is its execution   *)
(*    by the main loop).                                                       *)
(*      - every complete non-empty line gets exactly one response block        *)
(*      - blocks of one connection come in the order of its lines              *)
(*      - a block answers the line at the head of ITS connection's queue: a    *)
(*        value names its message, messages are per connection in the test     *)
(*        world, so a block delivered to the wrong connection is rejected      *)
(*      - `quit` answers "connection closed", then that connection ends; the   *)
(*        listener and the other connections go on                             *)
(*      - update lines arrive only between "listen started" and "listen        *)
(*        stopped" of the same connection and carry values that were read      *)
(*      - junk lines (control characters, bytes >= 0x80, very long lines, an   *)
(*        unbalanced quote) get one error/usage block and do not wedge         *)
(*      - HTTP: one response per connection, then the server closes            *)
(*    Left open (not documented): what a response to junk says, whether a      *)
(*    cached value is used or the bus is read when both are allowed, what      *)
(*    happens to lines behind a `quit`, duplicate update lines, whether a      *)
(*    request of a vanished client is still executed, HTTP keep-alive.         *)
(*                                                                             *)
(* S  (second part) - a code-shaped model of the hand-off: Connection::run,    *)
(*    RequestImpl::add / waitResponse / setResult, Queue<Request*>, the        *)
(*    request loop of MainLoop::run, Network::~Network.  Functional style: the *)
(*    operators map a state record to the set of its successors together with  *)
(*    the observable events of the step; MC_NetHandoff.tla runs them against   *)
(*    the P monitor (S => P), checks the lifetime hazard "the main loop or the *)
(*    queue refers to a RequestImpl whose connection thread has ended" and     *)
(*    eventual response under fairness.                                        *)
EXTENDS Naturals, Integers, Sequences, FiniteSets, TLC

(* ======================================================================== P *)
Conns == 1..3
Tags == 1..8                 \* messages of the test world: circuits 1..3 own two each, circuit 4 is shared
CircuitOf(t) == IF t <= 6 THEN (t + 1) \div 2 ELSE 4
TagSeqOf(c) == IF c = 4 THEN <<7, 8>> ELSE <<2 * c - 1, 2 * c>>

BusKinds == {"fread", "cread", "hget", "hgetf"}      \* may be executed by a bus read (observable: exec event)
CloseKinds == {"quit", "hget", "hgetf", "hbad"}      \* the connection ends after the response
Kinds == BusKinds \cup CloseKinds \cup {"find", "bogus", "junk", "info", "help", "listen", "lstop", "empty"}

PInit(cnt0, val0) ==
  [out |-> [c \in Conns |-> <<>>],       \* outstanding request lines per connection, oldest first
   val |-> val0, cnt |-> cnt0,           \* per message: stored value (-1 none), number of bus reads so far (= next value)
   srvl |-> [c \in Conns |-> FALSE],     \* listening mode as of the executed requests
   strl |-> [c \in Conns |-> FALSE],     \* listening mode as of the response blocks received
   need |-> [c \in Conns |-> [t \in Tags |-> 0]],   \* update lines owed to a listening connection (see PushDue below)
   cst |-> [c \in Conns |-> "open"]]     \* open / shut (client closed its sending side, still reads) / closing (close
                                         \* announced by the server) / closed (by the client) / eof (by the server)

NewReq(kind, tag) == [k |-> kind, t |-> tag, st |-> "sent", rc |-> "", rt |-> 0, rz |-> <<>>]

(* PushDue - "listen: Listen for updates": a value read from the bus while connection c is listening (stage 1) is owed  *)
(* to c as an update line once the clock has moved on (2), c has sent a further line after that (3) and everything c   *)
(* sent has been answered (4): it must then arrive before the next block / the end of the connection.  An update line  *)
(* with the current value of the message settles the debt at any stage.                                                *)
Promote(row, from, to) == [t \in Tags |-> IF row[t] = from THEN to ELSE row[t]]
NoDebt(p, c) == \A t \in Tags : p.need[c][t] # 4
PTick(p) == [p EXCEPT !.need = [c \in Conns |-> Promote(p.need[c], 1, 2)]]

PInvOk(p, c, kind) == p.cst[c] \in {"open", "closing"} /\ kind \in Kinds
PInv(p, c, kind, tag) == [p EXCEPT !.out[c] = Append(@, NewReq(kind, tag)), !.need[c] = Promote(@, 2, 3)]

RECURSIVE FirstSentFrom(_, _)
FirstSentFrom(q, i) == IF i > Len(q) THEN 0 ELSE IF q[i].st = "sent" THEN i ELSE FirstSentFrom(q, i + 1)
FirstSent(q) == FirstSentFrom(q, 1)
ClosingBefore(q, i) == \E j \in 1..(i - 1) : q[j].k \in CloseKinds

(* execution of the oldest not yet executed line of connection c; bus = it reads the message from the bus *)
PLinOk(p, c, bus, tag) ==
  LET q == p.out[c]  i == FirstSent(q) IN
  /\ i > 0
  /\ ~ClosingBefore(q, i)                   \* nothing is executed behind a quit / an HTTP request
  /\ IF bus THEN q[i].k \in BusKinds /\ q[i].t = tag
            ELSE /\ q[i].k # "fread"
                 /\ q[i].k = "cread" => p.val[q[i].t] >= 0

ResultOf(p, c, r, bus) ==
  CASE r.k \in {"fread", "cread"} -> <<"val", r.t, <<IF bus THEN p.cnt[r.t] ELSE p.val[r.t]>> >>
    [] r.k = "find" -> <<"find", r.t, [n \in 1..2 |-> <<TagSeqOf(r.t)[n], p.val[TagSeqOf(r.t)[n]]>>]>>
    [] r.k = "bogus" -> <<"errnf", 0, <<>> >>
    [] r.k = "junk" -> <<"anyerr", 0, <<>> >>
    [] r.k = "info" -> <<"info", 0, <<>> >>
    [] r.k = "help" -> <<"usage", 0, <<>> >>
    [] r.k = "quit" -> <<"closed", 0, <<>> >>
    [] r.k = "listen" -> <<IF p.srvl[c] THEN "lcont" ELSE "lstart", 0, <<>> >>
    [] r.k = "lstop" -> <<"lstop", 0, <<>> >>
    [] r.k \in {"hget", "hgetf"} -> <<"http", 200, <<1, r.t>> >>
    [] r.k = "hbad" -> <<"http4xx", 0, <<>> >>
    [] OTHER -> <<"none", 0, <<>> >>

RemoveAt(q, i) == SubSeq(q, 1, i - 1) \o SubSeq(q, i + 1, Len(q))

PLin(p, c, bus) ==
  LET q == p.out[c]  i == FirstSent(q)  r == q[i]  res == ResultOf(p, c, r, bus)
      p1 == IF r.k = "empty" THEN [p EXCEPT !.out[c] = RemoveAt(q, i)]       \* nothing is awaited for an empty line
            ELSE [p EXCEPT !.out[c][i] = [r EXCEPT !.st = "done", !.rc = res[1], !.rt = res[2], !.rz = res[3]]]
      p2 == IF bus THEN [p1 EXCEPT !.val[r.t] = p.cnt[r.t], !.cnt[r.t] = p.cnt[r.t] + 1,
                                   !.need = [k \in Conns |-> IF p.strl[k] THEN [p.need[k] EXCEPT ![r.t] = 1] ELSE p.need[k]]]   \* the newest value counts
            ELSE p1
  IN IF r.k = "listen" THEN [p2 EXCEPT !.srvl[c] = TRUE]
     ELSE IF r.k = "lstop" THEN [p2 EXCEPT !.srvl[c] = FALSE] ELSE p2

Match(r, cls, y, z) ==
  CASE r.rc = "anyerr" -> cls \in {"errnf", "err", "usage"}
    [] r.rc = "http" -> cls = "http" /\ y = 200 /\ z = r.rz
    [] r.rc = "http4xx" -> cls = "http" /\ y >= 400 /\ y < 500
    [] OTHER -> /\ cls = r.rc
                /\ cls \in {"val", "find"} => (y = r.rt /\ z = r.rz)

PRespOk(p, c, cls, y, z) ==
  /\ p.cst[c] \in {"open", "shut"}
  /\ p.out[c] # <<>> /\ Head(p.out[c]).st = "done"
  /\ Match(Head(p.out[c]), cls, y, z)
  /\ NoDebt(p, c)
PResp(p, c, cls) ==
  LET p0 == [p EXCEPT !.out[c] = Tail(@)]
      p1 == IF Head(p.out[c]).k \in CloseKinds THEN [p0 EXCEPT !.cst[c] = "closing"] ELSE p0
      p2 == IF Len(p.out[c]) = 1 THEN [p1 EXCEPT !.need[c] = Promote(@, 3, 4)] ELSE p1 IN
  IF cls \in {"lstart", "lcont"} THEN [p2 EXCEPT !.strl[c] = TRUE]
  ELSE IF cls = "lstop" THEN [p2 EXCEPT !.strl[c] = FALSE, !.need[c] = [t \in Tags |-> 0]] ELSE p2

(* an update line: only while listening, and about a value that was really read *)
PPushOk(p, c, tag, z) == /\ p.cst[c] \in {"open", "shut", "closing"} /\ p.strl[c]      \* (a `quit` while listening: update lines may still follow its block)
                         /\ tag = 0 \/ (tag \in Tags /\ z[1] >= 0 /\ z[1] < p.cnt[tag])    \* tag 0: a message outside the test world
PPush(p, c, tag, z) == IF tag \in Tags /\ z[1] = p.val[tag] THEN [p EXCEPT !.need[c][tag] = 0] ELSE p

(* the server closes: only behind the answered quit / HTTP request; lines behind it stay unanswered *)
(* or after the client closed its sending side - then only when every line it sent has been answered (echo cmd | nc -N) *)
PEofOk(p, c) == (p.cst[c] = "closing" \/ (p.cst[c] = "shut" /\ p.out[c] = <<>>)) /\ NoDebt(p, c)
PClose(p, c, how) == [p EXCEPT !.cst[c] = how]

(* end of a history: every line of a connection that is still open has been answered *)
PFinalOk(p) == \A c \in Conns : p.cst[c] \in {"open", "shut"} => (p.out[c] = <<>> /\ NoDebt(p, c))


(* ======================================================================== S *)
(* Code-shaped model.  g = configuration record:                                *)
(*   prog[c]   sequence of sets of <<kind, tag>>: the lines client c may send   *)
(*   split     a line may be written in two chunks (head, tail)                 *)
(*   multi     two lines may be written in ONE chunk                            *)
(*   pipe      the client may send the next line before the response arrived    *)
(*   tcpmerge  the kernel may hand two written chunks to one recv()             *)
(*   aclose    the client may close its socket at any time                      *)
(*   spurious  pthread_cond_wait may return without a signal (POSIX allows it)  *)
(*   shutdown  SIGTERM may arrive (main.cpp: main loop ends, Network deleted)   *)
(*   bug       "none" or the name of a seeded error (vacuity control)           *)
(* Text model: a chunk is a sequence of pieces <<line index, part>>, part "w" = *)
(* whole line incl. newline, "h" = head without newline, "t" = rest incl.       *)
(* newline.  RequestImpl::add appends the chunk to m_request; the request is    *)
(* complete as soon as m_request holds a newline; only when the FIRST newline   *)
(* is the last character is it stripped - otherwise everything received so far  *)
(* (several lines, or a line and the beginning of the next) stays ONE request.  *)
MCC == 1..2
HasNl(pc) == pc[2] \in {"w", "t"}
Complete(buf) == \E n \in 1..Len(buf) : HasNl(buf[n])
CleanLine(buf) == IF buf = <<>> THEN 0
                  ELSE IF Len(buf) = 1 /\ buf[1][2] = "w" THEN buf[1][1]
                  ELSE IF Len(buf) = 2 /\ buf[1][2] = "h" /\ buf[2][2] = "t" /\ buf[1][1] = buf[2][1] THEN buf[1][1]
                  ELSE -1

ConInit == [pc |-> "poll", buf |-> <<>>, rset |-> FALSE, res |-> <<>>, disc |-> FALSE, mode |-> FALSE, lsince |-> 0,
            alive |-> TRUE, loc |-> <<>>, locd |-> FALSE, ntf |-> FALSE]
SInit == [todo |-> [c \in MCC |-> 1], half |-> [c \in MCC |-> FALSE], lines |-> [c \in MCC |-> <<>>],
          wait |-> [c \in MCC |-> 0], ccl |-> [c \in MCC |-> "open"],
          sock |-> [c \in MCC |-> <<>>], back |-> [c \in MCC |-> <<>>], sclosed |-> [c \in MCC |-> FALSE],
          con |-> [c \in MCC |-> ConInit], q |-> <<>>,
          ml |-> [pc |-> "pop", cur |-> 0, out |-> <<>>, odisc |-> FALSE, omode |-> FALSE],
          val |-> [t \in Tags |-> -1], cnt |-> [t \in Tags |-> 0], sd |-> "run"]

Step(s, ev) == [s |-> s, ev |-> ev]
InvEv(c, ln) == <<c, "inv", ln[1], ln[2], <<>> >>
Awaited(ln) == IF ln[1] = "empty" THEN 0 ELSE 1

(* ---- client ---- *)
ClientSend(g, s, c) ==
  LET i == s.todo[c] IN
  IF s.ccl[c] # "open" \/ i > Len(g.prog[c]) THEN {}
  ELSE IF s.half[c] THEN   \* the rest of a line whose head was written before
    {Step([s EXCEPT !.sock[c] = Append(@, << <<i, "t">> >>), !.half[c] = FALSE, !.todo[c] = i + 1,
                    !.wait[c] = @ + Awaited(s.lines[c][i])], <<InvEv(c, s.lines[c][i])>>)}
  ELSE IF ~g.pipe /\ s.wait[c] > 0 THEN {}
  ELSE UNION {
    LET s1 == [s EXCEPT !.lines[c] = Append(@, ln)] IN
      {Step([s1 EXCEPT !.sock[c] = Append(@, << <<i, "w">> >>), !.todo[c] = i + 1, !.wait[c] = @ + Awaited(ln)], <<InvEv(c, ln)>>)}
      \cup (IF g.split THEN {Step([s1 EXCEPT !.sock[c] = Append(@, << <<i, "h">> >>), !.half[c] = TRUE], <<>>)} ELSE {})
      \cup (IF g.multi /\ i < Len(g.prog[c])
            THEN {Step([s1 EXCEPT !.lines[c] = Append(@, l2), !.sock[c] = Append(@, << <<i, "w">>, <<i + 1, "w">> >>), !.todo[c] = i + 2,
                                  !.wait[c] = @ + Awaited(ln) + Awaited(l2)], <<InvEv(c, ln), InvEv(c, l2)>>) : l2 \in g.prog[c][i + 1]}
            ELSE {})
    : ln \in g.prog[c][i]}

ClientRecv(s, c) ==
  IF s.ccl[c] = "open" /\ s.back[c] # <<>>
  THEN LET it == Head(s.back[c]) IN
       {Step([s EXCEPT !.back[c] = Tail(@), !.wait[c] = IF it[1] = "resp" /\ @ > 0 THEN @ - 1 ELSE @], << <<c, it[1], it[2], it[3], it[4]>> >>)}
  ELSE {}
ClientEof(s, c) == IF s.ccl[c] = "open" /\ s.back[c] = <<>> /\ s.sclosed[c]
                   THEN {Step([s EXCEPT !.ccl[c] = "eof"], << <<c, "eof", "", 0, <<>> >> >>)} ELSE {}
ClientClose(g, s, c) == IF g.aclose /\ s.ccl[c] = "open"
                        THEN {Step([s EXCEPT !.ccl[c] = "closed"], << <<c, "close", "", 0, <<>> >> >>)} ELSE {}

(* ---- Connection::run ---- *)
Recv(g, s, c, chunk, rest) ==
  LET buf == s.con[c].buf \o chunk IN
  IF Complete(buf) THEN [s EXCEPT !.sock[c] = rest, !.con[c].buf = buf, !.con[c].pc = "wait0", !.q = Append(@, c)]   \* push(&req)
  ELSE [s EXCEPT !.sock[c] = rest, !.con[c].buf = buf]
Ended(s, c) == [s EXCEPT !.con[c].pc = "ended", !.con[c].alive = FALSE, !.sclosed[c] = TRUE]   \* `RequestImpl req` leaves scope
ConnPoll(g, s, c) ==
  IF s.con[c].pc # "poll" THEN {}
  ELSE IF s.con[c].ntf THEN {Step(Ended(s, c), <<>>)}                                          \* notify pipe is looked at first
  ELSE IF s.sock[c] # <<>> THEN
         {Step(Recv(g, s, c, Head(s.sock[c]), Tail(s.sock[c])), <<>>)}
         \cup (IF g.tcpmerge /\ Len(s.sock[c]) >= 2
               THEN {Step(Recv(g, s, c, s.sock[c][1] \o s.sock[c][2], Tail(Tail(s.sock[c]))), <<>>)} ELSE {})
  ELSE (IF s.ccl[c] = "closed" THEN {Step(Ended(s, c), <<>>)} ELSE {})                          \* recv() = 0 / POLLRDHUP
       \cup (IF s.con[c].mode /\ s.con[c].buf = <<>> /\ s.ccl[c] = "open" /\ g.listenpoll      \* 2 s poll timeout while listening:
             THEN {Step([s EXCEPT !.con[c].pc = "wait0", !.q = Append(@, c)], <<>>)} ELSE {})  \* add("") is "complete"

(* waitResponse: lock; if (!m_resultSet) pthread_cond_wait(); take the result *)
Take(g, s, c) == [s EXCEPT !.con[c].loc = s.con[c].res, !.con[c].locd = s.con[c].disc, !.con[c].buf = <<>>, !.con[c].res = <<>>,
                           !.con[c].rset = (g.bug = "stale" /\ s.con[c].rset), !.con[c].pc = "send"]
ConnWait(g, s, c) ==
  IF s.con[c].pc = "wait0" THEN (IF s.con[c].rset THEN {Step(Take(g, s, c), <<>>)} ELSE {Step([s EXCEPT !.con[c].pc = "cwait"], <<>>)})
  ELSE IF s.con[c].pc = "woken" THEN {Step(Take(g, s, c), <<>>)}             \* `if`, not `while`: no second look at m_resultSet
  ELSE IF s.con[c].pc = "cwait" /\ g.spurious THEN {Step([s EXCEPT !.con[c].pc = "woken"], <<>>)}
  ELSE IF s.con[c].pc = "cwait" /\ g.bug = "abandon" /\ s.ccl[c] = "closed" THEN {Step(Ended(s, c), <<>>)}
  ELSE {}
ConnSend(g, s, c) ==
  IF s.con[c].pc # "send" THEN {}
  ELSE LET s1 == IF s.ccl[c] = "open" THEN [s EXCEPT !.back[c] = @ \o s.con[c].loc] ELSE s
           s2 == [s1 EXCEPT !.con[c].loc = <<>>] IN
       IF s.con[c].locd THEN {Step(Ended(s2, c), <<>>)} ELSE {Step([s2 EXCEPT !.con[c].pc = "poll"], <<>>)}

(* ---- MainLoop::run, request part ---- *)
MainPop(g, s) ==
  IF s.ml.pc # "pop" THEN {}
  ELSE (IF s.sd # "run" THEN {Step([s EXCEPT !.ml.pc = "ended"], <<>>)} ELSE {})               \* while (!m_shutdown)
       \cup (IF s.q # <<>>
             THEN (IF g.bug = "lifo" THEN {Step([s EXCEPT !.ml.pc = "exec", !.ml.cur = s.q[Len(s.q)], !.q = SubSeq(s.q, 1, Len(s.q) - 1)], <<>>)}
                   ELSE {Step([s EXCEPT !.ml.pc = "exec", !.ml.cur = Head(s.q), !.q = Tail(s.q)], <<>>)})
             ELSE {})
Blk(cls, y, z) == <<"resp", cls, y, z>>
(* update lines for a listening connection: the shared message 7 when it was read since this connection's last execution *)
Pushes(s, c, cnt7, val7) == IF cnt7 > s.con[c].lsince THEN << <<"push", "", 7, <<val7>> >> >> ELSE <<>>
MainExec(g, s) ==
  IF s.ml.pc # "exec" THEN {}
  ELSE LET c == s.ml.cur  buf == s.con[c].buf  i == CleanLine(buf) IN
  IF s.sd # "run" THEN   \* if (m_shutdown) { req->setResult("ERR: shutdown", ..., true); break; }
    {Step([s EXCEPT !.ml.pc = "sdset", !.ml.out = <<Blk("err", 0, <<>>)>>, !.ml.odisc = TRUE, !.ml.omode = s.con[c].mode], <<>>)}
  ELSE IF i = -1 THEN    \* several lines as one request: some usage / error text, nothing of it is executed
    {Step([s EXCEPT !.ml.pc = "set", !.ml.out = <<Blk("usage", 0, <<>>)>> \o (IF s.con[c].mode THEN Pushes(s, c, s.cnt[7], s.val[7]) ELSE <<>>),
                    !.ml.odisc = FALSE, !.ml.omode = s.con[c].mode, !.con[c].lsince = IF s.con[c].mode THEN s.cnt[7] ELSE @], <<>>)}
  ELSE IF i = 0 \/ s.lines[c][i][1] = "empty" THEN    \* empty request (the poll of a listening connection, or an empty line): update lines only
    {Step([s EXCEPT !.ml.pc = "set", !.ml.out = IF s.con[c].mode THEN Pushes(s, c, s.cnt[7], s.val[7]) ELSE <<>>,
                    !.ml.odisc = FALSE, !.ml.omode = s.con[c].mode, !.con[c].lsince = IF s.con[c].mode THEN s.cnt[7] ELSE @],
          IF i > 0 THEN << <<c, "lin", "", 0, FALSE>> >> ELSE <<>>)}
  ELSE LET ln == s.lines[c][i]  k == ln[1]  t == ln[2]
           bus == k = "fread" \/ (k = "cread" /\ s.val[t] < 0)
           v == IF bus THEN s.cnt[t] ELSE IF k = "cread" THEN s.val[t] ELSE 0
           s1 == IF bus THEN [s EXCEPT !.val[t] = v, !.cnt[t] = @ + 1] ELSE s
           blk == CASE k \in {"fread", "cread"} -> Blk("val", t, <<v>>)
                    [] k = "find" -> Blk("find", t, [n \in 1..2 |-> <<TagSeqOf(t)[n], s.val[TagSeqOf(t)[n]]>>])
                    [] k = "bogus" -> Blk("errnf", 0, <<>>)
                    [] k = "quit" -> Blk("closed", 0, <<>>)
                    [] k = "listen" -> Blk(IF s.con[c].mode THEN "lcont" ELSE "lstart", 0, <<>>)
                    [] k = "lstop" -> Blk("lstop", 0, <<>>)
                    [] OTHER -> Blk("other", 0, <<>>)
           mode == IF k = "listen" THEN TRUE ELSE IF k = "lstop" THEN FALSE ELSE s.con[c].mode
       IN {Step([s1 EXCEPT !.ml.pc = "set", !.ml.out = <<blk>> \o (IF mode THEN Pushes(s1, c, s1.cnt[7], s1.val[7]) ELSE <<>>),
                           !.ml.odisc = (k = "quit"), !.ml.omode = mode, !.con[c].lsince = IF mode THEN s1.cnt[7] ELSE @],
                << <<c, "lin", "", t, bus>> >>)}
(* RequestImpl::setResult: under the mutex; pthread_cond_signal wakes the waiter if it is already inside cond_wait *)
SetResult(g, s, c, out, disc, mode) ==
  [s EXCEPT !.con[c].res = out, !.con[c].disc = disc, !.con[c].mode = mode, !.con[c].rset = TRUE,
            !.con[c].pc = IF @ = "cwait" /\ g.bug # "nosignal" THEN "woken" ELSE @]
MainSet(g, s) ==
  IF s.ml.pc \notin {"set", "sdset"} THEN {}
  ELSE LET c == IF g.bug = "wrongreq" /\ s.q # <<>> THEN Head(s.q) ELSE s.ml.cur
           s1 == SetResult(g, s, c, s.ml.out, s.ml.odisc, s.ml.omode) IN
       {Step([s1 EXCEPT !.ml.pc = IF s.ml.pc = "sdset" THEN "ended" ELSE "pop", !.ml.cur = 0, !.ml.out = <<>>], <<>>)}

(* ---- shutdown as in main.cpp: signal -> MainLoop::shutdown; after the main loop ended: delete the Network ---- *)
Signal(g, s) == IF g.shutdown /\ s.sd = "run" THEN {Step([s EXCEPT !.sd = "sig"], <<>>)} ELSE {}
NetDtor(g, s) ==
  IF s.sd = "sig" /\ s.ml.pc = "ended" THEN
    (IF s.q # <<>> THEN {Step([SetResult(g, s, Head(s.q), <<Blk("err", 0, <<>>)>>, TRUE, s.con[Head(s.q)].mode) EXCEPT !.q = Tail(s.q)], <<>>)}   \* drain
     ELSE {Step([s EXCEPT !.sd = "stop2"], <<>>)})
  ELSE IF s.sd = "stop2" THEN {Step([s EXCEPT !.con[2].ntf = TRUE, !.sd = "join2"], <<>>)}      \* connection->stop(): notify
  ELSE IF s.sd = "join2" /\ s.con[2].pc = "ended" THEN {Step([s EXCEPT !.sd = "stop1"], <<>>)}  \* connection->join()
  ELSE IF s.sd = "stop1" THEN {Step([s EXCEPT !.con[1].ntf = TRUE, !.sd = "join1"], <<>>)}
  ELSE IF s.sd = "join1" /\ s.con[1].pc = "ended" THEN {Step([s EXCEPT !.sd = "done"], <<>>)}
  ELSE {}

ClientSteps(g, s, c) == ClientSend(g, s, c) \cup ClientRecv(s, c) \cup ClientEof(s, c) \cup ClientClose(g, s, c)
ConnSteps(g, s, c) == ConnPoll(g, s, c) \cup ConnWait(g, s, c) \cup ConnSend(g, s, c)
MainSteps(g, s) == MainPop(g, s) \cup MainExec(g, s) \cup MainSet(g, s)

(* lifetime hazard: the queue or the main loop holds a pointer to a RequestImpl that no longer exists *)
NoDangling(s) == /\ s.ml.cur # 0 => s.con[s.ml.cur].alive
                 /\ \A n \in 1..Len(s.q) : s.con[s.q[n]].alive

(* ---- P as a monitor of S: consume the events of one step; "lin" is the execution by the main loop ---- *)
MonStep(m, e) ==
  LET p == m.p  c == e[1]  ty == e[2] IN
  IF m.err # "" THEN m
  ELSE CASE ty = "inv" -> IF PInvOk(p, c, e[3]) THEN [m EXCEPT !.p = PInv(p, c, e[3], e[4])] ELSE [m EXCEPT !.err = "inv"]
         [] ty = "lin" -> IF PLinOk(p, c, e[5], e[4]) THEN [m EXCEPT !.p = PLin(p, c, e[5])] ELSE [m EXCEPT !.err = "lin"]
         [] ty = "resp" -> IF PRespOk(p, c, e[3], e[4], e[5]) THEN [m EXCEPT !.p = PResp(p, c, e[3])] ELSE [m EXCEPT !.err = "resp"]
         [] ty = "push" -> IF PPushOk(p, c, e[4], e[5]) THEN [m EXCEPT !.p = PPush(p, c, e[4], e[5])] ELSE [m EXCEPT !.err = "push"]
         [] ty = "eof" -> IF PEofOk(p, c) THEN [m EXCEPT !.p = PClose(p, c, "eof")] ELSE [m EXCEPT !.err = "eof"]
         [] ty = "close" -> [m EXCEPT !.p = PClose(p, c, "closed")]
         [] OTHER -> [m EXCEPT !.err = "event"]
RECURSIVE MonRun(_, _)
MonRun(m, evs) == IF evs = <<>> THEN m ELSE MonRun(MonStep(m, Head(evs)), Tail(evs))

=============================================================================
