CONSTANTS
  InitPrios <- P1235
  SetPrios = {1}
  SetPrioMsgs = {1, 2, 3, 4}
  Alphabet <- AlphaNT
  K = 2
  ReAddPinned = FALSE
  CapBase = 0
INIT Init
NEXT Next
VIEW View
INVARIANT PWait
INVARIANT PProp
INVARIANT QueueIsPollSet
INVARIANT TopIsArgMin
