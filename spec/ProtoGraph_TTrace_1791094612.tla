---- MODULE ProtoGraph_TTrace_1791094612 ----
EXTENDS Sequences, TLCExt, Toolbox, Naturals, TLC, ProtoGraph

_expression ==
    LET ProtoGraph_TEExpression == INSTANCE ProtoGraph_TEExpression
    IN ProtoGraph_TEExpression!expression
----

_trace ==
    LET ProtoGraph_TETrace == INSTANCE ProtoGraph_TETrace
    IN ProtoGraph_TETrace!trace
----

_inv ==
    ~(
        TLCGet("level") = Len(_TETrace)
        /\
        node = (414)
        /\
        lastIn = ("D=00")
        /\
        rm = ([m |-> <<>>, bad |-> "C01:reported-what-is-not-a-valid-telegram", ph |-> "dead", s |-> <<>>, crc |-> 21, crc0 |-> 0, esc |-> FALSE, mrep |-> FALSE, srep |-> FALSE, crcok |-> FALSE, pend |-> <<>>, lastTx |-> 999, pos0 |-> FALSE])
    )
----

_init ==
    /\ node = _TETrace[1].node
    /\ rm = _TETrace[1].rm
    /\ lastIn = _TETrace[1].lastIn
----

_next ==
    /\ \E i,j \in DOMAIN _TETrace:
        /\ \/ /\ j = i + 1
              /\ i = TLCGet("level")
        /\ node  = _TETrace[i].node
        /\ node' = _TETrace[j].node
        /\ rm  = _TETrace[i].rm
        /\ rm' = _TETrace[j].rm
        /\ lastIn  = _TETrace[i].lastIn
        /\ lastIn' = _TETrace[j].lastIn

\* Uncomment the ASSUME below to write the states of the error trace
\* to the given file in Json format. Note that you can pass any tuple
\* to `JsonSerialize`. For example, a sub-sequence of _TETrace.
    \* ASSUME
    \*     LET J == INSTANCE Json
    \*         IN J!JsonSerialize("ProtoGraph_TTrace_1791094612.json", _TETrace)

=============================================================================

 Note that you can extract this module `ProtoGraph_TEExpression`
  to a dedicated file to reuse `expression` (the module in the 
  dedicated `ProtoGraph_TEExpression.tla` file takes precedence 
  over the module `ProtoGraph_TEExpression` below).

---- MODULE ProtoGraph_TEExpression ----
EXTENDS Sequences, TLCExt, Toolbox, Naturals, TLC, ProtoGraph

expression == 
    [
        \* To hide variables of the `ProtoGraph` spec from the error trace,
        \* remove the variables below.  The trace will be written in the order
        \* of the fields of this record.
        node |-> node
        ,rm |-> rm
        ,lastIn |-> lastIn
        
        \* Put additional constant-, state-, and action-level expressions here:
        \* ,_stateNumber |-> _TEPosition
        \* ,_nodeUnchanged |-> node = node'
        
        \* Format the `node` variable as Json value.
        \* ,_nodeJson |->
        \*     LET J == INSTANCE Json
        \*     IN J!ToJson(node)
        
        \* Lastly, you may build expressions over arbitrary sets of states by
        \* leveraging the _TETrace operator.  For example, this is how to
        \* count the number of times a spec variable changed up to the current
        \* state in the trace.
        \* ,_nodeModCount |->
        \*     LET F[s \in DOMAIN _TETrace] ==
        \*         IF s = 1 THEN 0
        \*         ELSE IF _TETrace[s].node # _TETrace[s-1].node
        \*             THEN 1 + F[s-1] ELSE F[s-1]
        \*     IN F[_TEPosition - 1]
    ]

=============================================================================



Parsing and semantic processing can take forever if the trace below is long.
 In this case, it is advised to uncomment the module below to deserialize the
 trace from a generated binary file.

\*
\*---- MODULE ProtoGraph_TETrace ----
\*EXTENDS IOUtils, TLC, ProtoGraph
\*
\*trace == IODeserialize("ProtoGraph_TTrace_1791094612.bin", TRUE)
\*
\*=============================================================================
\*

---- MODULE ProtoGraph_TETrace ----
EXTENDS TLC, ProtoGraph

trace == 
    <<
    ([node |-> 1,lastIn |-> "",rm |-> [m |-> <<>>, bad |-> "", ph |-> "dead", s |-> <<>>, crc |-> 0, crc0 |-> 0, esc |-> FALSE, mrep |-> FALSE, srep |-> FALSE, crcok |-> FALSE, pend |-> <<>>, lastTx |-> 999, pos0 |-> FALSE]]),
    ([node |-> 3,lastIn |-> "D=aa",rm |-> [m |-> <<>>, bad |-> "", ph |-> "qq", s |-> <<>>, crc |-> 0, crc0 |-> 0, esc |-> FALSE, mrep |-> FALSE, srep |-> FALSE, crcok |-> FALSE, pend |-> <<>>, lastTx |-> 999, pos0 |-> TRUE]]),
    ([node |-> 4,lastIn |-> "D=15",rm |-> [m |-> <<>>, bad |-> "", ph |-> "dead", s |-> <<>>, crc |-> 21, crc0 |-> 0, esc |-> FALSE, mrep |-> FALSE, srep |-> FALSE, crcok |-> FALSE, pend |-> <<>>, lastTx |-> 999, pos0 |-> FALSE]]),
    ([node |-> 11,lastIn |-> "D=03",rm |-> [m |-> <<>>, bad |-> "", ph |-> "dead", s |-> <<>>, crc |-> 21, crc0 |-> 0, esc |-> FALSE, mrep |-> FALSE, srep |-> FALSE, crcok |-> FALSE, pend |-> <<>>, lastTx |-> 999, pos0 |-> FALSE]]),
    ([node |-> 34,lastIn |-> "D=b5",rm |-> [m |-> <<>>, bad |-> "", ph |-> "dead", s |-> <<>>, crc |-> 21, crc0 |-> 0, esc |-> FALSE, mrep |-> FALSE, srep |-> FALSE, crcok |-> FALSE, pend |-> <<>>, lastTx |-> 999, pos0 |-> FALSE]]),
    ([node |-> 78,lastIn |-> "D=09",rm |-> [m |-> <<>>, bad |-> "", ph |-> "dead", s |-> <<>>, crc |-> 21, crc0 |-> 0, esc |-> FALSE, mrep |-> FALSE, srep |-> FALSE, crcok |-> FALSE, pend |-> <<>>, lastTx |-> 999, pos0 |-> FALSE]]),
    ([node |-> 144,lastIn |-> "D=00",rm |-> [m |-> <<>>, bad |-> "", ph |-> "dead", s |-> <<>>, crc |-> 21, crc0 |-> 0, esc |-> FALSE, mrep |-> FALSE, srep |-> FALSE, crcok |-> FALSE, pend |-> <<>>, lastTx |-> 999, pos0 |-> FALSE]]),
    ([node |-> 240,lastIn |-> "D=60",rm |-> [m |-> <<>>, bad |-> "", ph |-> "dead", s |-> <<>>, crc |-> 21, crc0 |-> 0, esc |-> FALSE, mrep |-> FALSE, srep |-> FALSE, crcok |-> FALSE, pend |-> <<>>, lastTx |-> 999, pos0 |-> FALSE]]),
    ([node |-> 414,lastIn |-> "D=00",rm |-> [m |-> <<>>, bad |-> "C01:reported-what-is-not-a-valid-telegram", ph |-> "dead", s |-> <<>>, crc |-> 21, crc0 |-> 0, esc |-> FALSE, mrep |-> FALSE, srep |-> FALSE, crcok |-> FALSE, pend |-> <<>>, lastTx |-> 999, pos0 |-> FALSE]])
    >>
----


=============================================================================

---- CONFIG ProtoGraph_TTrace_1791094612 ----

INVARIANT
    _inv

CHECK_DEADLOCK
    \* CHECK_DEADLOCK off because of PROPERTY or INVARIANT above.
    FALSE

INIT
    _init

NEXT
    _next

CONSTANT
    _TETrace <- _trace

ALIAS
    _expression
=============================================================================
\* Generated on Sun Oct 04 06:17:12 UTC 2026