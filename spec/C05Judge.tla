------------------------------ MODULE C05Judge ------------------------------
(* C05: judges records (definition, bytes, format, rc, text) produced by           *)
(* harness/c05_decode.cpp from the real DataField::read / DataType::readSymbols    *)
(* against the value semantics of Codec.tla.                                       *)
EXTENDS Codec, Json, IOUtils

ASSUME LemmaYearStart /\ LemmaMonthStart /\ LemmaAnchors /\ LemmaCivil(73500)

Recs == ndJsonDeserialize(IOEnv.VF_RECS)
Fams == ndJsonDeserialize(IOEnv.VF_FAMS)
N == Len(Recs)
K == 64
VARIABLE recno          \* (a name no bound variable of the oracle modules uses)
Init == recno = 0
Next == \/ /\ recno = 0 /\ recno' \in {1 + K * s : s \in 0..((N - 1) \div K)}
        \/ /\ recno > 0 /\ recno % K # 0 /\ recno < N /\ recno' = recno + 1

-----------------------------------------------------------------------------
(* kinds whose JSON form is a string *)
QuotedKind(T) == T.k \in {"date", "day", "dtm", "time", "min", "ttm", "tem"} \/ "FIX" \in T.fl
HasDash(o) == \E j \in 1..Len(o) : o[j] = DASH

(* rendering of a listed value in the five output modes: 0 name, 1 JSON name, 2 numeric, 3 value=name, 4 JSON pair *)
ListedTexts(e, f) ==
  CASE f = 0 -> e.names
    [] f = 1 -> {Quoted(nm) : nm \in e.names}
    [] f = 2 -> {Dec(e.v)}
    [] f = 3 -> {Dec(e.v) \o <<61>> \o nm : nm \in e.names}
    [] f = 4 -> {<<123, 34, 118, 97, 108, 117, 101, 34, 58>> \o Dec(e.v) \o <<44, 34, 110, 97, 109, 101, 34, 58, 34>>
                  \o nm \o <<34, 125>> : nm \in e.names}           \* {"value":V,"name":"NAME"}

OkOne(r) ==
  LET T == Types[r.t]
      e == Expect(r)
      json == r.f \in {1, 4}
      q == json /\ QuotedKind(T) /\ ~HasList(r)
      Tx(texts) == IF q THEN {Quoted(t) : t \in texts} ELSE texts
      nulltxt == IF json THEN JSONNULL ELSE NULLTXT
  IN CASE e.k = "val"     -> r.rc = 0 /\ r.o \in Tx(e.texts)
       [] e.k = "null"    -> r.rc = 0 /\ r.o = nulltxt
       [] e.k = "err"     -> r.rc < 0
       [] e.k = "errnull" -> r.rc < 0 \/ (r.rc = 0 /\ r.o = nulltxt)
       [] e.k = "lenient" -> r.rc < 0 \/ (r.rc = 0 /\ (HasDash(r.o) \/ r.o = JSONNULL))
       [] e.k = "nullval" -> r.rc = 0 /\ (r.o \in Tx(e.texts) \/ (json /\ r.o = JSONNULL))
       [] e.k = "errval"  -> r.rc < 0 \/ (r.rc = 0 /\ r.o \in Tx(e.texts))
       [] e.k = "open"     -> TRUE
       [] e.k = "empty"   -> r.rc = 2 /\ r.o = <<>>
       [] e.k = "strsub"  -> /\ r.rc = 0
                             /\ r.f = 0 => /\ Len(r.o) = Len(e.s)
                                           /\ \A j \in 1..Len(e.s) : Printable(e.s[j]) => r.o[j] = e.s[j]
       [] e.k = "listed"  -> r.rc = 0 /\ r.o \in ListedTexts(e, r.f)

(* pairs: r.b is the data of a message of two fields, the first field's definition is r.ft/r.fl/r.fd and takes r.fn *)
(* bytes, the probe field's definition is r.t/r.l/r.d; (r.rc, r.o) is the result of decoding both through one field  *)
(* set into one output stream (r.f = 5 text, 6 JSON); (r.frc, r.fo) and (r.prc, r.po) are the results of decoding   *)
(* each field alone.  What a field is decoded to must not depend on the field before it: each field alone conforms  *)
(* to Codec, and the message text is composed of exactly these two texts.                                           *)
IsPair(r) == r.f \in {5, 6}
FirstRec(r) == [t |-> r.ft, l |-> r.fl, d |-> r.fd, v |-> 0, m |-> 1, f |-> r.f - 5, b |-> SubSeq(r.b, 1, r.fn), rc |-> r.frc, o |-> r.fo]
ProbeRec(r) == [t |-> r.t, l |-> r.l, d |-> r.d, v |-> r.v, m |-> r.m, f |-> r.f - 5, b |-> SubSeq(r.b, r.fn + 1, Len(r.b)), rc |-> r.prc, o |-> r.po]
EndsWith(o, x) == Len(o) >= Len(x) /\ SubSeq(o, Len(o) - Len(x) + 1, Len(o)) = x
Infix(o, x) == \E j \in 0..(Len(o) - Len(x)) : SubSeq(o, j + 1, j + Len(x)) = x
Composed(r) ==
  IF r.f = 5 THEN r.o = r.fo \o <<59>> \o r.po                                   \* first;probe
  ELSE EndsWith(r.o, r.po) /\ Infix(SubSeq(r.o, 1, Len(r.o) - Len(r.po)), r.fo)  \* JSON: both values, in this order
OkPair(r) == /\ OkOne(FirstRec(r)) /\ OkOne(ProbeRec(r))
             /\ IF r.frc = 0 /\ r.prc = 0 THEN r.rc = 0 /\ Composed(r) ELSE r.rc < 0
Ok(r) == IF IsPair(r) THEN OkPair(r) ELSE OkOne(r)

(* input class of a rejected record: names the specific defect classes found on the pinned tree, "-" otherwise *)
Class(r) ==
  LET T == Types[r.t]
      e == Expect(r)
      d == IF T.k = "num" THEN EffDiv(T.div, r.d) ELSE 1
      n == Len(r.b)
  IN CASE T.k = "day" /\ r.b[1] = 255 /\ r.b[2] # 255 -> "DAYLOFF"
       [] T.k = "day" /\ r.b[2] = 0 /\ r.b[1] < 59 -> "DAY1900"
       [] T.k = "min" /\ r.b[1] = 255 /\ r.b[2] # 255 -> "MINLOFF"
       [] T.k = "date" /\ r.rc = 0 /\ r.b[n] = 255 -> "YEARFF"
       [] T.k = "date" /\ r.rc = 0 /\ "BCD" \notin T.fl /\ r.b[n] \in 100..254 -> "HDAY100"
       [] T.k = "num" /\ ~HasList(r) /\ d # 1 /\ e.k = "val" /\ r.rc = 0 /\ "EXP" \notin T.fl ->
            LET m == NumMag(T, r.b) IN
            IF T.bits = 32 /\ d < 0 /\ ~m.neg /\ Len(m.ds) >= 6 THEN "MUL32"
            ELSE IF DsGE(m.ds, 1048576) THEN "F24"
            ELSE "-"
       [] OTHER -> "-"
(* kept short: TLC wraps printed values longer than a line; the driver looks the record up by its index *)
Sig(r) == IF IsPair(r) THEN <<Expect(ProbeRec(r)).k, IF OkOne(FirstRec(r)) /\ OkOne(ProbeRec(r)) THEN "PAIRCTX" ELSE "-">>
          ELSE <<Expect(r).k, Class(r)>>
Judge == recno = 0 \/ Ok(Recs[recno]) \/ ~PrintT(<<"VF", "BAD", recno, Sig(Recs[recno])>>)

-----------------------------------------------------------------------------
(* domain completeness: what the harness claims per family really is in the file *)
SameDef(h, r) == r.t = h.t /\ r.l = h.l /\ r.d = h.d /\ r.v = h.v /\ r.f = h.f /\ r.m = h.m
Val16(b) == b[1] + 256 * b[2]
FamOk(h) ==
  LET R == h.at..(h.at + h.n - 1)
      T == Types[h.t]
  IN /\ h.n > 0 /\ h.at >= 1 /\ h.at + h.n - 1 <= N
     /\ \A k \in R : SameDef(h, Recs[k])
     /\ Cardinality({Recs[k].b : k \in R}) = h.u          \* number of distinct patterns as counted by the harness
     /\ CASE h.dom = "all8"  -> {Recs[k].b[1] : k \in R} = 0..255 /\ \A k \in R : Len(Recs[k].b) = 1
          [] h.dom = "all16" -> {Val16(Recs[k].b) : k \in R} = 0..65535 /\ \A k \in R : Len(Recs[k].b) = 2
          [] h.dom = "min"   -> 0..1500 \subseteq {Val16(Recs[k].b) : k \in R}
          [] h.dom = "days"  -> LET ds == {DateOf(T, Recs[k].b) : k \in R} IN
                                (36524..73048) \subseteq {DaysFromCivil(c.y, c.m, c.d) : c \in {x \in ds : x.m \in 1..12 /\ x.d \in 1..31}}
          [] h.dom = "dtm"   -> LET zero == {Recs[k].b : k \in {j \in R : Recs[j].b[4] <= 2 /\ (Recs[j].b[1] + 256 * Recs[j].b[2] + 65536 * Recs[j].b[3] + 16777216 * Recs[j].b[4]) % 1440 = 0}} IN
                                (0..33236) \subseteq {(b[1] + 256 * b[2] + 65536 * b[3] + 16777216 * b[4]) \div 1440 : b \in zero}   \* every day 01.01.2009..31.12.2099 at 00:00
          [] h.dom = "alltimes" -> Cardinality({Recs[k].b : k \in R}) >= 86400 + 1
          [] OTHER -> TRUE
ASSUME \A k \in 1..Len(Fams) : FamOk(Fams[k]) \/ ~PrintT(<<"VF", "INCOMPLETE", Fams[k]>>)
ASSUME Cardinality({Fams[k].at : k \in 1..Len(Fams)}) = Len(Fams)
       /\ \A k \in 1..N : \E j \in 1..Len(Fams) : k >= Fams[j].at /\ k < Fams[j].at + Fams[j].n     \* every record belongs to a family

(* evidence: records for which the oracle leaves the outcome open (they are not counted as non-trivial) *)
MayBeOpen(r) == LET T == Types[r.t] IN ~IsPair(r) /\ (T.k \in {"date", "dtm", "ttm", "bits"} \/ (T.k = "num" /\ T.wide))
ASSUME PrintT(<<"VF", "OPEN", Cardinality({k \in 1..N : MayBeOpen(Recs[k]) /\ Expect(Recs[k]).k = "open"})>>)
=============================================================================
