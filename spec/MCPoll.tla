------------------------------- MODULE MCPoll -------------------------------
(* S of C17 with the P monitor attached, for model checking (MC_Poll*.cfg): S => P on the bounded   *)
(* model - the constants of WaitBound / PropBound are checked against the design here before they   *)
(* are applied to the code.                                                                         *)
EXTENDS Poll

CONSTANTS InitPrios,   \* e.g. <<1, 2, 3>>
          SetPrios,    \* priorities used by SetPollPriority, e.g. {1, 2, 3, 5}
          SetPrioMsgs, \* messages whose priority is changed (a victim whose priority is toggled: one message)
          Alphabet,    \* subset of {"next","tick","setprio","addback","addfront","conduse","readd"}
          K,           \* perturbation cap of the monitor
          ReAddPinned, \* TRUE: design before the repair of MessageMap::add (new instance keeps poll order 0)
          CapBase      \* cap of the absolute minimum in the normal form (0 unless "readd" is in the alphabet)
NMsg == Len(InitPrios)

VARIABLES st, mon, obs
View == <<Norm(st, CapBase), mon>>

Init == st = SInitF(InitPrios, ReAddPinned) /\ mon = [MonInit(NMsg) EXCEPT !.hi = MaxPrio(InitPrios), !.mx = InitPrios, !.lo = InitPrios] /\ obs = [k |-> "init", m |-> 0, a |-> 0, sel |-> 0]

DoNext == LET r == NextF(st) IN
          /\ r.sel # 0
          /\ st' = r.s /\ mon' = MonSelect(mon, r.sel, r.s.prio, K) /\ obs' = [k |-> "next", m |-> 0, a |-> 0, sel |-> r.sel]
DoTick == st' = TickF(st, 1) /\ mon' = mon /\ obs' = [k |-> "tick", m |-> 0, a |-> 1, sel |-> 0]
Perturb(kind, m, a, s2) ==
  /\ st' = s2
  /\ mon' = IF kind = "setprio" /\ a = st.prio[m] THEN mon ELSE MonPerturb(mon, kind, m, s2.prio, K)
  /\ obs' = [k |-> kind, m |-> m, a |-> a, sel |-> 0]
Next ==
  \/ "next" \in Alphabet /\ DoNext
  \/ "tick" \in Alphabet /\ DoTick
  \/ "setprio" \in Alphabet /\ \E m \in SetPrioMsgs \cap 1..NMsg, p \in SetPrios : Perturb("setprio", m, p, SetPrioCallF(st, m, p))
  \/ "addback" \in Alphabet /\ \E m \in 1..NMsg : Perturb("addback", m, 0, AddPollF(st, FALSE, m))
  \/ "addfront" \in Alphabet /\ \E m \in 1..NMsg : Perturb("addfront", m, 0, AddPollF(st, TRUE, m))
  \/ "conduse" \in Alphabet /\ \E m \in 1..NMsg : Perturb("conduse", m, 0, CondUseF(st, m))
  \/ "reload" \in Alphabet /\ st' = ReloadF(st, InitPrios, ReAddPinned) /\ mon' = MonReload(mon, st'.prio)
                           /\ obs' = [k |-> "reload", m |-> 0, a |-> 0, sel |-> 0]
  \/ "replace" \in Alphabet /\ \E m \in SetPrioMsgs \cap 1..NMsg, p \in SetPrios : Perturb("replace", m, p, ReAddF(st, m, p, ReAddPinned))
  \/ "readd" \in Alphabet /\ \E m \in 1..NMsg : Perturb("readd", m, 0, ReAddF(st, m, InitPrios[m], ReAddPinned))

(* S => P *)
PWait == WaitOk(mon, st.prio, K)
PProp == PropOk(mon, st.prio)
(* abstract vs. concrete layer: the vector's first element is an arg-min.  Holds on {next, tick};     *)
(* TLC refutes it once keys change in place or elements are erased from the middle (design note).     *)
TopIsArgMin == Len(st.vec) = 0 \/ st.vec[1] \in AbsTop(st)
(* the queue holds exactly the messages with a priority, once *)
QueueIsPollSet == {st.vec[i] : i \in 1..Len(st.vec)} = Active(st.prio) /\ Len(st.vec) = Cardinality(Active(st.prio))
(* bound of the exploration when "readd" is in the alphabet (absolute orders matter then) *)
GConstraint == st.g <= CapBase + 8

(* values for the configuration files (TLC configuration files cannot write tuples) *)
P12 == <<1, 2>>
P112 == <<1, 1, 2>>
P123 == <<1, 2, 3>>
P135 == <<1, 3, 5>>
P1235 == <<1, 2, 3, 5>>
P5321 == <<5, 3, 2, 1>>
AlphaNT == {"next", "tick"}
AlphaPert == {"next", "tick", "setprio", "addback", "addfront", "conduse"}
AlphaPertNoTick == {"next", "setprio", "addback", "addfront"}
AlphaPertCond == {"next", "setprio", "addback", "addfront", "conduse"}
AlphaReAdd == {"next", "readd"}
AlphaReplace == {"next", "replace", "setprio", "addfront"}
AlphaReload == {"next", "reload", "setprio", "addfront"}
AlphaSelf == {"next", "setprio"}
P238 == <<2, 3, 8>>
P18 == <<1, 8>>
AlphaReAddAll == {"next", "readd", "setprio", "addfront"}
=============================================================================
