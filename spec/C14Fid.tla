------------------------------ MODULE C14Fid ------------------------------
(* Fidelity of the S model (DeviceEnhanced, part S) against the REAL EnhancedDevice: every extracted edge    *)
(* (pre-state, input) -> (events, post-state) must be exactly the step the S operators take.  A mismatch is    *)
(* model drift (reported as DRIFT, never as a violation): the verdict of C14 comes from P on G alone.          *)
EXTENDS DeviceEnhanced, Json

G == ndJsonDeserialize(IOEnv.VF_RECS)
N == Len(G)
K == 256

Dev(st) == [am |-> st.am, ac |-> st.ac, rr |-> (st.rr = 1), rt |-> st.rt, xf |-> st.xf, il |-> st.il, ip |-> st.ip]
Tr(st)  == [buf |-> st.buf, wire |-> st.wire, valid |-> (st.valid = 1)]

SStep(st, op) ==
  LET d == Dev(st)  t == Tr(st)  k == op[1]  a == op[2] IN
  CASE k = "A"    -> [d |-> d, t |-> [t EXCEPT !.wire = Append(@, a)], ev |-> <<<<"arr", a>>>>, cont |-> (st.cont = 1)]
    [] k = "R"    -> EnhRecvF(d, t, IF st.cont = 1 THEN 0 ELSE 10)
    [] k = "SA"   -> [EnhStartF(d, t, a) EXCEPT !.cont = (st.cont = 1)]      \* only recv / open change "cont"
    [] k = "S"    -> [EnhSendF(d, t, a) EXCEPT !.cont = (st.cont = 1)]
    [] k = "I"    -> [EnhInfoF(d, t, a) EXCEPT !.cont = (st.cont = 1)]
    [] k = "OPEN" -> EnhOpenF(d, t)
    [] k = "CLK"  -> [d |-> [d EXCEPT !.rt = 1], t |-> t, ev |-> <<<<"clk", 5>>>>, cont |-> (st.cont = 1)]

EdgeOk(n, j) ==
  LET e == G[n].succ[j] IN
  e.op[1] = "T" \/
  LET s == SStep(G[n].st, e.op)  post == G[e.to].st IN
  /\ s.ev = e.ev
  /\ s.d = Dev(post) /\ s.t = Tr(post) /\ s.cont = (post.cont = 1)

NodeOk(n) == \A j \in 1..Len(G[n].succ) : EdgeOk(n, j)
BadEdge(n) == LET js == {j \in 1..Len(G[n].succ) : ~EdgeOk(n, j)} IN G[n].succ[CHOOSE j \in js : TRUE].in

VARIABLE fblk
Init == fblk = 0
Next == \/ /\ fblk = 0 /\ fblk' \in {1 + K * s : s \in 0..((N - 1) \div K)}
        \/ /\ fblk > 0 /\ fblk % K # 0 /\ fblk < N /\ fblk' = fblk + 1
Judge == fblk = 0 \/ NodeOk(fblk) \/ ~PrintT(<<"VF", "BAD", fblk, BadEdge(fblk)>>)
=============================================================================
