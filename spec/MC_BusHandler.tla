------------------------------ MODULE MC_BusHandler ------------------------------
(* S => P for the request side of BusHandler: TLC explores the code-shaped model S of BusHandler.tla exhaustively on   *)
(* small constants (two pollable messages, one of them chained with two parts; two scan slaves; an additional scan      *)
(* message; faults at every step: error result, lost arbitration with retry, signal loss with drain of the queue; a     *)
(* client in scanAndWait) and runs the P monitors on the events S emits.  No code is involved: the result cannot change *)
(* with /repo; it shows the DESIGN satisfies P (repaired variant), that the pinned design does not (FIXED = FALSE is    *)
(* rejected with the signature the real code gets), and that P rejects seeded design errors (VF_MUT: vacuity guard).     *)
EXTENDS BusHandler

Env(k, d) == IF k \in DOMAIN IOEnv THEN IOEnv[k] ELSE d
C_SLAVES == IF Env("VF_SLAVES", "2") = "1" THEN <<8>> ELSE <<8, 21>>
C_POLLS == IF Env("VF_POLLS", "2") = "0" THEN <<>> ELSE IF Env("VF_POLLS", "2") = "1" THEN <<1008>> ELSE <<1008, 2008>>
C_HASX == Env("VF_HASX", "1") = "1"
C_FIXED == Env("VF_FIXED", "1") = "1"
C_MUT == Env("VF_MUT", "")
C_WAIT == IF Env("VF_WAIT", "1") = "1" THEN 8 ELSE 0
C_SCAN == Env("VF_SCAN", "1") = "1"
OUTS == {"ok", "ok1", "err", "lost", "loss", "idle"}

VARIABLES s, mon
vars == <<s, mon>>

Init == s = SInit /\ mon = PInit
Do(o) == s' = o.s /\ mon' = PFold(mon, o.evs, 1) /\ (Env("VF_DEBUG", "") = "" \/ PrintT(o.evs))
Live == Cardinality({r \in RIDS : s.req[r].k # "none"})
Next == \/ \E out \in OUTS : Do(SCycle(s, out))
        \/ C_SCAN /\ Live < 3 /\ Do(SStartScan(s))
        \/ C_WAIT # 0 /\ s.waiter = 0 /\ Live < 3 /\ Do(SScanAndWait(s, C_WAIT))

MonOk == mon.bad = "" \/ ~PrintT(<<"VF", "MON", mon.bad>>)
(* S-level lemmas (about the model's own variables) *)
RunningIsPending == s.run = Cardinality({r \in RIDS : s.req[r].k = "scan" /\ (SeqHas(s.q, r))})
QueuesDisjoint == \A r \in RIDS : ~(SeqHas(s.q, r) /\ SeqHas(s.fq, r))
QueuedIsLive == \A i \in 1..Len(s.q) : s.req[s.q[i]].k # "none"
=============================================================================
