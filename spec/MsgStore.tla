------------------------------- MODULE MsgStore -------------------------------
(* C09 - building, storing and decoding a message agree, incl. chained messages. *)
(*                                                                              *)
(* P  Eff / Build / Parts / Join / DecodeText / MustReject and the part-arrival  *)
(*    monitor (MonStore...), written from the property text, the CSV format      *)
(*    documentation (defaults, templates, ZZ lists, chained "id:len;id:len")     *)
(*    and the eBUS telegram layout QQ ZZ PB SB NN DD..                           *)
(* S  the chained cache of ChainedMessage (per-part master/slave data and        *)
(*    update times, combineLastParts) as a state machine; MC_MsgStore.cfg lets   *)
(*    TLC explore all arrival orders / gaps and check S => P.                    *)
(* Field types are restricted to UCH, HEX:n, IGN:n (codec questions: C05-C07).   *)
EXTENDS EbusSymbols, Integers, TLC, FiniteSets

ANY == SYN
MaxPos == 24            \* ebusd: "the maximum allowed position within master or slave data"
PartWindow == 15        \* seconds per part within which the parts of a chain belong together

(* ---------------------------- sequences ---------------------------------- *)
RECURSIVE Concat(_)
Concat(ss) == IF ss = <<>> THEN <<>> ELSE Head(ss) \o Concat(Tail(ss))
RECURSIVE SumSeq(_)
SumSeq(s) == IF s = <<>> THEN 0 ELSE Head(s) + SumSeq(Tail(s))
RECURSIVE JoinWith(_, _)
JoinWith(ss, sep) == IF ss = <<>> THEN <<>> ELSE IF Len(ss) = 1 THEN ss[1] ELSE ss[1] \o sep \o JoinWith(Tail(ss), sep)
Sel(s, T(_)) == SelectSeq(s, T)

(* ------------------------- effective definition ------------------------- *)
(* def = [dir, zzs, pbsb, chain : Seq([id, len]), fields : Seq([part, ty, n, tpl]),                 *)
(*        dfl : [on, zz, pbsb, idp]]   (dfl = a "*r"/"*w" defaults line in front of the definition) *)
EffPbsb(d) == IF d.pbsb # <<>> THEN d.pbsb ELSE d.dfl.pbsb
EffIdp(d)  == IF d.pbsb = <<>> /\ d.dfl.on = 1 THEN d.dfl.idp ELSE <<>>       \* ID prefix comes with the default PBSB
EffZzs(d)  == IF d.zzs # <<>> THEN d.zzs ELSE IF d.dfl.on = 1 /\ d.dfl.zz # ANY THEN <<d.dfl.zz>> ELSE <<>>
EffId(d, i) == EffIdp(d) \o d.chain[i].id
NParts(d)  == Len(d.chain)
IsChained(d) == NParts(d) > 1
MasterDst(d) == EffZzs(d) # <<>> /\ (EffZzs(d)[1] = BROADCAST \/ IsMaster(EffZzs(d)[1]))
FieldPart(d, f) == IF MasterDst(d) THEN "m" ELSE IF f.part # "" THEN f.part ELSE IF d.dir = "w" THEN "m" ELSE "s"
MFields(d) == SelectSeq(d.fields, LAMBDA f : FieldPart(d, f) = "m")
SFields(d) == SelectSeq(d.fields, LAMBDA f : FieldPart(d, f) = "s")
LenOf(fs) == SumSeq([k \in 1..Len(fs) |-> fs[k].n])
MLen(d) == LenOf(MFields(d))
SLen(d) == LenOf(SFields(d))

(* loading must reject a definition whose data exceeds the maximum *)
MustReject(d) ==
  IF ~IsChained(d) THEN Len(EffId(d, 1)) + MLen(d) > MaxPos \/ SLen(d) > MaxPos
  ELSE /\ \A i \in 1..NParts(d) : d.chain[i].len >= 0
       /\ (IF d.dir = "w" THEN MLen(d) ELSE SLen(d)) > SumSeq([i \in 1..NParts(d) |-> d.chain[i].len])

(* ------------------------------- build ---------------------------------- *)
(* mvals: one byte sequence per master field (IGN: content irrelevant); -1 in a pattern = any byte *)
EncField(f, v) == IF f.ty = "IGN" THEN [k \in 1..f.n |-> -1] ELSE v
MData(d, mvals) == Concat([k \in 1..Len(MFields(d)) |-> EncField(MFields(d)[k], mvals[k])])
Telegram(qq, zz, pbsb, dd) == <<qq, zz, pbsb[1], pbsb[2], Len(dd)>> \o dd
Build(d, qq, zz, mvals) == Telegram(qq, zz, EffPbsb(d), EffId(d, 1) \o MData(d, mvals))
Matches(pattern, actual) == Len(pattern) = Len(actual) /\ \A k \in 1..Len(pattern) : pattern[k] = -1 \/ pattern[k] = actual[k]

(* chained: offsets of the parts within the unsplit master data (write) *)
PartOffset(d, i) == SumSeq([k \in 1..(i - 1) |-> d.chain[k].len])
(* Defined for explicit lengths only: what an omitted length means for a chained WRITE is not defined anywhere, *)
(* so P says nothing about it (such definitions are not in the generated domain; ExplicitWriteLens guards it).  *)
ExplicitWriteLens(d) == d.dir = "w" => \A i \in 1..NParts(d) : d.chain[i].len >= 0
PartPayload(d, i, md) ==
  IF d.dir = "r" THEN <<>>
  ELSE LET off == PartOffset(d, i) IN SubSeq(md, off + 1, off + d.chain[i].len)
BuildPart(d, i, qq, zz, mvals) == Telegram(qq, zz, EffPbsb(d), EffId(d, i) \o PartPayload(d, i, MData(d, mvals)))

(* ------------------------------- decode --------------------------------- *)
Digits(n) == IF n >= 100 THEN <<48 + (n \div 100), 48 + ((n \div 10) % 10), 48 + (n % 10)>>
             ELSE IF n >= 10 THEN <<48 + (n \div 10), 48 + (n % 10)>> ELSE <<48 + n>>
HexDigit(x) == IF x < 10 THEN 48 + x ELSE 87 + x
HexByte(b) == <<HexDigit(b \div 16), HexDigit(b % 16)>>
FieldText(f, bytes) == IF f.ty = "UCH" THEN (IF bytes[1] = 255 THEN <<45>> ELSE Digits(bytes[1]))
                       ELSE JoinWith([k \in 1..Len(bytes) |-> HexByte(bytes[k])], <<32>>)
RECURSIVE FieldTexts(_, _, _)
FieldTexts(fs, data, off) ==        \* texts of the non-ignored fields of one part
  IF fs = <<>> THEN <<>>
  ELSE LET f == Head(fs) IN
       (IF f.ty = "IGN" THEN <<>> ELSE <<FieldText(f, SubSeq(data, off + 1, off + f.n))>>)
       \o FieldTexts(Tail(fs), data, off + f.n)
(* md = master data after the ID, sd = slave data; defined iff both have the declared length *)
Decodable(d, md, sd) == Len(md) >= MLen(d) /\ Len(sd) >= SLen(d)
DecodeText(d, md, sd) == JoinWith(FieldTexts(MFields(d), md, 0) \o FieldTexts(SFields(d), sd, 0), <<59>>)
HasValues(d) == \E k \in 1..Len(d.fields) : d.fields[k].ty # "IGN"

(* --------------- selecting single fields (decodeLastData with name and/or index) --------------- *)
(* documented: "fieldName the optional name of a field to limit the output to; fieldIndex the      *)
(* optional index of the field to limit the output to (either named or overall), or -1".           *)
(* A field without an explicit name (nm = "") is called f<k>, k = its position in the definition.  *)
NameOf(d, k) == IF d.fields[k].nm = "" THEN "f" \o ToString(k) ELSE d.fields[k].nm
NamedFields(d) == [k \in 1..Len(d.fields) |-> [d.fields[k] EXCEPT !.nm = NameOf(d, k)]]
RECURSIVE NamedTexts(_, _, _)
NamedTexts(fs, data, off) ==        \* <<name, text>> of the non-ignored fields of one part
  IF fs = <<>> THEN <<>>
  ELSE LET f == Head(fs) IN
       (IF f.ty = "IGN" THEN <<>> ELSE <<<<f.nm, FieldText(f, SubSeq(data, off + 1, off + f.n))>>>>)
       \o NamedTexts(Tail(fs), data, off + f.n)
AllNamedTexts(d, md, sd) ==         \* in the order of the whole-message decode: master part, then slave part
  LET nf == NamedFields(d) IN
  NamedTexts(SelectSeq(nf, LAMBDA f : FieldPart(d, f) = "m"), md, 0) \o NamedTexts(SelectSeq(nf, LAMBDA f : FieldPart(d, f) = "s"), sd, 0)
NotFoundText == <<-1>>
(* name = "-" : no name given; idx = -1 : no index given *)
SelectText(d, md, sd, name, idx) ==
  LET all == AllNamedTexts(d, md, sd)
      sel == IF name = "-" THEN all ELSE SelectSeq(all, LAMBDA p : p[1] = name)
  IN IF idx < 0 THEN (IF sel = <<>> THEN NotFoundText ELSE JoinWith([k \in 1..Len(sel) |-> sel[k][2]], <<59>>))
     ELSE IF idx < Len(sel) THEN sel[idx + 1][2] ELSE NotFoundText
(* all selections worth asking for a definition: every name alone, every name with every index up to one past the *)
(* last, every overall index up to one past the last, and a name that does not exist                               *)
Selections(d) ==
  LET names == {NameOf(d, k) : k \in {x \in 1..Len(d.fields) : d.fields[x].ty # "IGN"}}
      cnt(nm) == Cardinality({k \in 1..Len(d.fields) : d.fields[k].ty # "IGN" /\ NameOf(d, k) = nm})
      total == Cardinality({k \in 1..Len(d.fields) : d.fields[k].ty # "IGN"})
  IN {<<nm, -1>> : nm \in names} \cup UNION {{<<nm, x>> : x \in 0..cnt(nm)} : nm \in names}
     \cup {<<"-", x>> : x \in 0..total} \cup {<<"nosuch", -1>>, <<"nosuch", 0>>}

(* --------------------- chained part-arrival monitor (P) ------------------ *)
(* part = [m, s : payload or <<-1>> (absent), tm, ts : arrival time or 0]     *)
Absent == <<-1>>
NoPart == [m |-> Absent, s |-> Absent, tm |-> 0, ts |-> 0]
MonInit(n) == [parts |-> [i \in 1..n |-> NoPart], fresh |-> [i \in 1..n |-> FALSE]]
AllPresent(ps) == \A i \in 1..Len(ps) : ps[i].tm > 0 /\ ps[i].ts > 0
Times(ps) == {ps[i].tm : i \in 1..Len(ps)} \cup {ps[i].ts : i \in 1..Len(ps)}
SetMax(S) == CHOOSE x \in S : \A y \in S : y <= x
SetMin(S) == CHOOSE x \in S : \A y \in S : x <= y
InWindow(ps) == AllPresent(ps) /\ SetMax(Times(ps)) - SetMin(Times(ps)) <= PartWindow * Len(ps)
JoinM(ps) == Concat([i \in 1..Len(ps) |-> ps[i].m])
JoinS(ps) == Concat([i \in 1..Len(ps) |-> ps[i].s])
(* monitor steps: a telegram of part i seen on the bus / part i built for sending / answer to part i *)
MonSeen(mon, i, m, s, now) ==
  [mon EXCEPT !.parts[i] = [m |-> m, s |-> s, tm |-> now, ts |-> now], !.fresh[i] = TRUE]
MonBuilt(mon, i, m, now) ==
  [parts |-> [mon.parts EXCEPT ![i].m = m, ![i].tm = now],
   fresh |-> IF i = 1 THEN [k \in 1..Len(mon.parts) |-> FALSE] ELSE mon.fresh]     \* building part 1 starts a new round
MonAnswer(mon, i, s, now) ==
  [mon EXCEPT !.parts[i].s = s, !.parts[i].ts = now, !.fresh[i] = TRUE]
(* what the combined value may be after a step, given what it was before (comb = <<md, sd>> or <<>> for none): *)
(*   never a combination unless all parts are there and within the window; then only the join in definition order; *)
(*   the join is required when every part arrived in the current round (always, for telegrams seen on the bus)     *)
MonAllowed(mon, comb, mustJoinIfComplete) ==
  IF ~InWindow(mon.parts) THEN {comb}
  ELSE IF mustJoinIfComplete /\ \A i \in 1..Len(mon.parts) : mon.fresh[i] THEN {<<JoinM(mon.parts), JoinS(mon.parts)>>}
  ELSE {comb, <<JoinM(mon.parts), JoinS(mon.parts)>>}

(* ----------------------- S: ChainedMessage cache -------------------------- *)
(* st = [md, sd : per-part payloads, tm, ts : per-part update times, comb]      *)
SInit(n) == [md |-> [i \in 1..n |-> Absent], sd |-> [i \in 1..n |-> Absent], tm |-> [i \in 1..n |-> 0],
             ts |-> [i \in 1..n |-> 0], comb |-> <<>>]
(* combineLastParts: running min/max over master and slave times, early exit inside the loop *)
RECURSIVE SCombineOk(_, _, _, _)
SCombineOk(st, i, mn, mx) ==
  IF i > Len(st.tm) THEN TRUE
  ELSE LET mn1 == IF i = 1 THEN st.tm[1] ELSE IF st.tm[i] < mn THEN st.tm[i] ELSE mn
           mx1 == IF i = 1 THEN st.tm[1] ELSE IF st.tm[i] > mx THEN st.tm[i] ELSE mx
           mn2 == IF st.ts[i] < mn1 THEN st.ts[i] ELSE mn1
           mx2 == IF st.ts[i] > mx1 THEN st.ts[i] ELSE mx1
       IN IF mn2 = 0 \/ mx2 = 0 \/ mx2 - mn2 > PartWindow * Len(st.tm) THEN FALSE
          ELSE SCombineOk(st, i + 1, mn2, mx2)
Payload(x) == IF x = Absent THEN <<>> ELSE x
SCombine(st) ==
  IF SCombineOk(st, 1, 0, 0)
  THEN [st EXCEPT !.comb = <<Concat([i \in 1..Len(st.md) |-> Payload(st.md[i])]),
                             Concat([i \in 1..Len(st.sd) |-> Payload(st.sd[i])])>>]
  ELSE st
SStoreMaster(st, i, m, now) == SCombine([st EXCEPT !.md[i] = m, !.tm[i] = now])
SStoreSlave(st, i, s, now)  == SCombine([st EXCEPT !.sd[i] = s, !.ts[i] = now])
SSeen(st, i, m, s, now) == SStoreSlave(SStoreMaster(st, i, m, now), i, s, now)      \* storeLastData(master, slave)
SBuilt(st, i, m, now) ==                                                            \* prepareMaster(i): reset + store master
  SStoreMaster(IF i = 1 THEN [st EXCEPT !.tm[1] = 0, !.ts[1] = 0] ELSE st, i, m, now)   \* (only part 1's times are reset)
SAnswer(st, i, s, now) == SStoreSlave(st, i, s, now)

=============================================================================
