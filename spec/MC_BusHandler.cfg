INIT Init
NEXT Next
INVARIANT MonOk
INVARIANT QueuesDisjoint
INVARIANT QueuedIsLive
CONSTANTS
  SLAVES <- C_SLAVES
  POLLS <- C_POLLS
  HASX <- C_HASX
  BUSLOST = 1
  FIXED <- C_FIXED
  MUT <- C_MUT
  WAITADDR <- C_WAIT
