------------------------------ MODULE ConfigLoadJudge ------------------------------
(* Judges the records harness/cfg_load.cpp wrote from the real DataFieldTemplates / MessageMap against ConfigLoad:   *)
(*   templates   accepted with exactly the table LoadTemplates gives / rejected at the line it names                 *)
(*   messages    accepted with exactly the messages LoadMessages gives / rejected at the line it names               *)
(*   round trip  (C19) what was loaded dumps to a text that reloads - without templates and defaults - to the same   *)
(*               messages (the access level is not part of the dump format) and dumps to the same text again          *)
(* VF_FAMILY: all (complete domain in one file) | shard (part of the domain) | replay (any file).                     *)
EXTENDS ConfigLoadDomain, TLC, Json, IOUtils

Thorough == IOEnv.VF_TIER = "thorough"
Family == IOEnv.VF_FAMILY
Recs == ndJsonDeserialize(IOEnv.VF_RECS)
N == Len(Recs)
K == 32
VARIABLE cl_pos
Init == cl_pos = 0
Next == \/ /\ cl_pos = 0 /\ cl_pos' \in {1 + K * s : s \in 0..((N - 1) \div K)}
        \/ /\ cl_pos > 0 /\ (cl_pos % K) # 0 /\ cl_pos < N /\ cl_pos' = cl_pos + 1

(* the divisor of a value list or constant field is no observable *)
NormF(f) == IF f.kind = 1 THEN f ELSE [f EXCEPT !.div = 0]
NormFs(fs) == [k \in 1..Len(fs) |-> NormF(fs[k])]
NormM(m) == [m EXCEPT !.fields = NormFs(m.fields)]
NoLevel(m) == [m EXCEPT !.level = <<>>]
MsgSet(ms) == {NormM(ms[k]) : k \in 1..Len(ms)}
RecT(r) == [j \in 1..Len(r.T) |-> <<r.T[j].key, r.T[j].fields>>]
TplSet(T) == {<<T[j][1], NormFs(T[j][2])>> : j \in 1..Len(T)}
SetFlagsOk(r) == \A j \in 1..Len(r.T) : r.T[j].set = (IF Len(r.T[j].fields) = 1 THEN 0 ELSE 1)

OKV == <<"ok", 0>>
RoundTrip(r) ==
  IF r.did # 2 THEN OKV
  ELSE IF r.rc2 # 0 THEN <<"RT-reload-rejected", 0>>
  ELSE IF Len(r.M2) # Len(r.M) \/ {NoLevel(x) : x \in MsgSet(r.M2)} # {NoLevel(x) : x \in MsgSet(r.M)} THEN <<"RT-differs", 0>>
  ELSE IF r.d2 # r.d1 THEN <<"RT-dump", 0>>
  ELSE OKV

Messages(r, T, wasOpen) ==
  LET ml == LoadMessages(r.msg, T)
      rt == RoundTrip(r)
  IN
  IF r.did = 0 \/ (r.mrc = 0) # (r.did = 2) \/ r.n # Len(r.M) THEN <<"harness", 0>>
  ELSE IF ml.kind = "ok" /\ r.mrc # 0 THEN <<"M-rejected", r.mln>>
  ELSE IF ml.kind = "ok" /\ (Len(r.M) # Len(ml.msgs) \/ MsgSet(r.M) # MsgSet(ml.msgs)) THEN <<"M-differs", Len(r.M)>>
  ELSE IF ml.kind = "rej" /\ r.mrc = 0 THEN <<"M-accepted", ml.line>>
  ELSE IF ml.kind = "rej" /\ r.mln # ml.line THEN <<"M-line", ml.line>>
  ELSE IF ml.kind = "open" /\ r.mrc # 0 /\ r.mln < ml.line THEN <<"M-early", r.mln>>
  ELSE IF rt # OKV THEN rt
  ELSE IF ml.kind = "open" THEN <<"open", ml.line>>
  ELSE IF wasOpen THEN <<"open", 0>>
  ELSE OKV

Verdict(r) ==
  LET tl == LoadTemplates(r.tpl) IN
  IF tl.kind = "ok" /\ r.trc # 0 THEN <<"T-rejected", r.tln>>
  ELSE IF tl.kind = "ok" /\ (Len(r.T) # Len(tl.T) \/ TplSet(RecT(r)) # TplSet(tl.T) \/ ~SetFlagsOk(r)) THEN <<"T-differs", Len(r.T)>>
  ELSE IF tl.kind = "rej" /\ r.trc = 0 THEN <<"T-accepted", tl.line>>
  ELSE IF tl.kind = "rej" /\ r.tln # tl.line THEN <<"T-line", tl.line>>
  ELSE IF tl.kind = "open" /\ r.trc # 0 /\ r.tln < tl.line THEN <<"T-early", r.tln>>
  ELSE IF r.trc # 0 THEN (IF r.did # 0 THEN <<"harness", 1>> ELSE IF tl.kind = "open" THEN <<"open", 0 - tl.line>> ELSE OKV)
  ELSE Messages(r, IF tl.kind = "ok" THEN tl.T ELSE RecT(r), tl.kind = "open")   \* an open template file that was accepted:
                                                                                  \* the messages are judged against the actual table

Judge == cl_pos = 0 \/ LET v == Verdict(Recs[cl_pos]) IN
                       \/ v = OKV
                       \/ v[1] = "open" /\ PrintT(<<"VF", "OPEN", cl_pos, v[2]>>)
                       \/ ~PrintT(<<"VF", "BAD", cl_pos, v>>)

Dom == IF Family \in {"all", "shard"} THEN Files(Thorough) ELSE {}
ASSUME Family = "all" => {<<Recs[k].tpl, Recs[k].msg>> : k \in 1..N} = Dom
ASSUME Family = "shard" => \A k \in 1..N : <<Recs[k].tpl, Recs[k].msg>> \in Dom
ASSUME Family \in {"all", "shard"} => Cardinality({<<Recs[k].tpl, Recs[k].msg>> : k \in 1..N}) = N
ASSUME PrintT(<<"VF", "DOMAIN", Family, N>>)
=============================================================================
