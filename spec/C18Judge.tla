------------------------------ MODULE C18Judge ------------------------------
(* Judges the records harness/c18_reqparse.cpp wrote from the real code against ReqParse.      *)
(* One family of records per run (VF_FAMILY): tcp | httptok | httprand | httpchar | tpl.       *)
EXTENDS ReqParse, TLC, Json, IOUtils

Thorough == IOEnv.VF_TIER = "thorough"
Family == IOEnv.VF_FAMILY
Recs == ndJsonDeserialize(IOEnv.VF_RECS)
N == Len(Recs)
K == 64
VARIABLE i
Init == i = 0
Next == \/ /\ i = 0 /\ i' \in {1 + K * s : s \in 0..((N - 1) \div K)}
        \/ /\ i > 0 /\ i % K # 0 /\ i < N /\ i' = i + 1

TokN == 4
CharN == IF Thorough THEN 6 ELSE 5
TplN == 5

(* ---- tcp: first line (index) of the record that was not split into the encoded arguments, 0 if none *)
TcpBad(r) == LET B == {k \in 1..Len(r.lines) : r.outs[k] # r.args \/ RefSplit(r.lines[k]) # [ok |-> TRUE, args |-> r.args]}
             IN IF B = {} THEN 0 ELSE CHOOSE k \in B : \A j \in B : k <= j
TcpOk(r) == /\ Len(r.outs) = Len(r.lines)
            /\ IF Family = "replay" THEN ToSet(r.lines) \subseteq ClientEncode(r.args, AllSeps \cup {<<2, 1, 0>>})
               ELSE ToSet(r.lines) = TcpLines(r.args, Thorough)   \* exactly the encodings of the specification
            /\ TcpBad(r) = 0

HttpV(r) == IF r.cpl # 1 THEN "request-not-complete" ELSE HttpVerdict(r.u, r.na >= 2, r.p, r.na >= 3, r.q, r.st, r.body)

(* ---- tpl: verdicts of all observations of one template *)
TplVerdicts(r) ==
  LET t == r.parts
      exact == {1, 2} \subseteq VarsOf(t)            \* otherwise ebusd appends /%circuit and /%name itself
  IN UNION {{TopicVerdict(t, r.res[j].x, r.res[j].td, Tail(r.res[j].md[s]), exact) : s \in 1..Len(r.res[j].md)}
            \cup {TopicVerdict(t, r.res[j].x, r.res[j].tn, Tail(r.res[j].mn[s]), TRUE) : s \in 1..Len(r.res[j].mn)}
            : j \in 1..Len(r.res)}
TplOk(r) == /\ Matchable(r.parts) /\ r.text \in {Render(r.parts, TRUE), Render(r.parts, FALSE)}
            /\ r.pok = 1                                           \* a matchable template must be accepted
            /\ {r.res[j].x : j \in 1..Len(r.res)} = Triples
            /\ \A j \in 1..Len(r.res) : Len(r.res[j].md) \in 1..3 /\ Len(r.res[j].mn) \in 1..3   \* get / set / list
            /\ TplVerdicts(r) = {"ok"}

Ok(r) == CASE r.k = "tcp" -> TcpOk(r)
           [] r.k = "http" -> HttpV(r) = "ok"
           [] r.k = "tpl" -> TplOk(r)
           [] OTHER -> FALSE
Sig(r) == CASE r.k = "tcp" -> <<"tcp", TcpBad(r)>>
            [] r.k = "http" -> <<"http", HttpV(r)>>
            [] r.k = "tpl" -> <<"tpl", IF r.pok # 1 THEN {"template-rejected"} ELSE TplVerdicts(r) \ {"ok"}>>
            [] OTHER -> <<"unknown">>
(* httpchar: the harness enumerates all URIs in a fixed order (length, then little-endian base 8 over UriSeq); *)
(* record number j must hold exactly the j-th URI, so nothing can be missing or duplicated                    *)
UriSeq == <<PCT, c2, ce, cf, SL, DOT, ca, QM>>
RECURSIVE LenOfIndex(_, _)
LenOfIndex(j, l) == IF j <= UriCount(l) THEN l ELSE LenOfIndex(j, l + 1)
NthUri(j) == LET l == LenOfIndex(j, 0)
                 v == j - 1 - (IF l = 0 THEN 0 ELSE UriCount(l - 1))
             IN [d \in 1..l |-> UriSeq[((v \div Pow(8, d - 1)) % 8) + 1]]
InOrder(j) == Family # "httpchar" \/ Recs[j].u = NthUri(j)

Judge == i = 0 \/ (Ok(Recs[i]) /\ InOrder(i)) \/ ~PrintT(<<"VF", "BAD", i, IF InOrder(i) THEN Sig(Recs[i]) ELSE <<"enumeration-order">>>>)

(* domain completeness: what was judged is the whole domain the specification defines *)
ASSUME Family = "tcp" => {Recs[k].args : k \in 1..N} = TcpLists(Thorough)
ASSUME Family = "httptok" => {Recs[k].u : k \in 1..N} = TokenUris(TokN, TRUE)
ASSUME Family = "httprand" => \A k \in 1..N : Recs[k].u # <<>> /\ Recs[k].u[1] = SL         \* seeded random longer URIs: a sample
ASSUME Family = "httpchar" => N = UriCount(CharN) /\ ToSet(UriSeq) = UriAlpha       \* with InOrder: exactly UrisUpTo(CharN)
ASSUME Family = "tpl" => {<<Recs[k].parts, Recs[k].text>> : k \in 1..N} = {<<t, Render(t, b)>> : t \in Templates(TplN), b \in BOOLEAN}
ASSUME PrintT(<<"VF", "DOMAIN", Family, N>>)
=============================================================================
