CONSTANTS Variant = "tcpmerge" Bug = "none"
SPECIFICATION FairSpec
INVARIANT McOk
INVARIANT McNoDangle
