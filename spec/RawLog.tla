------------------------------ MODULE RawLog ------------------------------
(* The raw traffic log ("--lograwdata"): P = what a reader of the log may rely on, S = the line buffer automaton of       *)
(* ProtocolHandler::notifyDeviceData.  Growth of the specification: no listed property is about it.                       *)
(*                                                                                                                        *)
(* Sources: main_args.cpp "--lograwdata[=bytes]  Log messages or all received/sent bytes on the bus"; ChangeLog "raw      *)
(* logging allows logging of messages or each sent/received byte defaulting to messages"; protocol.cpp, comments of       *)
(* notifyDeviceData: "skip received echo of previously sent symbol", "flush: direction+5 hdr+24 max data+crc+direction+   *)
(* ack+1"; protocol.h: m_logRawLastReceived "true when the last byte in m_logRawBuffer was receive, false if it was       *)
(* sent", m_logRawLastSymbol "the last sent/received symbol".                                                             *)
(*                                                                                                                        *)
(* The text form: a line is   ["..."] ( "<" | ">" ) hh {hh} { ( ">" | "<" ) hh {hh} } ["..."]   with "<" for received,    *)
(* ">" for sent symbols, directions alternating, hh = two lower-case hex digits.  A line ends at a SYN, or - marked by    *)
(* "..." at its end and at the start of the next line - once it holds more than 64 characters.                            *)
(*                                                                                                                        *)
(* P (the decoding property): from the lines the sequence of (direction, symbol) events can be reconstructed exactly,     *)
(* except for SYN symbols - of which only "at least one SYN here" (a line break without continuation mark) remains - and  *)
(* except for the received echo of a sent symbol:   Decode(log) = Compress(events)   up to what still sits in the line     *)
(* buffer; everything in front of a SYN is in the log when the SYN has been handed over.                                  *)
(* An echo is the received symbol that directly follows a sent symbol of the same value; a sent symbol has one echo.      *)
(* Events are <<d, v>>, d = 1 received / 0 sent; tokens are events or SEP.                                                *)
EXTENDS Naturals, Integers, Sequences, FiniteSets

SYN == 170
LT == 60   GT == 62   DOT == 46   SPC == 32
SEP == <<2, 0>>
DOTS == <<DOT, DOT, DOT>>
HexD(n) == IF n < 10 THEN 48 + n ELSE 87 + n
Hex2(v) == <<HexD(v \div 16), HexD(v % 16)>>
HexVal(c) == IF c \in 48..57 THEN c - 48 ELSE IF c \in 97..102 THEN c - 87 ELSE 0 - 1
LastOf(s) == s[Len(s)]
PrefixOf(a, b) == Len(a) <= Len(b) /\ SubSeq(b, 1, Len(a)) = a

(***************************************************************************)
(* P                                                                        *)
(***************************************************************************)
(* rule "once": the documented echo.  rule "repeat": every further received symbol of that value counts as echo as well  *)
(* (what the pinned code does; kept as a second oracle so that other deviations stay visible)                             *)
RECURSIVE BackToSent(_, _, _)
BackToSent(ev, k, v) == IF k = 0 THEN FALSE                                        \* k: index in front of the candidate
                        ELSE IF ev[k] = <<0, v>> THEN TRUE
                        ELSE IF ev[k] = <<1, v>> THEN BackToSent(ev, k - 1, v)
                        ELSE FALSE
IsEcho(ev, k, rule) == /\ ev[k][1] = 1 /\ ev[k][2] # SYN
                       /\ IF rule = "once" THEN k > 1 /\ ev[k - 1] = <<0, ev[k][2]>>
                          ELSE BackToSent(ev, k - 1, ev[k][2])
RECURSIVE CompressA(_, _, _, _)
CompressA(ev, k, acc, rule) ==
  IF k > Len(ev) THEN acc
  ELSE IF ev[k][2] = SYN THEN CompressA(ev, k + 1, IF acc # <<>> /\ LastOf(acc) # SEP THEN Append(acc, SEP) ELSE acc, rule)
  ELSE IF IsEcho(ev, k, rule) THEN CompressA(ev, k + 1, acc, rule)
  ELSE CompressA(ev, k + 1, Append(acc, ev[k]), rule)
Compress(ev, rule) == CompressA(ev, 1, <<>>, rule)
Filter(ev, rule) == SelectSeq(Compress(ev, rule), LAMBDA t : t # SEP)

(* one line -> [ok, in (starts with "..."), toks, out (ends with "...")] *)
RECURSIVE DecodeFrom(_, _, _, _, _)
DecodeFrom(line, k, dir, fresh, acc) ==
  LET bad == [ok |-> FALSE, toks |-> <<>>, out |-> FALSE] IN
  IF k > Len(line) THEN (IF fresh THEN bad ELSE [ok |-> TRUE, toks |-> acc, out |-> FALSE])
  ELSE IF line[k] = DOT THEN (IF ~fresh /\ SubSeq(line, k, Len(line)) = DOTS THEN [ok |-> TRUE, toks |-> acc, out |-> TRUE] ELSE bad)
  ELSE IF line[k] \in {LT, GT} THEN
    LET d == IF line[k] = LT THEN 1 ELSE 0 IN
    IF fresh \/ d = dir THEN bad ELSE DecodeFrom(line, k + 1, d, TRUE, acc)       \* directions alternate, no empty group
  ELSE IF dir \in {0, 1} /\ k + 1 <= Len(line) /\ HexVal(line[k]) >= 0 /\ HexVal(line[k + 1]) >= 0
    THEN DecodeFrom(line, k + 2, dir, FALSE, Append(acc, <<dir, HexVal(line[k]) * 16 + HexVal(line[k + 1])>>))
  ELSE bad
DecodeLine(line) ==
  LET in == Len(line) >= 3 /\ SubSeq(line, 1, 3) = DOTS
      r == DecodeFrom(line, IF in THEN 4 ELSE 1, 2, FALSE, <<>>)
  IN [ok |-> r.ok /\ r.toks # <<>>, in |-> in, toks |-> r.toks, out |-> r.out]

(* the whole log: a line break is a SEP unless the next line is marked as continuation; a continuation must follow a line  *)
(* that announced it; the last line is followed by a SEP when it was not cut                                              *)
RECURSIVE DecodeA(_, _, _, _)
DecodeA(lines, k, prevOut, acc) ==
  IF k > Len(lines) THEN [ok |-> TRUE, toks |-> IF Len(lines) > 0 /\ ~prevOut THEN Append(acc, SEP) ELSE acc]
  ELSE LET l == DecodeLine(lines[k]) IN
       IF ~l.ok \/ (l.in /\ (k = 1 \/ ~prevOut)) THEN [ok |-> FALSE, toks |-> acc]
       ELSE DecodeA(lines, k + 1, l.out, (IF k > 1 /\ ~l.in THEN Append(acc, SEP) ELSE acc) \o l.toks)
Decode(lines) == DecodeA(lines, 1, FALSE, <<>>)

(* the clauses of P for one prefix of the events and the log at that moment; flushAt = 64 *)
(*  wf     every line is well formed and the continuation marks pair up                                                   *)
(*  prefix what the log says happened, in this order (nothing invented, nothing reordered, nothing lost in the middle)    *)
(*  syn    after a SYN the log is complete (a SYN behind a cut line shows only when the next line starts)                 *)
(*  pend   the part not yet logged fits into one line buffer                                                              *)
(*  long   a line holds at most flushAt + 6 characters                                                                    *)
(*  cut    a line is cut (marked "...") only when it holds more than flushAt characters                                   *)
Clause(ev, lines, flushAt, rule) ==
  LET d == Decode(lines)
      c == Compress(ev, rule)
  IN IF ~d.ok THEN "wf"
     ELSE IF ~PrefixOf(d.toks, c) THEN "prefix"
     ELSE IF ev # <<>> /\ LastOf(ev)[2] = SYN /\ d.toks # c /\ Append(d.toks, SEP) # c THEN "syn"
     ELSE IF Len(c) - Len(d.toks) > (flushAt \div 2) + 1 THEN "pend"
     ELSE IF \E k \in 1..Len(lines) : Len(lines[k]) > flushAt + 6 THEN "long"
     ELSE IF \E k \in 1..Len(lines) : DecodeLine(lines[k]).out /\ Len(lines[k]) - 3 <= flushAt THEN "cut"
     ELSE "ok"

(* bytes mode: every symbol is logged, nothing is filtered.  file: one line per call  "<" | ">"  { hh " " };  log: one   *)
(* line per symbol  ( "<" | ">" ) hh                                                                                      *)
RECURSIVE BytesFrom(_, _, _, _)
BytesFrom(line, k, d, acc) ==
  IF k > Len(line) THEN [ok |-> TRUE, toks |-> acc]
  ELSE IF k + 2 <= Len(line) /\ HexVal(line[k]) >= 0 /\ HexVal(line[k + 1]) >= 0 /\ line[k + 2] = SPC
    THEN BytesFrom(line, k + 3, d, Append(acc, <<d, HexVal(line[k]) * 16 + HexVal(line[k + 1])>>))
  ELSE [ok |-> FALSE, toks |-> acc]
DecodeBytesLine(line, spaced) ==
  IF Len(line) < 1 \/ line[1] \notin {LT, GT} THEN [ok |-> FALSE, toks |-> <<>>]
  ELSE LET d == IF line[1] = LT THEN 1 ELSE 0 IN
       IF spaced THEN BytesFrom(line, 2, d, <<>>)
       ELSE IF Len(line) = 3 /\ HexVal(line[2]) >= 0 /\ HexVal(line[3]) >= 0
            THEN [ok |-> TRUE, toks |-> << <<d, HexVal(line[2]) * 16 + HexVal(line[3])>> >>] ELSE [ok |-> FALSE, toks |-> <<>>]

(***************************************************************************)
(* S: the line buffer automaton (one step per symbol)                       *)
(*   echoOnce = FALSE  as the pinned code: the skip test is                 *)
(*                     received /\ ~lastRecv /\ symbol = lastSym            *)
(*   echoOnce = TRUE   with an "echo expected" flag that a sent symbol      *)
(*                     sets and everything else clears                      *)
(***************************************************************************)
S0 == [buf |-> <<>>, lastRecv |-> TRUE, lastSym |-> SYN, echo |-> FALSE, log |-> <<>>]
Step(st, e, flushAt, echoOnce) ==
  LET recv == e[1] = 1
      sym == e[2]
  IN IF sym # SYN /\ recv /\ ~st.lastRecv /\ sym = st.lastSym /\ (echoOnce => st.echo)
     THEN [st EXCEPT !.echo = FALSE]                                                   \* "continue": nothing else changes
     ELSE LET newDir == st.buf = <<>> \/ recv # st.lastRecv
              b1 == IF sym = SYN THEN st.buf
                    ELSE (IF newDir THEN st.buf \o (IF st.buf = <<>> /\ st.lastSym # SYN THEN DOTS ELSE <<>>) \o <<IF recv THEN LT ELSE GT>>
                          ELSE st.buf) \o Hex2(sym)
              lr == IF sym # SYN /\ newDir THEN recv ELSE st.lastRecv
              flush == Len(b1) > (IF sym = SYN THEN 0 ELSE flushAt)
          IN [buf |-> IF flush THEN <<>> ELSE b1, lastRecv |-> lr, lastSym |-> sym, echo |-> (sym # SYN /\ ~recv),
              log |-> IF flush THEN Append(st.log, b1 \o (IF sym # SYN THEN DOTS ELSE <<>>)) ELSE st.log]
RECURSIVE RunA(_, _, _, _, _)
RunA(st, ev, k, flushAt, echoOnce) == IF k > Len(ev) THEN st ELSE RunA(Step(st, ev[k], flushAt, echoOnce), ev, k + 1, flushAt, echoOnce)
Run(ev, flushAt, echoOnce) == RunA(S0, ev, 1, flushAt, echoOnce)
=============================================================================
