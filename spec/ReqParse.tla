------------------------------ MODULE ReqParse ------------------------------
(* P for C18: what a client encoded is what ebusd must understand.                 *)
(*  (a) TCP command lines: blank separated words, quote-delimited arguments.       *)
(*  (b) HTTP request URIs: percent-decoding exactly once, confinement to the root. *)
(*  (c) MQTT topics: template formatting and the inverse matching.                 *)
(* Written from the property text / RFC 3986 section 2.1 / the documented          *)
(* --mqtttopic syntax, not from the code.  Texts are sequences of character codes. *)
EXTENDS Naturals, Integers, Sequences, FiniteSets, SequencesExt

SP == 32   DQ == 34   SQ == 39   PCT == 37   SL == 47   DOT == 46   QM == 63
MINUS == 45   LBRACE == 123   RBRACE == 125   USCORE == 95
c2 == 50   c5 == 53   ca == 97   cb == 98   ce == 101   cf == 102   cx == 120

RECURSIVE Blanks(_)
Blanks(n) == IF n = 0 THEN <<>> ELSE <<SP>> \o Blanks(n - 1)

(* first index >= i of s holding character c, or 0 *)
RECURSIVE IndexFrom(_, _, _)
IndexFrom(s, c, i) == IF i > Len(s) THEN 0 ELSE IF s[i] = c THEN i ELSE IndexFrom(s, c, i + 1)

(* split s at every occurrence of c (n occurrences give n+1 pieces, possibly empty) *)
RECURSIVE SplitAt(_, _)
SplitAt(s, c) == LET p == IndexFrom(s, c, 1) IN
                 IF p = 0 THEN <<s>> ELSE <<SubSeq(s, 1, p - 1)>> \o SplitAt(SubSeq(s, p + 1, Len(s)), c)

RECURSIVE JoinWith(_, _)
JoinWith(ss, sep) == IF ss = <<>> THEN <<>>
                     ELSE IF Len(ss) = 1 THEN ss[1] ELSE ss[1] \o sep \o JoinWith(Tail(ss), sep)

HasSub(s, t) == \E i \in 1..(Len(s) - Len(t) + 1) : SubSeq(s, i, i + Len(t) - 1) = t

(***************************************************************************)
(* (a) TCP argument lines                                                   *)
(* "a token starting with a quote character extends to the token ending     *)
(*  with that quote, repeated blanks outside quotes separate once".         *)
(***************************************************************************)
Quotes == {DQ, SQ}

(* the reading rule: words are the pieces between single blanks *)
RECURSIVE ReadOutside(_, _), ReadInside(_, _, _, _)
ReadOutside(ws, k) ==
  IF k > Len(ws) THEN [ok |-> TRUE, args |-> <<>>]
  ELSE LET w == ws[k] IN
       IF w = <<>> THEN ReadOutside(ws, k + 1)                          \* repeated blank
       ELSE IF w[1] \in Quotes
            THEN LET q == w[1]  rest == Tail(w) IN
                 IF Len(rest) >= 1 /\ rest[Len(rest)] = q
                 THEN LET r == ReadOutside(ws, k + 1) IN [ok |-> r.ok, args |-> <<Front(rest)>> \o r.args]
                 ELSE ReadInside(ws, k + 1, q, rest)
            ELSE LET r == ReadOutside(ws, k + 1) IN [ok |-> r.ok, args |-> <<w>> \o r.args]
ReadInside(ws, k, q, acc) ==
  IF k > Len(ws) THEN [ok |-> FALSE, args |-> <<>>]                     \* unterminated quote: not specified
  ELSE LET w == ws[k] IN
       IF Len(w) >= 1 /\ w[Len(w)] = q
       THEN LET r == ReadOutside(ws, k + 1) IN [ok |-> r.ok, args |-> <<acc \o <<SP>> \o Front(w)>> \o r.args]
       ELSE ReadInside(ws, k + 1, q, acc \o <<SP>> \o w)

RefSplit(line) == ReadOutside(SplitAt(line, SP), 1)

(* the writing side: how a client may write one argument *)
PlainOK(x) == x # <<>> /\ (\A i \in 1..Len(x) : x[i] # SP) /\ x[1] \notin Quotes
QuoteOK(x, q) == \A i \in 1..(Len(x) - 1) : ~(x[i] = q /\ x[i + 1] = SP)   \* no word may end with q too early
Forms(x) == (IF PlainOK(x) THEN {x} ELSE {}) \cup {<<q>> \o x \o <<q>> : q \in {p \in Quotes : QuoteOK(x, p)}}

RECURSIVE FormChoices(_)
FormChoices(args) == IF args = <<>> THEN {<<>>}
                     ELSE {<<f>> \o r : f \in Forms(Head(args)), r \in FormChoices(Tail(args))}

(* v = <<leading blanks, blanks between arguments, trailing blanks>> *)
Line(fs, v) == Blanks(v[1]) \o JoinWith(fs, Blanks(v[2])) \o Blanks(v[3])
AllSeps == {<<l, g, t>> : l \in 0..1, g \in 1..2, t \in 0..1}
ClientEncode(args, V) == {Line(fs, v) : fs \in FormChoices(args), v \in V}

ArgAlpha == {ca, SP, DQ, SQ}
ArgsUpTo(n) == UNION {[1..k -> ArgAlpha] : k \in 0..n}
MaxLen(args) == IF args = <<>> THEN 0 ELSE CHOOSE m \in {Len(args[i]) : i \in 1..Len(args)} :
                                             \A i \in 1..Len(args) : Len(args[i]) <= m

(* enumerated argument lists: all lists of <= 2 arguments of length <= 3, all triples of     *)
(* arguments of length <= 1 (thorough: <= 2)                                                 *)
TcpLists(thorough) ==
  {<<>>} \cup {<<x>> : x \in ArgsUpTo(3)} \cup {<<x, y>> : x \in ArgsUpTo(3), y \in ArgsUpTo(3)}
  \cup {<<x, y, z>> : x \in ArgsUpTo(IF thorough THEN 2 ELSE 1), y \in ArgsUpTo(IF thorough THEN 2 ELSE 1),
                      z \in ArgsUpTo(IF thorough THEN 2 ELSE 1)}
(* separator variants used for a list *)
TcpSeps(args, thorough) ==
  IF Len(args) = 0 THEN {<<l, 1, 0>> : l \in 0..2}
  ELSE IF thorough /\ Len(args) <= 2 THEN AllSeps
  ELSE IF MaxLen(args) <= 2 /\ Len(args) <= 2 THEN AllSeps
  ELSE {<<0, 1, 0>>, <<1, 2, 1>>}
TcpLines(args, thorough) == ClientEncode(args, TcpSeps(args, thorough))

(* lemma: the two readings of the rule agree - every client encoding reads back as the list *)
LemmaEncodeRead(lists) == \A args \in lists : \A l \in ClientEncode(args, AllSeps) :
                             LET r == RefSplit(l) IN r.ok /\ r.args = args
(* lemma: every argument of the alphabet (length <= 3) can be written at all *)
LemmaEncodable == \A x \in ArgsUpTo(3) : Forms(x) # {}

(***************************************************************************)
(* (b) HTTP: percent decoding and root confinement                          *)
(***************************************************************************)
HexVal(c) == IF c \in 48..57 THEN c - 48 ELSE IF c \in 97..102 THEN c - 87 ELSE IF c \in 65..70 THEN c - 55 ELSE -1
IsEsc(s, i) == i + 2 <= Len(s) /\ s[i] = PCT /\ HexVal(s[i + 1]) >= 0 /\ HexVal(s[i + 2]) >= 0

(* left to right, each escape once, output never looked at again *)
RECURSIVE DecFrom(_, _)
DecFrom(s, i) == IF i > Len(s) THEN <<>>
                 ELSE IF IsEsc(s, i) THEN <<16 * HexVal(s[i + 1]) + HexVal(s[i + 2])>> \o DecFrom(s, i + 3)
                 ELSE <<s[i]>> \o DecFrom(s, i + 1)
PctDecode(s) == DecFrom(s, 1)

(* a URI in which every '%' starts an escape; for others only confinement is specified *)
WellFormed(s) == \A i \in 1..Len(s) : s[i] = PCT => IsEsc(s, i)
HasEncodedSlash(s) == \E i \in 1..Len(s) : IsEsc(s, i) /\ 16 * HexVal(s[i + 1]) + HexVal(s[i + 2]) = SL

UriPath(u) == LET p == IndexFrom(u, QM, 1) IN IF p = 0 THEN u ELSE SubSeq(u, 1, p - 1)

Confined(p) == Len(p) >= 1 /\ p[1] = SL /\ ~HasSub(p, <<DOT, DOT>>) /\ ~HasSub(p, <<SL, SL>>)

IndexHtml == <<105,110,100,101,120,46,104,116,109,108>>
(* the file a confined decoded path names, as a sequence of segments below the root *)
Resolve(p) == LET segs == Tail(SplitAt(p, SL))                       \* p starts with "/"
                  segs2 == IF segs[Len(segs)] = <<>> THEN Front(segs) \o <<IndexHtml>> ELSE segs
              IN SelectSeq(Front(segs2), LAMBDA g : g # <<DOT>>) \o <<segs2[Len(segs2)]>>

(* the model file system: files below the HTML root, and files outside of it (relative to the  *)
(* parent directory of the root, the root itself being the directory "root")                   *)
AHtml == <<97,46,104,116,109,108>>
FilesInside == {
  <<IndexHtml>>, <<AHtml>>, << <<ca>>, IndexHtml>>, << <<ca>>, AHtml>>, << <<ca>>, <<ca>>, IndexHtml>>,
  << <<ce>>, IndexHtml>>, << <<c2, ce>>, IndexHtml>>, << <<ca, DOT, ce>>, IndexHtml>>,
  << <<37,50,101>>, IndexHtml>>,                      \* a directory literally named %2e
  << <<37,50,69>>, IndexHtml>>,                       \* %2E
  << <<37,50,101,37,50,101>>, IndexHtml>>,            \* %2e%2e
  << <<37,50,102>>, IndexHtml>>,                      \* %2f
  << <<37,50,53>>, IndexHtml>>,                       \* %25
  << <<PCT>>, IndexHtml>>,                            \* %
  << <<46,46,46>>, IndexHtml>>                        \* ... (contains "..": must never be served)
}
FilesOutside == {
  <<IndexHtml>>, <<AHtml>>, << <<ca>>, IndexHtml>>,
  << <<114,111,111,116,97>>, IndexHtml>>,             \* roota/
  << <<114,111,111,116,46,97>>, IndexHtml>>,          \* root.a/
  << <<114,111,111,116,50,101>>, IndexHtml>>,         \* root2e/
  << <<114,111,111,116,37,50,101>>, IndexHtml>>,      \* root%2e/
  << <<114,111,111,116,46>>, IndexHtml>>              \* root./
}
MarkIn(f) == <<73>> \o JoinWith(f, <<SL>>)             \* content of the file: "I" path
MarkOut(f) == <<79>> \o JoinWith(f, <<SL>>)            \* "O" path
MarksInside == {MarkIn(f) : f \in FilesInside}

(* A '%' that is not followed by two hex digits is not an escape: it and every character behind it must arrive   *)
(* as written - nothing may be dropped or turned into another character.  What stays open for such a (malformed)   *)
(* text is only whether the genuine escapes BEHIND the first non-escape '%' are still decoded (an implementation   *)
(* may stop decoding there); with open = TRUE that choice is open for every escape (query part).                   *)
(* Lenient(s, i, p, j, open): p from j on is such a reading of s from i on.                                        *)
RECURSIVE Lenient(_, _, _, _, _)
Lenient(s, i, p, j, open) ==
  IF i > Len(s) THEN j > Len(p)
  ELSE IF j > Len(p) THEN FALSE
  ELSE IF IsEsc(s, i) THEN
         \/ (p[j] = 16 * HexVal(s[i + 1]) + HexVal(s[i + 2]) /\ Lenient(s, i + 3, p, j + 1, open))
         \/ (open /\ p[j] = PCT /\ Lenient(s, i + 1, p, j + 1, open))
  ELSE p[j] = s[i] /\ Lenient(s, i + 1, p, j + 1, open \/ s[i] = PCT)
UriQuery(u) == LET q == IndexFrom(u, QM, 1) IN IF q = 0 THEN <<>> ELSE SubSeq(u, q + 1, Len(u))
(* verdict on one observed HTTP exchange: uri u, argument p given to the file lookup (if any), *)
(* status st, body.  Returns "ok" or the name of the violated clause.                          *)
HttpVerdict(u, hasp, p, hasq, q, st, body) ==
  LET path == UriPath(u)
      wf == WellFormed(path)
      d == PctDecode(path)
  IN
  IF st = 200 /\ body \notin MarksInside THEN "root-escape"             \* served something that is not below the root
  ELSE IF wf /\ hasp /\ p # d THEN
         (IF p = path THEN "pct-decode:escape-left-undecoded"
          ELSE IF p = PctDecode(d) THEN "pct-decode:decoded-twice"
          ELSE IF p = UriPath(d) THEN "pct-decode:decoded-delimiter-splits-path"   \* %3f taken for the query separator
          ELSE "pct-decode:other")
  ELSE IF ~wf /\ hasp /\ ~Lenient(path, 1, p, 1, FALSE) THEN "pct-decode:non-escape-altered"
  ELSE IF hasq /\ ~Lenient(UriQuery(u), 1, q, 1, TRUE) THEN "pct-decode:query-altered"
  ELSE IF st = 200 /\ wf /\ ~Confined(d) THEN "served-unconfined-path"  \* "..", "//" or no leading "/"
  ELSE IF st = 200 /\ wf /\ body # MarkIn(Resolve(d)) THEN "served-wrong-file"
  ELSE IF wf /\ Confined(d) /\ ~HasEncodedSlash(path) /\ Resolve(d) \in FilesInside
          /\ ~(st = 200 /\ body = MarkIn(Resolve(d))) THEN "not-served"
  ELSE "ok"

UriAlpha == {PCT, c2, ce, cf, SL, DOT, ca, QM}
UrisUpTo(n) == UNION {[1..k -> UriAlpha] : k \in 0..n}
RECURSIVE Pow(_, _)
Pow(b, n) == IF n = 0 THEN 1 ELSE b * Pow(b, n - 1)
RECURSIVE UriCount(_)
UriCount(n) == IF n = 0 THEN 1 ELSE Pow(8, n) + UriCount(n - 1)

LemmaLenient == /\ \A s \in UrisUpTo(4) : Lenient(s, 1, PctDecode(s), 1, FALSE)      \* strict decoding is a lenient reading
                /\ \A s \in UrisUpTo(3) : WellFormed(s) => \A p \in UrisUpTo(3) : Lenient(s, 1, p, 1, FALSE) => p = PctDecode(s)
                /\ ~Lenient(<<37,50,46>>, 1, <<2>>, 1, FALSE)                          \* "%2." must not become \x02
                /\ Lenient(<<37,50,46,37,50,101>>, 1, <<37,50,46,37,50,101>>, 1, FALSE) \* "%2.%2e" may stay as it is
                /\ Lenient(<<37,50,46,37,50,101>>, 1, <<37,50,46,46>>, 1, FALSE)       \* ... or have the later escape decoded

(* token level URIs: "/" followed by <= n tokens, optionally a trailing "/" *)
UriTokens == { <<37,50,101>>, <<37,50,69>>, <<37,50,102>>, <<37,50,53>>, <<PCT>>, <<SL>>, <<DOT>>, <<ca>>,
               <<c2, ce>>, <<QM>>, <<46,104,116,109,108>>, <<37,50,101,104,116,109,108>>,
               <<37,51,102>> }        \* %2e %2E %2f %25 % / . a 2e ? .html %2ehtml %3f
TokenSeqs(n) == UNION {[1..k -> UriTokens] : k \in 0..n}
TokenUris(n, trail) == {<<SL>> \o FlattenSeq(t) \o e : t \in TokenSeqs(n), e \in (IF trail THEN {<<>>, <<SL>>} ELSE {<<>>})}

(* lemmas on the oracle itself *)
LemmaDecodeLiteral == \A s \in UrisUpTo(4) : (\A i \in 1..Len(s) : s[i] # PCT) => PctDecode(s) = s
LemmaDecodeOnce == PctDecode(<<37,50,53,50,101>>) = <<37,50,101>>             \* %252e -> %2e, not "."
                   /\ PctDecode(<<37,37,50,101>>) = <<37,46>>                  \* %%2e -> %.
                   /\ PctDecode(<<37,50,37,50,101>>) = <<37,50,46>>            \* %2%2e -> %2.

(***************************************************************************)
(* (c) MQTT topic templates                                                 *)
(* a template is a sequence of parts; part = <<0, constant text>> or        *)
(* <<v, <<>>>> with v = 1 (circuit), 2 (name), 3 (field)                    *)
(***************************************************************************)
VarName(v) == CASE v = 1 -> <<99,105,114,99,117,105,116>> [] v = 2 -> <<110,97,109,101>> [] v = 3 -> <<102,105,101,108,100>>
IsVar(part) == part[1] > 0
IsIdentChar(c) == c \in 97..122 \/ c \in 65..90 \/ c = USCORE

RECURSIVE Format(_, _)
Format(parts, x) == IF parts = <<>> THEN <<>>
                    ELSE (IF IsVar(Head(parts)) THEN x[Head(parts)[1]] ELSE Head(parts)[2]) \o Format(Tail(parts), x)

VarsOf(parts) == {parts[i][1] : i \in {j \in 1..Len(parts) : IsVar(parts[j])}}
Matchable(parts) == /\ \A i \in 1..(Len(parts) - 1) : ~(IsVar(parts[i]) /\ IsVar(parts[i + 1]))
                    /\ \A i, j \in 1..Len(parts) : (i # j /\ IsVar(parts[i]) /\ IsVar(parts[j])) => parts[i][1] # parts[j][1]

(* the template text a user writes: %name or %{name}; the short form only where the next   *)
(* character cannot continue the name                                                     *)
RECURSIVE Render(_, _)
Render(parts, braces) ==
  IF parts = <<>> THEN <<>>
  ELSE LET rest == Render(Tail(parts), braces)  h == Head(parts) IN
       IF ~IsVar(h) THEN h[2] \o rest
       ELSE IF braces \/ (rest # <<>> /\ IsIdentChar(rest[1])) THEN <<PCT, LBRACE>> \o VarName(h[1]) \o <<RBRACE>> \o rest
       ELSE <<PCT>> \o VarName(h[1]) \o rest

Ids == {<<ca>>, <<cb>>, <<ca, cb>>}
Triples == {<<c, n, f>> : c \in Ids, n \in Ids, f \in Ids}
TplConsts == {<<SL>>, <<cx, SL>>, <<MINUS>>}
TplParts == {<<0, k>> : k \in TplConsts} \cup {<<v, <<>>>> : v \in 1..3}
Templates(n) == {t \in UNION {[1..k -> TplParts] : k \in 1..n} : Matchable(t)}

(* the triples a topic can stand for *)
Matches(parts, topic) == {x \in Triples : Format(parts, x) = topic}
(* lemma: "mapped back" is unambiguous for matchable templates on this identifier domain *)
LemmaUnambiguous(n) == \A t \in Templates(n) : \A x \in Triples : \A y \in Matches(t, Format(t, x)) :
                          \A v \in VarsOf(t) : y[v] = x[v]

(* verdict on one observation: template t, triple x, topic the code built (after appending the  *)
(* defaults it wants), values m = <<c, n, f>> the code extracted from that topic                 *)
TopicVerdict(t, x, topic, m, exact) ==
  LET want == Format(t, x) IN
  IF exact /\ topic # want THEN "topic-format"
  ELSE IF ~exact /\ ~IsPrefix(want, topic) THEN "topic-format"
  ELSE IF \E v \in VarsOf(t) : m[v] # x[v] THEN "topic-match"
  ELSE "ok"
=============================================================================
