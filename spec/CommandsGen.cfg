INIT Init
NEXT Next
