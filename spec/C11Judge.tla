------------------------------ MODULE C11Judge ------------------------------
(* Judges records produced by harness/c11_symbols.cpp from the real functions  *)
(* against the P-level definitions of EbusSymbols.                             *)
EXTENDS EbusSymbols, TLC, Json, IOUtils

ASSUME LemmaMasters /\ LemmaNumberBijection /\ LemmaSlaveInjective /\ LemmaSlaveNotMaster
ASSUME LemmaSynEscInvalid /\ LemmaUnescapeInverts /\ LemmaCrcInduction

Recs == ndJsonDeserialize(IOEnv.VF_RECS)
N == Len(Recs)
K == 64
VARIABLE i
Init == i = 0
Next == \/ /\ i = 0 /\ i' \in {1 + K * s : s \in 0..((N - 1) \div K)}
        \/ /\ i > 0 /\ i % K # 0 /\ i < N /\ i' = i + 1

B(x) == IF x THEN 1 ELSE 0

Ok(r) ==
  CASE r.f = "upd"   -> \A v \in 0..255 : r.r[v + 1] = CrcStep(r.c, v)
    [] r.f = "calc"  -> r.r = Crc(r.in)
    [] r.f = "calc2" -> \A v \in 0..255 : r.r[v + 1] = Crc(<<r.a, v>>)
    [] r.f = "addr"  -> /\ r.m = B(IsMaster(r.a))
                        /\ r.sm = B(IsSlaveOfMaster(r.a))
                        /\ r.sl = SlaveAddr(r.a)
                        /\ r.ma = MasterOf(r.a)
                        /\ r.n = MasterNumber(r.a)
                        /\ r.v1 = B(ValidAddress(r.a, TRUE))
                        /\ r.v0 = B(ValidAddress(r.a, FALSE))
    [] r.f = "pe"    -> LET u == Unescape(r.in) IN
                        IF u.ok THEN r.rc = 0 /\ r.out = u.s ELSE r.rc < 0
    [] r.f = "ph"    -> r.rc = 0 /\ r.out = r.in
    [] OTHER -> FALSE

Sig(r) == IF r.f \in {"pe", "ph"} THEN <<r.f, r.in>> ELSE IF r.f = "calc" THEN <<r.f, Len(r.in)>> ELSE <<r.f>>
Judge == i = 0 \/ Ok(Recs[i]) \/ ~PrintT(<<"VF", "BAD", i, Sig(Recs[i])>>)

(* domain completeness: the enumeration really was exhaustive *)
ASSUME LET S == {Recs[k] : k \in 1..N} IN
       /\ {r.c : r \in {x \in S : x.f = "upd"}} = 0..255
       /\ \A r \in {x \in S : x.f = "upd"} : Len(r.r) = 256
       /\ {r.a : r \in {x \in S : x.f = "addr"}} = 0..255
       /\ {r.a : r \in {x \in S : x.f = "calc2"}} = 0..255
       /\ Cardinality({r.in : r \in {x \in S : x.f = "pe" /\ Len(x.in) = 2}}) = 65536
=============================================================================
