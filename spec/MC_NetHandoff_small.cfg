CONSTANTS Variant = "small" Bug = "none"
SPECIFICATION FairSpec
INVARIANT McOk
INVARIANT McNoDangle
PROPERTY McLive
