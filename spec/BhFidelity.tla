------------------------------ MODULE BhFidelity ------------------------------
(* Per-record fidelity of S (BusHandler.tla, part 3) against the REAL code: every distinct notify / poll scheduling /   *)
(* startScan record observed while extracting the graphs is compared with what the S operators compute from the same  *)
(* inputs.  A mismatch is model DRIFT (S differs from the code while P decides the verdict), never a violation.        *)
EXTENDS BusHandler, Json

Recs == ndJsonDeserialize(IOEnv.VF_RECS)
N == Len(Recs)
K == 64
NoSeq == <<>>
NoStr == ""

PollOk(rc) ==
  LET o == SPollNotify(rc.pre.msg, rc.pre.idx, rc.res) IN
  /\ rc.restart = o.restart
  /\ rc.post.idx = o.idx
  /\ rc.post.master = o.master
  /\ rc.post.msg = rc.pre.msg
  /\ (Len(rc.st) = 1) = o.store
  /\ o.store => (rc.st[1][1] = rc.pre.msg /\ rc.st[1][2] = rc.pre.idx /\ rc.st[1][3] = rc.slave)

ScanOk(rc) ==
  LET rq == [slaves |-> rc.pre.slaves, all |-> rc.pre.all, left |-> rc.pre.left, msg |-> rc.pre.msg, idx |-> rc.pre.idx,
             nidx |-> rc.pre.nidx, res |-> rc.pre.res, master |-> rc.pre.master]
      o == SScanNotify(rq, rc.res, rc.run[1]) IN
  /\ rc.restart = o.restart
  /\ rc.run[2] = o.run
  /\ rc.post.slaves = o.rq.slaves
  /\ rc.post.left = o.rq.left
  /\ rc.post.msg = o.rq.msg
  /\ rc.post.idx = o.rq.idx
  /\ rc.post.res = o.rq.res
  /\ rc.post.master = o.rq.master
  /\ rc.post.all = rc.pre.all /\ rc.post.nidx = rc.pre.nidx
  \* setScanResult: a visible change of the result texts is the text S says, at the index S says
  /\ \A i \in 1..Len(rc.sr) : rc.sr[i][1] = o.init /\ o.text # <<>> /\ rc.sr[i][4] <= o.text[1] /\ Len(rc.sr[i][3]) >= o.text[1] + 1 /\ rc.sr[i][3][o.text[1] + 1] = o.text[2]
  \* the address is marked "scan initiated", and "scanned" when a text was recorded
  /\ \A i \in 1..Len(rc.fl) : rc.fl[i][1] = o.init /\ rc.fl[i][3] = (IF o.text # <<>> THEN OrBit(OrBit(rc.fl[i][2], SCANINIT), SCANDONE) ELSE OrBit(rc.fl[i][2], SCANINIT))

PseOk(rc) == <<rc.msg, rc.lastpoll2>> \in SPollSchedule(rc.lastpoll, rc.pq) /\ (rc.created = 0) = (rc.msg = 0)

ScanCallOk(rc) ==
  LET flagOf(a) == IF \E i \in 1..Len(rc.flags) : rc.flags[i][1] = a THEN rc.flags[CHOOSE i \in 1..Len(rc.flags) : rc.flags[i][1] = a][2] ELSE 0
      slaves == SScanSlaves(flagOf) IN
  IF rc.res = ERRDUP THEN rc.run[1] > 0 /\ rc.run[2] = rc.run[1] /\ rc.req.k = "none"
  ELSE IF rc.run[1] > 0 THEN FALSE
  ELSE IF slaves = <<>> THEN rc.res # OK /\ rc.req.k = "none"
  ELSE /\ rc.res = OK /\ rc.run[2] = rc.run[1] + 1 /\ rc.req.k = "scan"
       /\ rc.req.slaves = slaves
       /\ rc.req.all = (IF rc.scanmsg = 1 THEN <<3, 4>> ELSE <<3>>) /\ rc.req.left = Tail(rc.req.all)
       /\ rc.req.master = Tel(3, 0, slaves[1]) /\ rc.req.idx = 0 /\ rc.req.nidx = 0

SwRetOk(rc) == LET o == SFormatScanResult(rc.entry = 1, rc.lens) IN rc.have = o.have /\ Len(rc.text) = o.len

Ok(rc) == CASE rc.e = "ntf" /\ rc.pre.k = "poll" -> PollOk(rc)
            [] rc.e = "ntf" /\ rc.pre.k = "scan" -> ScanOk(rc)
            [] rc.e = "pse" -> PseOk(rc)
            [] rc.e = "scancall" -> ScanCallOk(rc)
            [] rc.e = "swret" -> SwRetOk(rc)
            [] OTHER -> TRUE
SigOf(rc) == IF rc.e = "ntf" THEN rc.pre.k ELSE rc.e

VARIABLE blk
Init == blk = 0
Next == \/ /\ blk = 0 /\ blk' \in {1 + K * sh : sh \in 0..((N - 1) \div K)}
        \/ /\ blk > 0 /\ blk % K # 0 /\ blk < N /\ blk' = blk + 1
Judge == blk = 0 \/ Ok(Recs[blk]) \/ ~PrintT(<<"VF", "BAD", blk, SigOf(Recs[blk])>>)
=============================================================================
