------------------------------ MODULE C14TGraph ------------------------------
(* P-on-G for the plain byte transport: the graph extracted from the real FileTransport over a socketpair    *)
(* (harness/c14_transport.cpp) or a recorded long run is explored in lock-step with TrMon.                      *)
EXTENDS Transport, Json

G == ndJsonDeserialize(IOEnv.VF_GRAPH)
VARIABLES node, mon, lastIn
Init == node = 1 /\ mon = TrInit /\ lastIn = ""
Next == \E k \in 1..Len(G[node].succ) :
          LET e == G[node].succ[k] IN node' = e.to /\ mon' = TrStep(mon, e.ev) /\ lastIn' = e.in
View == <<node, mon>>
MonOk == mon.bad = "" \/ ~PrintT(<<"VF", "MON", mon.bad>>)

ASSUME \A n \in 1..Len(G) : G[n].id = n /\ \A k \in 1..Len(G[n].succ) : G[n].succ[k].to \in 1..Len(G)
=============================================================================
