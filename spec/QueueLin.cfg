INIT LInit
NEXT LNext
INVARIANT Accepted
