CONSTANTS
  Alphabet = {16, 198, 170, 200, 232, 192, 129, 236, 212}
  MaxLen = 5
  Arbs = {49}
INIT Init
NEXT Next
VIEW View
INVARIANT MonOk
