CONSTANTS
  OldResetHandling = FALSE
  Alphabet = {16, 42, 198, 170, 200, 192, 129, 212}
  MaxLen = 5
  Distinct = TRUE
  Arbs = {49}
INIT Init
NEXT Next
VIEW View
INVARIANT MonOk
