CONSTANTS
  OldResetHandling = FALSE
INIT Init
NEXT Next
VIEW View
INVARIANT MonOk
