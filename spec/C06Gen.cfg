INIT Init
NEXT Next
