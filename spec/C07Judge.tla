------------------------------ MODULE C07Judge ------------------------------
(* Judges the records written by harness/c07_writesafe.cpp (what the real field code did with  *)
(* every generated case) against the P oracle WriteSafe.                                       *)
(* One TLC state judges one block of K records: definitions that depend on RECURSIVE operators *)
(* (the digit-sequence tables, Defs) are not pre-evaluated by TLC but re-evaluated per state,  *)
(* so the block size amortises them; the blocks are spread over the workers.                   *)
EXTENDS WriteSafe, Json, IOUtils

ASSUME BigDecLemmas /\ WriteSafeLemmas

Recs == ndJsonDeserialize(IOEnv.VF_RECS)       \* this shard of the record file
Cases == ndJsonDeserialize(IOEnv.VF_CASES)     \* the complete case file emitted by C07Gen
First == atoi(IOEnv.VF_FIRST)                  \* number of the first record of this shard
N == Len(Recs)
K == 400
NB == (N + K - 1) \div K
VARIABLE i                                     \* 0: start, -1: completeness check, b > 0: block b
Init == i = 0
Next == i = 0 /\ i' \in (1..NB) \cup {-1}

BadIn(b) == {k \in ((b - 1) * K + 1)..(IF b * K < N THEN b * K ELSE N) :
               LET r == Recs[k]  w == Why(Defs[r.d], r) IN w # "" /\ PrintT(<<"VF", "BAD", k, <<r.n, w>>>>)}

(* domain completeness: the definitions replayed are the definitions of the specification, and *)
(* the records of this shard are exactly the cases First .. First+N-1 of the generated domain  *)
Complete ==
  LET nd == Len(Defs)  bl == [d \in 1..nd |-> ByteLen(Defs[d])] IN
  /\ \A d \in 1..nd : LET c == Cases[d] IN
        c.k = "def" /\ c.d = d /\ c.ty = Defs[d].ty /\ c.len = Defs[d].len /\ Seq1(c.dvs) = Seq1(Defs[d].dvs)
  /\ \A k \in 1..N : LET c == Cases[nd + First + k]  r == Recs[k] IN
        c.k = "case" /\ r.n = First + k - 1 /\ r.d = c.d /\ Seq1(r.t) = Seq1(c.t) /\ r.len = bl[r.d]
  /\ PrintT(<<"VF", "SHARD", First, N, Len(Cases) - nd>>)

Judge == CASE i = 0 -> TRUE
           [] i = -1 -> Complete \/ ~PrintT(<<"VF", "INCOMPLETE", First>>)
           [] OTHER -> BadIn(i) = {}
=============================================================================
