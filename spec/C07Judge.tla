------------------------------ MODULE C07Judge ------------------------------
(* Judges the records written by harness/c07_writesafe.cpp (what the real field code did with  *)
(* every generated case) against the P oracle WriteSafe.                                       *)
(* One TLC state judges one block of K records.  Blocks are first announced (phase = 0) and    *)
(* judged when a worker takes the announced state (phase = 1), which spreads them over the     *)
(* workers.  NOTE: the state variables must not be named like a bound variable of the extended *)
(* modules (e.g. "i"): TLC then stops caching LET/argument values and gets ~100x slower.       *)
EXTENDS WriteSafe, Json, IOUtils

ASSUME BigDecLemmas /\ WriteSafeLemmas

Recs == ndJsonDeserialize(IOEnv.VF_RECS)       \* this shard of the record file
Cases == ndJsonDeserialize(IOEnv.VF_CASES)     \* the complete case file emitted by C07Gen
First == atoi(IOEnv.VF_FIRST)                  \* number of the first record of this shard
NDef == atoi(IOEnv.VF_NDEFS)                   \* number of definitions announced by C07Gen
N == Len(Recs)
K == 400
NB == (N + K - 1) \div K
VARIABLES blk, phase                                \* blk = 0: start, -1: completeness check, b > 0: block b
Init == blk = 0 /\ phase = 0
Next == \/ blk = 0 /\ blk' \in (1..NB) \cup {-1} /\ phase' = 0
        \/ blk # 0 /\ phase = 0 /\ phase' = 1 /\ blk' = blk

BadIn(b) == {k \in ((b - 1) * K + 1)..(IF b * K < N THEN b * K ELSE N) :
               LET r == Recs[k]  w == Why(Defs[r.d], r) IN w # "" /\ PrintT(<<"VF", "BAD", k, <<r.n, w>>>>)}

(* domain completeness: the definitions replayed are the definitions of the specification, and *)
(* the records of this shard are exactly the cases First .. First+N-1 of the generated domain  *)
Complete ==
  /\ NDef = Len(Defs)
  /\ \A d \in 1..NDef : LET c == Cases[d] IN
        c.k = "def" /\ c.d = d /\ c.ty = Defs[d].ty /\ c.len = Defs[d].len /\ Seq1(c.dvs) = Seq1(Defs[d].dvs)
  /\ \A k \in 1..N : LET c == Cases[NDef + First + k] IN
        c.k = "case" /\ Recs[k].n = First + k - 1 /\ Recs[k].d = c.d /\ Seq1(Recs[k].t) = Seq1(c.t)
  /\ PrintT(<<"VF", "SHARD", First, N, Len(Cases) - NDef>>)

Judge == CASE phase = 0 -> TRUE
           [] blk = -1 -> Complete \/ ~PrintT(<<"VF", "INCOMPLETE", First>>)
           [] OTHER -> BadIn(blk) = {}
=============================================================================
