------------------------------ MODULE DeviceEnhanced ------------------------------
(* C14 - the enhanced adapter protocol.                                                         *)
(*                                                                                              *)
(* Part P: the REFERENCE DECODER, written from docs/enhanced_proto.md and the text of C14 only. *)
(*   It consumes single bytes and has no notion of a read chunk, so "the implementation agrees  *)
(*   with it" IS chunk independence.  EnhMon is the monitor built around it: it is driven by the *)
(*   observable events of an EnhancedDevice (bytes arriving at the transport, results of         *)
(*   Device::recv, DeviceListener notifications, bytes written to the transport).               *)
(* Part S: a transcription of EnhancedDevice::recv / handleEnhancedBufferedData /                *)
(*   startArbitration / requestEnhancedInfo / notifyTransportStatus (device_trans.cpp), written  *)
(*   in functional style (A.1): the same operators serve the bounded model check S => P          *)
(*   (MC_DeviceEnhanced) and the fidelity check of extracted graph edges (C14Graph).             *)
(*                                                                                              *)
(* Events (JSON arrays, in the order they happened within one step):                             *)
(*   <<"arr", b>>              one byte arrived at the (open) transport                          *)
(*   <<"call", kind, arg>>     ebusd calls recv(arg = timeout) | send | start | info | open      *)
(*   <<"rv", res, sym, as, T>> result of recv: res 0 OK, 1 CONTINUE, 2 TIMEOUT, 3 other error;   *)
(*                             sym (256 = none); as = ArbitrationState (2 error, 4 lost, 6 won)  *)
(*   <<"ret", kind, rc>>       return code of the other calls (0 = RESULT_OK)                    *)
(*   <<"tx", bytes>>           one Transport::write                                               *)
(*   <<"ntf", class, arg, e>>  notifyDeviceStatus, class derived from the message text            *)
(*   <<"data", sym, rcvd>>     notifyDeviceData                                                   *)
(*   <<"to", ms>> transport read timed out  <<"open">> <<"close">> <<"clk", s>> <<"reset">>      *)
EXTENDS Integers, Sequences, FiniteSets, TLC, IOUtils

(* part S only: TRUE selects the RESETTED handling of the tree before the two fix: commits of C14 (kept for the record:  *)
(* "valueSet = false" in the init-response / reset-requested branches, as_error for any arbitration state but as_none)  *)
CONSTANT OldResetHandling

SYN == 170

(***************************************************************************)
(* Framing (docs/enhanced_proto.md, "Protocol")                            *)
(*   first 11ccccdd  second 10dddddd                                       *)
(***************************************************************************)
IsPlain(b)  == b < 128
IsSecond(b) == b >= 128 /\ b < 192
IsFirst(b)  == b >= 192
CmdOf(b1)      == (b1 - 192) \div 4
DataOf(b1, b2) == ((b1 % 4) * 64) + (b2 - 128)
Seq2(cmd, d)   == <<192 + (cmd * 4) + (d \div 64), 128 + (d % 64)>>

REQ_INIT == 0  REQ_SEND == 1  REQ_START == 2  REQ_INFO == 3
RES_RESETTED == 0  RES_RECEIVED == 1  RES_STARTED == 2  RES_INFO == 3
RES_FAILED == 10  RES_ERROR_EBUS == 11  RES_ERROR_HOST == 12

(* what a complete two-byte sequence means *)
Frame(c, d) ==
  CASE c = RES_RECEIVED   -> [k |-> "sym", s |-> d, r |-> "none"]
    [] c = RES_STARTED    -> [k |-> "sym", s |-> d, r |-> "won"]
    [] c = RES_FAILED     -> [k |-> "sym", s |-> d, r |-> "lost"]
    [] c = RES_INFO       -> [k |-> "info", d |-> d]
    [] c = RES_RESETTED   -> [k |-> "reset", d |-> d]
    [] c = RES_ERROR_EBUS -> [k |-> "err", c |-> <<"ebus", d>>]
    [] c = RES_ERROR_HOST -> [k |-> "err", c |-> <<"host", d>>]
    [] OTHER              -> [k |-> "unknown", c |-> <<"unknown", c>>]

(* one byte through the reference decoder; pend = -1 or a first byte waiting for its second byte *)
Item(pend, b) ==
  IF pend = -1
  THEN IF IsPlain(b) THEN [k |-> "sym", s |-> b, r |-> "none"]
       ELSE IF IsSecond(b) THEN [k |-> "ntf", c |-> <<"stray2", 0>>]       \* stray second byte: notification, nothing else
       ELSE [k |-> "pend"]
  ELSE IF IsSecond(b) THEN Frame(CmdOf(pend), DataOf(pend, b))
       ELSE [k |-> "ntf", c |-> <<"missing2", 0>>]                          \* the first byte AND this byte are lost

(* the pure reference: stream -> <<symbols with results, notification classes (reset/info left out)>> *)
RECURSIVE RefFold(_, _, _, _, _)
RefFold(stream, k, pend, outs, ntfs) ==
  IF k > Len(stream) THEN [out |-> outs, ntf |-> ntfs, pend |-> pend]
  ELSE LET it == Item(pend, stream[k]) IN
       CASE it.k = "pend" -> RefFold(stream, k + 1, stream[k], outs, ntfs)
         [] it.k = "sym"  -> RefFold(stream, k + 1, -1, Append(outs, <<it.s, it.r>>), ntfs)
         [] it.k \in {"ntf", "err", "unknown"} -> RefFold(stream, k + 1, -1, outs, Append(ntfs, it.c))
         [] OTHER -> RefFold(stream, k + 1, -1, outs, ntfs)
RefDecode(stream) == RefFold(stream, 1, -1, <<>>, <<>>)

(* examples straight from the document (sanity of the transcription of the bit layout) *)
ASSUME Seq2(REQ_SEND, 170) = <<198, 170>> /\ Seq2(REQ_START, 49) = <<200, 177>> /\ Seq2(REQ_INIT, 1) = <<192, 129>>
ASSUME \A c \in 0..15 : \A d \in {0, 1, 63, 64, 127, 128, 170, 255} :
          LET q == Seq2(c, d) IN IsFirst(q[1]) /\ IsSecond(q[2]) /\ CmdOf(q[1]) = c /\ DataOf(q[1], q[2]) = d
ASSUME RefDecode(<<16, 198, 170, 200, 177, 232, 131>>).out = <<<<16, "none">>, <<170, "none">>, <<49, "won">>, <<3, "lost">>>>
ASSUME RefDecode(<<198, 16, 42, 170, 42>>) = [out |-> <<<<42, "none">>, <<42, "none">>>>, ntf |-> <<<<"missing2", 0>>, <<"stray2", 0>>>>, pend |-> -1]

(***************************************************************************)
(* EnhMon - the P monitor                                                  *)
(***************************************************************************)
Muted == {IF k \in DOMAIN IOEnv THEN IOEnv[k] ELSE "" :
             k \in {"VF_MUTE1", "VF_MUTE2", "VF_MUTE3", "VF_MUTE4", "VF_MUTE5", "VF_MUTE6", "VF_MUTE7", "VF_MUTE8"}}

(* exp   outputs the reference has produced and the implementation has not delivered yet                           *)
(* nexp  likewise for notifications; opt = the entry may be skipped                                               *)
(* unk / armed: after a frame with an unknown command the documents define nothing about the frame's extent, so   *)
(*       an implementation may resynchronise with the next arrival: "nothing more" reports are not judged while   *)
(*       an unknown frame is outstanding (unk > 0) or was just reported and nothing arrived since (armed)         *)
(* cj / rj: a frame that may cancel an arbitration / a RESETTED frame arrived since the last quiescent point      *)
(* quiet: the implementation reported "nothing more" after a real wait and nothing arrived since                  *)
(* arb: "run" when an arbitration start was written at a quiescent point (so it is certainly running before any later  *)
(*       byte), "due" once a RESETTED / ERROR frame arrived while it runs: a cancellation (as_error or START(SYN)) must   *)
(*       be observed before the next quiescent point; "off" otherwise (result frame, SYN symbols that may time it out)   *)
(* parb: ebusd's own view of its arbitration, from what it wrote and what recv told it: TRUE from a written START(m),  *)
(*       FALSE again once recv reported won / lost / error / timeout, a START(SYN) was written or the transport closed.  *)
(*       A start request may be refused only while parb holds; a cancellation may not be refused on an open transport.  *)
(* im / ileft: info automaton, exact only when the request was written at a quiescent point ("idle", "await",      *)
(*       "run"), otherwise "unspec"                                                                               *)
MonInit == [pend |-> -1, exp |-> <<>>, nexp |-> <<>>, unk |-> 0, armed |-> FALSE, cj |-> FALSE, rj |-> FALSE,
            quiet |-> FALSE, arb |-> "off", parb |-> FALSE, im |-> "idle", ileft |-> 0, call |-> <<"none", 0>>, txn |-> 0, dat |-> <<>>,
            closed |-> TRUE, closedRs |-> FALSE, bad |-> ""]

Fail(m, sig) == IF m.bad = "" /\ sig \notin Muted THEN [m EXCEPT !.bad = sig] ELSE m

(* bound of the environment: never more than VF_CAP bytes are pending in the transport, so more than VF_CAP undelivered *)
(* outputs mean that one was lost (keeps the monitor finite when a loss signature is muted)                            *)
Cap == IF "VF_CAP" \in DOMAIN IOEnv THEN atoi(IOEnv.VF_CAP) ELSE 64
(* a loss is named after a RESETTED frame if one arrived since the last quiescent point *)
LostSig(m) == IF m.rj THEN "C14:reset-frame-drops-earlier-symbol" ELSE "C14:symbol-lost"
ReqNtf(q) == {k \in 1..Len(q) : ~q[k].opt}
MinOf(S) == CHOOSE x \in S : \A y \in S : x <= y
ClsName(c) == c[1]

(* ---- a byte arrives ---- *)
PushN(m, es) == LET m1 == [m EXCEPT !.nexp = @ \o es] IN
                IF Len(m1.nexp) > 2 * Cap
                THEN Fail([m1 EXCEPT !.nexp = Tail(@)], "C14:notification-missing:" \o ClsName(Head(m1.nexp).c)) ELSE m1
MonArr(m0, b) ==
  LET it == Item(m0.pend, b)
      m == [m0 EXCEPT !.quiet = FALSE, !.armed = FALSE] IN
  CASE it.k = "pend" -> [m EXCEPT !.pend = b]
    [] it.k = "sym"  -> LET m1 == [m EXCEPT !.pend = -1, !.exp = Append(@, [s |-> it.s, r |-> it.r]),
                                            !.arb = IF it.r # "none" \/ it.s = SYN THEN "off" ELSE @] IN
                        IF Len(m1.exp) > Cap THEN Fail([m1 EXCEPT !.exp = Tail(@)], LostSig(m1)) ELSE m1
    [] it.k = "ntf"  -> PushN([m EXCEPT !.pend = -1], <<[c |-> it.c, opt |-> FALSE]>>)
    [] it.k = "err"  -> PushN([m EXCEPT !.pend = -1, !.cj = TRUE, !.arb = IF @ = "run" THEN "due" ELSE @], <<[c |-> it.c, opt |-> FALSE]>>)
    [] it.k = "unknown" ->
         \* one notification; a second one for the frame's second byte is tolerated (extent of an unknown frame is open)
         PushN([m EXCEPT !.pend = -1, !.unk = IF @ < Cap THEN @ + 1 ELSE @],
               <<[c |-> it.c, opt |-> FALSE], [c |-> <<"stray2", 0>>, opt |-> TRUE]>>)
    [] it.k = "reset" ->
         [m EXCEPT !.pend = -1, !.cj = TRUE, !.rj = TRUE, !.im = "unspec", !.arb = IF @ = "run" THEN "due" ELSE @]
    [] it.k = "info" ->
         CASE m.im = "await" -> IF it.d >= 1 /\ it.d <= 16 THEN [m EXCEPT !.pend = -1, !.im = "run", !.ileft = it.d]
                                ELSE [m EXCEPT !.pend = -1, !.im = "unspec"]
           [] m.im = "run" -> IF m.ileft > 1 THEN [m EXCEPT !.pend = -1, !.ileft = @ - 1]
                              ELSE PushN([m EXCEPT !.pend = -1, !.im = "idle", !.ileft = 0], <<[c |-> <<"info", 0>>, opt |-> FALSE]>>)
           [] OTHER -> [m EXCEPT !.pend = -1]

(* ---- a (symbol, result) is delivered ---- *)
Deliver(m, s, r) ==
  IF m.exp = <<>> THEN Fail(m, "C14:symbol-without-frame")
  ELSE LET h == Head(m.exp) IN
       IF h.s = s /\ h.r = r THEN [m EXCEPT !.exp = Tail(@)]
       ELSE IF h.s = s THEN Fail([m EXCEPT !.exp = Tail(@)], IF m.rj THEN "C14:reset-frame-alters-earlier-arbitration-result"
                                                                  ELSE "C14:arbitration-result-altered")
       ELSE LET ks == {k \in 2..Len(m.exp) : m.exp[k].s = s} IN
            IF ks = {} THEN Fail([m EXCEPT !.exp = Tail(@)], "C14:symbol-altered")
            ELSE Fail([m EXCEPT !.exp = SubSeq(@, MinOf(ks) + 1, Len(@))], LostSig(m))

(* ---- "nothing more" after a real wait: everything that arrived must have been delivered ---- *)
Quiesce(m) ==
  IF m.unk > 0 \/ m.armed THEN m
  ELSE LET m1 == IF m.exp # <<>> THEN Fail([m EXCEPT !.exp = <<>>], LostSig(m)) ELSE m
           rq == ReqNtf(m1.nexp)
           m2 == IF rq # {} THEN Fail(m1, "C14:notification-missing:" \o ClsName(m1.nexp[MinOf(rq)].c)) ELSE m1
           m3 == IF m2.arb = "due" THEN Fail([m2 EXCEPT !.arb = "off"], "C14:arbitration-not-cancelled-by-reset-or-error-frame") ELSE m2 IN
       [m3 EXCEPT !.nexp = <<>>, !.quiet = TRUE, !.cj = FALSE, !.rj = FALSE]

(* ---- bytes that had arrived are gone because the transport was closed ---- *)
Resync(m) ==
  LET m1 == IF m.exp # <<>>
            THEN Fail(m, IF m.closedRs THEN "C14:self-reset-close-drops-buffered-bytes" ELSE "C14:close-drops-buffered-bytes")
            ELSE m IN
  [m1 EXCEPT !.exp = <<>>, !.nexp = <<>>, !.pend = -1, !.unk = 0, !.armed = FALSE, !.quiet = FALSE, !.arb = "off"]

MonRv(m, res, sym, as, T) ==
  LET r  == IF as = 6 THEN "won" ELSE IF as = 4 THEN "lost" ELSE "none"
      mp == IF as \in {2, 4, 5, 6} THEN [m EXCEPT !.parb = FALSE] ELSE m
      ma == IF as = 2 THEN [mp EXCEPT !.arb = "off"] ELSE mp
      m0 == IF as = 2 /\ ~(m.cj \/ res = 3) THEN Fail(ma, "C14:arbitration-cancelled-without-cause") ELSE ma
      \* the data notification of a delivery is judged only when the delivery itself is the expected one
      clean == m.exp # <<>> /\ Head(m.exp).s = sym /\ Head(m.exp).r = r
      datOk == IF res \in {0, 1} THEN (~clean \/ m0.dat = <<<<sym, IF r = "won" THEN 0 ELSE 1>>>>) ELSE m0.dat = <<>>
      m1 == IF ~datOk THEN Fail(m0, "C14:data-notification-mismatch") ELSE m0
      m2 == [m1 EXCEPT !.call = <<"none", 0>>, !.dat = <<>>] IN
  CASE res \in {0, 1} -> LET m3 == Deliver(m2, sym, r) IN
                          \* RESULT_CONTINUE promises that another output can be delivered right away: at least one must be due
                          IF res = 1 /\ m3.exp = <<>> THEN Fail(m3, "C14:continue-without-deliverable-output") ELSE m3
    [] res = 2 -> LET m3 == IF r # "none" THEN Fail(m2, "C14:arbitration-result-without-symbol") ELSE m2 IN
                  IF T > 0 THEN Quiesce(m3)
                  ELSE Fail(m3, "C14:continue-without-deliverable-output")   \* recv(0) is only called after RESULT_CONTINUE
    [] OTHER   -> IF m2.closed THEN Resync(m2) ELSE Fail(m2, "C14:recv-error-on-open-transport")

(* ---- notifications ---- *)
RECURSIVE MatchNtf(_, _)
MatchNtf(m, c) ==
  IF m.nexp = <<>> THEN Fail(m, "C14:notification-without-cause:" \o ClsName(c))
  ELSE IF Head(m.nexp).c = c THEN [m EXCEPT !.nexp = Tail(@)]
  ELSE IF Head(m.nexp).opt THEN MatchNtf([m EXCEPT !.nexp = Tail(@)], c)
  ELSE Fail(m, "C14:notification-sequence:" \o ClsName(c))

MonNtf(m, cls, arg) ==
  CASE cls \in {"topen", "tclosed"} -> m
    [] cls = "reset" -> IF m.rj THEN m ELSE Fail(m, "C14:notification-without-cause:reset")
    [] cls = "info" -> IF \E k \in ReqNtf(m.nexp) : m.nexp[k].c = <<"info", 0>> THEN MatchNtf(m, <<"info", 0>>)
                       ELSE IF m.im = "unspec" THEN m ELSE Fail(m, "C14:notification-without-cause:info")
    [] cls = "unknown" -> LET m2 == MatchNtf(m, <<cls, arg>>) IN
                          [m2 EXCEPT !.unk = IF @ > 0 THEN @ - 1 ELSE 0, !.armed = TRUE]
    [] OTHER -> MatchNtf(m, <<cls, arg>>)

(* ---- bytes written by the device: every request is the defined two-byte sequence ---- *)
MonTx(m, bytes) ==
  LET k == m.call[1]  a == m.call[2]
      ok == CASE k = "send"  -> bytes = Seq2(REQ_SEND, a)
              [] k = "start" -> bytes = Seq2(REQ_START, a)                 \* a = SYN: cancellation
              [] k = "info"  -> bytes = Seq2(REQ_INFO, a)
              [] k = "open"  -> \E d \in 0..255 : bytes = Seq2(REQ_INIT, d)
              [] k = "recv"  -> bytes = Seq2(REQ_START, SYN) \/ \E d \in 0..255 : bytes = Seq2(REQ_INFO, d)
              [] OTHER -> FALSE
      m1 == IF ok THEN m ELSE Fail(m, "C14:request-encoding:" \o k)
      isInfo == Len(bytes) = 2 /\ IsFirst(bytes[1]) /\ CmdOf(bytes[1]) = REQ_INFO
      m2 == IF ~isInfo THEN m1
            ELSE IF m1.quiet /\ m1.exp = <<>> /\ m1.pend = -1 THEN [m1 EXCEPT !.im = "await", !.ileft = 0]
            ELSE [m1 EXCEPT !.im = "unspec",
                            !.nexp = [j \in 1..Len(@) |-> IF @[j].c = <<"info", 0>> THEN [@[j] EXCEPT !.opt = TRUE] ELSE @[j]]]
      isStart == Len(bytes) = 2 /\ IsFirst(bytes[1]) /\ CmdOf(bytes[1]) = REQ_START
      m3 == IF ~isStart THEN m2
            ELSE IF bytes # Seq2(REQ_START, SYN) /\ m2.quiet /\ m2.exp = <<>> /\ m2.pend = -1 THEN [m2 EXCEPT !.arb = "run", !.parb = TRUE]
            ELSE IF bytes # Seq2(REQ_START, SYN) THEN [m2 EXCEPT !.arb = "off", !.parb = TRUE]
            ELSE [m2 EXCEPT !.arb = "off", !.parb = FALSE] IN
  [m3 EXCEPT !.txn = IF @ < 2 THEN @ + 1 ELSE @]

MonRet(m, kind, rc) ==
  LET once == kind \in {"send", "info", "open"} \/ (kind = "start" /\ m.call[2] # SYN)
      m0 == IF kind = "start" /\ rc # 0 /\ ~m.closed
            THEN IF m.call[2] = SYN THEN Fail(m, "C14:arbitration-cancel-refused")
                 ELSE IF ~m.parb THEN Fail(m, "C14:arbitration-start-refused-without-running-arbitration") ELSE m
            ELSE m
      m1 == IF rc = 0 /\ once /\ m0.txn # 1 THEN Fail(m0, "C14:request-not-written-once:" \o kind) ELSE m0
      wantDat == IF kind = "send" /\ rc = 0 THEN <<<<m.call[2], 0>>>> ELSE <<>>
      m2 == IF m1.dat # wantDat THEN Fail(m1, "C14:data-notification-mismatch") ELSE m1 IN
  [m2 EXCEPT !.call = <<"none", 0>>, !.dat = <<>>]

MonEv(m, e) ==
  CASE e[1] = "arr"   -> MonArr(m, e[2])
    [] e[1] = "rv"    -> MonRv(m, e[2], e[3], e[4], e[5])
    [] e[1] = "ntf"   -> MonNtf(m, e[2], e[3])
    [] e[1] = "data"  -> [m EXCEPT !.dat = Append(@, <<e[2], e[3]>>)]
    [] e[1] = "tx"    -> MonTx(m, e[2])
    [] e[1] = "call"  -> [m EXCEPT !.call = <<e[2], e[3]>>, !.txn = 0, !.dat = <<>>]
    [] e[1] = "ret"   -> MonRet(m, e[2], e[3])
    [] e[1] = "close" -> [m EXCEPT !.closed = TRUE, !.closedRs = m.rj, !.parb = FALSE]
    [] e[1] = "open"  -> [Resync(m) EXCEPT !.closed = FALSE, !.closedRs = FALSE, !.im = "idle", !.cj = FALSE, !.rj = FALSE]
    [] e[1] = "reset" -> [MonInit EXCEPT !.bad = m.bad]
    [] OTHER -> m                                                          \* "to", "clk"

RECURSIVE MonFold(_, _, _)
MonFold(m, evs, k) == IF k > Len(evs) THEN m ELSE MonFold(MonEv(m, evs[k]), evs, k + 1)
MonStep(m, evs) == MonFold(m, evs, 1)

(***************************************************************************)
(* Part S - the code-shaped model (device_trans.cpp)                       *)
(*   d = [am, ac, rr, rt, xf, il, ip]  m_arbitrationMaster, m_arbitrationCheck, m_resetRequested,                 *)
(*        rt = 0 iff m_resetTime + 3 >= time(), m_extraFeatures, m_infoLen, m_infoPos (0 when m_infoLen = 0)       *)
(*   t = [buf, wire, valid]  transport: bytes handed over by read() and not consumed, bytes in flight              *)
(***************************************************************************)
AS_NONE == 0  AS_ERROR == 2  AS_RUNNING == 3  AS_LOST == 4  AS_TIMEOUT == 5  AS_WON == 6
DevClosed == [am |-> SYN, ac |-> 0, rr |-> FALSE, rt |-> 1, xf |-> 0, il |-> 0, ip |-> 0]
DevNew    == DevClosed
TrNew     == [buf |-> <<>>, wire |-> <<>>, valid |-> FALSE]
EvNtf(cls, arg, err) == <<"ntf", cls, arg, err>>

(* c = [data, len, pos, vs, val, as, more, sent, d, valid, ev] - the locals of handleEnhancedBufferedData *)
SCancel(c) ==      \* EnhancedDevice::cancelRunningArbitration(arbitrationState)
  IF c.d.am = SYN THEN c
  ELSE [c EXCEPT !.as = AS_ERROR, !.d.am = SYN, !.d.ac = 0,
                 !.ev = IF c.valid THEN Append(@, <<"tx", Seq2(REQ_START, SYN)>>) ELSE @]
SClose(c) ==       \* Transport::close + EnhancedDevice::notifyTransportStatus(false)
  IF ~c.valid THEN c
  ELSE [c EXCEPT !.valid = FALSE, !.ev = @ \o <<<<"close">>, EvNtf("tclosed", 0, 1)>>, !.d = DevClosed]
SReqInfo(c, id) == \* requestEnhancedInfo(id, false)
  IF c.d.xf = 0 THEN c
  ELSE IF c.valid THEN [c EXCEPT !.ev = Append(@, <<"tx", Seq2(REQ_INFO, id)>>), !.d.il = 1, !.d.ip = 1]
  ELSE [c EXCEPT !.d.il = 0, !.d.ip = 0]

RECURSIVE EnhLoop(_)
EnhLoop(c) ==
  IF c.pos >= c.len THEN c
  ELSE
  LET ch == c.data[c.pos + 1] IN
  IF ch < 128 THEN
    IF c.vs THEN [c EXCEPT !.more = TRUE]
    ELSE EnhLoop([c EXCEPT !.val = ch, !.vs = TRUE, !.pos = @ + 1])
  ELSE IF IsFirst(ch) /\ c.len < c.pos + 2 THEN c                          \* transfer not complete yet
  ELSE IF IsSecond(ch) THEN EnhLoop([c EXCEPT !.ev = Append(@, EvNtf("stray2", 0, 1)), !.pos = @ + 1])
  ELSE
  LET ch2 == c.data[c.pos + 2] IN
  IF ~IsSecond(ch2) THEN EnhLoop([c EXCEPT !.ev = Append(@, EvNtf("missing2", 0, 1)), !.pos = @ + 2])
  ELSE
  LET dd == DataOf(ch, ch2)  cmd == CmdOf(ch) IN
  CASE cmd \in {RES_STARTED, RES_FAILED} ->
         IF c.vs THEN [c EXCEPT !.more = TRUE]                             \* keep ENH_BYTE1 for later run
         ELSE EnhLoop([c EXCEPT !.sent = (cmd = RES_STARTED), !.as = IF cmd = RES_STARTED THEN AS_WON ELSE AS_LOST,
                                !.d.am = SYN, !.d.ac = 0, !.val = dd, !.vs = TRUE, !.pos = @ + 2])
    [] cmd = RES_RECEIVED ->
         IF c.vs THEN [c EXCEPT !.more = TRUE]                             \* keep ENH_BYTE1 for later run
         ELSE LET c2 == IF dd = SYN /\ c.as = AS_RUNNING /\ c.d.ac > 0
                        THEN IF c.d.ac < 3 THEN [c EXCEPT !.d.ac = @ + 1]
                             ELSE [c EXCEPT !.as = AS_TIMEOUT, !.d.am = SYN, !.d.ac = 0]
                        ELSE c IN
              EnhLoop([c2 EXCEPT !.val = dd, !.vs = TRUE, !.pos = @ + 2])
    [] cmd = RES_RESETTED ->
         LET c1 == IF (IF OldResetHandling THEN c.as # AS_NONE ELSE c.as = AS_RUNNING)
                   THEN [c EXCEPT !.as = AS_ERROR, !.d.am = SYN, !.d.ac = 0] ELSE c
             c2 == [c1 EXCEPT !.d.il = 0, !.d.ip = 0] IN
         IF ~c2.d.rr /\ c2.d.rt = 0 /\ dd = c2.d.xf
         THEN EnhLoop([c2 EXCEPT !.vs = (IF OldResetHandling THEN FALSE ELSE @), !.pos = @ + 2])   \* skip explicit response to init request
         ELSE LET c3 == IF ~c2.d.rr /\ c2.d.rt = 0 THEN [c2 EXCEPT !.d.rr = TRUE] ELSE c2
                  c4 == [c3 EXCEPT !.d.xf = dd, !.ev = Append(@, EvNtf("reset", dd % 2, 0))] IN
              IF c4.d.rr
              THEN LET c5 == [c4 EXCEPT !.d.rr = FALSE]
                       c6 == IF dd % 2 = 1 THEN SReqInfo(c5, 0) ELSE c5 IN
                   EnhLoop([c6 EXCEPT !.vs = (IF OldResetHandling THEN FALSE ELSE @), !.pos = @ + 2])
              ELSE EnhLoop([SCancel(SClose(c4)) EXCEPT !.pos = @ + 2])     \* self-reset: close the transport
    [] cmd = RES_INFO ->
         LET c1 == IF c.d.il = 1 THEN [c EXCEPT !.d.il = dd + 1]
                   ELSE IF c.d.il > 0 /\ c.d.ip < c.d.il /\ c.d.ip < 17
                        THEN IF c.d.ip + 1 >= c.d.il
                             THEN [c EXCEPT !.d.il = 0, !.d.ip = 0, !.ev = Append(@, EvNtf("info", 0, 0))]
                             ELSE [c EXCEPT !.d.ip = @ + 1]
                        ELSE [c EXCEPT !.d.il = 0, !.d.ip = 0] IN
         EnhLoop([c1 EXCEPT !.pos = @ + 2])
    [] cmd \in {RES_ERROR_EBUS, RES_ERROR_HOST} ->
         LET c1 == [c EXCEPT !.ev = Append(@, EvNtf(IF cmd = RES_ERROR_EBUS THEN "ebus" ELSE "host", dd, 1))] IN
         EnhLoop([SCancel(c1) EXCEPT !.pos = @ + 2])
    [] OTHER -> [c EXCEPT !.ev = Append(@, EvNtf("unknown", cmd, 1)), !.pos = @ + 1]   \* len = 0: abort, pos at byte 2

(* one call of EnhancedDevice::recv(T, ...) with *arbitrationState = as_none on entry *)
EnhRecvF(d, t, T) ==
  LET as0 == IF d.am # SYN THEN AS_RUNNING ELSE AS_NONE
      ev0 == <<<<"call", "recv", T>>>>
      Done(dd, tt, evs, res, sym, as) ==
         [d |-> dd, t |-> tt, ev |-> Append(evs, <<"rv", res, sym, as, T>>), cont |-> (res = 1)] IN
  IF ~t.valid
  THEN LET c == SCancel([d |-> d, valid |-> FALSE, ev |-> ev0, as |-> as0]) IN Done(c.d, t, c.ev, 3, 256, c.as)
  ELSE IF (T = 0 /\ t.buf = <<>>) THEN Done(d, t, ev0, 2, 256, as0)
  ELSE IF (T > 0 /\ t.wire = <<>>) THEN Done(d, t, Append(ev0, <<"to", T>>), 2, 256, as0)
  ELSE
  LET data == IF T = 0 THEN t.buf ELSE t.buf \o t.wire
      wire1 == IF T = 0 THEN t.wire ELSE <<>>
      c == EnhLoop([data |-> data, len |-> Len(data), pos |-> 0, vs |-> FALSE, val |-> 0, as |-> as0, more |-> FALSE,
                    sent |-> FALSE, d |-> d, valid |-> TRUE, ev |-> ev0])
      t1 == [buf |-> IF c.valid THEN SubSeq(data, c.pos + 1, Len(data)) ELSE <<>>,
             wire |-> IF c.valid THEN wire1 ELSE <<>>, valid |-> c.valid]
      ev1 == IF c.vs THEN Append(c.ev, <<"data", c.val, IF c.sent THEN 0 ELSE 1>>) ELSE c.ev IN
  IF c.more THEN Done(c.d, t1, ev1, 1, c.val, c.as)
  ELSE IF c.vs THEN Done(c.d, t1, ev1, 0, c.val, c.as)
  ELSE IF T = 0 THEN Done(c.d, t1, ev1, 2, 256, c.as)
  ELSE IF c.valid THEN Done(c.d, t1, Append(ev1, <<"to", T>>), 2, 256, c.as)   \* loops into a read that times out
  ELSE LET c7 == SCancel([c EXCEPT !.ev = ev1]) IN Done(c7.d, t1, c7.ev, 3, 256, c7.as)

EnhStartF(d, t, a) ==
  LET ev0 == <<<<"call", "start", a>>>>
      R(dd, evs, rc) == [d |-> dd, t |-> t, ev |-> Append(evs, <<"ret", "start", rc>>), cont |-> FALSE] IN
  IF d.ac > 0 THEN
     IF a # SYN THEN R(d, ev0, 19)
     ELSE LET c == SCancel([d |-> d, valid |-> t.valid, ev |-> ev0, as |-> AS_NONE]) IN
          R(c.d, c.ev, IF t.valid THEN 0 ELSE 3)
  ELSE IF a = SYN THEN R([d EXCEPT !.am = SYN], ev0, 0)
  ELSE IF t.valid THEN R([d EXCEPT !.am = a, !.ac = 1], Append(ev0, <<"tx", Seq2(REQ_START, a)>>), 0)
  ELSE R([d EXCEPT !.am = SYN], ev0, 2)

EnhSendF(d, t, b) ==
  [d |-> d, t |-> t, cont |-> FALSE,
   ev |-> IF t.valid THEN <<<<"call", "send", b>>, <<"tx", Seq2(REQ_SEND, b)>>, <<"data", b, 0>>, <<"ret", "send", 0>>>>
          ELSE <<<<"call", "send", b>>, <<"ret", "send", 2>>>>]

EnhInfoF(d, t, id) ==
  LET c == SReqInfo([d |-> d, valid |-> t.valid, ev |-> <<<<"call", "info", id>>>>], id) IN
  [d |-> c.d, t |-> t, cont |-> FALSE, ev |-> Append(c.ev, <<"ret", "info", IF d.xf = 0 THEN 8 ELSE IF t.valid THEN 0 ELSE 2>>)]

EnhOpenF(d, t) ==     \* only called on a closed transport
  [d |-> [d EXCEPT !.rt = 0, !.rr = TRUE], t |-> [buf |-> <<>>, wire |-> <<>>, valid |-> TRUE], cont |-> FALSE,
   ev |-> <<<<"call", "open", 0>>, <<"open">>, EvNtf("topen", 0, 0), <<"tx", Seq2(REQ_INIT, 1)>>, <<"ret", "open", 0>>>>]
=============================================================================
