CONSTANTS
  EchoOnce = TRUE
  Rule = "once"
  FlushAt = 8
  MaxLen = 7
INIT Init
NEXT Next
INVARIANT PHolds
INVARIANT PDecodeFilter
INVARIANT SBufferHoldsRest
INVARIANT SBufferBounded
