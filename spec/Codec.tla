-------------------------------- MODULE Codec --------------------------------
(* P-level value semantics of the built-in ebusd data types (C05, C06, C07).       *)
(* Written from the documentation comments of the type list (DataTypeList          *)
(* constructor), the ebusd wiki and the eBUS application layer rules -- not from   *)
(* the decoding code.  Everything is integer / sequence arithmetic; texts are      *)
(* sequences of character codes; values wider than 31 bits are byte or digit       *)
(* sequences.  What the property text leaves open is left open here (outcome       *)
(* kinds "any", "lenient", "errnull", tie => two admissible texts).                *)
EXTENDS Naturals, Integers, Sequences, FiniteSets, TLC

-----------------------------------------------------------------------------
(* small helpers *)
Rev(s) == [i \in 1..Len(s) |-> s[Len(s) + 1 - i]]

RECURSIVE Pow(_, _)
Pow(b, k) == IF k = 0 THEN 1 ELSE b * Pow(b, k - 1)

(* decimal digits (as character codes) of a natural < 2^31 *)
RECURSIVE Dec(_)
Dec(n) == IF n < 10 THEN <<48 + n>> ELSE Append(Dec(n \div 10), 48 + (n % 10))

RECURSIVE Zeros(_)
Zeros(k) == IF k <= 0 THEN <<>> ELSE <<48>> \o Zeros(k - 1)
(* zero padded to at least w digits *)
DecW(n, w) == LET d == Dec(n) IN Zeros(w - Len(d)) \o d

Chars(ds) == [i \in 1..Len(ds) |-> 48 + ds[i]]        \* digit values -> character codes

DASH   == 45
DOT    == 46
COLON  == 58
QUOTE  == 34
BSL    == 92
BLANK  == 32
NULLTXT  == <<DASH>>
JSONNULL == <<110, 117, 108, 108>>      \* null
Quoted(s) == <<QUOTE>> \o s \o <<QUOTE>>

(* precision of a divisor: number of fraction digits = ceil(log10 d) *)
RECURSIVE PrecFrom(_, _, _)
PrecFrom(d, e, p) == IF e >= d THEN p ELSE PrecFrom(d, e * 10, p + 1)
Prec(d) == IF d <= 1 THEN 0 ELSE PrecFrom(d, 1, 0)

-----------------------------------------------------------------------------
(* The built-in type table.  One entry per type id as registered (ids with a      *)
(* ":len" suffix are the fixed-length variants).  Fields:                         *)
(*   k     kind: num | bits | str | date | day | dtm | time | min | ttm | tem     *)
(*   bits  number of bits (maximum for adjustable types)                          *)
(*   fl    flags: BCD HCD REV SIG REQ FIX DAY EXP (as in the documentation)       *)
(*   repl  replacement pattern, most significant byte first (<<>> = none: REQ)    *)
(*   lo,hi documented value range (of the decoded integer, before the divisor);   *)
(*         for the 32 bit binary integers the documented range is exactly "every  *)
(*         pattern but the replacement" (wide = TRUE) and lo/hi are not used      *)
(*   div   built-in divisor                                                       *)
NumT(bits, fl, repl, lo, hi, div) ==
  [k |-> "num", bits |-> bits, fl |-> fl, repl |-> repl, lo |-> lo, hi |-> hi, div |-> div, wide |-> FALSE]
WideT(fl, repl) ==
  [k |-> "num", bits |-> 32, fl |-> fl, repl |-> repl, lo |-> 0, hi |-> 0, div |-> 1, wide |-> TRUE]
BitsT(maxbits, first) == [k |-> "bits", bits |-> maxbits, fb |-> first, fl |-> {"REQ"}]
StrT(kind, fill) == [k |-> kind, bits |-> 248, fill |-> fill, fl |-> {}]
(* dates: order of the components on the wire; wd = position of the weekday byte (0 = none), *)
(* wd0 = value of Monday in the weekday byte                                                  *)
DateT(len, fl, wd0) == [k |-> "date", bits |-> 8 * len, fl |-> fl, repl |-> 255, wd0 |-> wd0]
(* times: n components; REV = least significant component (seconds/minutes) first on the wire *)
TimeT(n, fl, repl) == [k |-> "time", bits |-> 8 * n, fl |-> fl, repl |-> repl]
TruncT(bits, res, repl) == [k |-> "ttm", bits |-> bits, res |-> res, repl |-> repl, fl |-> {}]

Types ==
  (* unsigned decimal in BCD, 0000 - 9999 (fixed length), most significant byte first *)
     "PIN"   :> NumT(16, {"FIX", "BCD", "REV"}, <<255, 255>>, 0, 9999, 1)
  @@ "UCH"   :> NumT(8, {}, <<255>>, 0, 254, 1)                      \* unsigned integer, 0 - 254
  @@ "U1L"   :> NumT(8, {"REQ"}, <<>>, 0, 255, 1)                    \* unsigned 1-byte, 0 - 255 (no replacement)
  @@ "BDY"   :> NumT(8, {"DAY"}, <<7>>, 0, 6, 1)                     \* weekday, "Mon" - "Sun" (0x00 - 0x06)
  @@ "HDY"   :> NumT(8, {"DAY"}, <<0>>, 1, 7, 1)                     \* weekday, "Mon" - "Sun" (0x01 - 0x07)
  @@ "BCD"   :> NumT(8, {"BCD"}, <<255>>, 0, 99, 1)                  \* unsigned decimal in BCD, 0 - 99
  @@ "BCD:1" :> NumT(8, {"BCD"}, <<255>>, 0, 99, 1)
  @@ "BCD:2" :> NumT(16, {"BCD"}, <<255, 255>>, 0, 9999, 1)          \* 0 - 9999
  @@ "BCD:3" :> NumT(24, {"BCD"}, <<255, 255, 255>>, 0, 999999, 1)   \* 0 - 999999
  @@ "BCD:4" :> NumT(32, {"BCD"}, <<255, 255, 255, 255>>, 0, 99999999, 1)
  @@ "HCD"   :> NumT(32, {"BCD", "HCD", "REQ"}, <<>>, 0, 99999999, 1) \* unsigned decimal in HCD, 0 - 99999999
  @@ "HCD:4" :> NumT(32, {"BCD", "HCD", "REQ"}, <<>>, 0, 99999999, 1)
  @@ "HCD:1" :> NumT(8, {"BCD", "HCD", "REQ"}, <<>>, 0, 99, 1)
  @@ "HCD:2" :> NumT(16, {"BCD", "HCD", "REQ"}, <<>>, 0, 9999, 1)
  @@ "HCD:3" :> NumT(24, {"BCD", "HCD", "REQ"}, <<>>, 0, 999999, 1)
  @@ "SCH"   :> NumT(8, {"SIG"}, <<128>>, -127, 127, 1)              \* signed integer, -127 - +127
  @@ "S1L"   :> NumT(8, {"SIG", "REQ"}, <<>>, -128, 127, 1)          \* signed integer, -128 - +127 (no replacement)
  @@ "D1B"   :> NumT(8, {"SIG"}, <<128>>, -127, 127, 1)              \* signed integer, -127 - +127
  @@ "D1C"   :> NumT(8, {}, <<255>>, 0, 200, 2)                      \* unsigned number (fraction 1/2), 0 - 100
  @@ "D2B"   :> NumT(16, {"SIG"}, <<128, 0>>, -32767, 32767, 256)    \* signed number (fraction 1/256)
  @@ "D2C"   :> NumT(16, {"SIG"}, <<128, 0>>, -32767, 32767, 16)     \* signed number (fraction 1/16)
  @@ "FLT"   :> NumT(16, {"SIG"}, <<128, 0>>, -32767, 32767, 1000)   \* signed number (fraction 1/1000), little endian
  @@ "FLR"   :> NumT(16, {"SIG", "REV"}, <<128, 0>>, -32767, 32767, 1000)  \* ... big endian
  @@ "UIN"   :> NumT(16, {}, <<255, 255>>, 0, 65534, 1)              \* unsigned integer, 0 - 65534, little endian
  @@ "UIR"   :> NumT(16, {"REV"}, <<255, 255>>, 0, 65534, 1)         \* ... big endian
  @@ "U2L"   :> NumT(16, {"REQ"}, <<>>, 0, 65535, 1)                 \* 0 - 65535, little endian (no replacement)
  @@ "U2B"   :> NumT(16, {"REQ", "REV"}, <<>>, 0, 65535, 1)
  @@ "SIN"   :> NumT(16, {"SIG"}, <<128, 0>>, -32767, 32767, 1)
  @@ "SIR"   :> NumT(16, {"SIG", "REV"}, <<128, 0>>, -32767, 32767, 1)
  @@ "S2L"   :> NumT(16, {"SIG", "REQ"}, <<>>, -32768, 32767, 1)
  @@ "S2B"   :> NumT(16, {"SIG", "REQ", "REV"}, <<>>, -32768, 32767, 1)
  @@ "U3N"   :> NumT(24, {}, <<255, 255, 255>>, 0, 16777214, 1)
  @@ "U3R"   :> NumT(24, {"REV"}, <<255, 255, 255>>, 0, 16777214, 1)
  @@ "U3L"   :> NumT(24, {"REQ"}, <<>>, 0, 16777215, 1)
  @@ "U3B"   :> NumT(24, {"REQ", "REV"}, <<>>, 0, 16777215, 1)
  @@ "S3N"   :> NumT(24, {"SIG"}, <<128, 0, 0>>, -8388607, 8388607, 1)
  @@ "S3R"   :> NumT(24, {"SIG", "REV"}, <<128, 0, 0>>, -8388607, 8388607, 1)
  @@ "S3L"   :> NumT(24, {"SIG", "REQ"}, <<>>, -8388608, 8388607, 1)
  @@ "S3B"   :> NumT(24, {"SIG", "REQ", "REV"}, <<>>, -8388608, 8388607, 1)
  (* 32 bit: 0 - 4294967294 / -2147483647 - +2147483647 with replacement, full range without *)
  @@ "ULG"   :> WideT({}, <<255, 255, 255, 255>>)
  @@ "ULR"   :> WideT({"REV"}, <<255, 255, 255, 255>>)
  @@ "U4L"   :> WideT({"REQ"}, <<>>)
  @@ "U4B"   :> WideT({"REQ", "REV"}, <<>>)
  @@ "SLG"   :> WideT({"SIG"}, <<128, 0, 0, 0>>)
  @@ "SLR"   :> WideT({"SIG", "REV"}, <<128, 0, 0, 0>>)
  @@ "S4L"   :> WideT({"SIG", "REQ"}, <<>>)
  @@ "S4B"   :> WideT({"SIG", "REQ", "REV"}, <<>>)
  (* IEEE 754 binary32: only the replacement (quiet NaN 7fc00000) is specified here, see DESIGN 6 *)
  @@ "EXP"   :> WideT({"SIG", "EXP"}, <<127, 192, 0, 0>>)
  @@ "EXR"   :> WideT({"SIG", "EXP", "REV"}, <<127, 192, 0, 0>>)
  (* bit n (up to m bits until bit 6/7) *)
  @@ "BI0"   :> BitsT(7, 0) @@ "BI1" :> BitsT(7, 1) @@ "BI2" :> BitsT(6, 2) @@ "BI3" :> BitsT(5, 3)
  @@ "BI4"   :> BitsT(4, 4) @@ "BI5" :> BitsT(3, 5) @@ "BI6" :> BitsT(2, 6) @@ "BI7" :> BitsT(1, 7)
  (* strings *)
  @@ "STR"   :> StrT("str", BLANK)     \* >= 1 byte character string filled up with space
  @@ "NTS"   :> StrT("str", 0)         \* >= 1 byte character string filled up with 0x00 (null terminated)
  @@ "HEX"   :> StrT("hex", 0)         \* >= 1 byte hex digit string, separated by space, e.g. 0a 1b 2c 3d
  @@ "IGN"   :> StrT("ign", 0)         \* >= 1 byte ignored data
  (* dates 01.01.2000 - 31.12.2099: DD MM [WW] YY; weekday Mon=1..Sun=7 (BDA, HDA) or Mon=0..Sun=6 (BDZ) *)
  @@ "BDA"   :> DateT(4, {"BCD"}, 1) @@ "BDA:4" :> DateT(4, {"BCD"}, 1) @@ "BDA:3" :> DateT(3, {"BCD"}, 1)
  @@ "BDZ"   :> DateT(4, {"BCD"}, 0)
  @@ "HDA"   :> DateT(4, {}, 1) @@ "HDA:4" :> DateT(4, {}, 1) @@ "HDA:3" :> DateT(3, {}, 1)
  (* days since 01.01.1900, 01.01.1900 - 06.06.2079 (0x00,0x00 - 0xff,0xff), little endian *)
  @@ "DAY"   :> [k |-> "day", bits |-> 16, fl |-> {}]
  (* minutes since 01.01.2009, 01.01.2009 - 31.12.2099 (00 00 00 00 - 1f 4e da 02 on the wire) *)
  @@ "DTM"   :> [k |-> "dtm", bits |-> 32, fl |-> {"REQ"}]
  @@ "BTI"   :> TimeT(3, {"BCD", "REV"}, 255)   \* hh:mm:ss in BCD, SS MM HH
  @@ "HTI"   :> TimeT(3, {}, 255)               \* HH MM SS
  @@ "VTI"   :> TimeT(3, {"REV"}, 99)           \* SS MM HH, replacement 0x63
  @@ "BTM"   :> TimeT(2, {"BCD", "REV"}, 255)   \* hh:mm in BCD, MM HH
  @@ "HTM"   :> TimeT(2, {}, 255)               \* HH MM
  @@ "VTM"   :> TimeT(2, {"REV"}, 255)          \* MM HH
  @@ "MIN"   :> [k |-> "min", bits |-> 16, fl |-> {}]   \* minutes since midnight, 00:00 - 24:00, little endian
  @@ "TTM"   :> TruncT(8, 10, 144)              \* multiples of 10 minutes, replacement 0x90
  @@ "TTH"   :> TruncT(6, 30, 0)                \* multiples of 30 minutes in 6 bits
  @@ "TTQ"   :> TruncT(7, 15, 0)                \* multiples of 15 minutes in 7 bits
  (* TEM/Dungs parameter id GG-NNN; master data: xNNNNNNN xxxGGGGG (high, low), slave: xxxxGGGG GNNNNNNN *)
  @@ "TEM_P" :> [k |-> "tem", bits |-> 16, fl |-> {}]

TypeIds == DOMAIN Types

DayNames == << <<77, 111, 110>>, <<84, 117, 101>>, <<87, 101, 100>>, <<84, 104, 117>>,
               <<70, 114, 105>>, <<83, 97, 116>>, <<83, 117, 110>> >>     \* Mon Tue Wed Thu Fri Sat Sun

-----------------------------------------------------------------------------
(* Outcomes a correct decoder may produce *)
Val(texts)  == [k |-> "val", texts |-> texts]     \* must succeed with one of these texts
Null        == [k |-> "null"]                     \* must succeed with the null text
Err         == [k |-> "err"]                      \* must be rejected with an error
ErrNull     == [k |-> "errnull"]                  \* error or null (partly replaced digit patterns)
Lenient     == [k |-> "lenient"]                  \* error, or anything that is not presented as a value (contains '-')
NullOrVal(texts) == [k |-> "nullval", texts |-> texts]
ErrOrVal(texts)  == [k |-> "errval", texts |-> texts]
Open         == [k |-> "open"]
Empty       == [k |-> "empty"]                    \* ignored field: nothing is shown

-----------------------------------------------------------------------------
(* effective divisor of a definition: built-in divisor combined with the user's (product); *)
(* 0 = inadmissible combination (divisor and multiplier mixed)                             *)
EffDiv(builtin, user) ==
  LET u == IF user = 0 THEN 1 ELSE user IN
  IF builtin = 1 THEN u
  ELSE IF u = 1 THEN builtin
  ELSE IF u < 0 THEN (IF builtin > 1 THEN 0 ELSE -(u * builtin))
  ELSE IF builtin < 0 THEN 0 ELSE u * builtin

(* fixed point rendering of magnitude/d with p fraction digits by long division; *)
(* result: set of admissible texts (two on an exact tie)                        *)
RECURSIVE Frac(_, _, _, _)
Frac(r, d, p, acc) == IF p = 0 THEN [ds |-> acc, r |-> r]
                      ELSE Frac((r * 10) % d, d, p - 1, Append(acc, (r * 10) \div d))
RECURSIVE IncSeq(_)
IncSeq(ds) == IF ds = <<>> THEN [ds |-> <<>>, c |-> 1]
              ELSE LET n == Len(ds) IN
                   IF ds[n] < 9 THEN [ds |-> [ds EXCEPT ![n] = @ + 1], c |-> 0]
                   ELSE LET rest == IncSeq(SubSeq(ds, 1, n - 1)) IN [ds |-> Append(rest.ds, 0), c |-> rest.c]
Sign(neg) == IF neg THEN <<DASH>> ELSE <<>>
FixedTexts(neg, mag, d) ==
  IF d = 1 THEN {Sign(neg) \o Dec(mag)}
  ELSE IF d < 0 THEN {Sign(neg) \o Dec(mag * (-d))}
  ELSE LET p == Prec(d)
           q == mag \div d
           f == Frac(mag % d, d, p, <<>>)
           down == Sign(neg) \o Dec(q) \o <<DOT>> \o Chars(f.ds)
           i == IncSeq(f.ds)
           up == Sign(neg) \o Dec(q + i.c) \o <<DOT>> \o Chars(i.ds)
       IN IF 2 * f.r < d THEN {down} ELSE IF 2 * f.r > d THEN {up} ELSE {down, up}

-----------------------------------------------------------------------------
(* numbers up to 24 bits, BCD/HCD up to 8 digits *)
RECURSIVE LeVal(_, _)      \* bytes least significant first, base b
LeVal(bs, b) == IF bs = <<>> THEN 0 ELSE Head(bs) + b * LeVal(Tail(bs), b)

BcdOk(x) == (x \div 16) <= 9 /\ (x % 16) <= 9
BcdVal(x) == 10 * (x \div 16) + (x % 16)

NumText(T, d, neg, mag) ==
  IF "FIX" \in T.fl /\ d = 1 THEN {DecW(mag, T.bits \div 4)} ELSE FixedTexts(neg, mag, d)

(* bytes in wire order *)
NumExpect(T, d, bytes) ==
  LET ls == IF "REV" \in T.fl THEN Rev(bytes) ELSE bytes        \* least significant first
      n == Len(ls)
  IN IF "BCD" \in T.fl THEN
       IF "HCD" \in T.fl THEN
         IF \E i \in 1..n : ls[i] > 99 THEN Err
         ELSE LET v == LeVal(ls, 100) IN IF v < T.lo \/ v > T.hi THEN Err ELSE Val(NumText(T, d, FALSE, v))
       ELSE IF T.repl # <<>> /\ \A i \in 1..n : ls[i] = 255 THEN Null
       ELSE IF T.repl # <<>> /\ \E i \in 1..n : ls[i] = 255 THEN ErrNull
       ELSE IF \E i \in 1..n : ~BcdOk(ls[i]) THEN Err
       ELSE LET v == LeVal([i \in 1..n |-> BcdVal(ls[i])], 100) IN
            IF v < T.lo \/ v > T.hi THEN Err ELSE Val(NumText(T, d, FALSE, v))
     ELSE IF T.repl # <<>> /\ Rev(ls) = T.repl THEN Null
     ELSE LET raw == LeVal(ls, 256)
              neg == "SIG" \in T.fl /\ raw >= Pow(2, T.bits - 1)
              mag == IF neg THEN Pow(2, T.bits) - raw ELSE raw
              v == IF neg THEN 0 - mag ELSE mag
          IN IF v < T.lo \/ v > T.hi THEN Err ELSE Val(NumText(T, d, neg, mag))

-----------------------------------------------------------------------------
(* 32 bit binary integers: decimal digits by long division of the byte sequence *)
RECURSIVE DivBytes10(_, _, _)    \* ms = bytes most significant first; returns quotient bytes and remainder
DivBytes10(ms, r, acc) ==
  IF ms = <<>> THEN [q |-> acc, r |-> r]
  ELSE LET x == r * 256 + Head(ms) IN DivBytes10(Tail(ms), x % 10, Append(acc, x \div 10))
AllZero(s) == \A i \in 1..Len(s) : s[i] = 0
RECURSIVE DecBytesR(_)
DecBytesR(ms) == IF AllZero(ms) THEN <<>>
                 ELSE LET dv == DivBytes10(ms, 0, <<>>) IN Append(DecBytesR(dv.q), 48 + dv.r)
DecBytes(ms) == IF AllZero(ms) THEN <<48>> ELSE DecBytesR(ms)

(* two's complement negation of a byte sequence (most significant first) *)
RECURSIVE NegLs(_, _)            \* on least significant first: invert and add carry
NegLs(ls, c) == IF ls = <<>> THEN <<>>
                ELSE LET x == (255 - Head(ls)) + c IN <<x % 256>> \o NegLs(Tail(ls), x \div 256)
NegBytes(ms) == Rev(NegLs(Rev(ms), 1))

(* text of a decimal digit string divided by 10^p, resp. multiplied by 10^k *)
PointAt(ds, p) == IF p = 0 THEN ds
                  ELSE LET full == Zeros(p + 1 - Len(ds)) \o ds
                           n == Len(full)
                       IN SubSeq(full, 1, n - p) \o <<DOT>> \o SubSeq(full, n - p + 1, n)
(* IEEE-754 binary32: no general text oracle (DESIGN 6); a few patterns whose value is a short exact decimal are   *)
(* specified: sign 1, exponent 8, significand 23 bits; e.g. 44 9a 50 00 = 2^10 * (1 + 0x1a5000 / 2^23) = 1234.5 *)
ExpKnown == <<68, 154, 80, 0>> :> {<<49, 50, 51, 52, 46, 53>>}                    \* 1234.5
         @@ <<192, 32, 0, 0>> :> {<<45, 50, 46, 53>>}                             \* -2.5
         @@ <<62, 128, 0, 0>> :> {<<48, 46, 50, 53>>}                             \* 0.25
         @@ <<66, 200, 0, 0>> :> {<<49, 48, 48>>, <<49, 48, 48, 46, 48>>}         \* 100 or 100.0
WideExpect(T, d, bytes) ==
  LET ms == IF "REV" \in T.fl THEN bytes ELSE Rev(bytes)
  IN IF T.repl # <<>> /\ ms = T.repl THEN Null
     ELSE IF "EXP" \in T.fl THEN (IF d = 1 /\ ms \in DOMAIN ExpKnown THEN Val(ExpKnown[ms]) ELSE Open)
     ELSE LET neg == "SIG" \in T.fl /\ ms[1] >= 128
              ds == DecBytes(IF neg THEN NegBytes(ms) ELSE ms)
          IN CASE d = 1    -> Val({Sign(neg) \o ds})
               [] d = 10   -> Val({Sign(neg) \o PointAt(ds, 1)})
               [] d = 100  -> Val({Sign(neg) \o PointAt(ds, 2)})
               [] d = -10  -> Val({Sign(neg) \o (IF ds = <<48>> THEN ds ELSE ds \o <<48>>)})
               [] OTHER    -> Open

(* decimal digits of the magnitude of a numeric pattern and comparison of digit strings with a natural *)
(* (used to name the input class of a finding)                                                       *)
NumMag(T, bytes) ==
  IF T.wide THEN LET ms == IF "REV" \in T.fl THEN bytes ELSE Rev(bytes)
                     neg == "SIG" \in T.fl /\ ms[1] >= 128
                 IN [neg |-> neg, ds |-> DecBytes(IF neg THEN NegBytes(ms) ELSE ms)]
  ELSE LET ls == IF "REV" \in T.fl THEN Rev(bytes) ELSE bytes IN
       IF "BCD" \in T.fl THEN
         [neg |-> FALSE, ds |-> Dec(IF "HCD" \in T.fl THEN LeVal(ls, 100) ELSE LeVal([i \in 1..Len(ls) |-> BcdVal(ls[i])], 100))]
       ELSE LET raw == LeVal(ls, 256)
                neg == "SIG" \in T.fl /\ raw >= Pow(2, T.bits - 1)
            IN [neg |-> neg, ds |-> Dec(IF neg THEN Pow(2, T.bits) - raw ELSE raw)]
DsGE(ds, n) == LET m == Dec(n) IN
  \/ Len(ds) > Len(m)
  \/ Len(ds) = Len(m) /\ (ds = m \/ \E i \in 1..Len(m) : ds[i] > m[i] /\ \A j \in 1..(i - 1) : ds[j] = m[j])

-----------------------------------------------------------------------------
(* bit ranges *)
BitsExpect(T, nbits, bytes) ==
  IF nbits < 1 \/ nbits > T.bits THEN Open
  ELSE Val({Dec((bytes[1] \div Pow(2, T.fb)) % Pow(2, nbits))})

-----------------------------------------------------------------------------
(* value lists: vl = sequence of <<number, name>>; base type unsigned *)
VlLookup(vl, v) == {vl[i][2] : i \in {j \in 1..Len(vl) : vl[j][1] = v}}
RawOf(T, nbits, bytes) ==       \* unsigned raw value as the list sees it
  IF T.k = "bits" THEN (bytes[1] \div Pow(2, T.fb)) % Pow(2, nbits)
  ELSE LET ls == IF "REV" \in T.fl THEN Rev(bytes) ELSE bytes IN
       IF "BCD" \in T.fl /\ "HCD" \notin T.fl THEN
            (IF \A i \in 1..Len(ls) : BcdOk(ls[i]) THEN LeVal([i \in 1..Len(ls) |-> BcdVal(ls[i])], 100) ELSE -1)
       ELSE LeVal(ls, IF "HCD" \in T.fl THEN 100 ELSE 256)
ListExpect(T, nbits, vl, bytes) ==
  LET base == IF T.k = "bits" THEN BitsExpect(T, nbits, bytes) ELSE NumExpect(T, 1, bytes)
      v == RawOf(T, nbits, bytes)
      names == VlLookup(vl, v)
  IN IF base.k # "val" THEN base           \* null / error exactly as for the plain type ...
     ELSE IF names = {} THEN               \* ... in range but not listed: falls back to the number;
       (* on a base type without replacement pattern (REQ: bits, U1L, ...) an unlisted 0 may also be shown as *)
       (* the null value: the upstream suite asserts this (test_data.cpp: "x,,bi3:2,1=on" decodes 00 to "-")  *)
       (IF "REQ" \in T.fl /\ v = 0 THEN NullOrVal(base.texts \cup {NULLTXT}) ELSE base)
     ELSE [k |-> "listed", v |-> v, names |-> names]
(* outside the documented range a list field may also fall back to showing the number *)
ListRelax(e, T, nbits, bytes) ==
  IF e.k = "err" /\ RawOf(T, nbits, bytes) >= 0 THEN ErrOrVal({Dec(RawOf(T, nbits, bytes))}) ELSE e

-----------------------------------------------------------------------------
(* calendar (proleptic Gregorian), day 0 = Monday 01.01.1900 *)
Leap(y) == (y % 4 = 0 /\ y % 100 # 0) \/ y % 400 = 0
YearLen(y) == IF Leap(y) THEN 366 ELSE 365
MonthLen(y, m) == CASE m \in {1, 3, 5, 7, 8, 10, 12} -> 31
                    [] m \in {4, 6, 9, 11} -> 30
                    [] OTHER -> IF Leap(y) THEN 29 ELSE 28
LeapsUpTo(y) == (y \div 4) - (y \div 100) + (y \div 400)        \* leap years in 1..y
YearStart(y) == 365 * (y - 1900) + (LeapsUpTo(y - 1) - LeapsUpTo(1899))
CumDays == <<0, 31, 59, 90, 120, 151, 181, 212, 243, 273, 304, 334>>
MonthStart(y, m) == CumDays[m] + (IF m > 2 /\ Leap(y) THEN 1 ELSE 0)
DaysFromCivil(y, m, d) == YearStart(y) + MonthStart(y, m) + (d - 1)
RECURSIVE FindYear(_, _)
FindYear(y, n) == IF YearStart(y + 1) <= n THEN FindYear(y + 1, n) ELSE y
RECURSIVE FindMonth(_, _, _)
FindMonth(y, m, r) == IF m < 12 /\ MonthStart(y, m + 1) <= r THEN FindMonth(y, m + 1, r) ELSE m
CivilFromDays(n) ==
  LET y == FindYear(1900 + (n \div 366), n)
      r == n - YearStart(y)
      m == FindMonth(y, 1, r)
  IN [y |-> y, m |-> m, d |-> r - MonthStart(y, m) + 1]
WeekdayMon0(n) == n % 7                     \* 01.01.1900 was a Monday
DateText(d, m, y) == DecW(d, 2) \o <<DOT>> \o DecW(m, 2) \o <<DOT>> \o Dec(y)
NullDate == <<DASH, DOT, DASH, DOT, DASH>>

(* lemmas binding the closed forms to the definitional calendar rules (checked by TLC as ASSUMEs) *)
LemmaYearStart == YearStart(1900) = 0 /\ \A y \in 1900..2200 : YearStart(y + 1) - YearStart(y) = YearLen(y)
LemmaMonthStart == \A y \in {1900, 1904, 2000, 2023, 2024, 2100} : \A m \in 1..11 :
                      MonthStart(y, 1) = 0 /\ MonthStart(y, m + 1) - MonthStart(y, m) = MonthLen(y, m)
LemmaCivil(maxn) == \A n \in 0..maxn : LET c == CivilFromDays(n) IN
                      /\ c.m \in 1..12 /\ c.d \in 1..MonthLen(c.y, c.m)
                      /\ DaysFromCivil(c.y, c.m, c.d) = n
LemmaAnchors == /\ DaysFromCivil(2000, 1, 1) = 36524 /\ WeekdayMon0(36524) = 5     \* a Saturday
                /\ DaysFromCivil(2009, 1, 1) = 39812
                /\ CivilFromDays(65535) = [y |-> 2079, m |-> 6, d |-> 6]          \* as documented for DAY
                /\ DaysFromCivil(2014, 10, 26) % 7 = 6                             \* a Sunday

(* DD MM [WW] YY *)
DateExpect(T, bytes) ==
  LET n == Len(bytes)
      raw == <<bytes[1], bytes[2], bytes[n]>>
      bcd == "BCD" \in T.fl
  IN IF \A i \in 1..3 : raw[i] = 255 THEN NullOrVal({NullDate})
     ELSE IF \E i \in 1..3 : raw[i] = 255 THEN Lenient
     ELSE IF bcd /\ \E i \in 1..3 : ~BcdOk(raw[i]) THEN Err
     ELSE LET c == [i \in 1..3 |-> IF bcd THEN BcdVal(raw[i]) ELSE raw[i]]
              d == c[1]   m == c[2]   y == c[3]
          IN IF d = 0 \/ m = 0 THEN Lenient       \* day/month zero: out of range; tolerated as "unset"
             ELSE IF d > 31 \/ m > 12 \/ y > 99 THEN Err
             ELSE IF d > MonthLen(2000 + y, m) THEN Open     \* 29-31 beyond the month's length: left open
             ELSE Val({DateText(d, m, 2000 + y)})
(* the date encoded in a 3/4 byte date pattern, if it is a complete valid one *)
DateOf(T, bytes) ==
  LET n == Len(bytes)
      raw == <<bytes[1], bytes[2], bytes[n]>>
      bcd == "BCD" \in T.fl
      c == [i \in 1..3 |-> IF bcd THEN BcdVal(raw[i]) ELSE raw[i]]
  IN [d |-> c[1], m |-> c[2], y |-> 2000 + c[3]]

DayExpect(bytes) ==
  LET n == bytes[1] + 256 * bytes[2]
      c == CivilFromDays(n)
      txt == DateText(c.d, c.m, c.y)
  IN IF n = 65535 THEN NullOrVal({NullDate, txt}) ELSE Val({txt})

TimeHM(h, m) == DecW(h, 2) \o <<COLON>> \o DecW(m, 2)
DtmExpect(bytes) ==
  LET hi == bytes[4]
      n == bytes[1] + 256 * bytes[2] + 65536 * bytes[3] + 16777216 * (hi % 4)
  IN IF hi > 2 \/ n > 47861279 THEN Open          \* above the documented maximum 02 da 4e 1f (= 47861279): left open
     ELSE LET c == CivilFromDays(39812 + (n \div 1440))
              t == n % 1440
          IN Val({DateText(c.d, c.m, c.y) \o <<BLANK>> \o TimeHM(t \div 60, t % 60)})

-----------------------------------------------------------------------------
(* times *)
RECURSIVE JoinColon(_)
JoinColon(parts) == IF Len(parts) = 1 THEN parts[1] ELSE parts[1] \o <<COLON>> \o JoinColon(Tail(parts))
TimeExpect(T, bytes) ==
  LET n == Len(bytes)
      hf == IF "REV" \in T.fl THEN Rev(bytes) ELSE bytes       \* hour first
      bcd == "BCD" \in T.fl
  IN IF \A i \in 1..n : hf[i] = T.repl THEN NullOrVal({JoinColon([i \in 1..n |-> <<DASH>>])})
     ELSE IF \E i \in 1..n : hf[i] = T.repl THEN Lenient
     ELSE IF bcd /\ \E i \in 1..n : ~BcdOk(hf[i]) THEN Err
     ELSE LET c == [i \in 1..n |-> IF bcd THEN BcdVal(hf[i]) ELSE hf[i]]
              txt == JoinColon([i \in 1..n |-> DecW(c[i], 2)])
          IN IF c[1] <= 23 /\ \A i \in 2..n : c[i] <= 59 THEN Val({txt})
             ELSE IF c[1] = 24 /\ \A i \in 2..n : c[i] = 0
                  THEN (IF n = 2 THEN Val({txt}) ELSE ErrOrVal({txt}))   \* 24:00 is a time; 24:00:00 is left open
             ELSE Err
NullTime2 == <<DASH, COLON, DASH>>
MinExpect(bytes) ==
  LET n == bytes[1] + 256 * bytes[2] IN
  IF n = 65535 THEN NullOrVal({NullTime2})
  ELSE IF n <= 1440 THEN Val({TimeHM(n \div 60, n % 60)})
  ELSE IF bytes[1] = 255 \/ bytes[2] = 255 THEN Lenient
  ELSE Err
TruncExpect(T, bytes) ==
  LET b == bytes[1]
      v == b % Pow(2, T.bits)
      per == 60 \div T.res
  IN IF b = T.repl THEN NullOrVal({NullTime2})
     ELSE IF v = T.repl THEN Open               \* replacement in the owned bits, foreign bits set: left open
     ELSE IF v <= 24 * per THEN Val({TimeHM(v \div per, (v % per) * T.res)})
     ELSE Err

-----------------------------------------------------------------------------
(* strings *)
Printable(c) == c >= 32 /\ c <= 126
RECURSIVE UpToNul(_)
UpToNul(s) == IF s = <<>> \/ Head(s) = 0 THEN <<>> ELSE <<Head(s)>> \o UpToNul(Tail(s))
RECURSIVE JsonEsc(_)
JsonEsc(s) == IF s = <<>> THEN <<>>
              ELSE (IF Head(s) = QUOTE \/ Head(s) = BSL THEN <<BSL, Head(s)>> ELSE <<Head(s)>>) \o JsonEsc(Tail(s))
HexDigit(n) == IF n < 10 THEN 48 + n ELSE 87 + n         \* lower case
RECURSIVE HexText(_)
HexText(bs) == IF bs = <<>> THEN <<>>
               ELSE <<HexDigit(Head(bs) \div 16), HexDigit(Head(bs) % 16)>>
                    \o (IF Len(bs) > 1 THEN <<BLANK>> ELSE <<>>) \o HexText(Tail(bs))
(* character strings: text up to the first 0x00; all printable => exact; otherwise one substitute per byte *)
StrExpect(bytes, json) ==
  LET s == UpToNul(bytes) IN
  IF \A i \in 1..Len(s) : Printable(s[i]) THEN Val({IF json THEN Quoted(JsonEsc(s)) ELSE s})
  ELSE [k |-> "strsub", s |-> s]

-----------------------------------------------------------------------------
(* TEM parameter id *)
TemExpect(bytes, master) ==
  LET lo == bytes[1]   hi == bytes[2]
      grp == IF master THEN lo % 32 ELSE ((hi * 256 + lo) \div 128) % 32
      num == IF master THEN hi % 128 ELSE lo % 128
  IN IF lo = 255 /\ hi = 255 THEN Null
     ELSE Val({DecW(grp, 2) \o <<DASH>> \o DecW(num, 3)})

-----------------------------------------------------------------------------
(* Interface to the records of the harness: r.t type id (key of Types), r.l length argument (0 = none;  *)
(* bytes, bits for BIx, 255 = rest), r.d divisor given in the definition (0 = none), r.v # 0 => r.vl    *)
(* is the value list, r.m = 1 master data, r.f output format (0 text, 1 JSON), r.b the bytes.           *)
HasList(r) == r.v # 0 \/ "DAY" \in Types[r.t].fl
ListOf(r) == IF r.v # 0 THEN r.vl
             ELSE LET T == Types[r.t] IN [j \in 1..7 |-> <<T.lo + j - 1, DayNames[j]>>]
NBits(r) == IF r.l = 0 THEN 1 ELSE r.l

(* what the definition demands for the plain text format *)
Expect(r) ==
  LET T == Types[r.t] IN
  CASE HasList(r) -> ListRelax(ListExpect(T, NBits(r), ListOf(r), r.b), T, NBits(r), r.b)
    [] T.k = "num" -> IF T.wide THEN WideExpect(T, EffDiv(1, r.d), r.b) ELSE NumExpect(T, EffDiv(T.div, r.d), r.b)
    [] T.k = "bits" -> BitsExpect(T, NBits(r), r.b)
    [] T.k = "date" -> DateExpect(T, r.b)
    [] T.k = "day" -> DayExpect(r.b)
    [] T.k = "dtm" -> DtmExpect(r.b)
    [] T.k = "time" -> TimeExpect(T, r.b)
    [] T.k = "min" -> MinExpect(r.b)
    [] T.k = "ttm" -> TruncExpect(T, r.b)
    [] T.k = "str" -> StrExpect(r.b, r.f = 1)
    [] T.k = "hex" -> Val({IF r.f = 1 THEN Quoted(HexText(r.b)) ELSE HexText(r.b)})
    [] T.k = "ign" -> Empty
    [] T.k = "tem" -> TemExpect(r.b, r.m = 1)

=============================================================================
