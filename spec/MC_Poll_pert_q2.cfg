CONSTANTS
  InitPrios <- P12
  SetPrios = {1, 2, 3}
  Alphabet <- AlphaPert
  K = 2
  CapBase = 0
INIT Init
NEXT Next
VIEW View
INVARIANT PWait
INVARIANT PProp
INVARIANT QueueIsPollSet
