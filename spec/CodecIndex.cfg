INIT Init
NEXT Next
