\* ebusd as AUTO-SYN generator with one broadcast request 31 fe b5 09 00; NN = 0
CONSTANTS
  PC <- MCPC_gensyn
  Cfg <- MCCfg
  Mons = {"r", "s", "t", "q"}
  QQs = {3}
  ZZs = {254}
  Datas = {66}
  Winners = {3}
  NNMax = 0
  SNNMax = 0
  SubmitWhen = 1
  LongToAny = FALSE
  ReadErr = FALSE
  WriteErr = FALSE
  LateEcho = FALSE
  PBs = {181}
  SBs = {9}
  Junk = {66}
  LongTo = TRUE
  EchoFaults = FALSE
  ArbNone = TRUE
  EscQQ = FALSE
  OpenFail = FALSE
  Reconnect = FALSE
INIT Init
NEXT Next
VIEW View
INVARIANT MonOk
INVARIANT NoUb
INVARIANT ArbSane
