CONSTANTS
  InitPrios <- P18
  SetPrios = {1, 2, 3, 7, 8, 9}
  SetPrioMsgs = {1, 2, 3, 4}
  Alphabet <- AlphaSelf
  K = 1
  ReAddPinned = FALSE
  CapBase = 0
INIT Init
NEXT Next
VIEW View
INVARIANT PWait
INVARIANT PProp
INVARIANT QueueIsPollSet
