INIT Init
NEXT Next
INVARIANT Judge
CONSTANTS
  SLAVES <- NoSeq
  POLLS <- NoSeq
  HASX = FALSE
  BUSLOST = 0
  FIXED = FALSE
  MUT <- NoStr
  WAITADDR = 0
