CONSTANTS
  InitPrios <- P238
  SetPrios = {7, 8, 9}
  SetPrioMsgs = {3}
  Alphabet <- AlphaSelf
  K = 1
  ReAddPinned = FALSE
  CapBase = 0
INIT Init
NEXT Next
VIEW View
INVARIANT PWait
INVARIANT PProp
INVARIANT QueueIsPollSet
