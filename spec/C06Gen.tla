------------------------------- MODULE C06Gen -------------------------------
(* Emits the text cases of C06Texts as ndjson for the harness (specification -> implementation direction). *)
EXTENDS C06Texts, TLC

(* one line per definition with the list of its texts *)
Grouped == {[t |-> g.t, l |-> g.l, d |-> g.d, v |-> g.v, m |-> g.m, xs |-> SetToSeq(TextsOf(g))] : g \in TextDefs}
RECURSIVE Sum(_)
Sum(S) == IF S = {} THEN 0 ELSE LET g == CHOOSE x \in S : TRUE IN Cardinality(TextsOf(g)) + Sum(S \ {g})
ASSUME /\ ndJsonSerialize(IOEnv.VF_OUT, SetToSeq(Grouped))
       /\ PrintT(<<"VF", "CASES", Cardinality(TextDefs), Sum(TextDefs)>>)

VARIABLE dummy
Init == dummy = 0
Next == UNCHANGED dummy
=============================================================================
