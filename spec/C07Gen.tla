------------------------------- MODULE C07Gen -------------------------------
(* Emits the C07 input domain defined in WriteSafe (definitions x texts) as an ndjson case file *)
(* that harness/c07_writesafe.cpp replays on the real code.                                    *)
EXTENDS WriteSafe, Json, IOUtils, SequencesExt

ASSUME BigDecLemmas /\ WriteSafeLemmas

Thorough == IOEnv.VF_TIER = "thorough"
Seed == atoi(IOEnv.VERIF_SEED)

Tup(s) == [i \in 1..Len(s) |-> s[i]]
DefLine(i) == LET d == Defs[i] IN
  [k |-> "def", d |-> i, ty |-> d.ty, len |-> d.len, dvs |-> Tup(d.dvs),
   rg |-> IF d.lo = <<>> THEN <<>> ELSE Tup(d.lo \o <<45>> \o d.hi),
   \* semantic attributes, only used to label rejected records with a signature
   kind |-> d.kind, bits |-> d.bits, fb |-> d.fb, rev |-> d.rev, div |-> d.div, nvals |-> Len(d.vals)]
CasesOf(i) ==
  LET T == TextsOf(Defs[i], Thorough) \cup (IF Thorough THEN RandTexts(Seed + 7 * i, 400) ELSE {})
      sq == SetToSeq(T)
  IN [j \in 1..Len(sq) |-> [k |-> "case", d |-> i, t |-> Tup(sq[j])]]
RECURSIVE CatCases(_)
CatCases(i) == IF i = 0 THEN <<>> ELSE CatCases(i - 1) \o CasesOf(i)
AllCases == CatCases(Len(Defs))
AllLines == [i \in 1..Len(Defs) |-> DefLine(i)] \o AllCases

ASSUME ndJsonSerialize(IOEnv.VF_CASES, AllLines)
ASSUME PrintT(<<"VF", "GEN", Len(Defs), Len(AllCases)>>)

VARIABLE x
Init == x = 0
Next == x' = x
=============================================================================
