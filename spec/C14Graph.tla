------------------------------ MODULE C14Graph ------------------------------
(* P-on-G for C14 (device part): the transition graph extracted from the real EnhancedDevice by       *)
(* harness/c14_enh.cpp (or a forest of recorded random traces) is explored by TLC in lock-step with   *)
(* the P monitor EnhMon of DeviceEnhanced.                                                            *)
(* Node line: {"id":n,"st":{..},"succ":[{"in":token,"ev":[events],"to":m}, ..]}                       *)
EXTENDS DeviceEnhanced, Json

G == ndJsonDeserialize(IOEnv.VF_GRAPH)

VARIABLES node, mon, lastIn
vars == <<node, mon, lastIn>>

Init == node = 1 /\ mon = MonInit /\ lastIn = ""
Next == \E k \in 1..Len(G[node].succ) :
          LET e == G[node].succ[k] IN
          /\ node' = e.to
          /\ mon' = MonStep(mon, e.ev)
          /\ lastIn' = e.in
View == <<node, mon>>

MonOk == mon.bad = "" \/ ~PrintT(<<"VF", "MON", mon.bad>>)

ASSUME \A n \in 1..Len(G) : G[n].id = n /\ \A k \in 1..Len(G[n].succ) : G[n].succ[k].to \in 1..Len(G)
ASSUME PrintT(<<"VF", "GRAPH", Len(G)>>)
=============================================================================
