------------------------------ MODULE C08Judge ------------------------------
(* Judges the records written by harness/c08_match.cpp (results of the real      *)
(* MessageMap::find on TLC-generated cases) against P = MsgMatch!Allowed, and     *)
(* compares them with S = MsgMatch!SFind (conformance; a difference is drift).    *)
(* The same pass evaluates S => P on every case of the domain.                    *)
EXTENDS MsgMatch, TLC, Json, IOUtils, FiniteSets

Recs == ndJsonDeserialize(IOEnv.VF_RECS)
N == Len(Recs)
K == 16
VARIABLE i
Init == i = 0
Next == \/ /\ i = 0 /\ i' \in {1 + K * s : s \in 0..((N - 1) \div K)}
        \/ /\ i > 0 /\ i % K # 0 /\ i < N /\ i' = i + 1

TelOf(x) == [qq |-> x[1], zz |-> x[2], pb |-> x[3], sb |-> x[4], data |-> SubSeq(x, 6, Len(x))]
RECURSIVE Pow6(_)
Pow6(m) == IF m = 0 THEN 1 ELSE 6 * Pow6(m - 1)
Digit(packed, m) == (packed \div Pow6(m)) % 6
ResOf(digit) == digit - 1          \* 0 scan -> SCAN (-1), 1 none -> NONE (0), 2.. -> definition index, 5 -> 4 (foreign)

(* mode columns of a result row: <<any, oa>> *)
ModeCols(oa0) == IF oa0 = 1 THEN <<<<FALSE, TRUE>>, <<TRUE, TRUE>>, <<FALSE, FALSE>>, <<TRUE, FALSE>>>>
                 ELSE <<<<FALSE, TRUE>>, <<TRUE, TRUE>>>>

(* the loaded object has the attributes the CSV line gave it *)
SeenOk(d, seen) ==
  /\ seen[1] = (IF d.dir \in {"w", "uw"} THEN 1 ELSE 0)
  /\ seen[2] = (IF Class(d) = "p" THEN 1 ELSE 0)
  /\ seen[3] = d.src /\ seen[4] = d.dst /\ seen[5] = d.cond
  /\ seen[6] = [k \in 1..Len(d.ids) |-> <<d.pb, d.sb>> \o d.ids[k]]

(* all findings of one record: set of <<kind, reason>>; kind "P" = real result rejected by P,       *)
(* "S" = real result differs from the S model, "SP" = the S model's result is rejected by P         *)
Findings(r) ==
  LET defs == r.c.defs
      ct == r.c.ct = 1
      st == SLoad(defs)
      cols == ModeCols(r.c.oa0)
      PerTel(ti) ==
        LET t == TelOf(r.c.tels[ti]) IN
        UNION {LET any == cols[ci][1]
                   oa == cols[ci][2]
                   cand == Cand(defs, r.load, ct, t, any, oa)
                   candS == IF st.loaded = r.load THEN cand ELSE Cand(defs, st.loaded, ct, t, any, oa)
                   table == STable(defs, st, ct, t, any, oa)
                   packed == r.res[ti][ci]
               IN UNION {LET want == WantOf(m)
                             real == ResOf(Digit(packed, m))
                             sres == SFindT(st, t, any, table, want)
                         IN (IF AllowedOf(defs, cand, t, any, want, real) THEN {}
                             ELSE {<<"P", Reason(defs, r.load, ct, t, any, oa, want, real)>>})
                            \cup (IF sres = real THEN {} ELSE {<<"S", "find-differs">>})
                            \cup (IF AllowedOf(defs, candS, t, any, want, sres) THEN {}
                                  ELSE {<<"SP", Reason(defs, st.loaded, ct, t, any, oa, want, sres)>>})
                         : m \in 0..7}
               : ci \in 1..Len(cols)}
  IN UNION {PerTel(ti) : ti \in 1..Len(r.c.tels)}
     \cup (IF st.loaded = r.load THEN {} ELSE {<<"S", "load-differs">>})
     \cup (IF \A k \in 1..Len(defs) : r.load[k] = 0 \/ SeenOk(defs[k], r.seen[k]) THEN {}
           ELSE {<<"P", "loaded-definition-differs-from-csv">>})

(* structural sanity of a record: the harness answered exactly what was asked *)
Shape(r) ==
  /\ Len(r.load) = Len(r.c.defs) /\ Len(r.seen) = Len(r.c.defs) /\ Len(r.res) = Len(r.c.tels)
  /\ \A k \in 1..Len(r.c.defs) : WellFormedDef(r.c.defs[k])
  /\ \A ti \in 1..Len(r.c.tels) : /\ Len(r.res[ti]) = Len(ModeCols(r.c.oa0))
                                   /\ r.c.tels[ti][5] = Len(r.c.tels[ti]) - 5
  /\ {TelOf(r.c.tels[ti]) : ti \in 1..Len(r.c.tels)} = Tels(r.c.defs)       \* telegram domain is complete

Judge == i = 0 \/
  LET r == Recs[i] IN
  IF ~Shape(r) THEN ~PrintT(<<"VF", "BAD", i, "M", "record-shape">>)
  ELSE LET f == Findings(r) IN
       /\ \A x \in f : x[1] = "P" \/ PrintT(<<"VF", "NOTE", i, x[1], x[2]>>)
       /\ \A x \in f : x[1] # "P" \/ ~PrintT(<<"VF", "BAD", i, x[1], x[2]>>)
=============================================================================
