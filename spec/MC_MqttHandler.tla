--------------------------- MODULE MC_MqttHandler ---------------------------
(* S => P at design level, no code involved: TLC explores part S of MqttHandler.tla (the handler as coded, with the set FIX  *)
(* of corrections applied) over every event sequence up to DEPTH events from an alphabet with clock ticks, bus updates,      *)
(* client reads, incoming get/set/list, broker loss and return, in 8 small worlds, with the monitor of part P running    *)
(* in lock-step on the outputs S produces.  McOk: after the documented drain (tick, feed, iteration, twice) the monitor has   *)
(* rejected nothing.  With FIX = AllFixes it must hold (P is satisfiable by a handler that differs from the coded one only   *)
(* in the listed corrections); with FIX = {} (the handler as coded) it must fail, and it must fail again when any single     *)
(* correction is left out (every correction is necessary = every class of disagreement is reachable at design level).        *)
EXTENDS MqttDomain
CONSTANTS DEPTH, WSEL, MCHIST
VARIABLES mcW, mcS, mcP, mcN, mcH

O_mcA == Opt(<<>>, "n", 1, 0, 0, 0, <<>>)                 \* --mqttchanges
O_mcB == Opt(<<>>, "s", 0, 1, 0, 1, <<>>)                 \* --mqttjson=short --mqttretain --mqttqos=1
O_mcC == Opt(T_tpHp, "n", 0, 0, 0, 0, T_gl1)              \* --mqtttopic=hp --mqttglobal=gl/
O_mcD == Opt(T_tpOdd, "n", 0, 0, 0, 0, <<>>)              \* --mqtttopic=hp/%{circuit}_%name/x
McWorlds == << World(9, FamA, O_plain, 0, 0), World(9, FamA, O_mcA, 0, 0), World(9, FamA, O_mcB, 0, 0), World(9, FamA, O_mcC, 0, 0),
               World(9, FamA, O_mcD, 0, 0), World(9, FamA, O_plain, 1, 0), World(9, FamA, O_plain, 0, 1), World(9, FamA, OptInt(O_plain, 2), 0, 0) >>
W == McWorlds[mcW]
Alphabet == {EvT(1), EvT(16), EvU(1, <<21>>), EvU(1, <<22>>), EvF, EvM, EvD, EvB, EvR(2),
             EvI(2, T_get, <<>>, <<>>), EvI(2, T_get, T_q3, <<>>), EvI(1, T_get, <<>>, <<>>), EvI(5, T_get, <<>>, <<>>),
             EvI(3, T_set, <<>>, T_x7), EvI(1, T_set, <<>>, T_x7), EvI(7, T_list, <<>>, <<>>), EvI(11, T_restart, <<>>, <<>>)}
Obs(r) == [outs |-> r.outs, pr |-> [m \in Msgs(W) |-> r.s.ms[m].pr], sg |-> r.s.hs]
Step(s, p, ev) == LET r == SEvent(W, s, ev)
                      o == Obs(r)
                  IN [s |-> r.s, p |-> PrioJudge(W, p, PEvent(W, p, ev, o, 0), ev, o, 0)]
RECURSIVE Run(_, _, _)
Run(s, p, evs) == IF evs = <<>> THEN [s |-> s, p |-> p] ELSE LET x == Step(s, p, Head(evs)) IN Run(x.s, x.p, Tail(evs))
Init == mcW \in WSEL /\ mcS = SInit(McWorlds[mcW]) /\ mcP = PInit(McWorlds[mcW]) /\ mcN = 0 /\ mcH = <<>>
Next == /\ mcN < DEPTH
        /\ \E ev \in Alphabet : LET x == Step(mcS, mcP, ev) IN mcS' = x.s /\ mcP' = x.p /\ mcH' = IF MCHIST THEN Append(mcH, <<ev.e, ev.n, ev.m, ev.v, ev.b, ev.d, ev.a>>) ELSE mcH
        /\ mcN' = mcN + 1 /\ mcW' = mcW
Drained == LET x == Run(mcS, mcP, IF W.o.int > 0 THEN IntDrain ELSE Drain) IN x.p.bad \cup {<<<<"update-not-published">>, 0>> : m \in {m \in Msgs(W) : x.p.req[m]}}
McOk == Drained = {}
(* the classes TLC is asked to exhibit one at a time (cfg: INVARIANT McNo<class>) are printed instead: *)
McShow == Drained = {} \/ PrintT(<<"VF", "CLS", {c[1] : c \in Drained}>>)
=============================================================================
