INIT Init
NEXT Next
