----------------------------- MODULE C13Resolve -----------------------------
(* Resolution part of C13.  The case domain is defined here; with VF_GEN set the module writes the  *)
(* cases for harness/c13_cond.cpp (mode resolve); with VF_RECS set it judges what the real         *)
(* MessageMap::resolveConditions returned for every case.                                           *)
(* case: referenced message present or not, 1..4 fields of kinds n(umeric)/s(tring) named f1..f4,   *)
(* condition kind n/s/e (e = without values), condition field 0 (not named) | 1..4 | 9 (a name no    *)
(* field has), variant = choice of concrete types / direction / part (must not matter).             *)
EXTENDS ConditionP, Json, IOUtils, SequencesExt

MaxFields == IF "VF_MAXFIELDS" \in DOMAIN IOEnv THEN atoi(IOEnv.VF_MAXFIELDS) ELSE 4
Variants == IF "VF_VARIANTS" \in DOMAIN IOEnv THEN 0..(atoi(IOEnv.VF_VARIANTS) - 1) ELSE {0}
KindSeqs == UNION {[1..n -> {"n", "s"}] : n \in 1..MaxFields}
Cases == {[msg |-> m, kinds |-> ks, ck |-> ck, cf |-> cf, var |-> v] :
            m \in {0, 1}, ks \in KindSeqs, ck \in {"n", "s", "e"}, cf \in {0, 1, 2, 3, 4, 9}, v \in Variants}
CaseSeq == SetToSeq(Cases)

FieldsOf(ks) == [i \in 1..Len(ks) |-> [n |-> i, k |-> IF ks[i] = "n" THEN "num" ELSE "str"]]
CondOf(c) == [r |-> 1, k |-> IF c.ck = "n" THEN "num" ELSE IF c.ck = "s" THEN "str" ELSE "seen", fn |-> c.cf, items |-> <<>>]

Ok(r) == LET fields == [i \in 1..Len(r.kseq) |-> [n |-> i, k |-> IF r.kseq[i] = "n" THEN "num" ELSE "str"]]
             c == [r |-> 1, k |-> IF r.ck = "n" THEN "num" ELSE IF r.ck = "s" THEN "str" ELSE "seen", fn |-> r.cf, items |-> <<>>]
             exists == r.msg = 1 IN
         /\ r.load = 0
         /\ r.found = r.msg
         /\ \/ ResolveOpen(exists, fields, c)
            \/ (r.rc = 0 /\ r.bound = 1) = Resolves(exists, fields, c)
(* a multi-field answer that is exactly the negation rule of the pinned DataFieldSet::hasField gets its own key *)
Sig(r) == LET fields == [j \in 1..Len(r.kseq) |-> [n |-> j, k |-> IF r.kseq[j] = "n" THEN "num" ELSE "str"]] IN
          IF r.load # 0 THEN "C13:resolve-case-did-not-load"
          ELSE IF r.found # r.msg THEN "C13:resolve-case-lookup"
          ELSE IF Len(r.kseq) > 1 /\ r.ck # "e" /\ r.msg = 1
                  /\ (r.rc = 0) = SetHasFieldPinned(fields, r.cf, r.ck = "n") THEN "C13:hasField-multi-field-inverted"
          ELSE IF r.rc = 0 THEN "C13:resolve-accepts-unresolvable:" \o (IF Len(r.kseq) > 1 THEN "multi" ELSE "single")
          ELSE "C13:resolve-rejects-resolvable:" \o (IF Len(r.kseq) > 1 THEN "multi" ELSE "single")

Gen == IF "VF_GEN" \in DOMAIN IOEnv
       THEN ndJsonSerialize(IOEnv.VF_GEN, [i \in 1..Cardinality(Cases) |->
               LET c == CaseSeq[i] IN [id |-> i, msg |-> c.msg, kseq |-> c.kinds, ck |-> c.ck, cf |-> c.cf, var |-> c.var]])
       ELSE TRUE
ASSUME Gen

Recs == IF "VF_RECS" \in DOMAIN IOEnv THEN ndJsonDeserialize(IOEnv.VF_RECS) ELSE <<>>
N == Len(Recs)
K == 64
VARIABLE i
Init == i = 0
Next == \/ /\ i = 0 /\ N > 0 /\ i' \in {1 + K * s : s \in 0..((N - 1) \div K)}
        \/ /\ i > 0 /\ i % K # 0 /\ i < N /\ i' = i + 1
Judge == i = 0 \/ Ok(Recs[i]) \/ ~PrintT(<<"VF", "BAD", i, Sig(Recs[i])>>)

(* domain completeness: the harness answered every case of the domain defined above *)
ASSUME N = 0 \/ {[msg |-> Recs[k].msg, kinds |-> Recs[k].kseq, ck |-> Recs[k].ck, cf |-> Recs[k].cf, var |-> Recs[k].var] : k \in 1..N} = Cases

(* design level (no code involved): the code-shaped hasField rule (repaired code) agrees with P on the *)
(* whole domain; the rule before the repair does not (printed for the record)                          *)
DesignAgrees == \A c \in Cases : LET f == FieldsOf(c.kinds) co == CondOf(c) IN
                  ResolveOpen(c.msg = 1, f, co) \/ SResolves(c.msg = 1, f, co) = Resolves(c.msg = 1, f, co)
DesignAgreesPinned == \A c \in Cases : LET f == FieldsOf(c.kinds) co == CondOf(c) IN
                  ResolveOpen(c.msg = 1, f, co) \/ SResolvesPinned(c.msg = 1, f, co) = Resolves(c.msg = 1, f, co)
ASSUME PrintT(<<"VF", "DESIGN", DesignAgrees, DesignAgreesPinned>>)
=============================================================================
