------------------------------ MODULE C13Graph ------------------------------
(* P-on-G for C13: the transition graph extracted from the real MessageMap / Condition objects by   *)
(* harness/c13_cond.cpp is loaded and the P monitor of Condition.tla runs in lock-step with it.       *)
(* Node line: {"id":n,"w":world,"st":{concrete state},"succ":[{"in":{"k":..,"a":..},"out":o,"to":m}]} *)
(* World line (VF_WORLDS): what the CSV text of the world says, in structured form (see Condition).  *)
EXTENDS ConditionP, Json, IOUtils

G == ndJsonDeserialize(IOEnv.VF_GRAPH)
Worlds == ndJsonDeserialize(IOEnv.VF_WORLDS)
Target == IF "VF_TARGET" \in DOMAIN IOEnv THEN IOEnv.VF_TARGET ELSE ""

VARIABLES node, mon, lastIn, ok
gvars == <<node, mon, lastIn, ok>>
View == <<node, mon, ok>>

(* mon: [w |-> world, last |-> per referenced message the index of the value stored last (0 = none), *)
(*       cls |-> per referenced message the class of its last change: 0 none, 1 first/after >= 1 s,  *)
(*               2 within the same second as the change before (ghost, for signatures only),        *)
(*       fresh |-> per referenced message: TRUE while no tick >= 1 s since its last change (ghost)]  *)
MonInit == [w |-> 0, last |-> <<>>, cls |-> <<>>, fresh |-> <<>>]

Stored(W, m, r) == IF m.last[r] = 0 THEN <<>> ELSE W.vals[m.last[r]].f
DepAvail(W, m, d) == \A i \in 1..Len(W.deps[d].conds) :
                        LET c == W.deps[d].conds[i] IN SimpleHolds(W.refs[c.r].fields, c, Stored(W, m, c.r))

(* verdict of P on one observed step *)
StepOk(W, m, e) ==
  CASE e.in.k = "avail" -> e.out = (IF DepAvail(W, m, e.in.a) THEN 1 ELSE 0)
    [] e.in.k \in {"find", "findm"} ->
         LET cands == IF e.in.k = "find" THEN W.finds[e.in.a].cands ELSE W.findms[e.in.a].cands
             avail == {cands[j] : j \in {j \in 1..Len(cands) : DepAvail(W, m, cands[j])}} IN
         IF avail = {} THEN e.out = 0 ELSE e.out \in avail
    [] e.in.k = "store" -> e.out = 0
    [] OTHER -> TRUE      \* tick; prepare (building the request of a referenced message): not a store, the monitor does not move

MonStep(W, m, e) ==
  CASE e.in.k = "store" ->
         LET r == W.vals[e.in.a].r
             changed == m.last[r] # e.in.a IN
         [m EXCEPT !.last[r] = e.in.a,
                   !.cls[r] = IF ~changed THEN @ ELSE IF m.fresh[r] THEN 2 ELSE 1,
                   !.fresh[r] = IF changed THEN TRUE ELSE @]
    [] e.in.k = "tick" /\ e.in.a >= 1 -> [m EXCEPT !.fresh = [r \in DOMAIN m.fresh |-> FALSE]]
    [] OTHER -> m

(* signature of a rejected step (names the input class, so that other rejections stay visible) *)
DepsAsked(W, e) == IF e.in.k = "avail" THEN {e.in.a}
                   ELSE IF e.in.k = "find" THEN {W.finds[e.in.a].cands[j] : j \in 1..Len(W.finds[e.in.a].cands)}
                   ELSE IF e.in.k = "findm" THEN {W.findms[e.in.a].cands[j] : j \in 1..Len(W.findms[e.in.a].cands)}
                   ELSE {}
UnnamedOnMulti(W, e) == \E d \in DepsAsked(W, e) : \E i \in 1..Len(W.deps[d].conds) :
                          LET c == W.deps[d].conds[i] IN c.fn = 0 /\ c.k # "seen" /\ Len(W.refs[c.r].fields) > 1
Sig(W, m, e) ==
  IF e.in.k = "store" THEN "C13:store-failed"
  ELSE IF UnnamedOnMulti(W, e) THEN "C13:unnamed-field-on-multi-field-message"
  ELSE IF \E r \in DOMAIN m.cls : m.cls[r] = 2 THEN "C13:same-second-second-change"
  ELSE IF \E r \in DOMAIN m.last : m.last[r] = 0 THEN "C13:verdict-before-any-data:" \o W.name
  ELSE "C13:verdict-differs-from-last-value:" \o W.name

Init == node = 1 /\ mon = MonInit /\ lastIn = [k |-> "init", a |-> 0, out |-> 0, sig |-> ""] /\ ok = TRUE

Next ==
  /\ ok
  /\ \E k \in 1..Len(G[node].succ) :
       LET e == G[node].succ[k] IN
       /\ node' = e.to
       /\ IF e.in.k = "world"
          THEN LET W == Worlds[e.in.a] IN
               /\ mon' = [w |-> e.in.a, last |-> [r \in 1..Len(W.refs) |-> 0], cls |-> [r \in 1..Len(W.refs) |-> 0],
                          fresh |-> [r \in 1..Len(W.refs) |-> FALSE]]
               /\ ok' = TRUE
               /\ lastIn' = [k |-> "world", a |-> e.in.a, out |-> 0, sig |-> ""]
          ELSE LET W == Worlds[mon.w]
                   good == StepOk(W, mon, e)
                   sig == IF good THEN "" ELSE Sig(W, mon, e) IN
               /\ mon' = MonStep(W, mon, e)
               /\ ok' = good
               /\ lastIn' = [k |-> e.in.k, a |-> e.in.a, out |-> e.out, sig |-> sig]

(* INVARIANT.  Survey run (no VF_TARGET): every rejected step is listed, the invariant itself stays true  *)
(* (PrintT is TRUE), so TLC does not reconstruct a trace for each of them.  With VF_TARGET = a signature *)
(* the invariant fails at the first (shortest) path to a step with that signature: the replay.           *)
Judge == IF Target = "" THEN ok \/ PrintT(<<"VF", "BAD", node, lastIn.sig, mon.w>>)
         ELSE ok \/ lastIn.sig # Target

(* the graph file is well formed: ids are line numbers, edges stay inside *)
ASSUME \A n \in 1..Len(G) : G[n].id = n /\ \A k \in 1..Len(G[n].succ) : G[n].succ[k].to \in 1..Len(G)
ASSUME PrintT(<<"VF", "GRAPH", Len(G), Len(Worlds)>>)
=============================================================================
