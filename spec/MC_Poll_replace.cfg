CONSTANTS
  InitPrios <- P123
  SetPrios = {1, 3}
  SetPrioMsgs = {2}
  Alphabet <- AlphaReplace
  K = 1
  ReAddPinned = FALSE
  CapBase = 0
INIT Init
NEXT Next
VIEW View
INVARIANT PWait
INVARIANT PProp
INVARIANT QueueIsPollSet
