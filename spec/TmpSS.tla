---- MODULE TmpSS ----
EXTENDS ScanSelectDomain, TLC
ASSUME PrintT(<<"VF", "A", FamilySizes(FALSE)>>)
====
