---- MODULE TmpSS ----
EXTENDS RawLogDomain, TLC, Json, IOUtils, SequencesExt
C == Cases(FALSE)
All == SetToSeq(C)
B == 500
Batches == [b \in 1..((Len(All) + B - 1) \div B) |->
              [cases |-> [k \in 1..(IF b * B <= Len(All) THEN B ELSE Len(All) - (b - 1) * B) |-> All[(b - 1) * B + k]]]]
ASSUME PrintT(<<"T0", JavaTime>>)
ASSUME PrintT(<<"T1", JavaTime, Cardinality(C)>>)
ASSUME PrintT(<<"T2", JavaTime, Len(All)>>)
ASSUME PrintT(<<"T3", JavaTime, Len(Batches)>>)
ASSUME PrintT(<<"T4", JavaTime, ndJsonSerialize("/tmp/scan-agent/tmp.ndjson", Batches)>>)
ASSUME PrintT(<<"T5", JavaTime>>)
====
