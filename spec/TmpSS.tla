---- MODULE TmpSS ----
EXTENDS ScanSelectDomain, TLC
W == SelWorlds(FALSE)
ASSUME PrintT(<<"VF", "A", FamilySizes(FALSE)>>)
ASSUME PrintT(<<"VF", "B", LemmaSpecificWins(W)>>)
ASSUME PrintT(<<"VF", "C", LemmaOrderFree(W)>>)
====
