---- MODULE TmpSS ----
EXTENDS ScanSelectDomain, TLC
ASSUME PrintT(<<"VF", "A", FamilySizes(TRUE), Cardinality(SelWorlds(TRUE)), Cardinality(SelWorlds(FALSE))>>)
====
