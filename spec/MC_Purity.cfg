CONSTANTS
  MCOps = {o1, o2, o3}
  MCRes = {r1, r2}
INIT MCInit
NEXT MCNext
INVARIANT MCFunctional
INVARIANT MCRejectsImpure
PROPERTY MCStable
