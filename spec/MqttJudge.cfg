INIT Init
NEXT Next
INVARIANT Judge
CONSTANT FIX = {}
