INIT Init
NEXT Next
INVARIANT Judge
