------------------------------ MODULE RawLogGen ------------------------------
(* Emits the cases of RawLogDomain for harness/rawlog.cpp (batches per ndjson line) and checks P on written-out examples *)
EXTENDS RawLogDomain, TLC, Json, IOUtils, SequencesExt
Thorough == IOEnv.VF_TIER = "thorough"
Seqs == [n \in 1..6 |-> SetToSeq(SeqsUpTo(n))]
All == CaseListA(Blocks(Thorough), 1, Seqs)
B == 500
Batches == [b \in 1..((Len(All) + B - 1) \div B) |->
              [cases |-> [k \in 1..(IF b * B <= Len(All) THEN B ELSE Len(All) - (b - 1) * B) |-> All[(b - 1) * B + k]]]]
(* P is not vacuous: examples with the outcome written out.  ">10<00" = 62 49 48 60 48 48 *)
l_a == <<62, 49, 48, 60, 48, 48>>                             \* >10<00
l_b == <<62, 49, 48, 46, 46, 46>>                             \* >10...
l_c == <<46, 46, 46, 60, 48, 48>>                             \* ...<00
ASSUME Decode(<<l_a>>) = [ok |-> TRUE, toks |-> << <<0, 16>>, <<1, 0>>, SEP>>]
ASSUME Decode(<<l_b, l_c>>) = [ok |-> TRUE, toks |-> << <<0, 16>>, <<1, 0>>, SEP>>]
ASSUME Decode(<<l_b, l_a>>) = [ok |-> TRUE, toks |-> << <<0, 16>>, SEP, <<0, 16>>, <<1, 0>>, SEP>>]
ASSUME ~Decode(<<l_a, l_c>>).ok /\ ~Decode(<<l_c>>).ok /\ ~Decode(<< <<62, 49, 48, 62, 48, 48>> >>).ok /\ ~Decode(<< <<62>> >>).ok
ASSUME Compress(<< <<0, 16>>, <<1, 16>>, <<1, 16>>, <<1, 170>>, <<0, 170>>, <<1, 0>> >>, "once") = << <<0, 16>>, <<1, 16>>, SEP, <<1, 0>> >>
ASSUME Compress(<< <<0, 16>>, <<1, 16>>, <<1, 16>>, <<1, 170>> >>, "repeat") = << <<0, 16>>, SEP>>
ASSUME Clause(<< <<0, 16>>, <<1, 16>>, <<1, 0>>, <<1, 170>> >>, <<l_a>>, 64, "once") = "ok"
ASSUME Clause(<< <<0, 16>>, <<1, 16>>, <<1, 0>>, <<1, 170>> >>, << <<62, 49, 48>> >>, 64, "once") = "prefix"      \* a symbol lost
ASSUME Clause(<< <<0, 16>>, <<1, 16>>, <<1, 0>>, <<1, 170>> >>, <<>>, 64, "once") = "syn"                          \* not flushed at SYN
ASSUME Clause(<< <<0, 16>>, <<1, 0>>, <<1, 170>> >>, <<l_b, l_c>>, 64, "once") = "cut"                                        \* cut too early
ASSUME ndJsonSerialize(IOEnv.VF_OUT, Batches)
ASSUME PrintT(<<"VF", "GEN", Len(All)>>)
=============================================================================
