------------------------------ MODULE MC_RawLog ------------------------------
(* S => P for the raw traffic log, all event sequences up to MaxLen over {received, sent} x {SYN, 0x10, 0x00}, with a    *)
(* small flush limit so that the "..." continuation is reached within MaxLen symbols.                                    *)
(*   MC_RawLog_code.cfg   S as the pinned code  against P with the echo rule the code implements ("repeat")  - holds     *)
(*   MC_RawLog_doc.cfg    S as the pinned code  against the documented P ("once")     - TLC finds  >10 <10 <10           *)
(*   MC_RawLog_fixed.cfg  S with the echo-expected flag against the documented P                             - holds     *)
EXTENDS RawLog, TLC
CONSTANTS EchoOnce, Rule, FlushAt, MaxLen

Alphabet == {<<d, v>> : d \in {0, 1}, v \in {SYN, 16, 0}}
VARIABLES rl_ev, rl_st
Init == rl_ev = <<>> /\ rl_st = S0
Next == /\ Len(rl_ev) < MaxLen
        /\ \E e \in Alphabet : rl_ev' = Append(rl_ev, e) /\ rl_st' = Step(rl_st, e, FlushAt, EchoOnce)

(* P, all clauses (RawLog!Clause) *)
PHolds == Clause(rl_ev, rl_st.log, FlushAt, Rule) = "ok"
(* the same in the words of the task: Decode(log) = Filter(events), as far as the log goes / completely after a SYN *)
PDecodeFilter == LET d == Decode(rl_st.log)
                     dt == SelectSeq(d.toks, LAMBDA t : t # SEP)
                     f == Filter(rl_ev, Rule)
                 IN d.ok /\ PrefixOf(dt, f) /\ ((rl_ev # <<>> /\ LastOf(rl_ev)[2] = SYN) => dt = f)
(* S-level: log and line buffer together hold everything *)
SBufferHoldsRest == LET c == Compress(rl_ev, Rule) IN
                    IF rl_st.buf = <<>> THEN LET d == Decode(rl_st.log) IN d.ok /\ (d.toks = c \/ Append(d.toks, SEP) = c)
                    ELSE LET d == Decode(Append(rl_st.log, rl_st.buf \o DOTS)) IN d.ok /\ d.toks = c
SBufferBounded == Len(rl_st.buf) <= FlushAt
=============================================================================
