------------------------------ MODULE ProtocolFidelity ------------------------------
(* Fidelity of S (Protocol.tla) against the REAL DirectProtocolHandler + PlainDevice: every edge                     *)
(*   (pre-state, input token) -> (events, post-state)                                                                *)
(* of a full-state graph extracted by harness/proto.cpp (VF_FULLSTATE=1) must be exactly the step StepF takes from    *)
(* the recorded pre-state with the recorded token.  A mismatch is model DRIFT (S is wrong or the code changed),      *)
(* never a violation: the verdicts of C01..C04/C15 come from P on G alone.                                           *)
(*                                                                                                                   *)
(* Compared: the event list, and every field of the projection that is part of the harness' visited-key (fields      *)
(* outside the key are not a function of the node: the stored node state is the one of the FIRST path reaching it):  *)
(*   - seen, masters: compared only for graphs extracted with keyseen=1 (VF_KEYSEEN=1)                                *)
(*   - rresult[r], rslave[r]: compared only where the post-state has rstatus[r] = 2 (completed, result pending)       *)
(* armed/enh* are constants of the plain device and compared as such.                                                 *)
EXTENDS Protocol, Json, IOUtils

G == ndJsonDeserialize(IOEnv.VF_GRAPH)
N == Len(G)

(* ---------------------------------------------------------------- token strings -> token records *)
Digit(c) == CASE c = "0" -> 0 [] c = "1" -> 1 [] c = "2" -> 2 [] c = "3" -> 3 [] c = "4" -> 4 [] c = "5" -> 5 [] c = "6" -> 6
              [] c = "7" -> 7 [] c = "8" -> 8 [] c = "9" -> 9 [] c = "a" -> 10 [] c = "b" -> 11 [] c = "c" -> 12 [] c = "d" -> 13
              [] c = "e" -> 14 [] c = "f" -> 15
Ch(str, k) == SubSeq(str, k, k)
RECURSIVE DecF(_, _, _)
DecF(str, k, acc) == IF k > Len(str) \/ Ch(str, k) = ":" THEN acc ELSE DecF(str, k + 1, 10 * acc + Digit(Ch(str, k)))
Dec(str) == DecF(str, 1, 0)
Hex2(str, k) == 16 * Digit(Ch(str, k)) + Digit(Ch(str, k + 1))
HexList(str) == [k \in 1..(Len(str) \div 2) |-> Hex2(str, 2 * k - 1)]
Rest(str, k) == SubSeq(str, k, Len(str))

RECURSIVE SplitF(_, _, _, _)
SplitF(str, k, start, acc) ==
  IF k > Len(str) THEN (IF start <= Len(str) THEN Append(acc, SubSeq(str, start, Len(str))) ELSE acc)
  ELSE IF Ch(str, k) = " " THEN SplitF(str, k + 1, k + 1, IF k > start THEN Append(acc, SubSeq(str, start, k - 1)) ELSE acc)
  ELSE SplitF(str, k + 1, start, acc)

TokField(tok, f) ==
  CASE f = "W=f" -> [tok EXCEPT !.w = TRUE]
    [] f = "O=f" -> [tok EXCEPT !.of = TRUE]
    [] Len(f) >= 3 /\ SubSeq(f, 1, 2) = "E=" ->
         IF Ch(f, 3) = "x" THEN [tok EXCEPT !.e = "x", !.ex = Hex2(f, 4)] ELSE [tok EXCEPT !.e = Ch(f, 3)]
    [] Len(f) >= 4 /\ SubSeq(f, 1, 2) = "D=" ->
         IF Rest(f, 3) \in {"to", "tl", "er"} THEN [tok EXCEPT !.d = Rest(f, 3)] ELSE [tok EXCEPT !.d = "sym", !.dv = HexList(Rest(f, 3))]
    [] Len(f) >= 4 /\ SubSeq(f, 1, 3) = "CB=" -> [tok EXCEPT !.cb = Dec(Rest(f, 4))]
RECURSIVE TokFold(_, _, _)
TokFold(tok, fs, k) == IF k > Len(fs) THEN tok ELSE TokFold(TokField(tok, fs[k]), fs, k + 1)

ParseToken(str) ==
  IF Len(str) >= 4 /\ SubSeq(str, 1, 4) = "SUB=" THEN [TokDefault EXCEPT !.kind = "sub", !.r = Dec(Rest(str, 5))]
  ELSE IF Len(str) >= 5 /\ SubSeq(str, 1, 5) = "POLL=" THEN [TokDefault EXCEPT !.kind = "poll", !.r = Dec(Rest(str, 6))]
  ELSE IF str = "RECONNECT" THEN [TokDefault EXCEPT !.kind = "reconnect"]
  ELSE TokFold(TokDefault, SplitF(str, 1, 1, <<>>), 1)
(* "SUB=r:hex" (replay of random walks with fresh request content) is outside the scope: the request table is PC.reqs *)

AllIns == UNION {{G[n].succ[k]["in"] : k \in 1..Len(G[n].succ)} : n \in 1..N}
TokTab == [str \in AllIns |-> ParseToken(str)]

(* ---------------------------------------------------------------- comparison *)
KeySeen == "VF_KEYSEEN" \in DOMAIN IOEnv /\ IOEnv.VF_KEYSEEN = "1"
Sample == IF "VF_SAMPLE" \in DOMAIN IOEnv THEN Dec(IOEnv.VF_SAMPLE) ELSE 1
Debug == "VF_DEBUG" \in DOMAIN IOEnv /\ IOEnv.VF_DEBUG = "1"

CmpFields == {"state", "esc", "crc", "crcValid", "repeat", "pos", "cur", "answering", "remainLock", "lockCount", "genSyn", "lstate",
              "conflict", "age", "reconnect", "arbMaster", "arbCheck", "valid", "armed", "enhResetAge", "enhResetRequested",
              "enhFeatures", "enhInfoLen", "enhInfoPos", "trk", "cmd", "res", "buf", "org", "nextq", "finq", "rstatus",
              "rretries", "rrestarts"} \cup (IF KeySeen THEN {"seen", "masters"} ELSE {})

StateDiff(a, b) ==    \* a: post-state of S, b: recorded post-state
  {f \in CmpFields : a[f] # b[f]}
  \cup (IF \E k \in 1..Len(b.rstatus) : b.rstatus[k] = 2 /\ a.rresult[k] # b.rresult[k] THEN {"rresult"} ELSE {})
  \cup (IF \E k \in 1..Len(b.rstatus) : b.rstatus[k] = 2 /\ a.rslave[k] # b.rslave[k] THEN {"rslave"} ELSE {})

EdgeDiff(n, j) ==
  LET e == G[n].succ[j]
      tok == TokTab[e["in"]]
      pre == G[n].st IN
  IF ~TokApplicable(pre, tok) THEN {"not-applicable"}
  ELSE LET r == StepF(pre, tok) IN
       (IF r.ev # e.ev THEN {"ev"} ELSE {})
       \cup (IF "st" \in DOMAIN G[e.to] THEN StateDiff(r.post, G[e.to].st) ELSE {})

EdgeDetail(n, j) == LET e == G[n].succ[j]  r == StepF(G[n].st, TokTab[e["in"]]) IN
  [tok |-> e["in"], sEv |-> r.ev, gEv |-> e.ev,
   diff |-> IF "st" \in DOMAIN G[e.to] THEN [f \in StateDiff(r.post, G[e.to].st) |-> <<r.post[f], G[e.to].st[f]>>] ELSE <<>>]

UbEdges(n) == {j \in 1..Len(G[n].succ) : TokApplicable(G[n].st, TokTab[G[n].succ[j]["in"]]) /\ StepF(G[n].st, TokTab[G[n].succ[j]["in"]]).ub}

(* ---------------------------------------------------------------- record-judging pattern over node indices *)
K == 64
Sampled(n) == "st" \in DOMAIN G[n] /\ (n - 1) % Sample = 0

VARIABLE fnode
Init == fnode = 0
Next == \/ /\ fnode = 0 /\ fnode' \in {1 + K * s : s \in 0..((N - 1) \div K)}      \* shards => TLC workers run in parallel
        \/ /\ fnode > 0 /\ fnode % K # 0 /\ fnode < N /\ fnode' = fnode + 1

BadEdges(n) == {j \in 1..Len(G[n].succ) : EdgeDiff(n, j) # {}}
Judge == fnode = 0 \/ ~Sampled(fnode) \/
         LET bad == BadEdges(fnode) IN
         bad = {} \/ ~(\A j \in bad : PrintT(<<"VF", "BAD", fnode, j, EdgeDiff(fnode, j)>>)
                                      /\ (~Debug \/ PrintT(<<"VF", "DETAIL", fnode, j, EdgeDetail(fnode, j)>>)))
(* edges whose S step needed the key arithmetic that is undefined behaviour in C++ (informational) *)
UbOn == "VF_UB" \in DOMAIN IOEnv /\ IOEnv.VF_UB = "1"
NoteUb == ~UbOn \/ fnode = 0 \/ ~Sampled(fnode) \/ UbEdges(fnode) = {} \/ PrintT(<<"VF", "UB", fnode, UbEdges(fnode)>>)
=============================================================================
