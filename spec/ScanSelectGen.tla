------------------------------ MODULE ScanSelectGen ------------------------------
(* Emits the domain of ScanSelectDomain as cases for harness/scan_select.cpp (batches of cases per ndjson line) and      *)
(* checks that P is not vacuous on concrete instances (pure TLC, no code involved).                                      *)
EXTENDS ScanSelectDomain, TLC, Json, IOUtils

Thorough == IOEnv.VF_TIER = "thorough"
SelCases == SelSeq(Thorough)
FnCases == SetToSeq({[t |-> "fn", fn |-> n] : n \in FnNames})
PmSeq == SetToSeq(PmCases)
All == SelCases \o FnCases \o PmSeq
B == 200
Batches == [b \in 1..((Len(All) + B - 1) \div B) |->
              [cases |-> [k \in 1..(IF b * B <= Len(All) THEN B ELSE Len(All) - (b - 1) * B) |-> All[(b - 1) * B + k]]]]

(* ---- lemmas about P ---- *)
(* the lemmas of ScanSelect (LemmasOn) are checked on every world by ScanSelectJudge, in parallel with the records *)

(* ---- P is not vacuous: concrete instances with the outcome written out ---- *)
V(NS) == World("L", 8, 1, BaseSl, Ents(Files(x_vaillant, NS, 0)))
n_gen == NameOf(x_08, NoSeg)                          \* 08.csv
n_bai == NameOf(x_08, <<x_bai>>)
n_bai0 == NameOf(x_08, <<x_bai0>>)
n_ba == NameOf(x_08, <<x_ba>>)
n_sw == NameOf(x_08, <<x_bai, SWm>>)
n_swx == NameOf(x_08, <<x_bai, SWx>>)
n_swhw == NameOf(x_08, <<x_bai, SWm, HWm>>)
n_hw == NameOf(x_08, <<x_bai, HWm>>)
n_long == NameOf(x_08, <<x_bai, x_longcirc>>)
n_hc == NameOf(x_08, <<x_bai, x_hc>>)
ASSUME Admissible(V({n_gen, n_bai, n_bai0, n_ba})) = {n_bai0}                   \* longest ident that still matches
ASSUME Admissible(V({n_bai, n_sw, n_long})) = {n_sw}                            \* the version-specific file, whatever the lengths
ASSUME Admissible(V({n_bai, n_sw, n_hw, n_swhw})) = {n_swhw}
ASSUME Admissible(V({n_sw, n_hw})) = {n_sw, n_hw}                               \* incomparable: open (O1)
ASSUME Admissible(V({n_long, n_hc})) = {n_long, n_hc}                           \* circuit names do not rank: open (O1)
ASSUME Admissible(V({n_swx, n_gen})) = {n_gen}                                  \* a version that does not fit is out
ASSUME Admissible(V({n_swx, n_ba})) = {} /\ NoneOk(V({n_swx, n_ba}))
ASSUME ~NoneOk(V({n_gen}))
ASSUME NormIdent(<<66, 95, 73, 32, 48>>) = <<98, 95, 105, 48>>                  \* "B_I 0" -> "b_i0"
ASSUME ManufDir(181) = x_vaillant /\ ManufDir(153) = x_153 /\ ManufDir(15) = x_fh_20ostfalia
ASSUME Pin(<<1, 2>>) = 102 /\ Pin(<<153, 153>>) = 9999 /\ Pin(<<26, 2>>) = 0 - 1
ASSUME DefaultCircuit(NameOf(x_08, <<x_bai, x_hc, x_3>>)) = x_hc \o <<DOT>> \o x_3 /\ DefaultCircuit(n_bai) = x_bai
ASSUME ParseMsg(x_ff08070400_2f0ab5424149303001020304, TRUE) =
         [kind |-> "ok", m |-> <<255, 8, 7, 4, 0>>, s |-> <<10, 181, 66, 65, 73, 48, 48, 1, 2, 3, 4>>]
(* P decides most of the domain: worlds with exactly one admissible outcome *)
Decided == {k \in 1..Len(SelCases) : LET e == Eval(SelCases[k]) IN (Cardinality(e.adm) = 1 /\ ~e.none) \/ (e.adm = {} /\ e.none)}
ASSUME Cardinality(Decided) * 10 >= Len(SelCases) * 6
PmDecided == {c \in PmCases : ParseMsg(c.arg, c.oms = 1).kind # "open"}
ASSUME Cardinality(PmDecided) * 10 >= Cardinality(PmCases) * 5

ASSUME ndJsonSerialize(IOEnv.VF_OUT, Batches)
ASSUME PrintT(<<"VF", "GEN", Len(SelCases), Len(FnCases), Len(PmSeq), Cardinality(Decided), Cardinality(PmDecided)>>)
ASSUME PrintT(<<"VF", "FAM1", SubSeq(FamilySizes(Thorough), 1, 5)>>)
ASSUME PrintT(<<"VF", "FAM2", SubSeq(FamilySizes(Thorough), 6, 10)>>)
=============================================================================
