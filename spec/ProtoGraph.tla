------------------------------ MODULE ProtoGraph ------------------------------
(* G: the implementation's own transition graph (extracted from the real         *)
(* DirectProtocolHandler by harness/proto.cpp), explored by TLC in lock-step with  *)
(* the P monitors of BusMonitors.  VF_MON selects the monitors: letters out of     *)
(* r (RecvMon C01) s (SendMon C02) t (TxMon C03) q (ReqMon C04) a (AnswerMon C15). *)
EXTENDS BusMonitors, Sequences

G == ndJsonDeserialize(IOEnv.VF_GRAPH)
On(c) == \E k \in 1..Len(IOEnv.VF_MON) : SubSeq(IOEnv.VF_MON, k, k) = c
OnR == On("r")  OnS == On("s")  OnT == On("t")  OnQ == On("q")  OnA == On("a")  OnU == On("u")

VARIABLES node, mon, lastIn
vars == <<node, mon, lastIn>>

MonInit == [rm |-> RecvInit, sm |-> SendInit, tm |-> TxInit, qm |-> ReqInit, am |-> AnsInit, um |-> RunInit]

(* one event through all selected monitors; monitors that consult another one see its state BEFORE the event *)
MonEv(m, e) ==
  [rm |-> IF OnR \/ OnT \/ OnA THEN RecvEv(m.rm, e) ELSE m.rm,
   sm |-> IF OnS THEN SendEv(m.sm, m.qm, e) ELSE m.sm,
   tm |-> IF OnT THEN TxEv(m.tm, m.rm, m.am, m.qm, e) ELSE m.tm,
   qm |-> IF OnQ \/ OnS \/ OnT THEN ReqEv(m.qm, e) ELSE m.qm,
   am |-> IF OnA THEN AnsEv(m.am, m.rm, e) ELSE m.am,
   um |-> IF OnU THEN RunEv(m.um, e) ELSE m.um]

RECURSIVE FoldMon(_, _, _)
FoldMon(m, evs, k) == IF k > Len(evs) THEN m ELSE FoldMon(MonEv(m, evs[k]), evs, k + 1)
(* the quiescence clause is about one step of the bus thread; in run mode (token "run": arbitrary batches of events of *)
(* several threads) a client may submit right after the handler dropped its requests, so it is not applied there        *)
StepMon(m, evs, tok) == LET m2 == FoldMon(m, evs, 1) IN
                        IF OnQ /\ tok # "run" THEN [m2 EXCEPT !.qm = ReqIdleStep(m.qm, ReqQuiescent(m2.qm, evs), evs)] ELSE m2

Init == node = 1 /\ mon = MonInit /\ lastIn = ""
Next == \E k \in 1..Len(G[node].succ) :
          LET e == G[node].succ[k] IN
          /\ node' = e.to
          /\ mon' = StepMon(mon, e.ev, e.in)
          /\ lastIn' = e.in
View == <<node, mon>>

Bad == IF OnR /\ mon.rm.bad # "" THEN mon.rm.bad
       ELSE IF OnS /\ mon.sm.bad # "" THEN mon.sm.bad
       ELSE IF OnT /\ mon.tm.bad # "" THEN mon.tm.bad
       ELSE IF OnQ /\ mon.qm.bad # "" THEN mon.qm.bad
       ELSE IF OnA /\ mon.am.bad # "" THEN mon.am.bad
       ELSE IF OnU /\ mon.um.bad # "" THEN mon.um.bad ELSE ""
MonOk == Bad = "" \/ ~PrintT(<<"VF", "MON", Bad>>)
=============================================================================
