------------------------------ MODULE BusMonitors ------------------------------
(* P-level monitors over the OBSERVABLE events of the protocol stack.  They are   *)
(* written from the eBUS rules and the property texts (C01..C04, C15), never from  *)
(* the handler code; they know nothing about bs_* states, lock counters or CRC      *)
(* tables.  Events (one JSON array each, in the order they happened):               *)
(*   <<"rx", sym, org>>   a symbol taken from the wire by ebusd (org 1 = it is the  *)
(*                        wire image of a byte ebusd itself wrote, 0 = from others) *)
(*   <<"tx", sym>>        ebusd wrote a byte to the bus                              *)
(*   <<"to", kind, ms>>   ebusd's read timed out (silence)   <<"err", what>> fault   *)
(*   <<"msg", dir, master, slave>>   notifyProtocolMessage (0 recv, 1 send, 2 answer)*)
(*   <<"sub"|"subcb", r, kind, master, rc>>  request handed to the handler           *)
(*   <<"ntf", r, result, slave, restart, status>>  BusRequest::notify                *)
(*   <<"del", r, status>>  request deleted   <<"fin", r, result, slave>> waiter got r*)
(*   <<"st", protocolState, result>>, <<"seen", addr>>, <<"open", ok>>, <<"close">> *)
EXTENDS EbusSymbols, TLC, IOUtils, Json

(* table forms of the P-level CRC step (evaluated once by TLC, then lookups) *)
MulTab == [c \in 0..255 |-> MulXn(c, 8)]
XorTab == [a \in 0..255 |-> [b \in 0..255 |-> Xor(a, b)]]
CrcF(c, v) == XorTab[MulTab[c]][v]
MasterSet == Masters

MaxNN == 16

(* signatures muted for this run (iterative enumeration of distinct violation signatures, see lib/vf/graph.py) *)
Muted == {IF k \in DOMAIN IOEnv THEN IOEnv[k] ELSE "" :
             k \in {"VF_MUTE1", "VF_MUTE2", "VF_MUTE3", "VF_MUTE4", "VF_MUTE5", "VF_MUTE6", "VF_MUTE7", "VF_MUTE8"}}

(***************************************************************************)
(* C01  RecvMon: the reference telegram parser.                            *)
(***************************************************************************)
RecvInit == [ph |-> "dead", m |-> <<>>, s |-> <<>>, crc |-> 0, crc0 |-> 0, esc |-> FALSE,
             mrep |-> FALSE, srep |-> FALSE, crcok |-> FALSE, pend |-> <<>>, lastTx |-> 999,
             pos0 |-> FALSE, why |-> "not-after-syn", flaw |-> "", bad |-> ""]

RecvFail(rm, sig) == IF rm.bad = "" /\ sig \notin Muted THEN [rm EXCEPT !.bad = sig] ELSE rm
(* canonical dead / done / unspecified states: parsed content is forgotten (keeps the product with G small) *)
Park(rm, ph, why) == [RecvInit EXCEPT !.ph = ph, !.why = why, !.pend = rm.pend, !.lastTx = rm.lastTx, !.bad = rm.bad]
Dead(rm, why) == Park(rm, "dead", why)
(* a complete, acknowledged telegram: reportable unless its header was flawed *)
Complete(rm, master, slave) ==
  IF rm.flaw = "" THEN [Park(rm, "done", "done") EXCEPT !.pend = <<master, slave>>] ELSE Dead(rm, rm.flaw)

(* a new segment starts: everything but the pending report and the verdict is reset *)
RecvSyn(rm) == [RecvInit EXCEPT !.ph = "qq", !.pos0 = TRUE, !.pend = rm.pend, !.bad = rm.bad, !.why = "truncated-by-syn"]

(* consume one unescaped value v in the current phase; crc0 = CRC before the value's raw symbols *)
RecvValue(rm, v) ==
  CASE rm.ph = "qq" ->
         [rm EXCEPT !.ph = "hdr", !.m = <<v>>, !.flaw = IF v \in MasterSet THEN "" ELSE "non-master-source"]
    [] rm.ph = "hdr" ->
         LET m2 == Append(rm.m, v) n == Len(m2) IN
         IF n = 2 /\ rm.flaw = "" /\ (v = SYN \/ v = ESC) THEN [rm EXCEPT !.m = m2, !.flaw = "invalid-destination"]
         ELSE IF n = 2 /\ rm.flaw = "" /\ v = rm.m[1] THEN [rm EXCEPT !.m = m2, !.flaw = "self-destination"]
         ELSE IF n = 5 /\ v > MaxNN THEN Park(rm, "unspec", "unspec")
         ELSE IF n >= 5 /\ n = 5 + m2[5] THEN [rm EXCEPT !.m = m2, !.ph = "mcrc"]
         ELSE [rm EXCEPT !.m = m2]
    [] rm.ph = "mcrc" ->
         LET ok == (v = rm.crc0) IN
         IF rm.m[2] = BROADCAST
         THEN IF ok THEN Complete(rm, rm.m, <<>>) ELSE Dead(rm, "bad-crc")
         ELSE [rm EXCEPT !.ph = "mack", !.crcok = ok]
    [] rm.ph = "sdat" ->
         LET s2 == Append(rm.s, v) n == Len(s2) IN
         IF n = 1 /\ v > MaxNN THEN Park(rm, "unspec", "unspec")
         ELSE IF n = 1 + s2[1] THEN [rm EXCEPT !.s = s2, !.ph = "scrc"]
         ELSE [rm EXCEPT !.s = s2]
    [] rm.ph = "scrc" -> [rm EXCEPT !.ph = "sack", !.crcok = (v = rm.crc0)]
    [] OTHER -> rm

RecvRx(rm0, sym, org) ==
  LET rm1 == IF rm0.pend # <<>> THEN RecvFail(rm0, "C01:valid-telegram-not-reported") ELSE rm0
      rm == [rm1 EXCEPT !.pend = <<>>] IN
  IF sym = SYN THEN RecvSyn(rm)
  ELSE IF rm.pos0 /\ rm.lastTx = sym
       THEN Park(rm, "own", "own")                        \* ebusd won the arbitration: not a passive segment
  ELSE IF org = 1 /\ ~rm.pos0
       THEN Park(rm, "own", "own")                        \* ebusd transmits inside the segment (answer / continuation)
  ELSE LET r == [rm EXCEPT !.pos0 = FALSE] IN
  CASE r.ph \in {"dead", "done", "own", "unspec"} -> r
    [] r.ph \in {"mack", "sack"} ->
         IF sym = ACK THEN
            IF ~r.crcok THEN Dead(r, "ack-of-bad-crc")
            ELSE IF r.ph = "mack"
                 THEN IF r.m[2] \in MasterSet THEN Complete(r, r.m, <<>>)
                      ELSE [r EXCEPT !.ph = "sdat", !.s = <<>>, !.crc = 0, !.esc = FALSE]
                 ELSE Complete(r, r.m, r.s)
         ELSE IF sym = NAK THEN
            IF r.ph = "mack"
            THEN IF r.mrep THEN Dead(r, "second-nak")
                 ELSE IF r.flaw # "" THEN Park(r, "unspec", "unspec")   \* NAK-ed first attempt with a flawed header: left open
                 ELSE [r EXCEPT !.ph = "qq", !.mrep = TRUE, !.m = <<>>, !.crc = 0, !.esc = FALSE]
            ELSE IF r.srep THEN Dead(r, "second-nak")
                 ELSE [r EXCEPT !.ph = "sdat", !.srep = TRUE, !.s = <<>>, !.crc = 0, !.esc = FALSE]
         ELSE Dead(r, "wrong-acknowledge")
    [] OTHER ->   \* qq, hdr, mcrc, sdat, scrc: escaped value stream with running CRC
         IF r.esc THEN
            LET c2 == CrcF(r.crc, sym) IN
            IF sym > 1 THEN Dead(r, "invalid-escape")
            ELSE RecvValue([r EXCEPT !.crc = c2, !.esc = FALSE], IF sym = 0 THEN ESC ELSE SYN)
         ELSE LET q == [r EXCEPT !.crc0 = r.crc, !.crc = CrcF(r.crc, sym)] IN
              IF sym = ESC THEN [q EXCEPT !.esc = TRUE] ELSE RecvValue(q, sym)

RecvSilence(rm0) ==
  LET rm == IF rm0.pend # <<>> THEN RecvFail([rm0 EXCEPT !.pend = <<>>], "C01:valid-telegram-not-reported") ELSE rm0 IN
  IF rm.ph = "own" THEN [rm EXCEPT !.pos0 = FALSE, !.esc = FALSE]
  ELSE [Dead(rm, IF rm.ph \in {"dead", "done"} THEN rm.why ELSE "truncated-by-timeout") EXCEPT !.pos0 = FALSE]

RecvMsg(rm, dir, master, slave) ==
  IF dir # 0 THEN rm
  ELSE IF rm.ph = "unspec" THEN rm
  ELSE IF rm.pend = <<master, slave>> THEN [rm EXCEPT !.pend = <<>>]
  ELSE RecvFail(rm, IF rm.pend # <<>> THEN "C01:reported-telegram-differs"
                    ELSE IF rm.ph = "dead" THEN "C01:reported-invalid:" \o rm.why
                    ELSE IF rm.ph = "done" THEN "C01:reported-twice"
                    ELSE IF rm.ph = "own" THEN "C01:reported-own-transmission-as-received"
                    ELSE "C01:reported-incomplete:" \o rm.ph)

RecvEv(rm, e) ==
  CASE e[1] = "rx" -> RecvRx(rm, e[2], e[3])
    [] e[1] = "tx" -> IF rm.pos0 \/ e[2] = SYN THEN [rm EXCEPT !.lastTx = e[2]]
                      ELSE [Park(rm, "own", "own") EXCEPT !.lastTx = e[2]]
    [] e[1] \in {"to", "close"} \/ (e[1] = "err" /\ e[2] = "read") -> RecvSilence(rm)   \* a failed write is not silence on the bus
    [] e[1] = "msg" -> RecvMsg(rm, e[2], e[3], e[4])
    [] e[1] = "unread" -> RecvFail(rm, "C01:delivered-symbols-not-consumed")   \* the device handed out nothing of what the transport delivered
    [] OTHER -> rm


(***************************************************************************)
(* Configuration of the run (what ebusd was started with), from VF_CFG:    *)
(* [own, lock, gensyn, readonly, answers: <<[src,dst,pb,sb,id,answer]>>]   *)
(***************************************************************************)
Cfg == IF "VF_CFG" \in DOMAIN IOEnv THEN JsonDeserialize(IOEnv.VF_CFG)
       ELSE [own |-> 49, lock |-> 3, gensyn |-> 0, readonly |-> 0, answers |-> <<>>]
SynInterval == 40          \* nominal AUTO-SYN interval in ms
LockCfg == IF Cfg.lock > 3 THEN Cfg.lock ELSE 3
Cap(n, c) == IF n > c THEN c ELSE n

RawOf(master) == Escape(Tail(master)) \o Escape(<<Crc(master)>>)   \* what follows the arbitration byte on the wire
IsPrefix(p, q) == Len(p) <= Len(q) /\ \A k \in 1..Len(p) : p[k] = q[k]

(***************************************************************************)
(* C15  reference answerer.  An entry matches a received master part m iff *)
(* dst, PB, SB are equal, its id is a prefix of the data bytes whatever    *)
(* their number, and its source is "any" (SYN) or equal.  For a master     *)
(* destination the total data length must be |id| + tail length.           *)
(***************************************************************************)
DataOf(m) == SubSeq(m, 6, Len(m))
EntryMatches(a, m) ==
  /\ a.dst = m[2] /\ a.pb = m[3] /\ a.sb = m[4]
  /\ (a.src = SYN \/ a.src = m[1])
  /\ IsPrefix(a.id, DataOf(m))
  /\ (m[2] \in MasterSet => Len(a.id) + (IF Len(a.answer) > 0 THEN a.answer[1] ELSE 0) = m[5])
AnswerIdx(m) == {k \in 1..Len(Cfg.answers) : EntryMatches(Cfg.answers[k], m)}
BestAnswers(m) == {k \in AnswerIdx(m) : \A j \in AnswerIdx(m) : Len(Cfg.answers[j].id) <= Len(Cfg.answers[k].id)}
AnswerAddrs == {Cfg.answers[k].dst : k \in 1..Len(Cfg.answers)}
(* raw symbols of a slave response <<NN, d1..dn>> : escaped data + escaped CRC *)
RawSlave(resp) == Escape(resp) \o Escape(<<Crc(resp)>>)

(* am: answer monitor.  ph: "off" | "resp" (sending response k of cand) | "wack" (awaiting the master's ACK) | "end" *)
AnsInit == [ph |-> "off", cand |-> {}, pos |-> 0, rep |-> FALSE, m |-> <<>>, await |-> FALSE, lastTx |-> 999, bad |-> ""]
AnsFail(am, sig) == IF am.bad = "" /\ sig \notin Muted THEN [am EXCEPT !.bad = sig] ELSE am
AnsOff(am) == [AnsInit EXCEPT !.bad = am.bad]

(* ebusd writes b while the passive parser rm (state BEFORE this event) says where the segment is *)
AnsTx(am, rm, b) ==
  IF am.ph = "off" THEN
     IF rm.ph = "mack" /\ rm.flaw = "" /\ Len(Cfg.answers) > 0 THEN
        (* acknowledge position of a telegram from someone else *)
        IF rm.crcok THEN
           IF BestAnswers(rm.m) = {} THEN AnsFail(am, "C15:acknowledged-telegram-without-registered-answer")
           ELSE IF b # ACK THEN AnsFail(am, "C15:wrong-acknowledge-symbol")
           ELSE IF rm.m[2] \in MasterSet THEN [am EXCEPT !.ph = "end", !.m = rm.m, !.cand = BestAnswers(rm.m), !.await = TRUE]
           ELSE [am EXCEPT !.ph = "resp", !.m = rm.m, !.cand = BestAnswers(rm.m), !.pos = 0, !.await = TRUE, !.rep = FALSE]
        ELSE IF b = NAK /\ ~rm.mrep /\ rm.m[2] \in AnswerAddrs THEN [am EXCEPT !.ph = "nak", !.await = TRUE]   \* NAK once
        ELSE AnsFail(am, "C15:acknowledged-telegram-with-bad-crc")
     ELSE am     \* not an answering position: entitlement is TxMon's business
  ELSE IF am.await THEN AnsFail(am, "C15:wrote-before-echo")
  ELSE IF am.ph = "resp" THEN
     LET c2 == {k \in am.cand : am.pos + 1 <= Len(RawSlave(Cfg.answers[k].answer)) /\ RawSlave(Cfg.answers[k].answer)[am.pos + 1] = b} IN
     IF c2 = {} THEN AnsFail(am, "C15:wrong-response-byte")
     ELSE [am EXCEPT !.cand = c2, !.pos = am.pos + 1, !.await = TRUE]
  ELSE AnsFail(am, "C15:wrote-after-answer-ended")

AnsRx(am, sym, org) ==
  IF sym = SYN THEN AnsOff(am)
  ELSE IF am.ph = "off" THEN am
  ELSE IF am.await THEN    \* the wire image of our own byte
     IF sym # am.lastTx THEN [am EXCEPT !.ph = "end", !.await = FALSE]
     ELSE LET a == [am EXCEPT !.await = FALSE] IN
          IF a.ph = "resp" /\ \E k \in a.cand : a.pos = Len(RawSlave(Cfg.answers[k].answer)) THEN [a EXCEPT !.ph = "wack"] ELSE a
  ELSE IF am.ph = "wack" THEN
     IF sym = ACK THEN [am EXCEPT !.ph = "done"]
     ELSE IF sym = NAK /\ ~am.rep THEN [am EXCEPT !.ph = "resp", !.pos = 0, !.rep = TRUE]
     ELSE [am EXCEPT !.ph = "end"]
  ELSE [am EXCEPT !.ph = "end"]

AnsMsg(am, dir, master, slave) ==
  IF dir # 2 THEN am
  ELSE IF am.ph = "done" /\ master = am.m /\ \E k \in am.cand : slave = Cfg.answers[k].answer THEN am
  ELSE IF am.ph = "end" /\ master = am.m /\ am.m[2] \in MasterSet /\ ~am.await THEN am
  ELSE AnsFail(am, "C15:answer-reported-without-completed-answer")

(* it is ebusd's turn to write and it did not (the next event is a received symbol or silence instead) *)
AnsOwes(am, rm) ==
  IF am.ph = "off" /\ rm.ph = "mack" /\ rm.crcok /\ rm.flaw = "" /\ Len(Cfg.answers) > 0 /\ BestAnswers(rm.m) # {}
  THEN "C15:registered-answer-not-given"
  ELSE IF am.ph = "resp" /\ ~am.await THEN "C15:response-not-sent-completely"
  ELSE ""

AnsEv(am, rm, e) ==
  CASE e[1] = "tx" -> [AnsTx(am, rm, e[2]) EXCEPT !.lastTx = e[2]]
    [] e[1] = "rx" -> IF AnsOwes(am, rm) # "" THEN AnsFail(AnsRx(am, e[2], e[3]), AnsOwes(am, rm)) ELSE AnsRx(am, e[2], e[3])
    [] e[1] \in {"to", "err", "close"} ->
         LET a2 == IF am.ph = "off" THEN am ELSE [am EXCEPT !.ph = "end", !.await = FALSE] IN
         IF e[1] = "to" /\ AnsOwes(am, rm) # "" THEN AnsFail(a2, AnsOwes(am, rm)) ELSE a2
    [] e[1] = "msg" -> AnsMsg(am, e[2], e[3], e[4])
    [] OTHER -> am

(***************************************************************************)
(* C04  request life cycle.  qm.st[r] in idle/active/todel/done.           *)
(***************************************************************************)
NoReq == 99
ReqInit == [st |-> <<>>, kind |-> <<>>, master |-> <<>>, res |-> <<>>, slave |-> <<>>, syn |-> 0, bad |-> ""]
(* "eventually completed" as a bounded-progress clause that also decides on graphs without a fix-point: while a request is pending and  *)
(* the bus shows nothing but SYN symbols, ebusd must start an arbitration (or hand it to the adapter) within its lock count + 3 steps  *)
(* of its loop that saw a SYN (ReqIdleStep; one opportunity per step, however many buffered SYNs the step consumed)                     *)
(* (not applied to run-mode traces: there the "sub" event is logged by the client thread before the request reaches the queue)          *)
IdleBound == IF "runmode" \in DOMAIN Cfg THEN 1000000 ELSE (IF Cfg.lock = 0 THEN 8 ELSE (IF Cfg.lock > 3 THEN Cfg.lock ELSE 3) + 1) + 3
ReqFail(qm, sig) == IF qm.bad = "" /\ sig \notin Muted THEN [qm EXCEPT !.bad = sig] ELSE qm
Ext(f, r, v, dflt) == [k \in 1..(IF r > Len(f) THEN r ELSE Len(f)) |-> IF k = r THEN v ELSE IF k <= Len(f) THEN f[k] ELSE dflt]
StOf(qm, r) == IF r <= Len(qm.st) THEN qm.st[r] ELSE "idle"
Active(qm) == {r \in 1..Len(qm.st) : qm.st[r] = "active"}

ReqEv(qm, e) ==
  CASE e[1] \in {"sub", "subcb"} ->
         LET r == e[2] + 1 IN
         IF e[5] # 0 THEN qm      \* rejected by addRequest (read-only): nothing was handed over
         ELSE IF StOf(qm, r) # "idle" THEN ReqFail(qm, "C04:harness-resubmitted-live-request")
         ELSE [qm EXCEPT !.syn = 0, !.st = Ext(qm.st, r, "active", "idle"), !.kind = Ext(qm.kind, r, e[3], 0),
                         !.master = Ext(qm.master, r, e[4], <<>>), !.res = Ext(qm.res, r, 0, 0), !.slave = Ext(qm.slave, r, <<>>, <<>>)]
    [] e[1] = "ntf" ->
         LET r == e[2] + 1 IN
         IF StOf(qm, r) # "active" THEN ReqFail(qm, IF StOf(qm, r) = "idle" THEN "C04:completion-of-a-request-that-is-not-pending"
                                                   ELSE "C04:request-completed-twice")
         ELSE IF e[5] = 1 THEN qm                                    \* restart requested: stays pending
         ELSE [qm EXCEPT !.st[r] = IF qm.kind[r] = 1 THEN "todel" ELSE "done", !.res[r] = e[3], !.slave[r] = e[4]]
    [] e[1] = "del" ->
         LET r == e[2] + 1 IN
         IF StOf(qm, r) = "todel" THEN [qm EXCEPT !.st[r] = "idle"]
         ELSE ReqFail(qm, "C04:request-deleted-while-" \o StOf(qm, r))
    [] e[1] = "fin" ->
         LET r == e[2] + 1 IN
         IF StOf(qm, r) # "done" THEN ReqFail(qm, "C04:waiter-released-without-completion")
         ELSE IF e[3] # qm.res[r] \/ e[4] # qm.slave[r] THEN ReqFail(qm, "C04:waiter-got-another-result")
         ELSE [qm EXCEPT !.st[r] = "idle"]
    [] e[1] = "bad" -> ReqFail(qm, "C04:" \o e[2])
    \* in step mode nothing may happen between the final notify of a self-deleting request and its deletion; in run-mode traces events of
    \* other threads may be logged in between (the deletion itself is demanded by the client watching its slot)
    [] OTHER -> IF (\E r \in 1..Len(qm.st) : qm.st[r] = "todel") /\ "runmode" \notin DOMAIN Cfg
                THEN ReqFail(qm, "C04:self-deleting-request-not-deleted-after-completion") ELSE qm

ReqIdleStep(qm0, qm, evs) ==
  LET synSeen == \E k \in 1..Len(evs) : evs[k][1] = "rx" /\ evs[k][2] = SYN
      other == \E k \in 1..Len(evs) : evs[k][1] \in {"tx", "enhreq", "to", "err", "close", "sub", "subcb", "ntf", "reconnect"}
                                          \/ (evs[k][1] = "rx" /\ evs[k][2] # SYN)
      pending == Active(qm0) # {} /\ Active(qm) # {} IN
  IF other \/ ~pending THEN [qm EXCEPT !.syn = 0]
  ELSE IF ~synSeen THEN qm
  ELSE IF qm.syn >= IdleBound /\ Cfg.readonly = 0 THEN ReqFail(qm, "C04:pending-request-not-sent-on-idle-bus")
  ELSE [qm EXCEPT !.syn = qm.syn + 1]

(* quiescence: after a long silence (signal lost) no request may remain pending (not an AUTO-SYN generator) *)
ReqQuiescent(qm, evs) ==
  IF Cfg.gensyn = 0 /\ (\E k \in 1..Len(evs) : evs[k][1] = "to" /\ evs[k][2] = 2) /\ Active(qm) # {}
       /\ ~(\E k \in 1..Len(evs) : evs[k][1] \in {"sub", "subcb"})
  THEN ReqFail(qm, "C04:request-still-pending-after-signal-loss") ELSE qm

(***************************************************************************)
(* C04, run mode (real bus thread + client threads): a caller of           *)
(* sendAndWait is released with the result of ITS OWN request.  The        *)
(* scripted slave of the run harness answers <<1, ZZ xor 5a>>, and every   *)
(* client uses its own ZZ, so a successful result identifies the request.  *)
(***************************************************************************)
RunInit == [m |-> <<>>, bad |-> ""]
RunEv(um, e) ==
  CASE e[1] = "sawstart" -> [um EXCEPT !.m = Ext(um.m, e[2] + 1, e[3], <<>>)]
    [] e[1] = "sawend" ->
         IF e[3] = 0 /\ e[4] # <<1, Xor(um.m[e[2] + 1][2], 90)>> /\ um.bad = "" /\ "C04:waiter-got-another-result" \notin Muted
         THEN [um EXCEPT !.bad = "C04:waiter-got-another-result"] ELSE um
    [] OTHER -> um

(***************************************************************************)
(* C02  reference sender.                                                  *)
(***************************************************************************)
SendInit == [ph |-> "off", cand |-> {}, pos |-> 0, await |-> FALSE, lastTx |-> 999, pos0 |-> FALSE, arb |-> FALSE,
             mrep |-> FALSE, srep |-> FALSE, valid |-> FALSE, s |-> <<>>, crc |-> 0, crc0 |-> 0, esc |-> FALSE, crcok |-> FALSE,
             msgSeen |-> FALSE, okSeen |-> FALSE, dst |-> 0, dm |-> <<>>, bad |-> ""]
SendFail(sm, sig) == IF sm.bad = "" /\ sig \notin Muted THEN [sm EXCEPT !.bad = sig] ELSE sm
SendOff(sm) == [SendInit EXCEPT !.bad = sm.bad]
SendEnd(sm) == [SendInit EXCEPT !.bad = sm.bad, !.ph = "failed", !.cand = sm.cand]    \* exchange is over and was not valid

(* requests currently pending with first byte q *)
CandFor(qm, q) == {r \in Active(qm) : qm.master[r][1] = q}

SendTx(sm, qm, b) ==
  IF sm.ph = "off" THEN (IF sm.pos0 THEN [sm EXCEPT !.arb = TRUE, !.lastTx = b] ELSE sm)
  ELSE IF sm.await THEN SendFail(sm, "C02:wrote-before-echo")
  ELSE IF sm.ph = "m" THEN
     LET c2 == {r \in sm.cand : sm.pos + 1 <= Len(RawOf(qm.master[r])) /\ RawOf(qm.master[r])[sm.pos + 1] = b} IN
     IF c2 = {} THEN SendFail(sm, "C02:wrong-byte-in-master-part") ELSE [sm EXCEPT !.cand = c2, !.pos = sm.pos + 1, !.await = TRUE, !.lastTx = b]
  ELSE IF sm.ph = "rq" THEN   \* repetition after NAK starts with QQ again
     IF \E r \in sm.cand : qm.master[r][1] = b THEN [sm EXCEPT !.ph = "m", !.pos = 0, !.await = TRUE, !.lastTx = b]
     ELSE SendFail(sm, "C02:wrong-byte-in-repeated-master-part")
  ELSE IF sm.ph = "sack" THEN
     IF sm.crcok THEN (IF b = ACK THEN [sm EXCEPT !.ph = "sackecho", !.await = TRUE, !.lastTx = b] ELSE SendFail(sm, "C02:good-response-not-acknowledged"))
     ELSE IF b = ACK THEN SendFail(sm, "C02:bad-response-acknowledged")
     ELSE IF b = NAK /\ ~sm.srep THEN [sm EXCEPT !.ph = "nakecho", !.await = TRUE, !.lastTx = b]
     ELSE IF (b = NAK \/ b = SYN) /\ sm.srep THEN [SendEnd(sm) EXCEPT !.lastTx = b]
     ELSE SendFail(sm, "C02:wrong-acknowledge-of-response")
  ELSE IF sm.ph = "syn" THEN (IF b = SYN THEN [sm EXCEPT !.ph = "synsent", !.lastTx = b] ELSE SendFail(sm, "C02:exchange-not-ended-with-syn"))
  ELSE IF sm.ph \in {"mack", "sdat", "scrc"} THEN SendFail(sm, "C02:wrote-while-expecting-the-addressed-participant")
  ELSE sm

SendRespValue(sm, v) ==
  IF sm.ph = "sdat" THEN
     LET s2 == Append(sm.s, v) IN
     IF Len(s2) = 1 /\ v > MaxNN THEN [SendEnd(sm) EXCEPT !.ph = "unspec"]
     ELSE IF Len(s2) = 1 + s2[1] THEN [sm EXCEPT !.s = s2, !.ph = "scrc"] ELSE [sm EXCEPT !.s = s2]
  ELSE [sm EXCEPT !.ph = "sack", !.crcok = (v = sm.crc0)]

SendRx(sm, qm, sym, org) ==
  IF sym = SYN THEN
     (IF sm.okSeen /\ ~sm.msgSeen THEN SendFail([SendOff(sm) EXCEPT !.pos0 = TRUE], "C02:successful-request-not-reported-as-sent")
      ELSE [SendOff(sm) EXCEPT !.pos0 = TRUE])
  ELSE IF sm.ph = "off" THEN
     IF sm.pos0 /\ sm.arb /\ sym = sm.lastTx /\ CandFor(qm, sym) # {}
     THEN [sm EXCEPT !.ph = "m", !.cand = CandFor(qm, sym), !.pos = 0, !.pos0 = FALSE,
                     !.dst = qm.master[CHOOSE r \in CandFor(qm, sym) : TRUE][2]]
     ELSE [sm EXCEPT !.pos0 = FALSE, !.arb = FALSE]
  ELSE IF sm.await THEN
     IF sym = sm.lastTx THEN      \* the wire shows what was written (whoever else wrote the same symbol)
        LET a == [sm EXCEPT !.await = FALSE] IN
        IF a.ph = "m" /\ \E r \in a.cand : a.pos = Len(RawOf(qm.master[r])) THEN
           LET c3 == {r \in a.cand : a.pos = Len(RawOf(qm.master[r]))} IN
           IF qm.master[CHOOSE r \in c3 : TRUE][2] = BROADCAST THEN [a EXCEPT !.cand = c3, !.ph = "syn", !.valid = TRUE]
           ELSE [a EXCEPT !.cand = c3, !.ph = "mack"]
        ELSE IF a.ph = "sackecho" THEN [a EXCEPT !.ph = "syn", !.valid = TRUE]
        ELSE IF a.ph = "nakecho" THEN [a EXCEPT !.ph = "sdat", !.srep = TRUE, !.s = <<>>, !.crc = 0, !.esc = FALSE]
        ELSE a
     ELSE SendEnd(sm)          \* echo mismatch: the exchange failed
  ELSE IF sm.ph = "mack" THEN
     IF sym = ACK THEN
        IF qm.master[CHOOSE r \in sm.cand : TRUE][2] \in MasterSet THEN [sm EXCEPT !.ph = "syn", !.valid = TRUE]
        ELSE [sm EXCEPT !.ph = "sdat", !.s = <<>>, !.crc = 0, !.esc = FALSE]
     ELSE IF sym = NAK /\ ~sm.mrep THEN [sm EXCEPT !.ph = "rq", !.mrep = TRUE]
     ELSE SendEnd(sm)
  ELSE IF sm.ph \in {"sdat", "scrc"} THEN
     IF sm.esc THEN
        IF sym > 1 THEN SendEnd(sm)
        ELSE SendRespValue([sm EXCEPT !.crc = CrcF(sm.crc, sym), !.esc = FALSE], IF sym = 0 THEN ESC ELSE SYN)
     ELSE LET q == [sm EXCEPT !.crc0 = sm.crc, !.crc = CrcF(sm.crc, sym)] IN
          IF sym = ESC THEN [q EXCEPT !.esc = TRUE] ELSE SendRespValue(q, sym)
  ELSE IF sm.ph \in {"m", "rq", "sack"} THEN SendEnd(sm)   \* somebody else talks while it is ebusd's turn
  ELSE IF sm.ph = "syn" THEN [sm EXCEPT !.ph = "synsent"]  \* the bus is already used by somebody else: the closing SYN is moot
  ELSE sm

SendNtf(sm, qm, r, res, slave, restart) ==
  IF sm.ph = "unspec" THEN sm
  ELSE IF r \in sm.cand /\ sm.ph = "sack" /\ ~sm.crcok /\ ~sm.srep THEN
     SendFail([SendEnd(sm) EXCEPT !.cand = {}], "C02:first-bad-response-not-answered-with-nak")
  ELSE IF r \in sm.cand /\ sm.ph # "off" THEN
     IF res = 0 THEN
        IF ~sm.valid THEN SendFail(sm, "C02:success-reported-for-invalid-exchange")
        ELSE IF slave # sm.s THEN SendFail(sm, "C02:success-with-wrong-response-data")
        ELSE [sm EXCEPT !.okSeen = TRUE, !.dm = qm.master[r], !.cand = {}]     \* verdict given: later completions of r are new submissions
     ELSE IF sm.valid THEN SendFail(sm, "C02:error-reported-for-valid-exchange")
     \* "transmits exactly the remaining master bytes": giving up while it is ebusd's turn, every echo matched and nothing failed
     ELSE IF sm.ph \in {"m", "rq"} /\ ~sm.await THEN SendFail([SendEnd(sm) EXCEPT !.cand = {}], "C02:own-transmission-abandoned-without-cause")
     ELSE [SendEnd(sm) EXCEPT !.cand = {}]
  ELSE IF res = 0 THEN SendFail(sm, "C02:success-reported-without-exchange") ELSE sm

SendMsg(sm, qm, dir, master, slave) ==
  IF dir # 1 \/ sm.ph = "unspec" THEN sm
  ELSE IF sm.valid /\ (master = sm.dm \/ \E r \in sm.cand : qm.master[r] = master) /\ slave = sm.s THEN [sm EXCEPT !.msgSeen = TRUE]
  ELSE SendFail(sm, "C02:sent-message-reported-for-invalid-exchange")

SendEv(sm, qm, e) ==
  CASE e[1] = "tx" -> SendTx(sm, qm, e[2])
    [] e[1] = "rx" -> SendRx(sm, qm, e[2], e[3])
    [] e[1] = "err" /\ e[2] = "write" -> IF sm.ph \in {"off", "failed", "synsent", "unspec"} THEN sm ELSE IF sm.valid THEN [sm EXCEPT !.ph = "synsent"] ELSE SendEnd(sm)
    [] e[1] \in {"to", "err", "close"} ->
         IF sm.ph = "syn" THEN SendFail(SendEnd(sm), "C02:exchange-not-ended-with-syn")
         ELSE IF sm.ph \in {"off", "failed", "synsent", "unspec"} THEN [sm EXCEPT !.pos0 = FALSE, !.arb = FALSE]
         ELSE IF sm.valid THEN sm ELSE SendEnd(sm)
    [] e[1] = "ntf" -> SendNtf(sm, qm, e[2] + 1, e[3], e[4], e[5])
    [] e[1] = "msg" -> SendMsg(sm, qm, e[2], e[3], e[4])
    [] OTHER -> sm

(***************************************************************************)
(* C03  entitlement of every transmitted symbol.                           *)
(***************************************************************************)
(* automatic lock count (configured 0): "auto detection" = the number of masters on the bus, never below 3; P demands at least  *)
(* ebusd itself plus the distinct masters that were the source of a telegram it reported as received before the arbitration was lost *)
AutoLock(tm) == LET n == 1 + Cardinality(tm.ms \ {Cfg.own}) IN IF n > 3 THEN n ELSE 3
LockNeed(tm) == IF Cfg.lock = 0 THEN AutoLock(tm) ELSE LockCfg
LostCap == IF Cfg.lock = 0 THEN 8 ELSE LockCfg + 1
(* "its SYN generation interval": a stand-by generator waits an address dependent time (10 ms per master number on top of the  *)
(* SYN timeout of 51 ms) so that stand-by generators do not collide; once it has generated a SYN that came back it is the      *)
(* acting generator with the nominal AUTO-SYN interval                                                                         *)
StandbyInterval == 10 * MasterNumber(Cfg.own) + 51
TxInit == [role |-> "idle", prevSyn |-> FALSE, lastTx |-> 999, lostSyn |-> LostCap, need |-> 0, silence |-> 0, await |-> FALSE,
           acting |-> FALSE, ms |-> {}, bad |-> ""]
SynNeed(tm) == IF tm.acting THEN SynInterval ELSE StandbyInterval
TxFail(tm, sig) == IF tm.bad = "" /\ sig \notin Muted THEN [tm EXCEPT !.bad = sig] ELSE tm

TxTx(tm, rm, am, qm, b) ==
  LET t == [tm EXCEPT !.lastTx = b, !.prevSyn = FALSE, !.await = TRUE] IN
  IF Cfg.readonly = 1 THEN TxFail(t, "C03:transmission-in-read-only-mode")
  ELSE IF b = SYN /\ Cfg.gensyn = 1 /\ tm.silence >= SynNeed(tm) /\ tm.role # "own"                                    \* (d)
       THEN [t EXCEPT !.role = "autosyn", !.need = IF tm.need > 2 THEN 2 ELSE tm.need]   \* an idle bus observed as SYN generator: only the explicit "one further SYN" remains demanded
  ELSE IF tm.role = "own" THEN t                                                                \* (b), byte value is C02's
  ELSE IF tm.role = "answer" THEN t                                                             \* (c) continued, value is C15's
  ELSE IF tm.role \in {"mute", "idle"} /\ rm.ph = "mack" /\ rm.flaw = "" /\ rm.m[2] \in AnswerAddrs
       THEN [t EXCEPT !.role = "answer"]                 \* (c) start: also after a lost arbitration the winner may address ebusd
  ELSE IF tm.role = "mute" THEN TxFail(t, "C03:transmission-after-failure-before-next-syn")
  ELSE IF tm.role = "idle" /\ tm.prevSyn THEN                                                   \* (a)
       IF CandFor(qm, b) = {} THEN TxFail(t, "C03:arbitration-without-pending-request")
       ELSE IF tm.lostSyn < tm.need THEN TxFail(t, "C03:arbitration-before-lock-counter-expired")
       ELSE [t EXCEPT !.role = "arb"]
  ELSE IF tm.role = "idle" /\ rm.ph = "mack" /\ rm.m[2] \in AnswerAddrs THEN [t EXCEPT !.role = "answer"]   \* (c) start
  ELSE TxFail(t, "C03:transmission-without-entitlement")

TxRx(tm, sym, org) ==
  LET t == [tm EXCEPT !.silence = 0, !.await = FALSE] IN
  IF sym = SYN THEN [t EXCEPT !.role = "idle", !.prevSyn = TRUE, !.lostSyn = Cap(tm.lostSyn + 1, LostCap),
                              !.acting = tm.acting \/ (tm.role = "autosyn" /\ tm.await)]
  ELSE LET u == [t EXCEPT !.prevSyn = FALSE] IN
  IF tm.role = "arb" THEN
       IF sym = tm.lastTx THEN [u EXCEPT !.role = "own"]
       ELSE [u EXCEPT !.role = "mute", !.lostSyn = 0,
                      !.need = IF (sym % 16) = (tm.lastTx % 16) THEN 2 ELSE LockNeed(tm)]
  ELSE IF tm.role \in {"own", "answer"} /\ tm.await /\ sym # tm.lastTx THEN [u EXCEPT !.role = "mute"]
  ELSE IF tm.role = "autosyn" THEN [u EXCEPT !.role = "mute"]
  ELSE u

TxEv(tm, rm, am, qm, e) ==
  CASE e[1] = "tx" -> TxTx(tm, rm, am, qm, e[2])
    [] e[1] = "rx" -> TxRx(tm, e[2], e[3])
    [] e[1] = "to" -> [tm EXCEPT !.silence = IF Cfg.gensyn = 1 THEN Cap(tm.silence + e[3], SynNeed(tm)) ELSE 0,
                                 !.prevSyn = FALSE, !.await = FALSE,
                                 !.role = IF tm.role \in {"own", "answer", "arb", "autosyn"} THEN "mute" ELSE tm.role]
    [] e[1] \in {"err", "close"} -> [tm EXCEPT !.prevSyn = FALSE, !.await = FALSE,
                                 !.role = IF tm.role \in {"own", "answer", "arb", "autosyn"} THEN "mute" ELSE tm.role]
    [] e[1] = "msg" -> IF Cfg.lock = 0 /\ e[2] = 0 /\ Len(e[3]) > 0 /\ e[3][1] \in MasterSet /\ Cardinality(tm.ms) < 6
                       THEN [tm EXCEPT !.ms = tm.ms \cup {e[3][1]}] ELSE tm
    [] OTHER -> tm

=============================================================================
