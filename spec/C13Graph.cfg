INIT Init
NEXT Next
VIEW View
INVARIANT Judge
