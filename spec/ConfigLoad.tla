------------------------------ MODULE ConfigLoad ------------------------------
(* P for configuration *loading* (growth of the specification; no listed property of its own, every      *)
(* property relies on it): what a template file and a message definition file mean.                       *)
(*                                                                                                         *)
(*   LoadTemplates(lines)       the template table a template file defines, or the line it is rejected at  *)
(*   LoadMessages(lines, T)     the messages a definition file defines given the template table T, or the  *)
(*                              line it is rejected at                                                     *)
(*                                                                                                         *)
(* Both work on the *text* of the file (a sequence of lines, each a sequence of character codes); lines    *)
(* are split with the reference reader of Csv.tla.  A result is                                            *)
(*    [kind |-> "ok",   ...]            the file is accepted and means exactly this                        *)
(*    [kind |-> "rej",  line |-> n]     the file is rejected and line n (1-based, comments and blank lines *)
(*                                      counted) is named                                                  *)
(*    [kind |-> "open", line |-> n]     up to line n-1 the file is fine, line n is outside what the        *)
(*                                      documentation fixes: anything may happen from line n on            *)
(*                                                                                                         *)
(* Sources.  [D] = documented: the column comments in message.cpp / data.cpp / filereader.h, which encode    *)
(*   the configuration conventions of the ebusd wiki                                                        *)
(*   ("[type],[circuit],name,[comment],[QQ[;QQ]*],[ZZ],[PBSB],[ID],fields...",                              *)
(*   "name[:usename],basetype[:len]|template[:usename][,[divisor|values][,[unit][,[comment]]]]",           *)
(*   "first line defines column names", "Columns starting with a * mark the beginning of a repeated sub    *)
(*   row", "default values indicated by the first field starting with a *", "[circuit[#level]]",            *)
(*   "cannot use divisor != 1 for value list field", "value list not allowed in set derive", ...),         *)
(*   ChangeLog.md ("allow specifying multiple destination addresses in message definition and defaults",   *)
(*   "extended default definition in CSV to allow message name and comment prefix/suffix", "allow inline   *)
(*   rename of template reference", "corrected derivation of field name, comment and unit in templates"),  *)
(*   the use in the published configuration files (defaults per type key such as *wi used by "r;wi" rows,   *)
(*   ID default = prefix, default fields in front), and what upstream's own tests assert                   *)
(*   (test_message.cpp: "*r,cir*cuit#level,na*me,com*ment,ff,75,b509,0d"; "08;10" rejected, "08;09" gives   *)
(*   several messages; "*w,,,,,,b505,2d" + "w,cir,offset,,,50,,,,,temp"; test_data.cpp: uin10 x -10         *)
(*   accepted, uin10 x 10 and temp x -10 rejected, name substitution, struct templates).                   *)
(*   [C] = convention: the documentation says *that* something happens but not the detail; P states the    *)
(*   one consistent rule (the check reports them as conventions; a deliberate change shows up as drift,     *)
(*   never as a violation):                                                                                *)
(*     C1  the k-th message of a ZZ list gets the circuit name  circuit "." (k-1)                           *)
(*     C2  a field group whose cells are all empty is no field (also between two fields)                   *)
(*     C3  identity of a message: (circuit, name) without case per direction class R / W / P (passive      *)
(*         read and passive write share P); (class, ZZ, PBSB+ID) and for P also QQ                         *)
(*     C4  a message row needs its own name; a default name is only a pattern (with a star) or ignored     *)
(*     C5  usage unit/comment replace the template's for the first derived field only                      *)
(*   Value list / divisor of a template against the usage (what is fixed, and where):                      *)
(*     template list, usage nothing -> the template's list; usage list -> the usage's list replaces it     *)
(*     [D: derive]; usage divisor other than 1 -> rejected [D]; template constant + anything, usage         *)
(*     constant on any template, list or divisor on a text type, list on a struct -> rejected [D];          *)
(*     template divisor x usage divisor -> product rule [D: tests]; usage divisor on a struct -> applied    *)
(*     to every field, rejected when one of them cannot take it; plain numeric template + usage list ->     *)
(*     value list field; template with its own divisor + usage list -> O4 (the pinned code accepts it and   *)
(*     keeps a divisor on the value list type, which its own dump cannot express: finding of the check)     *)
(*   Left open (kind "open"), because neither documented nor forced by consistency:                        *)
(*     O1  a row with its own PBSB while the default carries an ID prefix                                  *)
(*     O2  the level when both a level column/default and circuit#level are given, and when a row names     *)
(*         its own circuit while the default circuit carries #level                                        *)
(*     O3  a default row that is invalid in itself (reported at its own line, at the first use, or never)   *)
(*     O4  a value list in the usage of a template that carries its own divisor (the symmetric case,        *)
(*         a divisor on a value list template, is rejected)                                                *)
(*     O5  both a field name and template:name; a field name on a template with several fields             *)
(*     O6  a part other than "m" for a master / broadcast destination; several types in one field (a;b);    *)
(*         chained ids with explicit lengths; lenient number spellings; unknown column names; several       *)
(*         starred groups in a message header; data types outside the seven modelled here                   *)
(*   Out of scope: conditions ([name] and *[cond] rows), instructions (!include, !load), range columns,     *)
(*   language columns (name.en), defaults derived from the file name, the data length limit (C09).          *)
(* Texts are sequences of character codes.                                                                  *)
EXTENDS Naturals, Integers, Sequences, FiniteSets, SequencesExt
CSV == INSTANCE Csv

COMMA == 44   SEMI == 59   COLON == 58   EQS == 61   HASH == 35   STAR == 42   MINUS == 45   DOT == 46   SLASH == 47
BLANK == 32   LBRACK == 91

Trim(s) == CSV!Trim(s)
Lower(s) == CSV!Lower(s)
Upper(s) == CSV!Upper(s)

RECURSIVE IndexFrom(_, _, _)
IndexFrom(s, c, k) == IF k > Len(s) THEN 0 ELSE IF s[k] = c THEN k ELSE IndexFrom(s, c, k + 1)
IndexOf(s, c) == IndexFrom(s, c, 1)
HasCh(s, c) == IndexOf(s, c) > 0
Before(s, p) == SubSeq(s, 1, p - 1)
After(s, p) == SubSeq(s, p + 1, Len(s))
RECURSIVE SplitOn(_, _)
SplitOn(s, c) == LET p == IndexOf(s, c) IN IF p = 0 THEN <<s>> ELSE <<Before(s, p)>> \o SplitOn(After(s, p), c)
TrimEach(ss) == [k \in 1..Len(ss) |-> Trim(ss[k])]
RECURSIVE Flatten(_)
Flatten(ss) == IF ss = <<>> THEN <<>> ELSE Head(ss) \o Flatten(Tail(ss))

(***************************************************************************)
(* numbers                                                                  *)
(***************************************************************************)
HexVal(c) == IF c \in 48..57 THEN c - 48 ELSE IF c \in 97..102 THEN c - 87 ELSE IF c \in 65..70 THEN c - 55 ELSE 0 - 1
IsHex(s) == \A k \in 1..Len(s) : HexVal(s[k]) >= 0
RECURSIVE HexBytes(_)
HexBytes(s) == IF Len(s) < 2 THEN <<>> ELSE <<16 * HexVal(s[1]) + HexVal(s[2])>> \o HexBytes(SubSeq(s, 3, Len(s)))
(* a hex byte string: pairs of hex digits *)
ParseId(s) == IF HasCh(s, BLANK) THEN [k |-> "open", v |-> <<>>]
              ELSE IF IsHex(s) /\ (Len(s) % 2) = 0 THEN [k |-> "ok", v |-> HexBytes(s)]
              ELSE [k |-> "bad", v |-> <<>>]
(* an address: two hex digits (other lengths are spellings the documentation does not mention) *)
ParseAddr(s) == IF ~IsHex(s) \/ s = <<>> THEN [k |-> "bad", v |-> 0]
                ELSE IF Len(s) # 2 THEN [k |-> "open", v |-> 0]
                ELSE [k |-> "ok", v |-> 16 * HexVal(s[1]) + HexVal(s[2])]
IsMasterAddr(a) == (a \div 16) \in {0, 1, 3, 7, 15} /\ (a % 16) \in {0, 1, 3, 7, 15}
SYN == 170   ESC == 169   BROADCAST == 254
IsValidAddr(a) == a # SYN /\ a # ESC
IsMB(a) == a = BROADCAST \/ IsMasterAddr(a)

IsDigits(s) == s # <<>> /\ \A k \in 1..Len(s) : s[k] \in 48..57
RECURSIVE DecVal(_)
DecVal(s) == IF s = <<>> THEN 0 ELSE 10 * DecVal(SubSeq(s, 1, Len(s) - 1)) + (s[Len(s)] - 48)
(* decimal integer, optional sign, no leading zeros, at most 6 digits (wider: not specified here) *)
ParseInt(s) == LET neg == s # <<>> /\ s[1] = MINUS
                   d == IF neg THEN Tail(s) ELSE s
               IN IF ~IsDigits(d) THEN [k |-> "bad", v |-> 0]
                  ELSE IF Len(d) > 6 \/ (Len(d) > 1 /\ d[1] = 48) THEN [k |-> "open", v |-> 0]
                  ELSE [k |-> "ok", v |-> IF neg THEN 0 - DecVal(d) ELSE DecVal(d)]

(***************************************************************************)
(* base data types of this specification (a representative subset of the    *)
(* ebusd type list: numeric with and without built-in divisor, signed,       *)
(* 1/2/4 bytes, and an adjustable-length text type)                          *)
(***************************************************************************)
Ty(id, num, len, div, adj) == [id |-> id, num |-> num, len |-> len, div |-> div, adj |-> adj]
BaseTypes == <<
  Ty(<<85, 67, 72>>, TRUE, 1, 1, FALSE),       \* UCH
  Ty(<<85, 73, 78>>, TRUE, 2, 1, FALSE),       \* UIN
  Ty(<<68, 50, 67>>, TRUE, 2, 16, FALSE),      \* D2C   (built-in divisor 16)
  Ty(<<83, 67, 72>>, TRUE, 1, 1, FALSE),       \* SCH
  Ty(<<85, 76, 71>>, TRUE, 4, 1, FALSE),       \* ULG
  Ty(<<83, 84, 82>>, FALSE, 1, 0, TRUE),       \* STR[:len]
  Ty(<<72, 69, 88>>, FALSE, 1, 0, TRUE)        \* HEX[:len]
>>
(* names that are no data type: every type id of ebusd has at least three characters; NIX is in no type list *)
NoTypes == {<<78, 73, 88>>}
TypeIdx(id) == IF \E j \in 1..Len(BaseTypes) : BaseTypes[j].id = id
               THEN CHOOSE j \in 1..Len(BaseTypes) : BaseTypes[j].id = id ELSE 0
TypeById(id) == BaseTypes[TypeIdx(id)]
(* type cell "UCH" / "str:2": <<kind, type, length>> *)
ParseType(tok) ==
  LET p == IndexOf(tok, COLON)
      id == Upper(IF p = 0 THEN tok ELSE Before(tok, p))
      j == TypeIdx(id)
      ln == ParseInt(After(tok, p))
  IN IF j = 0 THEN [k |-> IF Len(id) < 3 \/ id \in NoTypes THEN "bad" ELSE "open",     \* a type of the full list: not specified here
                    ty |-> BaseTypes[1], len |-> 0]
     ELSE IF p = 0 THEN [k |-> "ok", ty |-> BaseTypes[j], len |-> BaseTypes[j].len]
     ELSE IF ~BaseTypes[j].adj \/ ln.k # "ok" \/ ln.v < 1 \/ ln.v > 8 THEN [k |-> "open", ty |-> BaseTypes[j], len |-> 0]
     ELSE [k |-> "ok", ty |-> BaseTypes[j], len |-> ln.v]

(***************************************************************************)
(* fields                                                                   *)
(*   part 0 any (template), 1 master, 2 slave; kind 1 plain, 2 value list,  *)
(*   3 constant.  div: divisor (> 1), multiplier (< 0), 1 none, 0 for       *)
(*   non-numeric types; not meaningful for kinds 2 and 3.                    *)
(***************************************************************************)
Fld(name, part, ty, len, div, kind, vals, cval, cver, unit, comment) ==
  [name |-> name, part |-> part, tid |-> ty.id, len |-> len, bits |-> 8 * len, div |-> div, kind |-> kind, vals |-> vals,
   cval |-> cval, cver |-> cver, unit |-> unit, comment |-> comment]

OKF(fs) == [k |-> "ok", fs |-> fs]
REJF == [k |-> "rej", fs |-> <<>>]
OPENF == [k |-> "open", fs |-> <<>>]

(* divisor product [D]: divisors multiply, multipliers (negative) multiply, a divisor cannot be combined with a multiplier *)
Combine(m, d0) ==
  LET d == IF d0 = 0 THEN 1 ELSE d0 IN
  IF m = 1 THEN [ok |-> TRUE, v |-> d]
  ELSE IF d = 1 THEN [ok |-> TRUE, v |-> m]
  ELSE IF d < 0 THEN (IF m > 1 THEN [ok |-> FALSE, v |-> 0] ELSE [ok |-> TRUE, v |-> 0 - (d * m)])
  ELSE IF m < 0 THEN [ok |-> FALSE, v |-> 0]
  ELSE [ok |-> TRUE, v |-> d * m]

(* the divisor/values cell *)
RECURSIVE SortedPairs(_)
SortedPairs(S) == IF S = {} THEN <<>> ELSE LET m == CHOOSE x \in S : \A y \in S : x[1] <= y[1] IN <<m>> \o SortedPairs(S \ {m})
ParseValues(s) ==
  LET toks == TrimEach(SplitOn(s, SEMI))
      one(t) == LET p == IndexOf(t, EQS)
                    key == ParseInt(Trim(Before(t, p)))
                IN IF p = 0 THEN <<"bad", 0, <<>>>>
                   ELSE IF key.k = "bad" THEN <<"bad", 0, <<>>>>
                   ELSE IF key.k = "open" \/ key.v < 0 \/ key.v > 100 THEN <<"open", 0, <<>>>>
                   ELSE <<"ok", key.v, Trim(After(t, p))>>
      rs == [k \in 1..Len(toks) |-> one(toks[k])]
  IN IF \E k \in 1..Len(rs) : toks[k] = <<>> THEN [k |-> "open", vals |-> <<>>]
     ELSE IF \E k \in 1..Len(rs) : rs[k][1] = "bad" THEN [k |-> "bad", vals |-> <<>>]
     ELSE IF \E k \in 1..Len(rs) : rs[k][1] = "open" THEN [k |-> "open", vals |-> <<>>]
     ELSE IF \E j, k \in 1..Len(rs) : j # k /\ rs[j][2] = rs[k][2] THEN [k |-> "open", vals |-> <<>>]
     ELSE [k |-> "ok", vals |-> SortedPairs({<<rs[k][2], rs[k][3]>> : k \in 1..Len(rs)})]
Payload(dv) ==
  LET none == [k |-> "none", d |-> 0, vals |-> <<>>, cval |-> <<>>, cver |-> 0] IN
  IF dv = <<>> THEN none
  ELSE IF dv[1] = EQS THEN
         (IF Len(dv) >= 2 /\ dv[2] = EQS THEN
              (IF Len(dv) = 2 THEN [none EXCEPT !.k = "open"] ELSE [none EXCEPT !.k = "const", !.cval = SubSeq(dv, 3, Len(dv)), !.cver = 1])
          ELSE IF Len(dv) = 1 THEN [none EXCEPT !.k = "open"]
          ELSE [none EXCEPT !.k = "const", !.cval = Tail(dv)])
  ELSE IF HasCh(dv, EQS) THEN
         LET v == ParseValues(dv) IN
         IF v.k = "ok" THEN [none EXCEPT !.k = "vals", !.vals = v.vals] ELSE [none EXCEPT !.k = v.k]
  ELSE LET i == ParseInt(dv) IN
       IF i.k = "bad" THEN [none EXCEPT !.k = "bad"]
       ELSE IF i.k = "open" \/ i.v = 0 \/ i.v > 10000 \/ i.v < 0 - 10000 THEN [none EXCEPT !.k = "open"]
       ELSE [none EXCEPT !.k = "div", !.d = i.v]

(* a field of a base type *)
BaseField(name, part, ty, len, pl, unit, comment) ==
  CASE pl.k = "none" -> OKF(<<Fld(name, part, ty, len, ty.div, 1, <<>>, <<>>, 0, unit, comment)>>)
    [] pl.k = "const" -> OKF(<<Fld(name, part, ty, len, ty.div, 3, <<>>, pl.cval, pl.cver, unit, comment)>>)
    [] pl.k = "div" -> IF ~ty.num THEN REJF
                       ELSE LET c == Combine(ty.div, pl.d) IN
                            IF c.ok THEN OKF(<<Fld(name, part, ty, len, c.v, 1, <<>>, <<>>, 0, unit, comment)>>) ELSE REJF
    [] pl.k = "vals" -> IF ~ty.num THEN REJF
                        ELSE OKF(<<Fld(name, part, ty, len, ty.div, 2, pl.vals, <<>>, 0, unit, comment)>>)

(* one field of a template, used with a (possibly empty) new name, a divisor or value list, unit and comment [D] *)
Derive(f, name, part, pl, unit, comment) ==
  LET ty == TypeById(f.tid)
      g == [f EXCEPT !.name = IF name # <<>> THEN name ELSE f.name, !.part = part,
                     !.unit = IF unit # <<>> THEN unit ELSE f.unit, !.comment = IF comment # <<>> THEN comment ELSE f.comment]
  IN
  CASE pl.k = "const" -> REJF                                   \* a template cannot be turned into a constant
    [] pl.k = "none" -> OKF(<<g>>)
    [] f.kind = 3 -> IF pl.k = "div" /\ pl.d = 1 THEN OPENF ELSE REJF
    [] f.kind = 2 -> IF pl.k = "div" THEN (IF pl.d = 1 THEN OKF(<<g>>) ELSE REJF)   \* no divisor on a value list
                     ELSE OKF(<<[g EXCEPT !.vals = pl.vals]>>)                       \* the usage's list replaces the template's
    [] ~ty.num -> REJF
    [] pl.k = "div" -> LET c == Combine(f.div, pl.d) IN IF c.ok THEN OKF(<<[g EXCEPT !.div = c.v]>>) ELSE REJF
    [] pl.k = "vals" -> IF f.div # ty.div THEN OPENF                                 \* O4
                        ELSE OKF(<<[g EXCEPT !.kind = 2, !.vals = pl.vals]>>)

RECURSIVE DeriveAll(_, _, _, _, _, _)
DeriveAll(fs, j, part, pl, unit, comment) ==
  IF j > Len(fs) THEN OKF(<<>>)
  ELSE LET a == Derive(fs[j], <<>>, part, pl, IF j = 1 THEN unit ELSE <<>>, IF j = 1 THEN comment ELSE <<>>)    \* C5
           r == DeriveAll(fs, j + 1, part, pl, unit, comment)
       IN IF a.k = "rej" \/ r.k = "rej" THEN REJF ELSE IF a.k = "open" \/ r.k = "open" THEN OPENF ELSE OKF(a.fs \o r.fs)

(* template table: sequence of <<name, fields>> *)
TLookup(T, n) == IF \E j \in 1..Len(T) : T[j][1] = n THEN (CHOOSE j \in 1..Len(T) : T[j][1] = n) ELSE 0

(* one field group.  g = [name, part, type, dv, unit, comment] (texts); cx = [tmpl, w, mb] *)
Group(g, cx, T) ==
  LET ptxt == Lower(g.part)
      part == IF cx.tmpl THEN 0
              ELSE IF cx.mb THEN 1
              ELSE IF ptxt = <<>> THEN (IF cx.w THEN 1 ELSE 2)
              ELSE IF ptxt = <<109>> THEN 1 ELSE 2
      tok == g.type
      cp == IndexOf(tok, COLON)
      whole == TLookup(T, tok)
      pre == IF cp = 0 THEN 0 ELSE TLookup(T, Before(tok, cp))
      tj == IF whole # 0 THEN whole ELSE pre
      rename == IF whole # 0 \/ cp = 0 THEN <<>> ELSE After(tok, cp)
      pl == Payload(g.dv)
  IN
  IF ~cx.tmpl /\ cx.mb /\ ptxt \notin {<<>>, <<109>>} THEN OPENF                  \* O6: only master data exists here
  ELSE IF ~cx.tmpl /\ ptxt \notin {<<>>, <<109>>, <<115>>} THEN REJF             \* part: m or s [D]
  ELSE IF tok = <<>> THEN REJF                                                   \* a field needs a type [D]
  ELSE IF HasCh(tok, SEMI) THEN OPENF                                            \* O6
  ELSE IF pl.k = "bad" THEN REJF
  ELSE IF pl.k = "open" THEN OPENF
  ELSE IF tj = 0 THEN
         LET pt == ParseType(tok) IN
         IF pt.k = "bad" THEN REJF                                               \* neither a template nor a base type
         ELSE IF pt.k = "open" THEN OPENF
         ELSE BaseField(g.name, part, pt.ty, pt.len, pl, g.unit, g.comment)
  ELSE LET fs == T[tj][2] IN
       IF Len(fs) = 1 THEN
            (IF rename # <<>> /\ g.name # <<>> /\ rename # g.name /\ ~g.soft THEN OPENF      \* O5
             ELSE Derive(fs[1], IF rename # <<>> THEN rename ELSE g.name, part, pl, g.unit, g.comment))
       ELSE IF pl.k \in {"vals", "const"} THEN REJF                              \* no value list for a struct
       ELSE IF (g.name # <<>> /\ ~g.soft) \/ rename # <<>> THEN
              (IF DeriveAll(fs, 1, part, pl, g.unit, g.comment).k = "rej" THEN REJF ELSE OPENF)   \* O5
       ELSE DeriveAll(fs, 1, part, pl, g.unit, g.comment)

RECURSIVE Groups(_, _, _, _)
Groups(gs, j, cx, T) ==
  IF j > Len(gs) THEN OKF(<<>>)
  ELSE LET a == Group(gs[j], cx, T) IN
       IF a.k # "ok" THEN a
       ELSE LET r == Groups(gs, j + 1, cx, T) IN IF r.k # "ok" THEN r ELSE OKF(a.fs \o r.fs)

(***************************************************************************)
(* lines, header, row mapping                                               *)
(***************************************************************************)
IsSkipLine(l) == LET t == Trim(l) IN t = <<>> \/ t[1] = HASH \/ (Len(t) > 1 /\ t[1] = SLASH /\ t[2] = SLASH)
Cells(l) == LET r == CSV!SplitLine(Trim(l)) IN [ok |-> r.ok, cells |-> TrimEach(r.fields)]
AllEmptyCells(cs) == \A k \in 1..Len(cs) : cs[k] = <<>>

tType == <<116, 121, 112, 101>>   tCircuit == <<99, 105, 114, 99, 117, 105, 116>>   tLevel == <<108, 101, 118, 101, 108>>
tName == <<110, 97, 109, 101>>   tComment == <<99, 111, 109, 109, 101, 110, 116>>   tQq == <<113, 113>>   tZz == <<122, 122>>
tPbsb == <<112, 98, 115, 98>>   tId == <<105, 100>>   tPart == <<112, 97, 114, 116>>   tUnit == <<117, 110, 105, 116>>
tDv == <<100, 105, 118, 105, 115, 111, 114, 47, 118, 97, 108, 117, 101, 115>>
MainNames == <<tType, tCircuit, tLevel, tName, tComment, tQq, tZz, tPbsb, tId>>
GroupNames == <<tName, tPart, tType, tDv, tUnit, tComment>>
NameIdx(names, n) == IF \E j \in 1..Len(names) : names[j] = n THEN (CHOOSE j \in 1..Len(names) : names[j] = n) ELSE 0
DefaultMsgHeader == [k |-> "ok", main |-> <<1, 2, 4, 5, 6, 7, 8, 9>>, grp |-> <<1, 2, 3, 4, 5, 6>>]

(* the header line of a message file: column names, the first name with a * starts the repeated field group [D] *)
MsgHeader(cells) ==
  LET low == [k \in 1..Len(cells) |-> Lower(cells[k])]
      stars == {k \in 1..Len(low) : low[k] # <<>> /\ low[k][1] = STAR}
      s == IF stars = {} THEN Len(low) + 1 ELSE CHOOSE k \in stars : \A j \in stars : k <= j
      names == [k \in 1..Len(low) |-> IF k = s THEN Trim(Tail(low[k])) ELSE low[k]]
      main == [k \in 1..(s - 1) |-> NameIdx(MainNames, names[k])]
      grp == [k \in 1..(Len(low) - s + 1) |-> NameIdx(GroupNames, names[s + k - 1])]
      dup(q) == \E i, j \in 1..Len(q) : i # j /\ q[i] = q[j] /\ q[i] # 0
  IN IF \E k \in 1..Len(names) : names[k] = <<>> THEN [k |-> "rej", main |-> <<>>, grp |-> <<>>]
     ELSE IF Cardinality(stars) > 1 \/ \E k \in 1..Len(names) : HasCh(names[k], DOT) THEN [k |-> "open", main |-> <<>>, grp |-> <<>>]
     ELSE IF dup(main) \/ dup(grp) THEN [k |-> "rej", main |-> <<>>, grp |-> <<>>]
     ELSE IF \E k \in 1..Len(main) : main[k] = 0 THEN [k |-> "open", main |-> <<>>, grp |-> <<>>]
     ELSE IF \E k \in 1..Len(grp) : grp[k] = 0 THEN [k |-> "open", main |-> <<>>, grp |-> <<>>]
     ELSE IF ~({1, 4, 8} \subseteq {main[k] : k \in 1..Len(main)}) THEN [k |-> "rej", main |-> <<>>, grp |-> <<>>]   \* type, name, pbsb
     ELSE IF grp # <<>> /\ 3 \notin {grp[k] : k \in 1..Len(grp)} THEN [k |-> "rej", main |-> <<>>, grp |-> <<>>]     \* field type
     ELSE [k |-> "ok", main |-> main, grp |-> grp]

ColOf(cols, cells, off, id) == IF \E j \in 1..Len(cols) : cols[j] = id /\ off + j <= Len(cells)
                               THEN cells[off + (CHOOSE j \in 1..Len(cols) : cols[j] = id)] ELSE <<>>
MainRec(h, cells) == [type |-> ColOf(h.main, cells, 0, 1), circuit |-> ColOf(h.main, cells, 0, 2), level |-> ColOf(h.main, cells, 0, 3),
                      name |-> ColOf(h.main, cells, 0, 4), comment |-> ColOf(h.main, cells, 0, 5), qq |-> ColOf(h.main, cells, 0, 6),
                      zz |-> ColOf(h.main, cells, 0, 7), pbsb |-> ColOf(h.main, cells, 0, 8), id |-> ColOf(h.main, cells, 0, 9)]
GroupRec(cols, cells, off) == [name |-> ColOf(cols, cells, off, 1), part |-> ColOf(cols, cells, off, 2), type |-> ColOf(cols, cells, off, 3),
                               dv |-> ColOf(cols, cells, off, 4), unit |-> ColOf(cols, cells, off, 5), comment |-> ColOf(cols, cells, off, 6),
                               soft |-> FALSE]     \* soft: the name is implied (template name), not written for this field
GroupEmpty(cols, cells, off) == \A j \in 1..Len(cols) : off + j > Len(cells) \/ cells[off + j] = <<>>
RECURSIVE GroupRecs(_, _, _)
GroupRecs(cols, cells, off) ==                                               \* C2: all-empty groups are no fields
  IF off >= Len(cells) THEN <<>>
  ELSE (IF GroupEmpty(cols, cells, off) THEN <<>> ELSE <<GroupRec(cols, cells, off)>>) \o GroupRecs(cols, cells, off + Len(cols))
(* [k, main, groups] of a data row *)
MapRow(h, cells) ==
  IF Len(cells) > Len(h.main) /\ h.grp = <<>> THEN [k |-> "rej", main |-> MainRec(h, <<>>), groups |-> <<>>]     \* more cells than columns
  ELSE [k |-> "ok", main |-> MainRec(h, cells), groups |-> GroupRecs(h.grp, cells, Len(h.main))]

(***************************************************************************)
(* template file                                                            *)
(*   name[:fieldname],type,divisor/values,unit,comment[,name,type,divisor/  *)
(*   values,unit,comment]*      (default columns; first line = header or a  *)
(*   comment / blank line)                                                  *)
(***************************************************************************)
TplHeaderText == <<110,97,109,101,44,42,116,121,112,101,44,100,105,118,105,115,111,114,47,118,97,108,117,101,115,44,117,110,105,116,44,
                   99,111,109,109,101,110,116,44,42,110,97,109,101,44,116,121,112,101,44,100,105,118,105,115,111,114,47,118,97,108,117,
                   101,115,44,117,110,105,116,44,99,111,109,109,101,110,116>>
(* "name,*type,divisor/values,unit,comment,*name,type,divisor/values,unit,comment" *)
TplCols1 == <<3, 4, 5, 6>>          \* first group: type, divisor/values, unit, comment
TplColsN == <<1, 3, 4, 5, 6>>       \* further groups: name, type, divisor/values, unit, comment

TplRow(cells, T) ==
  LET nm == cells[1]
      cp == IndexOf(nm, COLON)
      key == IF cp = 0 THEN nm ELSE Before(nm, cp)
      first == IF cp = 0 THEN nm ELSE After(nm, cp)
      g1e == GroupEmpty(TplCols1, cells, 1)
      g1 == [GroupRec(TplCols1, cells, 1) EXCEPT !.name = first, !.soft = (cp = 0)]
      rest == GroupRecs(TplColsN, cells, 5)
      gs == (IF g1e THEN <<>> ELSE <<g1>>) \o rest
      r == Groups(gs, 1, [tmpl |-> TRUE, w |-> FALSE, mb |-> FALSE], T)
  IN IF g1e /\ rest # <<>> THEN [k |-> "open", T |-> T]
     ELSE IF gs = <<>> THEN [k |-> "rej", T |-> T]                              \* a template needs a field [D]
     ELSE IF key = <<>> \/ HasCh(first, COLON) THEN [k |-> "open", T |-> T]
     ELSE IF r.k # "ok" THEN [k |-> r.k, T |-> T]
     ELSE IF TLookup(T, key) # 0 THEN [k |-> "rej", T |-> T]                    \* duplicate template name [D]
     ELSE [k |-> "ok", T |-> Append(T, <<key, r.fs>>)]

RECURSIVE TplRun(_, _, _)
TplRun(lines, n, T) ==
  IF n > Len(lines) THEN [kind |-> "ok", line |-> 0, T |-> T]
  ELSE IF IsSkipLine(lines[n]) THEN TplRun(lines, n + 1, T)
  ELSE LET c == Cells(lines[n]) IN
       IF ~c.ok THEN [kind |-> "open", line |-> n, T |-> T]
       ELSE IF AllEmptyCells(c.cells) THEN TplRun(lines, n + 1, T)
       ELSE LET r == TplRow(c.cells, T) IN
            IF r.k = "ok" THEN TplRun(lines, n + 1, r.T) ELSE [kind |-> r.k, line |-> n, T |-> T]

LoadTemplates(lines) ==
  IF lines = <<>> THEN [kind |-> "ok", line |-> 0, T |-> <<>>]
  ELSE IF IsSkipLine(lines[1]) \/ Lower(Trim(lines[1])) = TplHeaderText THEN TplRun(lines, 2, <<>>)
  ELSE [kind |-> "open", line |-> 1, T |-> <<>>]                                 \* other template headers: not specified here

(***************************************************************************)
(* message file                                                             *)
(***************************************************************************)
Msg(w, p, prio, circuit, level, name, comment, qq, zz, ids, fields) ==
  [w |-> w, p |-> p, prio |-> prio, circuit |-> circuit, level |-> level, name |-> name, comment |-> comment, qq |-> qq, zz |-> zz,
   ids |-> ids, fields |-> fields]

(* C3 *)
Class(m) == IF m.p = 1 THEN "P" ELSE IF m.w = 1 THEN "W" ELSE "R"
NameKey(m) == <<Lower(m.circuit), Lower(m.name), Class(m)>>
IdKey(m) == <<Class(m), m.zz, m.ids[1][1], IF m.p = 1 THEN m.qq ELSE 0>>
Clash(m, o) == NameKey(m) = NameKey(o) \/ (Len(m.ids) = 1 /\ Len(o.ids) = 1 /\ IdKey(m) = IdKey(o))
ClashOpen(m, o) == (Len(m.ids) > 1 \/ Len(o.ids) > 1) /\ Class(m) = Class(o) /\ m.zz = o.zz

(* the type cell of a row: direction, poll priority, key of the defaults [D] *)
IsAlpha(c) == c \in 97..122
ParseMsgType(t) ==
  LET t0 == IF t = <<>> THEN <<114>> ELSE t                                       \* no type: active read
      bad == [k |-> "open", w |-> 0, p |-> 0, prio |-> 0, key |-> <<>>]
  IN IF t0[1] = 114 THEN                                                           \* r, r1..r9, r<letters>
          (IF Len(t0) = 1 THEN [bad EXCEPT !.k = "ok", !.key = t0]
           ELSE IF t0[2] \in 49..57 /\ Len(t0) = 2 THEN [bad EXCEPT !.k = "ok", !.prio = t0[2] - 48, !.key = <<114>>]
           ELSE IF \A k \in 2..Len(t0) : IsAlpha(t0[k]) THEN [bad EXCEPT !.k = "ok", !.key = t0]
           ELSE bad)
     ELSE IF t0[1] = 119 THEN                                                      \* w, w<letters>
          (IF \A k \in 2..Len(t0) : IsAlpha(t0[k]) THEN [bad EXCEPT !.k = "ok", !.w = 1, !.key = t0] ELSE bad)
     ELSE IF t0 = <<117>> THEN [bad EXCEPT !.k = "ok", !.p = 1, !.key = t0]         \* u
     ELSE IF t0 = <<117, 119>> THEN [bad EXCEPT !.k = "ok", !.p = 1, !.w = 1, !.key = t0]   \* uw
     ELSE bad

(* a default value with a * is a pattern for the row's value, otherwise the row's value wins [D] *)
StarVal(d, v) == LET p == IndexOf(d, STAR) IN
                 IF d = <<>> THEN v ELSE IF p = 0 THEN (IF v = <<>> THEN d ELSE v) ELSE Before(d, p) \o v \o After(d, p)
NoDefault == [main |-> MainRec(DefaultMsgHeader, <<>>), groups |-> <<>>]
(* defaults: sequence of <<key, default>> in order of appearance; the most recent one for the key counts [D] *)
RECURSIVE LastDefault(_, _, _)
LastDefault(defs, key, j) == IF j = 0 THEN NoDefault ELSE IF defs[j][1] = key THEN defs[j][2] ELSE LastDefault(defs, key, j - 1)

ParseZz(s) ==     \* [k, zz (sequence of addresses; <<-1>> for none), mb]
  IF s = <<>> THEN [k |-> "ok", zz |-> <<0 - 1>>, mb |-> FALSE]
  ELSE LET toks == TrimEach(SplitOn(s, SEMI))
           as == [k \in 1..Len(toks) |-> ParseAddr(toks[k])]
       IN IF \E k \in 1..Len(toks) : toks[k] = <<>> THEN [k |-> "open", zz |-> <<>>, mb |-> FALSE]
          ELSE IF \E k \in 1..Len(as) : as[k].k = "bad" THEN [k |-> "rej", zz |-> <<>>, mb |-> FALSE]
          ELSE IF \E k \in 1..Len(as) : as[k].k = "open" THEN [k |-> "open", zz |-> <<>>, mb |-> FALSE]
          ELSE IF \E k \in 1..Len(as) : ~IsValidAddr(as[k].v) THEN [k |-> "rej", zz |-> <<>>, mb |-> FALSE]
          ELSE IF \E k \in 1..Len(as) : IsMB(as[k].v) # IsMB(as[1].v) THEN [k |-> "rej", zz |-> <<>>, mb |-> FALSE]   \* [D] 08;10
          ELSE [k |-> "ok", zz |-> [k \in 1..Len(as) |-> as[k].v], mb |-> IsMB(as[1].v)]
ParseQq(s) == IF s = <<>> THEN [k |-> "ok", v |-> 0 - 1]
              ELSE LET a == ParseAddr(s) IN
                   IF a.k = "bad" THEN [k |-> "rej", v |-> 0] ELSE IF a.k = "open" THEN [k |-> "open", v |-> 0]
                   ELSE IF IsMasterAddr(a.v) THEN [k |-> "ok", v |-> a.v] ELSE [k |-> "rej", v |-> 0]

OKM(ms) == [k |-> "ok", msgs |-> ms]
REJM == [k |-> "rej", msgs |-> <<>>]
OPENM == [k |-> "open", msgs |-> <<>>]

(* the messages one row defines for one of its types *)
RowMsgs(ty, row, groups, D, T) ==
  LET c0 == StarVal(D.main.circuit, row.circuit)
      l0 == StarVal(D.main.level, row.level)
      hp == IndexOf(c0, HASH)
      circuit == IF hp = 0 THEN c0 ELSE Before(c0, hp)
      level == IF hp = 0 THEN l0 ELSE After(c0, hp)
      levelOpen == (hp > 0 /\ l0 # <<>>)
                   \/ (row.circuit # <<>> /\ HasCh(D.main.circuit, HASH) /\ ~HasCh(D.main.circuit, STAR))      \* O2
      name == StarVal(D.main.name, row.name)
      comment == StarVal(D.main.comment, row.comment)
      qq == ParseQq(IF row.qq # <<>> THEN row.qq ELSE D.main.qq)
      zz == ParseZz(IF row.zz # <<>> THEN row.zz ELSE D.main.zz)
      ownPbsb == row.pbsb # <<>>
      pbsb == ParseId(IF ownPbsb THEN row.pbsb ELSE D.main.pbsb)
      prefix == IF ownPbsb THEN <<>> ELSE D.main.id
      parts == TrimEach(SplitOn(row.id, SEMI))
      pids == [k \in 1..Len(parts) |-> ParseId(prefix \o parts[k])]
      fr == Groups(D.groups \o groups, 1, [tmpl |-> FALSE, w |-> ty.w = 1, mb |-> zz.mb], T)    \* default fields first [D]
      idOf(k) == <<pbsb.v \o pids[k].v, IF Len(parts) = 1 THEN 0 - 1 ELSE 16>>
      ids == [k \in 1..Len(parts) |-> idOf(k)]
      multi == Len(zz.zz) > 1
      one(k) == Msg(ty.w, ty.p, ty.prio, IF multi THEN circuit \o <<DOT>> \o CSV!Dec(k - 1) ELSE circuit,     \* C1
                    level, name, comment, qq.v, zz.zz[k], ids, fr.fs)
  IN
  IF circuit = <<>> THEN REJM                                                     \* a message needs a circuit [D]
  ELSE IF row.name = <<>> THEN REJM                                              \* ... and its own name   C4
  ELSE IF HasCh(circuit, DOT) \/ HasCh(name, DOT) \/ HasCh(c0, BLANK) \/ HasCh(name, BLANK) \/ HasCh(level, HASH) THEN OPENM
  ELSE IF qq.k = "rej" THEN REJM
  ELSE IF qq.k = "open" THEN OPENM
  ELSE IF zz.k = "rej" THEN REJM
  ELSE IF zz.k = "open" THEN OPENM
  ELSE IF pbsb.k = "bad" \/ (pbsb.k = "ok" /\ Len(pbsb.v) # 2) THEN REJM           \* PBSB is two bytes [D]
  ELSE IF pbsb.k = "open" THEN OPENM
  ELSE IF ownPbsb /\ D.main.id # <<>> THEN OPENM                                  \* O1
  ELSE IF HasCh(row.id, COLON) \/ HasCh(prefix, COLON) \/ HasCh(prefix, SEMI) THEN OPENM      \* O6
  ELSE IF \E k \in 1..Len(pids) : pids[k].k = "bad" THEN REJM
  ELSE IF \E k \in 1..Len(pids) : pids[k].k = "open" THEN OPENM
  ELSE IF Len(parts) > 1 /\ \E k \in 1..Len(parts) : parts[k] = <<>> THEN OPENM
  ELSE IF Len(parts) > 1 /\ \E k \in 1..Len(pids) : Len(pids[k].v) # Len(pids[1].v) THEN REJM   \* chain parts of equal length
  ELSE IF Len(parts) > 1 /\ ty.p = 1 THEN REJM                                    \* no passive chains
  ELSE IF Len(parts) > 3 \/ \E k \in 1..Len(pids) : Len(pids[k].v) > 6 THEN OPENM
  ELSE IF fr.k = "rej" THEN REJM
  ELSE IF fr.k = "open" \/ levelOpen THEN OPENM
  ELSE IF Len(fr.fs) > 6 THEN OPENM                                              \* length limits: C09
  ELSE OKM([k \in 1..Len(zz.zz) |-> one(k)])

(* add the messages in order; a clash with an earlier one rejects the row [D: duplicate] *)
RECURSIVE AddAll(_, _, _)
AddAll(have, new, j) ==
  IF j > Len(new) THEN OKM(have)
  ELSE IF \E q \in 1..Len(have) : Clash(new[j], have[q]) THEN REJM
  ELSE IF \E q \in 1..Len(have) : ClashOpen(new[j], have[q]) THEN OPENM
  ELSE AddAll(Append(have, new[j]), new, j + 1)

RECURSIVE RowTypes(_, _, _, _, _, _, _)
RowTypes(types, j, row, groups, defs, T, have) ==
  IF j > Len(types) THEN OKM(have)
  ELSE LET ty == ParseMsgType(types[j]) IN
       IF ty.k # "ok" THEN OPENM
       ELSE LET ms == RowMsgs(ty, row, groups, LastDefault(defs, ty.key, Len(defs)), T) IN
            IF ms.k # "ok" THEN ms
            ELSE LET a == AddAll(have, ms.msgs, 1) IN
                 IF a.k # "ok" THEN a ELSE RowTypes(types, j + 1, row, groups, defs, T, a.msgs)

(* is a default row fine in itself?  (O3: otherwise everything after it is left open) *)
DefaultFine(key, d, T) ==
  LET ty == ParseMsgType(key)
      zz == ParseZz(d.main.zz)
      pb == ParseId(d.main.pbsb)
  IN /\ ty.k = "ok" /\ ty.prio = 0
     /\ ParseQq(d.main.qq).k = "ok" /\ zz.k = "ok"
     /\ pb.k = "ok" /\ Len(pb.v) \in {0, 2}
     /\ ParseId(d.main.id).k = "ok"
     /\ d.groups = <<>> \/ Groups(d.groups, 1, [tmpl |-> FALSE, w |-> ty.w = 1, mb |-> zz.mb], T).k = "ok"
     /\ ~HasCh(d.main.circuit, DOT) /\ ~HasCh(d.main.name, DOT) /\ ~HasCh(d.main.name, HASH) /\ ~HasCh(d.main.level, HASH)

RECURSIVE MsgRun(_, _, _, _, _, _)
MsgRun(lines, n, h, defs, T, have) ==
  IF n > Len(lines) THEN [kind |-> "ok", line |-> 0, msgs |-> have]
  ELSE IF IsSkipLine(lines[n]) THEN MsgRun(lines, n + 1, h, defs, T, have)
  ELSE LET c == Cells(lines[n]) IN
       IF ~c.ok THEN [kind |-> "open", line |-> n, msgs |-> have]
       ELSE IF AllEmptyCells(c.cells) THEN MsgRun(lines, n + 1, h, defs, T, have)
       ELSE LET isDef == c.cells[1] # <<>> /\ c.cells[1][1] = STAR
                cells == IF isDef THEN <<Tail(c.cells[1])>> \o Tail(c.cells) ELSE c.cells
                mr == MapRow(h, cells)
            IN IF mr.k = "rej" THEN [kind |-> "rej", line |-> n, msgs |-> have]
               ELSE IF isDef THEN
                      LET key == mr.main.type
                          d == [main |-> mr.main, groups |-> mr.groups]
                      IN IF h.main[1] # 1 \/ key = <<>> \/ key[1] = LBRACK \/ ~DefaultFine(key, d, T)     \* O3, conditions
                         THEN [kind |-> "open", line |-> n, msgs |-> have]
                         ELSE MsgRun(lines, n + 1, h, Append(defs, <<key, d>>), T, have)
               ELSE IF mr.main.type # <<>> /\ mr.main.type[1] \in {LBRACK, 33} THEN [kind |-> "open", line |-> n, msgs |-> have]
               ELSE LET types == TrimEach(SplitOn(mr.main.type, SEMI))
                        r == RowTypes(types, 1, mr.main, mr.groups, defs, T, have)
                    IN IF \E k \in 1..Len(types) : types[k] = <<>> /\ Len(types) > 1 THEN [kind |-> "open", line |-> n, msgs |-> have]
                       ELSE IF r.k = "ok" THEN MsgRun(lines, n + 1, h, defs, T, r.msgs)
                       ELSE [kind |-> r.k, line |-> n, msgs |-> have]

LoadMessages(lines, T) ==
  IF lines = <<>> THEN [kind |-> "ok", line |-> 0, msgs |-> <<>>]
  ELSE IF IsSkipLine(lines[1]) THEN MsgRun(lines, 2, DefaultMsgHeader, <<>>, T, <<>>)      \* no header line: default columns [D]
  ELSE LET c == Cells(lines[1])
           h == MsgHeader(c.cells)
       IN IF ~c.ok THEN [kind |-> "open", line |-> 1, msgs |-> <<>>]
          ELSE IF AllEmptyCells(c.cells) THEN [kind |-> "open", line |-> 1, msgs |-> <<>>]
          ELSE IF h.k = "ok" THEN MsgRun(lines, 2, h, <<>>, T, <<>>)
          ELSE [kind |-> h.k, line |-> 1, msgs |-> <<>>]

(* the whole configuration: a template file and a message file that uses it *)
Load(tpl, msg) == LET t == LoadTemplates(tpl) IN
                  IF t.kind # "ok" THEN [kind |-> t.kind, stage |-> "templates", line |-> t.line, msgs |-> <<>>]
                  ELSE LET m == LoadMessages(msg, t.T) IN [kind |-> m.kind, stage |-> "messages", line |-> m.line, msgs |-> m.msgs]
=============================================================================
