---- MODULE TProbe ----
EXTENDS ConfigLoadDomain, TLC
ASSUME PrintT(<<"VF", "N", Cardinality(FamilyTU(FALSE))>>)
====
