------------------------------- MODULE C09Gen -------------------------------
(* Generates the C09 cases: definition shapes (read/write, master/slave parts,    *)
(* defaults "*r", templates, ZZ lists, templates without ZZ, chained ids with      *)
(* explicit lengths, for read chains also omitted lengths) x field inputs x slave answers x part arrival    *)
(* orders and gaps.  The harness replays the operation lists on real objects.      *)
EXTENDS MsgStore, Json, IOUtils, SequencesExt, FiniteSets

Tier   == IOEnv.VF_TIER
OutDir == IOEnv.VF_OUT
Thorough == Tier = "thorough"

F(part, ty, n, tpl) == [part |-> part, ty |-> ty, n |-> n, tpl |-> tpl, nm |-> ""]
FN(part, ty, n, tpl, nm) == [part |-> part, ty |-> ty, n |-> n, tpl |-> tpl, nm |-> nm]
NoDfl == [on |-> 0, zz |-> ANY, pbsb |-> <<>>, idp |-> <<>>]
Dfl(zz) == [on |-> 1, zz |-> zz, pbsb |-> <<181, 9>>, idp |-> <<14>>]
PBSB == <<181, 5>>

(* byte patterns for inputs and answers *)
Pat(seed, k) == IF seed = 1 THEN k ELSE IF seed = 2 THEN <<169, 170, 0, 254, 1, 255>>[((k - 1) % 6) + 1]
                ELSE IF k = 3 THEN 170 ELSE (16 * seed + k) % 256
UchOk(b) == IF b = 255 THEN 127 ELSE b
RECURSIVE ValsFrom(_, _, _)
ValsFrom(fs, seed, k) ==          \* one byte sequence per field, bytes numbered through
  IF fs = <<>> THEN <<>>
  ELSE LET f == Head(fs)
           v == [j \in 1..f.n |-> IF f.ty = "UCH" THEN UchOk(Pat(seed, k + j - 1)) ELSE Pat(seed, k + j - 1)]
       IN <<v>> \o ValsFrom(Tail(fs), seed, k + f.n)
MVals(d, seed) == ValsFrom(MFields(d), seed, 1)
SBytes(d, seed) == Concat(ValsFrom(SFields(d), seed + 3, 1))
Slave(bytes) == <<Len(bytes)>> \o bytes
Concrete(p) == [k \in 1..Len(p) |-> IF p[k] = -1 THEN 7 ELSE p[k]]     \* a telegram on the bus: ignored bytes are 07

(* ------------------------------ non-chained ------------------------------ *)
FieldLists ==
  {<<FN("m", "UCH", 1, 0, "sel"), FN("s", "UCH", 1, 0, "val"), FN("s", "UCH", 1, 0, "val"), FN("s", "UCH", 1, 0, "other")>>,
   <<FN("m", "UCH", 1, 0, "val"), FN("m", "HEX", 2, 0, "x"), FN("s", "IGN", 1, 0, "val"), FN("s", "HEX", 2, 0, "val"),
     FN("s", "UCH", 1, 0, "x"), FN("s", "UCH", 1, 1, "val")>>,
   <<FN("", "UCH", 1, 0, "a"), FN("", "UCH", 1, 0, "a"), FN("", "HEX", 2, 0, "b")>>,
   <<>>,
   <<F("", "UCH", 1, 0)>>,
   <<F("m", "UCH", 1, 0), F("s", "HEX", 2, 0)>>,
   <<F("", "HEX", 2, 0), F("", "IGN", 1, 0), F("", "UCH", 1, 0)>>,
   <<F("m", "IGN", 2, 0), F("m", "UCH", 1, 0), F("s", "UCH", 1, 0), F("s", "IGN", 1, 0), F("s", "HEX", 3, 0)>>,
   <<F("s", "UCH", 1, 1), F("m", "HEX", 2, 1), F("s", "HEX", 1, 0), F("m", "UCH", 1, 0)>>,
   <<F("s", "HEX", 4, 0), F("m", "HEX", 3, 1)>>}
IdsN == {<<>>, <<13>>, <<13, 1>>}
ZzKinds == {<<8>>, <<16>>, <<254>>, <<8, 80>>, <<>>}
NDefs ==
  {[dir |-> dir, zzs |-> zzs, pbsb |-> IF dfl.on = 1 THEN <<>> ELSE PBSB, chain |-> <<[id |-> id, len |-> -1]>>,
    fields |-> fl, dfl |-> dfl] :
     dir \in {"r", "w"}, zzs \in ZzKinds, id \in IdsN, fl \in FieldLists, dfl \in {NoDfl, Dfl(ANY), Dfl(8)}}
(* boundary of the maximum data length: k + master data and slave data around MaxPos *)
BoundaryDefs ==
  UNION {{[dir |-> dir, zzs |-> <<8>>, pbsb |-> PBSB, chain |-> <<[id |-> id, len |-> -1]>>, fields |-> fl, dfl |-> NoDfl] :
            dir \in {"r", "w"},
            fl \in UNION {{<<F("m", "HEX", MaxPos - Len(id) - x, 0), F("m", "UCH", 1, 0)>>,          \* k + m = 25 - x
                           <<F("m", "HEX", MaxPos - Len(id) - x, 0), F("m", "IGN", 1, 0), F("s", "UCH", 1, 0)>>,
                           <<F("s", "HEX", MaxPos - x, 0), F("s", "UCH", 1, 0)>>,                     \* s = 25 - x
                           <<F("s", "HEX", MaxPos - x, 0), F("s", "IGN", 1, 0), F("m", "UCH", 1, 0)>>} : x \in {0, 1, 2}}}
         : id \in IdsN}

OpB(part, qq, dst, mvals) == <<"B", part, qq, dst, mvals>>
(* read every field back individually: by name, by name and index, by overall index, and a few that do not exist *)
SelOps(d) == LET sq == SetToSeq(Selections(d)) IN [k \in 1..Len(sq) |-> <<"Q", sq[k][1], sq[k][2]>>]
(* operations on message k (ZZ number k of the definition): two build/find/answer/decode rounds and a telegram seen on the bus *)
NOpsFor(d, k) ==
  LET zzs == EffZzs(d)
      tmpl == zzs = <<>>
      zz == IF tmpl THEN 21 ELSE zzs[k + 1]
      dst == IF tmpl THEN 21 ELSE ANY
      ans(seed) == IF MasterDst(d) THEN <<>> ELSE Slave(SBytes(d, seed))
  IN <<<<"M", k>>,
       OpB(0, 49, dst, MVals(d, 1)), <<"F", IF tmpl THEN 1 ELSE 0>>, <<"R", 0, ans(1)>>, <<"D">>>>
     \o SelOps(d) \o
     <<<<"T", 3>>,
       OpB(0, 49, dst, MVals(d, 2)), <<"F", IF tmpl THEN 1 ELSE 0>>, <<"R", 0, ans(2)>>, <<"D">>,
       <<"S", Concrete(Build(d, 16, zz, MVals(d, 3))), ans(1)>>,
       <<"D">>>>
NCase(d) == [def |-> d, ops |-> Concat([k \in 1..(IF Len(EffZzs(d)) > 1 THEN Len(EffZzs(d)) ELSE 1) |-> NOpsFor(d, k - 1)])]

(* -------------------------------- chained -------------------------------- *)
Gaps == {0, 1, 16, 50}
ChainShapes ==      \* <<ids, lens>> ; total length of the explicit shapes is 5
  {<<<<<<13, 1>>, <<13, 2>>>>, <<2, 3>>>>,
   <<<<<<1>>, <<2>>, <<3>>>>, <<2, 2, 1>>>>,
   <<<<<<13, 1>>, <<13, 2>>>>, <<-1, -1>>>>,
   <<<<<<1>>, <<2>>, <<3>>>>, <<-1, -1, -1>>>>,
   <<<<<<1, 0>>, <<1, 1>>, <<2, 0>>>>, <<1, 3, -1>>>>}
ChainFieldLists(part) ==
  {<<F(part, "HEX", 5, 0)>>,
   <<F(part, "UCH", 1, 0), F(part, "HEX", 3, 0), F(part, "UCH", 1, 1)>>,
   <<F(part, "HEX", 2, 1), F(part, "IGN", 1, 0), F(part, "HEX", 2, 0)>>}
CDefs(dir) ==
  {[dir |-> dir, zzs |-> zzs, pbsb |-> IF dfl.on = 1 THEN <<>> ELSE PBSB,
    chain |-> [i \in 1..Len(sh[1]) |-> [id |-> sh[1][i], len |-> sh[2][i]]], fields |-> fl, dfl |-> dfl] :
     sh \in {x \in ChainShapes : dir = "r" \/ \A i \in 1..Len(x[2]) : x[2][i] >= 0},      \* omitted lengths: read chains only
     zzs \in {<<8>>, <<8, 80>>}, dfl \in {NoDfl, Dfl(ANY)},
     fl \in ChainFieldLists(IF dir = "r" THEN "" ELSE "m") \cup (IF dir = "r" THEN {} ELSE ChainFieldLists(""))}
(* how 5 answer bytes are spread over the parts of a read chain *)
PartLens(d) == IF d.chain[1].len >= 0 /\ d.chain[Len(d.chain)].len >= 0 THEN [i \in 1..NParts(d) |-> d.chain[i].len]
               ELSE IF NParts(d) = 2 THEN <<4, 1>> ELSE <<1, 3, 1>>
RECURSIVE SplitBy(_, _)
SplitBy(bytes, lens) == IF lens = <<>> THEN <<>>
                        ELSE <<SubSeq(bytes, 1, Head(lens))>> \o SplitBy(SubSeq(bytes, Head(lens) + 1, Len(bytes)), Tail(lens))
Five(seed) == [k \in 1..5 |-> Pat(seed, k)]
PartTel(d, i, qq, zz, seed) == Concrete(BuildPart(d, i, qq, zz, MVals(d, seed)))
(* active flow: build each part in order, find it, answer it; decode after every step; gap g between the parts *)
RECURSIVE ActiveRound(_, _, _, _, _)
ActiveRound(d, i, seed, gaps, dst) ==
  IF i > NParts(d) THEN <<>>
  ELSE <<OpB(i - 1, 49, dst, MVals(d, seed)), <<"D">>, <<"F", 0>>,
         <<"R", i - 1, IF d.dir = "r" THEN Slave(SplitBy(Five(seed + 3), PartLens(d))[i]) ELSE <<0>>>>, <<"D">>>>
       \o (IF i < NParts(d) THEN <<<<"T", gaps[i]>>>> ELSE <<>>) \o ActiveRound(d, i + 1, seed, gaps, dst)
(* telegrams seen on the bus in the order perm with gaps *)
RECURSIVE SeenRound(_, _, _, _, _)
SeenRound(d, perm, seed, gaps, zz) ==
  IF perm = <<>> THEN <<>>
  ELSE LET i == Head(perm) IN
       <<<<"S", PartTel(d, i, 16, zz, seed), IF d.dir = "r" THEN Slave(SplitBy(Five(seed + 3), PartLens(d))[i]) ELSE <<0>>>>, <<"D">>>>
       \o (IF Len(perm) > 1 THEN <<<<"T", Head(gaps)>>>> ELSE <<>>) \o SeenRound(d, Tail(perm), seed, Tail(gaps), zz)
Perms(n) == {p \in [1..n -> 1..n] : \A a, b \in 1..n : a # b => p[a] # p[b]}
GapSeqs(n, G) == [1..n -> G]
ChainTraces(d, pk) ==      \* pk = number of the first-round arrival order (shards the trace set)
  LET n == NParts(d)
      ps == SetToSeq(Perms(n))
      zz == EffZzs(d)[1]
      G2 == IF Thorough THEN Gaps ELSE {0, 16}
      P2 == IF Thorough \/ n = 2 THEN Perms(n) ELSE {[i \in 1..n |-> i], [i \in 1..n |-> n + 1 - i]}
      G0 == IF Thorough THEN Gaps ELSE {1, 50}
  IN (IF pk > Len(ps) THEN {} ELSE
      {SeenRound(d, ps[pk], 1, g1, zz) \o <<<<"T", g0>>>> \o SeenRound(d, p2, 2, g2, zz) :
        g1 \in GapSeqs(n - 1, Gaps), g0 \in G0, p2 \in P2, g2 \in GapSeqs(n - 1, G2)})
     \cup (IF pk # 1 THEN {} ELSE
         {ActiveRound(d, 1, 1, g1, ANY) \o <<<<"T", g0>>>> \o ActiveRound(d, 1, 2, g2, ANY) \o <<<<"T", g0>>>>
           \o SeenRound(d, p2, 3, g2, zz) :
        g1 \in GapSeqs(n - 1, Gaps), g0 \in G0, g2 \in GapSeqs(n - 1, G2), p2 \in P2}
     \cup {SeenRound(d, p1, 1, [j \in 1..(n - 1) |-> IF j = at THEN x ELSE 0], zz) \o <<<<"T", 100>>>>     \* the edge of the window
           \o SeenRound(d, p1, 2, [j \in 1..(n - 1) |-> IF j = at THEN x + 1 ELSE 0], zz) :
        p1 \in Perms(n), at \in 1..(n - 1), x \in {PartWindow * n - 1, PartWindow * n}})
(* every chained shape gets the active flow and a few arrival orders; one representative shape per kind gets all of them *)
FullTraceDef(d) == /\ d.zzs = <<8>> /\ d.dfl.on = 0 /\ d.fields[1].ty = "UCH"
                   /\ (d.chain[1].len = 2 \/ (d.chain[1].len = -1 /\ NParts(d) = 2))
ChainCases(dir, pk) ==
  UNION {IF dir = "r" /\ FullTraceDef(d) THEN {[def |-> d, ops |-> <<<<"M", 0>>>> \o t] : t \in ChainTraces(d, pk)}
         ELSE IF pk # 1 THEN {}
         ELSE LET n == NParts(d)
                  zz == EffZzs(d)[1]
                  id == [i \in 1..n |-> i]
                  rev == [i \in 1..n |-> n + 1 - i]
                  g(x) == [i \in 1..(n - 1) |-> x]
              IN {[def |-> d, ops |-> <<<<"M", k>>>> \o ActiveRound(d, 1, 1, g(1), ANY) \o <<<<"T", 50>>>> \o ActiveRound(d, 1, 2, g(16), ANY)
                                           \o SelOps(d)]
                    : k \in 0..(Len(EffZzs(d)) - 1)}
                 \cup {[def |-> d, ops |-> <<<<"M", 0>>>> \o SeenRound(d, rev, 1, g(1), zz) \o <<<<"T", 50>>>> \o SeenRound(d, id, 2, g(0), zz)
                                           \o <<<<"T", 1>>>> \o SeenRound(d, rev, 3, g(16), zz)]}
         : d \in CDefs(dir)}

(* ---- shards ---- *)
ShardNames == {<<"plain", 0>>, <<"bound", 0>>, <<"chainw", 0>>} \cup {<<"chainr", pk>> : pk \in 1..6}
ShardCases(s) ==
  CASE s[1] = "plain"  -> {NCase(d) : d \in NDefs}
    [] s[1] = "bound"  -> {NCase(d) : d \in BoundaryDefs}
    [] s[1] = "chainr" -> ChainCases("r", s[2])
    [] s[1] = "chainw" -> ChainCases("w", 1)
FileOf(s) == OutDir \o "/" \o s[1] \o ToString(s[2]) \o ".ndjson"
WriteShard(s) ==
  LET cs == SetToSeq(ShardCases(s))
  IN /\ ndJsonSerialize(FileOf(s), cs)
     /\ PrintT(<<"VF", "SHARD", s[1], s[2], Len(cs)>>)

VARIABLES shard, done
Init == shard \in ShardNames /\ done = FALSE
Next == done = FALSE /\ done' = TRUE /\ shard' = shard /\ WriteShard(shard)
=============================================================================
