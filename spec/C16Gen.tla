------------------------------- MODULE C16Gen -------------------------------
(* C16: emits the domain of Access.tla (small worlds, sessions) as ndjson case files for the in-process    *)
(* daemon harness (harness/c16_access.cpp).  The judge re-reads the same files and asserts that they are    *)
(* exactly the sets defined in Access.tla, so nothing but the spec decides what is replayed.               *)
EXTENDS Access, Json, IOUtils, SequencesExt
Tier == IOEnv.VF_TIER
ASSUME /\ ndJsonSerialize(IOEnv.VF_WORLDS, SetToSeq(Worlds(Tier)))
       /\ ndJsonSerialize(IOEnv.VF_SESSIONS, SetToSeq(Sessions(Tier)))
       /\ PrintT(<<"VF", "GEN", Cardinality(Worlds(Tier)), Cardinality(Sessions(Tier))>>)
VARIABLE x
Init == x = 0
Next == x' = x
=============================================================================
