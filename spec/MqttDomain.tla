------------------------------ MODULE MqttDomain ------------------------------
(* Part D of MqttHandler.tla: the worlds (message family x option set) and the sessions generated for the harness.          *)
(* A world's `fam` selects the session set that is run in it:                                                              *)
(*  1 deep  : every sequence over {tick, two values of a passive message, sink feed, handler iteration} up to a length      *)
(*  2 opts  : one request / update scenario per session, run under every option set                                         *)
(*  3 conn  : every sequence over {broker down, broker up, iteration, 16 s, update, tick, feed} up to a length               *)
(*  4 famB  : requests on the second message family (read and write message of one name, two circuits, passive two-field)    *)
(*  5 int   : worlds with an integration file (--mqttint): definitions of messages and global items, filter-seen, restart topic *)
(* Every session starts with one iteration (the CONNACK) and ends with the drain tick, feed, iteration, tick, feed,          *)
(* iteration.                                                                                                               *)
EXTENDS MqttHandler

SeqsUpTo(A, n) == UNION {[1..k -> A] : k \in 0..n}
Drain == <<EvT(1), EvF, EvM, EvT(1), EvF, EvM>>
Sess(fam, body) == [fam |-> fam, ev |-> <<EvM>> \o body \o Drain]

O_plain == Opt(<<>>, "n", 0, 0, 0, 0, <<>>)
OptSets(x) == <<
  O_plain,
  Opt(<<>>, "n", 1, 0, 0, 0, <<>>),
  Opt(<<>>, "j", 0, 0, 0, 0, <<>>),
  Opt(<<>>, "s", 0, 0, 0, 0, <<>>),
  Opt(T_tpHp, "n", 0, 1, 0, 0, <<>>),
  Opt(T_tpFull, "j", 1, 0, 0, 0, <<>>),
  Opt(T_tpField, "n", 0, 0, 0, 0, <<>>),
  Opt(T_tpField, "j", 0, 0, 0, 0, <<>>),
  Opt(T_tpStatic, "n", 0, 0, 0, 0, <<>>),
  Opt(T_tpStatic, "j", 0, 0, 0, 0, <<>>),
  Opt(<<>>, "n", 0, 0, 1, 0, <<>>),
  Opt(<<>>, "j", 0, 0, 1, 0, <<>>),
  Opt(<<>>, "n", 0, 0, 0, 1, <<>>),
  Opt(T_tpHp, "n", 0, 0, 0, 0, T_gl1),
  Opt(T_tpHp, "n", 0, 0, 0, 0, T_gl2),
  Opt(T_tpOdd, "n", 1, 0, 0, 0, <<>>),
  Opt(T_tpField, "j", 1, 1, 1, 0, <<>>) >>

Worlds(tier) ==
  {World(1, FamA, o, 0, 0) : o \in {O_plain, Opt(<<>>, "n", 1, 0, 0, 0, <<>>), Opt(T_tpFull, "j", 1, 0, 0, 0, <<>>)}}
  \cup (IF tier = "thorough" THEN {World(6, FamA, Opt(<<>>, "n", 1, 0, 0, 0, <<>>), 0, 0)} ELSE {})
  \cup {World(2, FamA, OptSets(0)[i], 0, 0) : i \in DOMAIN OptSets(0)}
  \cup {World(2, FamA, O_plain, 1, 0)}                                            \* no signal on the bus
  \cup {World(3, FamA, o, 0, bd) : o \in {O_plain, Opt(<<>>, "n", 1, 0, 0, 0, <<>>)}, bd \in {0, 1}}
  \cup {World(5, FamA, OptInt(o, v), 0, 0) : o \in {O_plain, Opt(T_tpHp, "j", 0, 1, 0, 0, <<>>)}, v \in {1, 2}}
  \cup {World(4, FamB, o, 0, 0) : o \in {O_plain, Opt(<<>>, "n", 1, 0, 0, 0, <<>>), Opt(<<>>, "j", 0, 0, 0, 0, <<>>), Opt(T_tpField, "n", 0, 0, 0, 0, <<>>)}}

(* ---- 1 deep ---- *)
DeepAlpha == {EvT(1), EvU(1, <<21>>), EvU(1, <<22>>), EvF, EvM}
Deep(tier) == {Sess(1, b) : b \in SeqsUpTo(DeepAlpha, IF tier = "thorough" THEN 5 ELSE 4)}
              \cup (IF tier = "thorough" THEN {Sess(6, b) : b \in [1..6 -> DeepAlpha]} ELSE {})      \* length 6 only with --mqttchanges

(* ---- 2 opts ---- *)
WithData == <<EvU(1, <<21>>), EvU(4, <<1>>), EvT(1), EvF, EvM>>
Requests(x) ==
  {EvI(b, T_get, <<>>, <<>>) : b \in 1..10}
  \cup {EvI(2, T_get, a, <<>>) : a \in {T_q3, T_q0}}
  \cup {EvI(1, T_get, T_q3, <<>>), EvI(5, T_get, T_q3, <<>>)}
  \cup {EvI(3, T_set, <<>>, pl) : pl \in {T_x7, T_x300, T_xabc, <<>>}}
  \cup {EvI(1, T_set, <<>>, T_x7), EvI(2, T_set, <<>>, T_x7), EvI(10, T_set, <<>>, T_x7)}
  \cup {EvI(b, T_list, <<>>, pl) : b \in {1, 6, 7, 8, 9, 10}, pl \in {<<>>, T_x1}}
  \cup {EvI(2, T_foo, <<>>, <<>>)}
OptsBodies(tier) ==
  {pre \o <<r, EvM>> : pre \in {<<>>, WithData}, r \in Requests(0)}
  \cup {<<EvI(2, T_get, <<>>, <<>>), EvI(3, T_set, <<>>, T_x7), EvI(1, T_get, <<>>, <<>>), EvM>>,
        WithData \o <<EvI(2, T_get, <<>>, <<>>), EvI(2, T_get, <<>>, <<>>), EvM>>,
        <<EvU(1, <<21>>)>>, <<EvU(4, <<0>>)>>, <<EvU(4, <<1>>), EvT(1), EvF, EvM, EvU(4, <<1>>)>>,
        <<EvU(1, <<21>>), EvT(1), EvF, EvM, EvU(1, <<21>>)>>, <<EvU(1, <<21>>), EvT(1), EvF, EvM, EvU(1, <<22>>)>>,
        <<EvU(1, <<21>>), EvU(4, <<1>>), EvU(1, <<22>>)>>,
        <<EvR(2)>>, <<EvR(2), EvT(1), EvF, EvM, EvR(2)>>,
        <<EvT(16), EvM>>, <<EvT(16), EvM, EvT(16), EvM>>, <<EvT(16), EvF, EvM, EvU(1, <<21>>)>>,
        <<EvD, EvM, EvU(1, <<21>>), EvB, EvM, EvT(16), EvM, EvM, EvM>>,
        <<EvI(3, T_set, <<>>, T_x7), EvM, EvT(1), EvI(3, T_set, <<>>, T_x7), EvM>>}
Opts(tier) == {Sess(2, b) : b \in OptsBodies(tier)}

(* ---- 3 conn ---- *)
ConnAlpha == {EvD, EvB, EvM, EvT(16), EvU(1, <<21>>), EvT(1), EvF}
Conn(tier) == {Sess(3, b) : b \in SeqsUpTo(ConnAlpha, IF tier = "thorough" THEN 4 ELSE 3)}
              \cup {Sess(3, b \o <<EvT(16), EvM, EvM, EvM>>) : b \in SeqsUpTo(ConnAlpha, IF tier = "thorough" THEN 3 ELSE 2)}
              \cup {Sess(3, b) : b \in {<<EvT(16), EvM, EvD, EvM, EvB, EvM, EvT(16), EvM, EvM, EvM>>,
                                         <<EvT(16), EvM, EvD, EvM, EvT(16), EvM, EvB, EvM, EvT(16), EvM, EvM>>,
                                         <<EvU(1, <<21>>), EvT(1), EvF, EvD, EvM, EvB, EvM, EvT(16), EvM, EvM, EvT(1), EvF, EvM>>,
                                         <<EvT(16), EvM, EvD, EvB, EvM, EvT(16), EvM, EvM, EvI(2, T_get, <<>>, <<>>), EvM>>}}

(* ---- 4 family B ---- *)
WithDataB == <<EvU(3, <<61>>), EvU(4, <<5, 1>>), EvT(1), EvF, EvM>>
RequestsB(x) ==
  {EvI(b, T_get, <<>>, <<>>) : b \in 1..5}
  \cup {EvI(b, T_set, <<>>, T_x7) : b \in 1..3}
  \cup {EvI(b, T_list, <<>>, pl) : b \in {6, 7, 8, 9}, pl \in {<<>>, T_x1}}
FamBBodies(tier) ==
  {pre \o <<r, EvM>> : pre \in {<<>>, WithDataB}, r \in RequestsB(0)}
  \cup {<<EvI(1, T_get, <<>>, <<>>), EvM, EvT(1), EvI(2, T_set, <<>>, T_x7), EvM, EvT(1), EvI(1, T_get, <<>>, <<>>), EvM>>,
        <<EvU(4, <<5, 1>>), EvT(1), EvF, EvM, EvU(4, <<5, 0>>)>>, <<EvU(4, <<5, 1>>), EvT(1), EvF, EvM, EvU(4, <<5, 1>>)>>,
        <<EvR(1)>>}
FamBSess(tier) == {Sess(4, b) : b \in FamBBodies(tier)}

(* ---- 5 integration file (definitions) ---- *)
IntDrain == <<EvT(1), EvF, EvM, EvT(1), EvF, EvM, EvT(16), EvM, EvT(16), EvM>>
IntBodies(tier) ==
  {<<>>, <<EvT(16), EvM>>, <<EvT(16), EvM, EvT(16), EvM>>, WithData, WithData \o <<EvT(16), EvM, EvM>>,
   <<EvT(16), EvM>> \o WithData, <<EvT(16), EvM, EvR(2)>>, <<EvR(2), EvT(1), EvT(16), EvM>>,
   <<EvT(16), EvM, EvI(2, T_get, T_q3, <<>>), EvM, EvT(16), EvM>>, <<EvI(2, T_get, T_q3, <<>>), EvM, EvT(16), EvM, EvI(2, T_get, T_q3, <<>>), EvM>>,
   <<EvT(16), EvM, EvI(11, T_restart, <<>>, <<>>), EvM>>, <<EvT(16), EvM, EvI(11, T_restart, <<>>, <<>>), EvM, EvT(16), EvM, EvM>>,
   WithData \o <<EvT(16), EvM, EvI(11, T_restart, <<>>, T_x1), EvM, EvT(16), EvM>>,
   <<EvT(16), EvM, EvI(3, T_set, <<>>, T_x7), EvM>>, <<EvI(3, T_set, <<>>, T_x7), EvM, EvT(16), EvM>>,
   <<EvD, EvM, EvT(16), EvM, EvB, EvM, EvT(16), EvM, EvM>>, <<EvT(16), EvM, EvD, EvM, EvB, EvM, EvT(16), EvM, EvM>>,
   <<EvU(1, <<21>>), EvT(16), EvM, EvU(4, <<1>>), EvT(16), EvM>>, <<EvT(16), EvM, EvU(1, <<21>>), EvT(1), EvF, EvM, EvU(1, <<22>>), EvT(16), EvF, EvM>>,
   <<EvI(7, T_list, <<>>, <<>>), EvM, EvT(16), EvM>>}
IntSess(tier) == {[fam |-> 5, ev |-> <<EvM>> \o b \o IntDrain] : b \in IntBodies(tier)}

Sessions(tier) == Deep(tier) \cup Opts(tier) \cup Conn(tier) \cup FamBSess(tier) \cup IntSess(tier)
=============================================================================
