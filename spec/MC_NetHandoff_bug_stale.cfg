CONSTANTS Variant = "small" Bug = "stale"
SPECIFICATION FairSpec
INVARIANT McOk
INVARIANT McNoDangle
PROPERTY McLive
