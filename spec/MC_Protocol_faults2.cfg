\* faults without write errors (the monitors r, s, t take any "err" event for silence on the wire, which a failed write is not):
\* read errors, long silence anywhere, late arbitration echo; one self-deleting broadcast request, one bus-lost retry
CONSTANTS
  PC <- MCPC_bcdel
  Cfg <- MCCfg
  Mons = {"r", "s", "t", "q"}
  QQs = {3}
  ZZs = {254}
  Datas = {66}
  Winners = {3}
  NNMax = 0
  SNNMax = 0
  SubmitWhen = 1
  LongToAny = TRUE
  ReadErr = TRUE
  WriteErr = FALSE
  LateEcho = TRUE
  PBs = {181}
  SBs = {9}
  Junk = {66}
  LongTo = TRUE
  EchoFaults = FALSE
  ArbNone = TRUE
  EscQQ = FALSE
  OpenFail = FALSE
  Reconnect = FALSE
INIT Init
NEXT Next
VIEW View
INVARIANT MonOk
INVARIANT NoUb
INVARIANT ArbSane
