------------------------------ MODULE LayoutMC ------------------------------
(* S => P for field sequences of any length: TLC explores this machine to a fix-point.        *)
(* One step = one more field definition appended to one message part.  Offsets are kept       *)
(* relative to P's `next' of the same part, so the state space is finite as long as S         *)
(* conforms; exploration stops behind a non-conforming step (reported, hence minimal).        *)
(* getLength runs with an unbounded maxLength here; its interplay with a variable-length      *)
(* field is covered by the bounded enumeration (C10Cases), where maxLength is known.          *)
EXTENDS Layout
VARIABLES ps,      \* [Parts -> P fold state without `next']
          sg,      \* [Parts -> getLength state for query part q; len relative]
          sr, sw,  \* [Parts -> read / write state; off relative]
          last,    \* the field appended by the last step (TLC's trace then shows the sequence)
          cls,     \* "unspecified" = the last step was the unspecified case (P admits two placements); "other"
          ok
vars == <<ps, sg, sr, sw, last, cls, ok>>

Rel(st) == [used |-> st.used, pf |-> st.pf, closed |-> st.closed, rs |-> st.rs]
Abs(rst) == [next |-> 8, used |-> rst.used, pf |-> rst.pf, closed |-> rst.closed, rs |-> rst.rs]
Big == 1000

MCInit == /\ ps = [p \in Parts |-> Rel(PInit)]
          /\ sg = [q \in Parts |-> [d |-> 0, pfull |-> [p \in Parts |-> TRUE], pfirst |-> [p \in Parts |-> -1]]]
          /\ sr = [q \in Parts |-> [d |-> 0, pfull |-> TRUE, pfirst |-> -1]]
          /\ sw = [q \in Parts |-> [d |-> 0, pfull |-> TRUE, pfirst |-> -1]]
          /\ last = <<>>
          /\ cls = "other"
          /\ ok = TRUE

MCStep(ki, q) ==
  LET k == Kinds[ki]
      pa == Abs(ps[q])                                   \* P state, next = 8 (arbitrary origin)
      g0 == [len |-> pa.next + sg[q].d, max |-> Big, pfull |-> sg[q].pfull, pfirst |-> sg[q].pfirst]
      g1 == GStep(g0, k, q, q)
      w0 == [off |-> pa.next + sw[q].d, pfull |-> sw[q].pfull, pfirst |-> sw[q].pfirst, pos |-> NoPos]
      w1 == WStep(w0, k, q, q, 2)
      r0 == [off |-> pa.next + sr[q].d, pfull |-> sr[q].pfull, pfirst |-> sr[q].pfirst, err |-> FALSE, pos |-> NoPos]
      R1(pl) == RStep(r0, k, q, q, IF k.var THEN pl.st.next ELSE Big)
      Glen(pl) == IF k.var THEN pl.st.next ELSE g1.len    \* getLength with a variable field: see above
      Match(pl) == /\ ~R1(pl).err
                   /\ R1(pl).pos = [b |-> pl.b, n |-> pl.n, bits |-> pl.bits]
                   /\ w1.pos = [b |-> pl.b, n |-> pl.n, bits |-> pl.bits]
                   /\ Glen(pl) = pl.st.next /\ R1(pl).off = pl.st.next /\ w1.off = pl.st.next
      C == PChoices(pa, k)                               \* admissible placements (two in the unspecified case)
      fits == {c \in C : Match(PPlace(pa, k, 2, c))}     \* ... that all three implementations realise
      c == IF fits # {} THEN CHOOSE x \in fits : TRUE ELSE CHOOSE x \in C : TRUE
      pl == PPlace(pa, k, 2, c)
      r1 == R1(pl)
  IN /\ ps' = [ps EXCEPT ![q] = Rel(pl.st)]
     /\ sg' = [sg EXCEPT ![q] = [d |-> Glen(pl) - pl.st.next, pfull |-> g1.pfull, pfirst |-> g1.pfirst]]
     /\ sr' = [sr EXCEPT ![q] = [d |-> r1.off - pl.st.next, pfull |-> r1.pfull, pfirst |-> r1.pfirst]]
     /\ sw' = [sw EXCEPT ![q] = [d |-> w1.off - pl.st.next, pfull |-> w1.pfull, pfirst |-> w1.pfirst]]
     /\ last' = <<k.t, q>>
     /\ cls' = IF PAmbiguous(pa, k) THEN "unspecified" ELSE "other"
     /\ ok' = (fits # {})

MCNext == ok /\ \E ki \in 1..NK, q \in Parts : PSpecified(Abs(ps[q]), Kinds[ki]) /\ MCStep(ki, q)

(* S => P: every appended field is at an admissible place, the same for getLength/read/write *)
MCConforms == ok \/ ~PrintT(<<"VF", "SP", cls, last>>)
(* while S conforms its bookkeeping is a function of P's fold state (an abstraction map exists) *)
MCRefinement == ok => \A q \in Parts :
   /\ sg[q].d = 0 /\ sr[q].d = 0 /\ sw[q].d = 0
   /\ sr[q].pfull = sw[q].pfull /\ sr[q].pfirst = sw[q].pfirst
   /\ sg[q].pfull[q] = sr[q].pfull /\ sg[q].pfirst[q] = sr[q].pfirst
   /\ SGuardAfter => ((ps[q].used = {}) <=> sr[q].pfull)
=============================================================================
