------------------------------ MODULE Protocol ------------------------------
(* S: code-shaped specification of the protocol stack of ebusd (plain device).                                      *)
(* A transcription, in functional style (DESIGN.md appendix A.1), of                                                *)
(*   src/lib/ebus/protocol_direct.cpp  run() loop body, handleSend, handleReceive, setState, addSeenAddress,         *)
(*                                     messageCompleted, createAnswerKey, getAnswer (setAnswer as the key table)     *)
(*   src/lib/ebus/protocol.cpp         addRequest(wait=false), addSeenAddress                                        *)
(*   src/lib/ebus/device_trans.cpp     PlainDevice::send/recv, BaseDevice::startArbitration/cancelRunningArbitration *)
(*   src/lib/utils/queue.h             push, pop, peek, remove(item)                                                 *)
(* and of the environment of harness/proto.cpp (FakeTransport, wire tracker, VReq, VListener, doSubmit, auto-poll,  *)
(* virtual clock).  It is "written to be bound, not admired": the state record has exactly the fields of the        *)
(* harness projection (Snap::json), one operator per critical section named after the code, known oddities as they  *)
(* are in the code today.  Nothing here is a verdict: a difference between this module and the code is DRIFT.       *)
(*                                                                                                                  *)
(* Every operator works on a "machine" record x:                                                                    *)
(*   x.s    the projected state (handler, device, transport, queues, requests, tracker), field names of Snap::json   *)
(*   x.ev   the events of the step so far, formats as documented at the top of BusMonitors.tla                       *)
(*   x.tok  the environment's decisions for this step (Input of the harness); x.eu/du/cu/wu = "decision consulted"   *)
(*   x.echoT, x.echoW  tracker state and byte at the moment the echo decision was consulted                          *)
(*   x.sec, x.lr  virtual time()/m_lastReceive in seconds relative to the start of the step                          *)
(*   x.ub   a key computation with undefined behaviour in C++ was needed (getAnswer with NN > 4)                     *)
(* and returns the new machine record, where needed together with results (res, sym, arb, ...).                     *)
EXTENDS Integers, Sequences, FiniteSets, TLC, EbusSymbols, IOUtils, Json

(* configuration of the run: [own, lock, gensyn, readonly, answer, buslost, autopoll, cbsubmit : Int,                 *)
(*   reqs : Seq([master : Seq(Byte), kind : 0..2, restarts : Nat]), answers : Seq([src, dst, pb, sb, id, answer])]   *)
(* from the JSON file VF_PCFG (fidelity runs: written by checks/proto_spec.py from the harness arguments); a model    *)
(* checking configuration replaces the definition (PC <- ...) by a record written in TLA+.                            *)
DefaultPC == [own |-> 49, lock |-> 3, gensyn |-> 0, readonly |-> 0, answer |-> 0, buslost |-> 0, autopoll |-> 1, cbsubmit |-> 1,
              reqs |-> <<>>, answers |-> <<>>]
PC == IF "VF_PCFG" \in DOMAIN IOEnv THEN JsonDeserialize(IOEnv.VF_PCFG) ELSE DefaultPC

(***************************************************************************)
(* constants of the code                                                   *)
(***************************************************************************)
RC_OK == 0                RC_CONTINUE == 1          RC_ERR_DEVICE == -2        RC_ERR_ESC == -4
RC_ERR_TIMEOUT == -5      RC_ERR_NOTFOUND == -6     RC_ERR_INVALID_ARG == -8   RC_ERR_INVALID_ADDR == -10
RC_ERR_BUS_LOST == -18    RC_ERR_ARB_RUNNING == -19 RC_ERR_CRC == -20          RC_ERR_ACK == -21
RC_ERR_NAK == -22         RC_ERR_NO_SIGNAL == -23   RC_ERR_SYN == -24          RC_ERR_SYMBOL == -25

BS_noSignal == 0    BS_skip == 1        BS_ready == 2       BS_recvCmd == 3     BS_recvCmdCrc == 4  BS_recvCmdAck == 5
BS_recvRes == 6     BS_recvResCrc == 7  BS_recvResAck == 8  BS_sendCmd == 9     BS_sendCmdCrc == 10 BS_sendResAck == 11
BS_sendCmdAck == 12 BS_sendRes == 13    BS_sendResCrc == 14 BS_sendSyn == 15

PS_noSignal == 0  PS_idle == 1  PS_idleSYN == 2  PS_recv == 3  PS_send == 4  PS_empty == 5
(* protocolStateByBusState[] *)
PStateOf(bs) == IF bs = BS_noSignal THEN PS_noSignal ELSE IF bs <= BS_ready THEN PS_idle ELSE IF bs <= BS_recvResAck THEN PS_recv ELSE PS_send

SYN_INTERVAL == 40   SYN_TIMEOUT == 51   SIGNAL_TIMEOUT == 250
SEND_TIMEOUT == (2 * 4700 + 999) \div 1000
(* ebus_protocol_config_t as set up by construct() of the harness *)
SlaveRecvTimeout == 25   BusAcquireTimeout == 10   InitialSend == FALSE
ReadOnly == PC.readonly = 1
Own == PC.own
OwnSlave == SlaveAddr(PC.own)          \* m_ownSlaveAddress(getSlaveAddress(config.ownAddress))
NReq == Len(PC.reqs)

(* SymbolString::updateCrc: CRC_LOOKUP_TABLE[crc] ^ value (the table is C11's subject: it equals the polynomial step) *)
SCrcTab == [c \in 0..255 |-> MulXn(c, 8)]
SXorTab == [a \in 0..255 |-> [b \in 0..255 |-> Xor(a, b)]]
UpdateCrc(v, c) == SXorTab[SCrcTab[c]][v]
ByteOr(a, b) == (a + b + SXorTab[a][b]) \div 2
Min2(a, b) == IF a < b THEN a ELSE b

(* SymbolString helpers: const operator[] yields SYN beyond the end; isComplete / getDataSize with the length offset *)
At(str, i) == IF i < Len(str) THEN str[i + 1] ELSE SYN               \* i is 0-based like in the code
IsComplete(str, off) == Len(str) >= off + 1 /\ Len(str) >= off + 1 + str[off + 1]
DataSize(str, off) == IF Len(str) <= off THEN 0
                      ELSE IF Len(str) < off + 1 + str[off + 1] THEN Len(str) - off - 1 ELSE str[off + 1]
GrowTo(str, n) == IF Len(str) >= n THEN str ELSE str \o [k \in 1..(n - Len(str)) |-> 0]   \* non-const operator[] resizes with zeros
ReqMaster(r) == PC.reqs[r + 1].master
ReqKind(r) == PC.reqs[r + 1].kind

(***************************************************************************)
(* Queue<BusRequest*>  (single thread: the mutex/condition parts vanish)   *)
(***************************************************************************)
QPush(q, r) == Append(q, r)
QPeek(q) == IF q = <<>> THEN -1 ELSE q[1]
QRemove(q, r) == SelectSeq(q, LAMBDA z : z # r)          \* std::list::remove: every occurrence
QHas(q, r) == \E k \in 1..Len(q) : q[k] = r

(***************************************************************************)
(* machine record plumbing                                                 *)
(***************************************************************************)
XEv(x, e) == [x EXCEPT !.ev = Append(@, e)]
B2I(b) == IF b THEN 1 ELSE 0

(***************************************************************************)
(* harness: wire tracker (struct Tracker), phases P_DEAD .. P_DONE          *)
(***************************************************************************)
P_DEAD == 0 P_QQ == 1 P_ZZ == 2 P_PB == 3 P_SB == 4 P_NN == 5 P_DATA == 6 P_CRC == 7 P_ACK == 8 P_SNN == 9 P_SDATA == 10
P_SCRC == 11 P_SACK == 12 P_DONE == 13
Trk0 == [ph |-> P_DEAD, qq |-> 0, zz |-> 0, left |-> 0, crc |-> 0, crc0 |-> 0, esc |-> 0, mrep |-> 0, srep |-> 0, crcok |-> 0]

TrkValue(t, v) ==       \* the switch (ph) of advance1 on the unescaped value v
  CASE t.ph = P_QQ -> [t EXCEPT !.qq = v, !.ph = P_ZZ]
    [] t.ph = P_ZZ -> [t EXCEPT !.zz = v, !.ph = P_PB]
    [] t.ph = P_PB -> [t EXCEPT !.ph = P_SB]
    [] t.ph = P_SB -> [t EXCEPT !.ph = P_NN]
    [] t.ph \in {P_NN, P_SNN} ->
         IF v > 16 THEN [t EXCEPT !.ph = P_DEAD]
         ELSE [t EXCEPT !.left = v, !.ph = IF v > 0 THEN (IF t.ph = P_NN THEN P_DATA ELSE P_SDATA)
                                            ELSE (IF t.ph = P_NN THEN P_CRC ELSE P_SCRC)]
    [] t.ph \in {P_DATA, P_SDATA} ->
         LET l == (t.left + 255) % 256 IN      \* uint8_t --left
         [t EXCEPT !.left = l, !.ph = IF l = 0 THEN (IF t.ph = P_DATA THEN P_CRC ELSE P_SCRC) ELSE t.ph]
    [] t.ph \in {P_CRC, P_SCRC} ->
         LET u == [t EXCEPT !.crcok = B2I(v = t.crc0)] IN
         IF t.ph = P_CRC /\ t.zz = BROADCAST THEN [u EXCEPT !.ph = P_DONE]
         ELSE [u EXCEPT !.ph = IF t.ph = P_CRC THEN P_ACK ELSE P_SACK]
    [] OTHER -> t

TrkAdvance1(t, s) ==
  IF s = SYN THEN [Trk0 EXCEPT !.ph = P_QQ]
  ELSE IF t.ph \in {P_DEAD, P_DONE} THEN t
  ELSE IF t.ph \in {P_ACK, P_SACK} THEN
     LET m == t.ph = P_ACK IN
     IF s = ACK THEN (IF m THEN (IF IsMaster(t.zz) THEN [t EXCEPT !.ph = P_DONE] ELSE [t EXCEPT !.ph = P_SNN, !.crc = 0])
                      ELSE [t EXCEPT !.ph = P_DONE])
     ELSE IF s = NAK /\ (IF m THEN t.mrep ELSE t.srep) < 2
          THEN (IF m THEN [t EXCEPT !.crc = 0, !.mrep = @ + 1, !.ph = P_QQ] ELSE [t EXCEPT !.crc = 0, !.srep = @ + 1, !.ph = P_SNN])
     ELSE [t EXCEPT !.ph = P_DEAD]
  ELSE IF t.esc = 1 THEN TrkValue([t EXCEPT !.crc = UpdateCrc(s, t.crc), !.esc = 0], IF s = 0 THEN ESC ELSE IF s = 1 THEN SYN ELSE s)
  ELSE LET u == [t EXCEPT !.crc0 = t.crc, !.crc = UpdateCrc(s, t.crc)] IN
       IF s = ESC THEN [u EXCEPT !.esc = 1] ELSE TrkValue(u, s)

TrkAdvance(t, s) == LET u == TrkAdvance1(t, s) IN IF u.ph \in {P_DEAD, P_DONE} THEN [Trk0 EXCEPT !.ph = u.ph] ELSE u

(***************************************************************************)
(* harness: FakeTransport (plain form)                                     *)
(***************************************************************************)
WireF(x, sym, o) == [x EXCEPT !.s.trk = TrkAdvance(@, sym), !.s.buf = Append(@, sym), !.s.org = Append(@, o)]
RECURSIVE WireAllF(_, _, _)
WireAllF(x, syms, o) == IF syms = <<>> THEN x ELSE WireAllF(WireF(x, Head(syms), o), Tail(syms), o)

(* decideEcho: the step's echo decision applies to the first written byte only, every later byte is echoed unchanged *)
DecideEchoF(x, w) ==
  IF x.eu THEN [x |-> x, e |-> "s", ex |-> 0]
  ELSE [x |-> [x EXCEPT !.eu = TRUE, !.echoW = w, !.echoT = x.s.trk], e |-> x.tok.e, ex |-> x.tok.ex]

TransportCloseF(x) ==
  IF x.s.valid = 0 THEN x ELSE XEv([x EXCEPT !.s.valid = 0, !.s.buf = <<>>, !.s.org = <<>>], <<"close">>)

TransportOpenF(x) ==     \* open(): close(), then success or ERR_NOTFOUND by the "O=f" decision; plain device: no further action
  LET x1 == TransportCloseF(x) IN
  IF x.tok.of THEN [x |-> XEv(x1, <<"open", 0>>), res |-> RC_ERR_NOTFOUND]
  ELSE [x |-> XEv([x1 EXCEPT !.s.valid = 1], <<"open", 1>>), res |-> RC_OK]

TransportWriteF(x, w) ==      \* write() of one byte
  IF x.s.valid = 0 THEN [x |-> x, res |-> RC_ERR_DEVICE]
  ELSE IF x.tok.w THEN [x |-> XEv([x EXCEPT !.wu = TRUE], <<"err", "write">>), res |-> RC_ERR_DEVICE]
  ELSE LET de == DecideEchoF(XEv([x EXCEPT !.wu = TRUE], <<"tx", w>>), w) IN
       [x |-> IF de.e = "s" THEN WireF(de.x, w, 1) ELSE IF de.e = "x" THEN WireF(de.x, de.ex, 1) ELSE de.x, res |-> RC_OK]

(* read(timeout): buffered data first; else the step's delivery decision (first consultation), later reads time out *)
TransportReadF(x, timeout) ==
  IF x.s.valid = 0 THEN [x |-> x, res |-> RC_ERR_DEVICE]
  ELSE IF x.s.buf # <<>> THEN [x |-> x, res |-> RC_OK]
  ELSE IF timeout = 0 THEN [x |-> x, res |-> RC_ERR_TIMEOUT]
  ELSE LET d == IF x.du THEN "to" ELSE x.tok.d
           x1 == [x EXCEPT !.du = TRUE] IN
       IF d \in {"to", "tl"}
       THEN [x |-> XEv([x1 EXCEPT !.s.trk = Trk0, !.sec = @ + (IF d = "tl" THEN 2 ELSE 0)], <<"to", IF d = "tl" THEN 2 ELSE 1, timeout>>),
             res |-> RC_ERR_TIMEOUT]
       ELSE IF d = "er"
       THEN [x |-> TransportCloseF(XEv([x1 EXCEPT !.s.trk = Trk0], <<"err", "read">>)), res |-> RC_ERR_DEVICE]
       ELSE [x |-> WireAllF(x1, x.tok.dv, 0), res |-> RC_OK]

TransportConsumed1F(x) ==    \* readConsumed(1)
  XEv([x EXCEPT !.s.buf = Tail(@), !.s.org = Tail(@)], <<"rx", x.s.buf[1], x.s.org[1]>>)

(***************************************************************************)
(* device_trans.cpp: BaseDevice / PlainDevice                              *)
(***************************************************************************)
StartArbitrationF(x, master) ==
  IF x.s.arbCheck # 0 THEN [x |-> x, res |-> IF master # SYN THEN RC_ERR_ARB_RUNNING ELSE RC_OK]
  ELSE [x |-> [x EXCEPT !.s.arbMaster = master], res |-> RC_OK]

CancelRunningArbitrationF(x, arb) ==
  IF x.s.arbMaster = SYN THEN [x |-> x, arb |-> arb]
  ELSE [x |-> [x EXCEPT !.s.arbMaster = SYN, !.s.arbCheck = 0], arb |-> "error"]

PlainSendF(x, v) == TransportWriteF(x, v)

(* PlainDevice::recv.  arb0/sym0: the values *arbitrationState / *value hold when the call does not assign them.    *)
(* The read loop runs once: a timed-out read advances the virtual clock by the whole timeout (latency 0).           *)
PlainRecvF(x, timeout, arb0, sym0) ==
  LET arb1 == IF x.s.arbMaster # SYN THEN "running" ELSE arb0
      rd == TransportReadF(x, timeout) IN
  IF rd.res = RC_ERR_TIMEOUT THEN [x |-> rd.x, res |-> rd.res, sym |-> sym0, arb |-> arb1]
  ELSE IF rd.res # RC_OK THEN LET c == CancelRunningArbitrationF(rd.x, arb1) IN [x |-> c.x, res |-> rd.res, sym |-> sym0, arb |-> c.arb]
  ELSE LET len == Len(rd.x.s.buf)
           v == rd.x.s.buf[1]
           x1 == TransportConsumed1F(rd.x)
           res == IF len > 1 THEN RC_CONTINUE ELSE RC_OK
           am == x1.s.arbMaster IN
       IF v # SYN \/ am = SYN \/ x1.s.arbCheck # 0 THEN
          IF am # SYN THEN
             IF x1.s.arbCheck # 0
             THEN [x |-> [x1 EXCEPT !.s.arbMaster = SYN, !.s.arbCheck = 0], res |-> res, sym |-> v, arb |-> IF v = am THEN "won" ELSE "lost"]
             ELSE [x |-> x1, res |-> res, sym |-> v, arb |-> "start"]
          ELSE [x |-> x1, res |-> res, sym |-> v, arb |-> arb1]
       ELSE IF len = 1 THEN      \* arbitration executed by ebusd itself
          LET w == TransportWriteF(x1, am) IN
          IF w.res # RC_OK THEN LET c == CancelRunningArbitrationF(w.x, arb1) IN [x |-> c.x, res |-> res, sym |-> v, arb |-> c.arb]
          ELSE [x |-> [w.x EXCEPT !.s.arbCheck = 1], res |-> res, sym |-> v, arb |-> "running"]
       ELSE [x |-> x1, res |-> res, sym |-> v, arb |-> arb1]

(***************************************************************************)
(* harness: requests (VReq), listener (VListener), doSubmit                *)
(***************************************************************************)
Trunc40(sl) == IF Len(sl) > 272 THEN SubSeq(sl, 1, 272) ELSE sl   \* the harness keeps up to 272 bytes of a result (name kept)
(* VReq::notify *)
NotifyF(x, r, res, slave) ==
  LET restart == ReqKind(r) = 2 /\ x.s.rrestarts[r + 1] > 0 /\ res = RC_OK
      x1 == XEv(x, <<"ntf", r, res, slave, B2I(restart), x.s.rstatus[r + 1]>>) IN
  [x |-> [x1 EXCEPT !.s.rrestarts[r + 1] = IF restart THEN @ - 1 ELSE @, !.s.rresult[r + 1] = res, !.s.rslave[r + 1] = Trunc40(slave),
                    !.s.rstatus[r + 1] = IF restart THEN @ ELSE 2],
   restart |-> restart]
(* delete request: VReq::~VReq logs the event and sets status = 3 (the projection then shows 0 retries for the slot).     *)
(* PC.delstatus = 2 reproduces an older harness binary in which GCC's lifetime dead-store elimination removed that store. *)
DeletedStatus == IF "delstatus" \in DOMAIN PC THEN PC.delstatus ELSE 3
DeleteReqF(x, r) == LET x1 == XEv(x, <<"del", r, x.s.rstatus[r + 1]>>) IN
                    IF DeletedStatus = 3 THEN [x1 EXCEPT !.s.rstatus[r + 1] = 3, !.s.rretries[r + 1] = 0] ELSE x1

(* ProtocolHandler::addRequest(request, wait = false) *)
AddRequestF(x, r) == IF ReadOnly THEN [x |-> x, res |-> RC_ERR_DEVICE] ELSE [x |-> [x EXCEPT !.s.nextq = QPush(@, r)], res |-> RC_OK]

(* doSubmit: a deleted slot is re-constructed; only an idle request is handed over *)
CanSubmit(s, r) == s.rstatus[r + 1] \in {0, 3}
DoSubmitF(x, r, how) ==
  LET x0 == IF x.s.rstatus[r + 1] = 3
            THEN [x EXCEPT !.s.rstatus[r + 1] = 0, !.s.rretries[r + 1] = 0, !.s.rrestarts[r + 1] = PC.reqs[r + 1].restarts,
                           !.s.rresult[r + 1] = 0, !.s.rslave[r + 1] = <<>>]
            ELSE x IN
  IF x0.s.rstatus[r + 1] # 0 THEN x0
  ELSE LET a == AddRequestF([x0 EXCEPT !.s.rstatus[r + 1] = 1], r)
           x2 == XEv(a.x, <<how, r, ReqKind(r), ReqMaster(r), a.res>>) IN
       IF a.res # RC_OK THEN [x2 EXCEPT !.s.rstatus[r + 1] = 0] ELSE x2

(* VListener::notifyProtocolStatus: logs, and at ps_empty lets the environment submit a request from inside the callback *)
NotifyStatusF(x, pstate, result) ==
  LET x1 == XEv(x, <<"st", pstate, result>>) IN
  IF pstate = PS_empty /\ PC.cbsubmit = 1 /\ NReq > 0
  THEN LET x2 == [x1 EXCEPT !.cu = TRUE] IN IF x.tok.cb >= 0 THEN DoSubmitF(x2, x.tok.cb, "subcb") ELSE x2
  ELSE x1

(***************************************************************************)
(* protocol.cpp / protocol_direct.cpp: addSeenAddress                      *)
(***************************************************************************)
SeenHas(seen, a) == \E k \in 1..Len(seen) : seen[k] = a
SeenAdd(seen, a) == IF SeenHas(seen, a) THEN seen      \* the projection lists m_seenAddresses[] in ascending order
                    ELSE SelectSeq(seen, LAMBDA z : z < a) \o <<a>> \o SelectSeq(seen, LAMBDA z : z > a)
NotifySeenF(x, a) == XEv(x, <<"seen", a>>)

BaseAddSeenF(x, address) ==      \* ProtocolHandler::addSeenAddress -> [x, ret]
  IF ~ValidAddress(address, FALSE) THEN [x |-> x, ret |-> FALSE]
  ELSE LET slavePart == ~IsMaster(address)
           xa == IF slavePart
                 THEN LET c == IF ~ReadOnly /\ address = OwnSlave THEN [x EXCEPT !.s.conflict = 1] ELSE x
                          n == IF ~SeenHas(c.s.seen, address) THEN NotifySeenF(c, address) ELSE c IN
                      [n EXCEPT !.s.seen = SeenAdd(@, address)]
                 ELSE x
           addr == IF slavePart THEN MasterOf(address) ELSE address IN     \* getMasterAddress
       IF addr = SYN THEN [x |-> xa, ret |-> FALSE]
       ELSE IF SeenHas(xa.s.seen, addr) THEN [x |-> xa, ret |-> FALSE]
       ELSE LET own == ~ReadOnly /\ addr = Own
                xb == IF own THEN [xa EXCEPT !.s.conflict = 1] ELSE [xa EXCEPT !.s.masters = @ + 1] IN
            [x |-> [NotifySeenF(xb, addr) EXCEPT !.s.seen = SeenAdd(@, addr)], ret |-> ~own]

AddSeenF(x, address) ==          \* DirectProtocolHandler::addSeenAddress (automatic lock count)
  LET b == BaseAddSeenF(x, address) IN
  IF b.ret /\ PC.lock = 0 /\ b.x.s.masters > b.x.s.lockCount THEN [b.x EXCEPT !.s.lockCount = b.x.s.masters] ELSE b.x

(***************************************************************************)
(* messageCompleted                                                        *)
(***************************************************************************)
MessageCompletedF(x) ==
  LET s == x.s
      command == IF s.cur # -1 THEN ReqMaster(s.cur) ELSE s.cmd
      src == At(command, 0)
      dst == At(command, 1) IN
  IF src = dst THEN x     \* invalid self-addressed message: not reported
  ELSE LET x1 == IF s.answering = 0 \/ (dst # Own /\ dst # OwnSlave) THEN AddSeenF(x, dst) ELSE x
           dir == IF s.answering = 1 THEN 2 ELSE IF s.cur # -1 THEN 1 ELSE 0 IN
       XEv(x1, <<"msg", dir, command, s.res>>)

(***************************************************************************)
(* answers: createAnswerKey / setAnswer / getAnswer.                       *)
(* The uint64_t key is the byte sequence <<b7, ..., b0>> (b7 first).  For  *)
(* id lengths > 4 the C++ shift counts are negative / >= 64: UNDEFINED in   *)
(* C++.  Modelled as x86-64 does it (count mod 64) and FLAGGED (ub).        *)
(***************************************************************************)
KeyOrByte(key, lsbIndex, v) == [key EXCEPT ![8 - lsbIndex] = ByteOr(@, v)]
RECURSIVE KeyIdsF(_, _, _, _)
KeyIdsF(key, id, pos, idLen) ==      \* for (pos..) key |= id[pos] << (8 * exp--), exp = 3 - pos
  IF pos >= idLen THEN key ELSE KeyIdsF(KeyOrByte(key, ((3 - pos) + 64) % 8, id[pos + 1]), id, pos + 1, idLen)
CreateAnswerKeyF(src, dst, pb, sb, id, idLen) ==
  KeyIdsF(<<((idLen % 8) * 32) + MasterNumber(src), dst, pb, sb, 0, 0, 0, 0>>, id, 0, idLen)
KeyUndefined(idLen) == idLen > 4       \* guard: the key arithmetic is undefined behaviour for NN > 4

(* m_answerByKey after the setAnswer calls of the configuration, in order (a later entry replaces an equal key) *)
AnsKeys == [k \in 1..Len(PC.answers) |-> LET a == PC.answers[k] IN CreateAnswerKeyF(a.src, a.dst, a.pb, a.sb, a.id, Len(a.id))]
AnsFind(key) == LET hit == {k \in 1..Len(PC.answers) : AnsKeys[k] = key} IN
                IF hit = {} THEN 0 ELSE CHOOSE k \in hit : \A j \in hit : j <= k
KeyNoSrc(key) == [key EXCEPT ![1] = (@ \div 32) * 32]            \* key & ~(0x1fLL << 56)
KeyReduce(key, len) ==     \* (key & ~(0x07LL << 61) & ~(0xffLL << (8 * (3 - len)))) | (len << 61), len already decremented
  LET k1 == [key EXCEPT ![1] = @ % 32]
      k2 == [k1 EXCEPT ![8 - (((3 - len) + 64) % 8)] = 0] IN
  [k2 EXCEPT ![1] = ByteOr(@, (len % 8) * 32)]

RECURSIVE GetAnswerLoopF(_, _, _)
GetAnswerLoopF(x, key, len) ==
  LET cmd == x.s.cmd
      k0 == AnsFind(key)
      k == IF k0 = 0 THEN AnsFind(KeyNoSrc(key)) ELSE k0
      master == IsMaster(cmd[2])
      use == k # 0 /\ (~master \/ len + DataSize(PC.answers[k].answer, 0) = cmd[5]) IN
  IF use THEN [x |-> [x EXCEPT !.s.res = PC.answers[k].answer], found |-> TRUE]
  ELSE IF len = 0 THEN [x |-> x, found |-> FALSE]
  ELSE GetAnswerLoopF(x, KeyReduce(key, len - 1), len - 1)

GetAnswerF(x) ==
  IF Len(PC.answers) = 0 THEN [x |-> x, found |-> FALSE]
  ELSE LET cmd == x.s.cmd
           len == cmd[5]
           x1 == [x EXCEPT !.s.res = <<>>, !.ub = @ \/ KeyUndefined(len)] IN
       GetAnswerLoopF(x1, CreateAnswerKeyF(cmd[1], cmd[2], cmd[3], cmd[4], SubSeq(cmd, 6, 5 + len), len), len)

(***************************************************************************)
(* setState                                                                *)
(***************************************************************************)
RECURSIVE DrainNextF(_)
DrainNextF(x) ==      \* while ((m_currentRequest = m_nextRequests.pop()) != nullptr) notify(ERR_NO_SIGNAL) ...
  IF x.s.nextq = <<>> THEN [x EXCEPT !.s.cur = -1]
  ELSE LET r == x.s.nextq[1]
           n == NotifyF([x EXCEPT !.s.nextq = Tail(@), !.s.cur = r], r, RC_ERR_NO_SIGNAL, x.s.res) IN
       DrainNextF(IF ReqKind(r) = 1 THEN DeleteReqF(n.x, r) ELSE [n.x EXCEPT !.s.finq = QPush(@, r)])

SetStateF(x, state, result, firstRepetition) ==
  LET s0 == x.s
      r == s0.cur
      x1 == IF r = -1 THEN x
            ELSE LET xa == IF result = RC_ERR_BUS_LOST /\ s0.rretries[r + 1] < PC.buslost
                           THEN [x EXCEPT !.s.rretries[r + 1] = @ + 1, !.s.nextq = QPush(@, r), !.s.cur = -1]     \* repeat
                           ELSE IF state = BS_sendSyn \/ (result < RC_OK /\ ~firstRepetition)
                           THEN LET n == NotifyF(x, r, IF result = RC_ERR_SYN /\ s0.state \in {BS_recvCmdAck, BS_recvRes}
                                                         THEN RC_ERR_TIMEOUT ELSE (IF result > RC_OK THEN RC_OK ELSE result), s0.res)
                                    y == IF n.restart THEN [n.x EXCEPT !.s.rretries[r + 1] = 0, !.s.nextq = QPush(@, r)]
                                         ELSE IF ReqKind(r) = 1 THEN DeleteReqF(n.x, r)
                                         ELSE [n.x EXCEPT !.s.finq = QPush(@, r)] IN
                                [y EXCEPT !.s.cur = -1]
                           ELSE x IN
                 IF state = BS_skip THEN StartArbitrationF(xa, SYN).x ELSE xa      \* reset arbitration state
      x2 == IF state = BS_noSignal
            THEN StartArbitrationF(DrainNextF([x1 EXCEPT !.s.res = <<>>]), SYN).x   \* notify all requests, no request pending any more
            ELSE x1
      x3 == [x2 EXCEPT !.s.esc = 0] IN
  IF state = x3.s.state THEN
     LET x4 == IF state = BS_ready THEN [x3 EXCEPT !.s.crc = 0] ELSE x3 IN
     IF result < RC_OK /\ state # BS_noSignal THEN NotifyStatusF(x4, x4.s.lstate, result) ELSE x4
  ELSE
     LET p0 == PStateOf(state)
         p == IF p0 = PS_idle /\ x3.s.genSyn = SYN_INTERVAL THEN PS_idleSYN ELSE p0
         x4 == IF result < RC_OK \/ p # x3.s.lstate THEN [NotifyStatusF(x3, p, result) EXCEPT !.s.lstate = p] ELSE x3
         x5 == [x4 EXCEPT !.s.state = state] IN
     IF state \in {BS_ready, BS_skip}
     THEN [x5 EXCEPT !.s.cmd = <<>>, !.s.crc = 0, !.s.crcValid = 0, !.s.res = <<>>, !.s.pos = 0, !.s.answering = 0]
     ELSE IF state \in {BS_recvRes, BS_sendRes} THEN [x5 EXCEPT !.s.crc = 0]
     ELSE x5

(***************************************************************************)
(* handleSend -> [x, res, timeout, sent]                                   *)
(***************************************************************************)
HandleSendF(x) ==
  LET st == x.s.state
      (* ready / skip: clean up a stale current request, start the arbitration for the head request *)
      xr == IF st \in {BS_skip, BS_ready}
            THEN LET xa == IF x.s.cur # -1 THEN SetStateF(x, BS_ready, RC_ERR_TIMEOUT, FALSE) ELSE x IN
                 IF xa.s.arbMaster = SYN /\ xa.s.cur = -1 /\ xa.s.remainLock = 0      \* !isArbitrating() && ...
                 THEN LET xb == IF QPeek(xa.s.nextq) = -1 THEN NotifyStatusF(xa, PS_empty, RC_OK) ELSE xa
                          start == QPeek(xb.s.nextq) IN
                      IF start # -1
                      THEN LET sa == StartArbitrationF(xb, At(ReqMaster(start), 0)) IN
                           IF sa.res = RC_OK THEN sa.x
                           ELSE SetStateF([sa.x EXCEPT !.s.nextq = QRemove(@, start), !.s.cur = start], BS_ready, sa.res, FALSE)
                      ELSE xb
                 ELSE xa
            ELSE x
      s == xr.s
      state == s.state          \* m_state after the clean-up (setState(bs_ready, ..) may have switched skip -> ready)
      timeout == CASE st = BS_noSignal -> IF s.genSyn > 0 THEN s.genSyn ELSE SIGNAL_TIMEOUT
                   [] st \in {BS_recvCmd, BS_recvCmdCrc, BS_recvCmdAck, BS_recvResAck} -> SlaveRecvTimeout
                   [] st \in {BS_recvRes, BS_recvResCrc} ->
                        IF Len(s.res) > 0 \/ SlaveRecvTimeout > SYN_TIMEOUT THEN SlaveRecvTimeout ELSE SYN_TIMEOUT
                   [] OTHER -> SYN_TIMEOUT
      sending == CASE st \in {BS_sendCmd, BS_sendCmdCrc, BS_sendResAck} -> s.cur # -1
                   [] st \in {BS_sendCmdAck, BS_sendRes, BS_sendResCrc} -> s.answering = 1
                   [] st = BS_sendSyn -> TRUE
                   [] OTHER -> FALSE
      (* m_response[m_nextSendPos] is the non-const operator[]: it grows the response with zeros *)
      xg == IF st = BS_sendRes /\ sending /\ s.pos >= Len(s.res)
            THEN [xr EXCEPT !.s.res = GrowTo(@, s.pos + 1)] ELSE xr
      sym0 == CASE st = BS_sendCmd -> At(ReqMaster(s.cur), s.pos)
                [] st \in {BS_sendCmdCrc, BS_sendResCrc} -> s.crc
                [] st \in {BS_sendResAck, BS_sendCmdAck} -> IF s.crcValid = 1 THEN ACK ELSE NAK
                [] st = BS_sendRes -> xg.s.res[s.pos + 1]
                [] st = BS_sendSyn -> SYN
                [] OTHER -> ESC IN
  IF sending /\ ~ReadOnly THEN
     LET needEsc == state # BS_sendSyn /\ (sym0 = ESC \/ sym0 = SYN)
         sym == IF needEsc THEN (IF xg.s.esc # 0 THEN (IF sym0 = ESC THEN 0 ELSE 1) ELSE ESC) ELSE sym0
         xe == IF needEsc /\ xg.s.esc = 0 THEN [xg EXCEPT !.s.esc = sym0] ELSE xg
         w == PlainSendF(xe, sym) IN
     IF w.res = RC_OK
     THEN [x |-> w.x, res |-> RC_CONTINUE, timeout |-> IF state = BS_ready THEN BusAcquireTimeout ELSE SEND_TIMEOUT, sent |-> sym]
     ELSE [x |-> SetStateF(w.x, BS_skip, w.res, FALSE), res |-> w.res, timeout |-> SYN_TIMEOUT, sent |-> ESC]
  ELSE [x |-> xg, res |-> RC_OK, timeout |-> timeout, sent |-> ESC]

(***************************************************************************)
(* handleReceive -> [x, res]                                               *)
(***************************************************************************)
(* the part of handleReceive after the arbitration switch, for a received symbol (result >= OK) *)
HandleSymbolF(x0, result, recvSymbol0, sending, sentSymbol0) ==
  LET x1 == [x0 EXCEPT !.lr = x0.sec]          \* m_lastReceive = now
      s1 == x1.s IN
  IF recvSymbol0 = SYN /\ s1.state # BS_sendSyn THEN
     LET rl == IF result = RC_CONTINUE THEN (IF s1.remainLock = 0 THEN 1 ELSE s1.remainLock)   \* more data already buffered
               ELSE IF ~sending THEN
                    (IF s1.remainLock > 0 /\ Len(s1.cmd) # 1 THEN s1.remainLock - 1
                     ELSE IF s1.remainLock = 0 /\ Len(s1.cmd) = 1 THEN 1      \* SYN / address / SYN
                     ELSE s1.remainLock)
               ELSE s1.remainLock IN
     \* a SYN always ends the exchange of the current request (fix "a SYN that arrives together with further data ...")
     LET quiet == s1.state = BS_skip \/ (rl > 0 /\ s1.cur = -1) IN
     [x |-> SetStateF([x1 EXCEPT !.s.remainLock = rl], BS_ready, IF quiet THEN result ELSE RC_ERR_SYN, FALSE),
      res |-> IF quiet THEN result ELSE RC_ERR_SYN]
  ELSE IF sending /\ s1.state # BS_ready /\ recvSymbol0 # sentSymbol0 THEN
     [x |-> SetStateF(x1, BS_skip, RC_ERR_SYMBOL, FALSE), res |-> RC_ERR_SYMBOL]
  ELSE
  LET x2 == IF s1.state \in {BS_ready, BS_recvCmd, BS_recvRes, BS_sendCmd, BS_sendRes}
            THEN [x1 EXCEPT !.s.crc = UpdateCrc(recvSymbol0, @)] ELSE x1
      esc == x2.s.esc IN
  (* escape / unescape *)
  IF esc # 0 /\ sending /\ sentSymbol0 = ESC THEN [x |-> x2, res |-> result]
  ELSE IF esc # 0 /\ ~sending /\ recvSymbol0 > 1 THEN [x |-> SetStateF(x2, BS_skip, RC_ERR_ESC, FALSE), res |-> RC_ERR_ESC]
  ELSE IF esc = 0 /\ ~sending /\ recvSymbol0 = ESC THEN [x |-> [x2 EXCEPT !.s.esc = ESC], res |-> result]
  ELSE
  LET recvSymbol == IF esc # 0 THEN (IF sending THEN esc ELSE IF recvSymbol0 = 0 THEN ESC ELSE SYN) ELSE recvSymbol0
      sentSymbol == IF esc # 0 /\ sending THEN esc ELSE sentSymbol0
      x3 == [x2 EXCEPT !.s.esc = 0]
      s == x3.s
      st == s.state
      Ret(y, state, res) == [x |-> SetStateF(y, state, res, FALSE), res |-> res]
      RetRep(y, state, res) == [x |-> SetStateF(y, state, res, TRUE), res |-> res]
      curMaster == ReqMaster(s.cur) IN
  CASE st = BS_noSignal -> Ret(x3, BS_skip, result)
    [] st = BS_skip -> [x |-> x3, res |-> result]
    [] st = BS_ready ->
         IF s.cur # -1 /\ sending /\ recvSymbol = sentSymbol
         THEN Ret([x3 EXCEPT !.s.pos = 1, !.s.repeat = 0], BS_sendCmd, result)       \* arbitration successful
         ELSE LET x4 == IF s.cur # -1 /\ sending     \* arbitration lost
                        THEN LET rl0 == IF IsMaster(recvSymbol) THEN 2 ELSE 1
                                 rl == IF (recvSymbol % 16) # (sentSymbol % 16) /\ s.lockCount > rl0 THEN s.lockCount ELSE rl0 IN
                             SetStateF([x3 EXCEPT !.s.remainLock = rl], BS_ready, RC_ERR_BUS_LOST, FALSE)
                        ELSE x3 IN
              IF ~IsMaster(recvSymbol) THEN Ret(x4, BS_skip, RC_ERR_INVALID_ADDR)
              ELSE Ret([x4 EXCEPT !.s.cmd = Append(@, recvSymbol), !.s.repeat = 0], BS_recvCmd, result)
    [] st = BS_recvCmd ->
         IF (Len(s.cmd) = 0 /\ ~IsMaster(recvSymbol)) \/ (Len(s.cmd) = 1 /\ ~ValidAddress(recvSymbol, TRUE))
         THEN Ret(x3, BS_skip, RC_ERR_INVALID_ADDR)
         ELSE LET x4 == [x3 EXCEPT !.s.cmd = Append(@, recvSymbol)] IN
              IF IsComplete(x4.s.cmd, 4) THEN Ret(x4, BS_recvCmdCrc, result) ELSE [x |-> x4, res |-> result]
    [] st = BS_recvCmdCrc ->
         LET valid == recvSymbol = s.crc
             x4 == [x3 EXCEPT !.s.crcValid = B2I(valid)] IN
         IF At(s.cmd, 1) = BROADCAST
         THEN IF valid THEN Ret(MessageCompletedF(AddSeenF(x4, At(s.cmd, 0))), BS_skip, result) ELSE Ret(x4, BS_skip, RC_ERR_CRC)
         ELSE IF valid
              THEN LET g == GetAnswerF(AddSeenF(x4, At(s.cmd, 0))) IN
                   Ret([g.x EXCEPT !.s.answering = B2I(g.found)], IF g.found THEN BS_sendCmdAck ELSE BS_recvCmdAck, result)
              ELSE IF s.repeat = 1 THEN Ret(x4, BS_skip, RC_ERR_CRC)
              ELSE Ret(x4, BS_recvCmdAck, RC_ERR_CRC)
    [] st = BS_recvCmdAck ->
         IF recvSymbol = ACK THEN
            IF s.crcValid = 0 THEN Ret(x3, BS_skip, RC_ERR_ACK)
            ELSE IF s.cur # -1 THEN
               (IF IsMaster(At(curMaster, 1)) THEN Ret(MessageCompletedF(x3), BS_sendSyn, result)
                ELSE Ret([x3 EXCEPT !.s.repeat = 0], BS_recvRes, result))
            ELSE LET xg == [x3 EXCEPT !.s.cmd = GrowTo(@, 2)] IN       \* m_command[1]: non-const operator[]
                 IF IsMaster(xg.s.cmd[2]) THEN Ret(MessageCompletedF(xg), BS_skip, result)
                 ELSE Ret([xg EXCEPT !.s.repeat = 0], BS_recvRes, result)
         ELSE IF recvSymbol = NAK THEN
            IF s.repeat = 0
            THEN LET x4 == [x3 EXCEPT !.s.repeat = 1, !.s.crc = 0, !.s.pos = 0, !.s.cmd = <<>>] IN
                 IF s.cur # -1 THEN RetRep(x4, BS_sendCmd, RC_ERR_NAK) ELSE Ret(x4, BS_recvCmd, RC_ERR_NAK)
            ELSE Ret(x3, BS_skip, RC_ERR_NAK)
         ELSE Ret(x3, BS_skip, RC_ERR_ACK)
    [] st = BS_recvRes ->
         LET x4 == [x3 EXCEPT !.s.res = Append(@, recvSymbol)] IN
         IF IsComplete(x4.s.res, 0) THEN Ret(x4, BS_recvResCrc, result) ELSE [x |-> x4, res |-> result]
    [] st = BS_recvResCrc ->
         LET valid == recvSymbol = s.crc
             x4 == [x3 EXCEPT !.s.crcValid = B2I(valid)] IN
         IF valid THEN Ret(x4, IF s.cur # -1 THEN BS_sendResAck ELSE BS_recvResAck, result)
         ELSE IF s.repeat = 1 THEN (IF s.cur # -1 THEN Ret(x4, BS_sendSyn, RC_ERR_CRC) ELSE Ret(x4, BS_skip, RC_ERR_CRC))
         ELSE IF s.cur # -1 THEN RetRep(x4, BS_sendResAck, RC_ERR_CRC)
         ELSE Ret(x4, BS_recvResAck, RC_ERR_CRC)
    [] st = BS_recvResAck ->
         IF recvSymbol = ACK THEN
            IF s.crcValid = 0 THEN Ret(x3, BS_skip, RC_ERR_ACK) ELSE Ret(MessageCompletedF(x3), BS_skip, result)
         ELSE IF recvSymbol = NAK THEN
            IF s.repeat = 0
            THEN IF s.answering = 1 THEN RetRep([x3 EXCEPT !.s.repeat = 1, !.s.pos = 0], BS_sendRes, RC_ERR_NAK)
                 ELSE RetRep([x3 EXCEPT !.s.repeat = 1, !.s.res = <<>>], BS_recvRes, RC_ERR_NAK)
            ELSE Ret(x3, BS_skip, RC_ERR_NAK)
         ELSE Ret(x3, BS_skip, RC_ERR_ACK)
    [] st = BS_sendCmd ->
         IF ~sending \/ s.cur = -1 THEN Ret(x3, BS_skip, RC_ERR_INVALID_ARG)
         ELSE LET x4 == [x3 EXCEPT !.s.pos = @ + 1] IN
              IF x4.s.pos >= Len(curMaster) THEN Ret(x4, BS_sendCmdCrc, result) ELSE [x |-> x4, res |-> result]
    [] st = BS_sendCmdCrc ->
         (* m_currentRequest is dereferenced without a check here; S is undefined (TLC error) where the code would crash *)
         IF At(curMaster, 1) = BROADCAST THEN Ret(MessageCompletedF(x3), BS_sendSyn, result)
         ELSE Ret([x3 EXCEPT !.s.crcValid = 1], BS_recvCmdAck, result)
    [] st = BS_sendResAck ->
         IF ~sending \/ s.cur = -1 THEN Ret(x3, BS_skip, RC_ERR_INVALID_ARG)
         ELSE IF s.crcValid = 0 THEN
            (IF s.repeat = 0 THEN RetRep([x3 EXCEPT !.s.repeat = 1, !.s.res = <<>>], BS_recvRes, RC_ERR_NAK)
             ELSE Ret(x3, BS_sendSyn, RC_ERR_ACK))
         ELSE Ret(MessageCompletedF(x3), BS_sendSyn, result)
    [] st = BS_sendCmdAck ->
         IF ~sending \/ s.answering = 0 THEN Ret(x3, BS_skip, RC_ERR_INVALID_ARG)
         ELSE IF s.crcValid = 0 THEN
            (IF s.repeat = 0 THEN RetRep([x3 EXCEPT !.s.repeat = 1, !.s.crc = 0, !.s.cmd = <<>>], BS_recvCmd, RC_ERR_NAK)
             ELSE Ret(x3, BS_skip, RC_ERR_ACK))
         ELSE IF IsMaster(At(s.cmd, 1)) THEN Ret(MessageCompletedF(x3), BS_skip, result)
         ELSE Ret([x3 EXCEPT !.s.pos = 0, !.s.repeat = 0], BS_sendRes, result)
    [] st = BS_sendRes ->
         IF ~sending \/ s.answering = 0 THEN Ret(x3, BS_skip, RC_ERR_INVALID_ARG)
         ELSE LET x4 == [x3 EXCEPT !.s.pos = @ + 1] IN
              IF x4.s.pos >= Len(s.res) THEN Ret(x4, BS_sendResCrc, result) ELSE [x |-> x4, res |-> result]
    [] st = BS_sendResCrc ->
         IF ~sending \/ s.answering = 0 THEN Ret(x3, BS_skip, RC_ERR_INVALID_ARG) ELSE Ret(x3, BS_recvResAck, result)
    [] st = BS_sendSyn ->
         IF ~sending THEN Ret(x3, BS_ready, RC_ERR_INVALID_ARG) ELSE Ret(x3, BS_ready, result)

HandleReceiveF(x, timeout, sending0, sentSymbol0) ==
  LET r1 == PlainRecvF(x, timeout, "none", 0)       \* recvSymbol is uninitialised: 0 stands for "whatever", never used when result < OK
      s1 == r1.x.s
      autoSyn == ~sending0 /\ ~ReadOnly /\ r1.res = RC_ERR_TIMEOUT /\ s1.genSyn > 0 /\ timeout >= s1.genSyn
                 /\ s1.state \in {BS_noSignal, BS_skip} IN
  (* acting as AUTO-SYN generator *)
  IF autoSyn /\ PlainSendF(r1.x, SYN).res # RC_OK
  THEN LET w == PlainSendF(r1.x, SYN) IN [x |-> SetStateF(w.x, BS_skip, w.res, FALSE), res |-> w.res]
  ELSE
  LET r2 == IF autoSyn THEN PlainRecvF(PlainSendF(r1.x, SYN).x, SEND_TIMEOUT, r1.arb, ESC) ELSE r1 IN
  IF autoSyn /\ r2.res < RC_OK THEN [x |-> SetStateF(r2.x, BS_noSignal, r2.res, FALSE), res |-> r2.res]
  ELSE IF autoSyn /\ r2.sym # SYN THEN [x |-> SetStateF(r2.x, BS_noSignal, r2.res, FALSE), res |-> r2.res]
  ELSE
  LET xa == IF autoSyn
            THEN SetStateF([r2.x EXCEPT !.s.genSyn = SYN_INTERVAL, !.s.remainLock = 0], BS_ready, RC_OK, FALSE)
            ELSE r2.x
      sentAutoSyn == autoSyn
      result == r2.res
      recvSymbol == r2.sym
      arb == r2.arb
      sa == xa.s
      (* switch (arbitrationState) -> [x, sending, sentSymbol] *)
      TakeHead(y) == IF y.s.cur = -1 /\ QPeek(y.s.nextq) # -1      \* force the failed request to be notified
                     THEN [y EXCEPT !.s.cur = QPeek(y.s.nextq), !.s.nextq = QRemove(@, QPeek(y.s.nextq))] ELSE y
      sw == CASE arb \in {"lost", "timeout"} ->
                   LET y == TakeHead(xa)
                       z == IF arb = "lost" /\ y.s.cur # -1
                            THEN LET rl0 == IF IsMaster(recvSymbol) THEN 2 ELSE 1
                                     rl == IF (recvSymbol % 16) # (At(ReqMaster(y.s.cur), 0) % 16) /\ y.s.lockCount > rl0
                                           THEN y.s.lockCount ELSE rl0 IN
                                 [y EXCEPT !.s.remainLock = rl]
                            ELSE y IN
                   [x |-> SetStateF(z, z.s.state, RC_ERR_BUS_LOST, FALSE), sending |-> sending0, sent |-> sentSymbol0]
              [] arb = "won" ->
                   IF sa.cur # -1 THEN [x |-> SetStateF(xa, BS_ready, RC_OK, FALSE), sending |-> sending0, sent |-> sentSymbol0]
                   ELSE LET start == QPeek(sa.nextq) IN
                        IF sa.state # BS_ready \/ start = -1
                        THEN [x |-> SetStateF(xa, BS_ready, RC_ERR_TIMEOUT, FALSE), sending |-> sending0, sent |-> sentSymbol0]
                        ELSE [x |-> [xa EXCEPT !.s.cur = start, !.s.nextq = QRemove(@, start)], sending |-> TRUE,
                              sent |-> At(ReqMaster(start), 0)]
              [] arb = "error" ->
                   LET y == TakeHead(xa) IN
                   [x |-> IF y.s.cur # -1 THEN SetStateF(y, y.s.state, RC_ERR_BUS_LOST, FALSE) ELSE y, sending |-> sending0, sent |-> sentSymbol0]
              [] OTHER -> [x |-> xa, sending |-> sending0, sent |-> sentSymbol0] IN      \* running, none, start
  IF sentAutoSyn /\ ~sw.sending THEN [x |-> sw.x, res |-> result]
  ELSE IF result < RC_OK THEN
     (* at least one full second has passed since the last received symbol, or already without signal *)
     IF (sw.x.s.genSyn # SYN_INTERVAL /\ sw.x.sec - sw.x.lr > 1) \/ sw.x.s.state = BS_noSignal
     THEN [x |-> SetStateF(sw.x, BS_noSignal, result, FALSE), res |-> result]
     ELSE [x |-> SetStateF(sw.x, BS_skip, result, FALSE), res |-> result]
  ELSE HandleSymbolF(sw.x, result, recvSymbol, sw.sending, sw.sent)

(***************************************************************************)
(* run() loop body as the harness steps it (VerifAccess::iter)             *)
(***************************************************************************)
RECURSIVE RecvLoopF(_, _, _, _)
RecvLoopF(x, timeout, sent, sentSymbol) ==      \* do { handleReceive } while (result == RESULT_CONTINUE), no send in between
  LET hr == HandleReceiveF(x, timeout, sent, sentSymbol) IN
  IF hr.res = RC_CONTINUE THEN RecvLoopF(hr.x, 0, FALSE, sentSymbol) ELSE hr.x

RunIterF(x) ==
  IF x.s.valid = 1 /\ x.s.reconnect = 0
  THEN LET hs == HandleSendF(x) IN
       IF hs.res >= RC_OK THEN RecvLoopF(hs.x, hs.timeout, hs.res = RC_CONTINUE, hs.sent) ELSE hs.x
  ELSE LET x1 == IF x.s.valid = 0 THEN SetStateF(x, BS_noSignal, RC_ERR_DEVICE, FALSE) ELSE x
           op == TransportOpenF([x1 EXCEPT !.s.reconnect = 0]) IN
       IF op.res = RC_OK THEN op.x     \* initialSend is off in the harness
       ELSE SetStateF(op.x, BS_noSignal, op.res, FALSE)

(***************************************************************************)
(* harness: client side (waiter) and the step as a whole                   *)
(***************************************************************************)
(* Queue::remove(request) by the waiter + what the harness does with the result *)
PollFinishedF(x, r) ==
  IF QHas(x.s.finq, r)
  THEN [XEv([x EXCEPT !.s.finq = QRemove(@, r)], <<"fin", r, x.s.rresult[r + 1], x.s.rslave[r + 1]>>)
         EXCEPT !.s.rstatus[r + 1] = 0, !.s.rresult[r + 1] = 0, !.s.rslave[r + 1] = <<>>]
  ELSE x
RECURSIVE AutoPollF(_, _)
AutoPollF(x, r) ==
  IF r >= NReq THEN x
  ELSE AutoPollF(IF ReqKind(r) # 1 /\ x.s.rstatus[r + 1] = 2 THEN PollFinishedF(x, r) ELSE x, r + 1)

(* tokens: [kind |-> "step" | "sub" | "poll" | "reconnect", r, w, e, ex, d, dv, cb, of] *)
TokDefault == [kind |-> "step", r |-> 0, w |-> FALSE, e |-> "s", ex |-> 0, d |-> "to", dv |-> <<>>, cb |-> -1, of |-> FALSE]

XInit(st, tok) == [s |-> st, ev |-> <<>>, tok |-> tok, eu |-> FALSE, du |-> FALSE, cu |-> FALSE, wu |-> FALSE,
                   echoT |-> Trk0, echoW |-> 0, sec |-> 0, lr |-> 0 - st.age, ub |-> FALSE]

(* age as the projection shows it: min(time() - m_lastReceive, 2) *)
XFinish(x) == [x EXCEPT !.s.age = Min2(x.sec - x.lr, 2)]

(* applicability of a token as in execToken / cmdGraph *)
TokApplicable(st, tok) ==
  CASE tok.kind = "sub" -> CanSubmit(st, tok.r)
    [] tok.kind = "poll" -> ReqKind(tok.r) # 1 /\ st.rstatus[tok.r + 1] \in {1, 2}
    [] OTHER -> TRUE

(* the machine after one harness edge *)
StepX(st, tok) ==
  LET x == XInit(st, tok) IN
  CASE tok.kind = "sub" -> DoSubmitF(x, tok.r, "sub")
    [] tok.kind = "poll" -> IF QHas(st.finq, tok.r) THEN PollFinishedF(x, tok.r) ELSE XEv(x, <<"nofin", tok.r>>)
    [] tok.kind = "reconnect" -> XEv([x EXCEPT !.s.reconnect = 1], <<"reconnect">>)
    [] OTHER -> LET y == RunIterF(x) IN XFinish(IF PC.autopoll = 1 THEN AutoPollF(y, 0) ELSE y)

(* StepF: post-state and events exactly as the harness logs them; the consultation record is for the environment (MC) *)
StepF(st, tok) == LET x == StepX(st, tok) IN
  [post |-> x.s, ev |-> x.ev, ub |-> x.ub, eu |-> x.eu, du |-> x.du, cu |-> x.cu, wu |-> x.wu, echoT |-> x.echoT, echoW |-> x.echoW]

(***************************************************************************)
(* initial state: the objects right after construct() of the harness       *)
(***************************************************************************)
InitState ==
  [state |-> BS_noSignal, esc |-> 0, crc |-> 0, crcValid |-> 0, repeat |-> 0, pos |-> 0, cur |-> -1, answering |-> 0,
   remainLock |-> IF PC.lock = 0 THEN 1 ELSE 0, lockCount |-> IF PC.lock <= 3 THEN 3 ELSE PC.lock,
   genSyn |-> IF PC.gensyn = 1 THEN 10 * MasterNumber(PC.own) + SYN_TIMEOUT ELSE 0,
   lstate |-> PS_noSignal, masters |-> IF ReadOnly THEN 0 ELSE 1, conflict |-> 0, age |-> 2, reconnect |-> 0,
   arbMaster |-> SYN, arbCheck |-> 0, valid |-> 1, armed |-> SYN, enhResetAge |-> 0, enhResetRequested |-> 0, enhFeatures |-> 0,
   enhInfoLen |-> 0, enhInfoPos |-> 0, trk |-> Trk0, cmd |-> <<>>, res |-> <<>>, buf |-> <<>>, org |-> <<>>, seen |-> <<>>,
   nextq |-> <<>>, finq |-> <<>>, rstatus |-> [k \in 1..NReq |-> 0], rretries |-> [k \in 1..NReq |-> 0],
   rrestarts |-> [k \in 1..NReq |-> PC.reqs[k].restarts], rresult |-> [k \in 1..NReq |-> 0], rslave |-> [k \in 1..NReq |-> <<>>]]
=============================================================================
