------------------------------ MODULE C19Gen ------------------------------
(* Emits the C19 cases: field lists with all their quoted writings, and abstract definition sets *)
(* with the configuration text of the specification (canonical and user style).                  *)
EXTENDS Csv, TLC, Json, IOUtils

Thorough == IOEnv.VF_TIER = "thorough"
ASSUME LemmaQuoteSplit({<<>>} \cup {<<x>> : x \in TextsUpTo(3)} \cup {<<x, y>> : x \in TextsUpTo(2), y \in TextsUpTo(2)})
ASSUME LemmaDumpSplit(DefSets(FALSE))
ASSUME \A D \in DefSets(Thorough) : \A k \in 1..Len(D) : ValidMsg(D[k])

SplitCases == SetToSeq({[k |-> "split", fields |-> fs, lines |-> SetToSeq(Lines(fs))] : fs \in FieldLists(Thorough) \ {<<>>}})
DefCases == SetToSeq({[k |-> "defs", D |-> D, canon |-> DumpText(D), alt |-> AltText(D)] : D \in DefSets(Thorough)})
ASSUME ndJsonSerialize(IOEnv.VF_OUT, SplitCases \o DefCases)
ASSUME PrintT(<<"VF", "GEN", Len(SplitCases), Len(DefCases), Cardinality(SetsA), Cardinality(SetsB),
                Cardinality(SetsC(IF Thorough THEN 4 ELSE 3)), Cardinality(SetsD), Cardinality(SetsE)>>)
=============================================================================
