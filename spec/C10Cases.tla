------------------------------ MODULE C10Cases ------------------------------
(* Specification -> implementation: the bounded domain of field sequences, defined here and  *)
(* emitted by TLC (one JSON line per sequence) as the case file the harness replays on the   *)
(* real DataFieldSet.  One state = one field sequence with P's fold result(s).               *)
(* Domain = all P-specified sequences that fit a shape of C10Domain (per tier).              *)
(* Every case carries P's admissible ownership maps; the lemmas about P are invariants here. *)
EXTENDS C10Domain, Json, SequencesExt

VarN == 2                       \* bytes given to the variable-length field in the cases

VARIABLES fs, runs              \* the sequence and its admissible runs (one, or more in the unspecified case)
Init == fs = <<>> /\ runs = {Run0}

Append1(ki, p) ==
  LET f == [k |-> ki, p |-> p] IN
  /\ \A run \in runs : PSpecified(run.st[p], Kinds[ki])
  /\ fs' = Append(fs, f)
  /\ runs' = UNION {ExtendRun(run, f, VarN) : run \in runs}
Next == \E ki \in 1..NK, p \in Parts : InShape(Append(fs, [k |-> ki, p |-> p])) /\ Append1(ki, p)

Triples(run) == [i \in 1..Len(run.own) |-> <<run.own[i].b, run.own[i].n, Mask(run.own[i].bits)>>]
Alt(run) == [own |-> Triples(run),
             len |-> <<PLength(run, "m"), PLength(run, "s")>>,
             fix |-> <<PFixedOf(run, "m", VarN), PFixedOf(run, "s", VarN)>>]
CaseRec ==
  [k |-> [i \in 1..Len(fs) |-> fs[i].k],
   t |-> [i \in 1..Len(fs) |-> Kinds[fs[i].k].t],
   p |-> [i \in 1..Len(fs) |-> fs[i].p],
   alts |-> SetToSeq({Alt(run) : run \in runs})]

Emit == fs = <<>> \/ PrintT(ToJson(CaseRec))
(* lemmas about P, for every admissible map: disjoint ownership, no byte without owner, length = *)
(* bytes spanned, full-byte fields directly behind the fields before them, the incremental fold  *)
(* equals the definition, the choices differ in the map, and (action property) appending a field *)
(* never moves an earlier one                                                                     *)
Lemmas == /\ \A run \in runs : PLemmas(fs, run) /\ run.ok
          /\ runs = PRuns(fs, VarN)
          /\ Cardinality({run.own : run \in runs}) = Cardinality(runs)
PrefixStable == [][\A r2 \in runs' : \E r1 \in runs : \A i \in 1..Len(fs) : r2.own[i] = r1.own[i] /\ fs'[i] = fs[i]]_<<fs, runs>>
=============================================================================
