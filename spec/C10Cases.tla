------------------------------ MODULE C10Cases ------------------------------
(* Specification -> implementation: the bounded domain of field sequences, defined here and  *)
(* emitted by TLC (one JSON line per sequence) as the case file the harness replays on the   *)
(* real DataFieldSet.  One state = one field sequence with P's fold result.                  *)
(* Domain = all P-specified sequences that fit a shape of C10Domain (per tier).              *)
(* Every case carries P's ownership map; the lemmas about P are invariants of this machine.  *)
EXTENDS C10Domain, Json

VarN == 2                       \* bytes given to the variable-length field in the cases

VARIABLES fs, run
Init == fs = <<>> /\ run = PRun(<<>>, VarN)

Append1(ki, p) ==
  LET k == Kinds[ki]
      pl == PPlace(run.st[p], k, VarN)
  IN /\ PSpecified(run.st[p], k)
     /\ fs' = Append(fs, [k |-> ki, p |-> p])
     /\ run' = [own |-> Append(run.own, [p |-> p, b |-> pl.b, n |-> pl.n, bits |-> pl.bits]),
                st |-> [run.st EXCEPT ![p] = pl.st], ok |-> TRUE,
                rsShare |-> run.rsShare \/ (run.st[p].rs /\ PShares(run.st[p], k))]
Next == \E ki \in 1..NK, p \in Parts : InShape(Append(fs, [k |-> ki, p |-> p])) /\ Append1(ki, p)

PFixedOf(p) == IF run.st[p].closed THEN run.st[p].next - VarN ELSE run.st[p].next
CaseRec ==
  [k |-> [i \in 1..Len(fs) |-> fs[i].k],
   t |-> [i \in 1..Len(fs) |-> Kinds[fs[i].k].t],
   p |-> [i \in 1..Len(fs) |-> fs[i].p],
   len |-> <<PLength(run, "m"), PLength(run, "s")>>,
   fix |-> <<PFixedOf("m"), PFixedOf("s")>>,
   own |-> [i \in 1..Len(fs) |-> <<run.own[i].b, run.own[i].n, Mask(run.own[i].bits)>>],
   rs |-> IF run.rsShare THEN 1 ELSE 0]

Emit == fs = <<>> \/ PrintT(ToJson(CaseRec))
(* lemmas about P: disjoint ownership, no byte without owner, length = bytes spanned, full-byte *)
(* fields directly behind their predecessor, the incremental fold equals the definition, and     *)
(* (action property) appending a field never moves an earlier one                                *)
Lemmas == PLemmas(fs, run) /\ run = PRun(fs, VarN) /\ \A p \in Parts : PFixedOf(p) = PFixed(fs, p)
PrefixStable == [][\A i \in 1..Len(fs) : run'.own[i] = run.own[i] /\ fs'[i] = fs[i]]_<<fs, run>>
=============================================================================
