CONSTANT SGuardAfter = FALSE
CONSTANT Tier = "thorough"
INIT Init
NEXT Next
INVARIANT Judge
