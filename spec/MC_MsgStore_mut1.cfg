SPECIFICATION MCSpec
CONSTANTS
  NP = 3
  Gaps = {0, 1, 16, 50}
  MaxEvents = 5
  Flows = {"seen", "active"}
  Mut = 1
INVARIANT CombWellFormed
PROPERTY StepAllowed
PROPERTY NoStaleCombination
