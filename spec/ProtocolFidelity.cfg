INIT Init
NEXT Next
INVARIANT Judge
INVARIANT NoteUb
