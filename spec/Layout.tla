------------------------------- MODULE Layout -------------------------------
(* C10 - fields of a message are laid out as defined and do not influence each other.         *)
(*                                                                                            *)
(* P  = `Own': a fold over the field sequence that gives every field a set of (byte, bit)     *)
(*      positions inside the data of its message part.  Written from the property text and    *)
(*      the documented use of the bit types, not from the code.                               *)
(* S  = transcription of the three independent implementations of the offset bookkeeping in   *)
(*      src/lib/ebus/data.cpp (DataFieldSet::getLength / read / write, all of them driven by  *)
(*      SingleDataField::hasFullByteOffset(after, previousFirstBit)).                         *)
(* LayoutMC.tla: state machine TLC explores to a fix-point to show S => P for field sequences *)
(* of *any* length.  C10Cases.tla: bounded enumeration of field sequences sent to the real    *)
(* code.  C10Judge.tla: judges what the real code did with them.                              *)
EXTENDS Integers, Sequences, FiniteSets, TLC

Parts == {"m", "s"}            \* master data / slave data: two separate byte strings

(* ---------------------------------------------------------------------------------------- *)
(* Field kinds (the alphabet).  n = bytes of a full-byte kind; fb/nb = first bit and number   *)
(* of bits of a bit kind (nb = 0: not a bit kind); var = takes the remainder of the part;     *)
(* ign = never decoded; exact = encoding can reach every owned bit (so the bits found by      *)
(* varying the value must be the whole owned set, not only a subset of it).                   *)
(* ---------------------------------------------------------------------------------------- *)
KD(t, n, fb, nb, var, ign, exact) ==
  [t |-> t, n |-> n, fb |-> fb, nb |-> nb, var |-> var, ign |-> ign, exact |-> exact]
Kinds == <<
  KD("UCH",   1, 0, 0, FALSE, FALSE, TRUE),
  KD("UIN",   2, 0, 0, FALSE, FALSE, TRUE),
  KD("D2C",   2, 0, 0, FALSE, FALSE, TRUE),
  KD("BCD",   1, 0, 0, FALSE, FALSE, TRUE),
  KD("BI0:1", 1, 0, 1, FALSE, FALSE, TRUE),
  KD("BI1:2", 1, 1, 2, FALSE, FALSE, TRUE),
  KD("BI3:3", 1, 3, 3, FALSE, FALSE, TRUE),
  KD("BI7",   1, 7, 1, FALSE, FALSE, TRUE),
  KD("BI0:7", 1, 0, 7, FALSE, FALSE, TRUE),
  KD("IGN:1", 1, 0, 0, FALSE, TRUE,  FALSE),
  KD("STR:2", 2, 0, 0, FALSE, FALSE, FALSE),
  KD("HDA:3", 3, 0, 0, FALSE, FALSE, FALSE),
  KD("TTM",   1, 0, 0, FALSE, FALSE, TRUE),
  KD("HEX:*", 0, 0, 0, TRUE,  FALSE, TRUE),
  KD("HEX:2", 2, 0, 0, FALSE, FALSE, TRUE) >>   \* (sets the stream to hex: formatting of a following field must not care)
NK == Len(Kinds)
IsBit(k) == k.nb > 0
LastBit(k) == k.fb + k.nb - 1
AllBits == 0..7
Pow2(j) == CASE j = 0 -> 1 [] j = 1 -> 2 [] j = 2 -> 4 [] j = 3 -> 8 [] j = 4 -> 16 [] j = 5 -> 32 [] j = 6 -> 64 [] j = 7 -> 128
RECURSIVE Mask(_)               \* set of bit numbers -> integer mask (records carry masks)
Mask(S) == IF S = {} THEN 0 ELSE LET x == CHOOSE x \in S : TRUE IN Pow2(x) + Mask(S \ {x})
BitsOf(m) == {j \in AllBits : (m \div Pow2(j)) % 2 = 1}

(* ======================================== P ============================================== *)
(* Per message part the fold keeps: next = number of bytes spanned so far; used = the bits      *)
(* already owned in byte next-1 while that byte is still open, i.e. the predecessor is a bit    *)
(* field that ended below bit 7 ({} otherwise); pf = first bit of that predecessor; closed = a  *)
(* variable-length field was placed (it must be the last one of its part); rs = the predecessor *)
(* was itself placed by the same-first-bit rule ("restart").                                    *)
PInit == [next |-> 0, used |-> {}, pf |-> -1, closed |-> FALSE, rs |-> FALSE]
KBits(k) == k.fb..LastBit(k)
MaxBit(S) == CHOOSE x \in S : \A y \in S : y <= x

(* What the property text / documentation say about a bit field behind an open bit field:       *)
(*  - it repeats the predecessor's first bit          => it starts a new byte;                  *)
(*  - it starts above everything used in the open byte => it shares that byte (ascending order, *)
(*    the documented use);                                                                      *)
(*  - its bits overlap bits already used in the open byte (and the first bit differs): nothing  *)
(*    sensible is defined - such successions are never generated;                               *)
(*  - UNSPECIFIED CASES: the text only says that bit fields *may* share a byte.  (a) descending *)
(*    or interleaving order: the bits are free in the open byte but do not lie above everything *)
(*    used there (e.g. BI3:3;BI0, BI4:2;BI0:4); (b) the predecessor itself started a new byte   *)
(*    because it repeated the first bit of *its* predecessor (third field of BI0;BI0;BI1).      *)
(*    P admits both placements (share / new byte).  Everything that does not depend on that     *)
(*    decision is still demanded: disjoint ownership, no byte without owner, length = bytes     *)
(*    spanned, getLength/read/write agreeing on one and the same placement, encoding touching   *)
(*    only owned bits, decoding depending only on owned bits, composition, round trip.          *)
(* So Own is a *set* of admissible ownership maps; it is a singleton except in (a) and (b).     *)
PSpecified(st, k) ==
  /\ ~st.closed
  /\ (IsBit(k) /\ st.used # {} /\ k.fb # st.pf) => KBits(k) \cap st.used = {}

PAbove(st, k) == IsBit(k) /\ st.used # {} /\ k.fb # st.pf /\ k.fb > MaxBit(st.used)
PAmbiguous(st, k) == IsBit(k) /\ st.used # {} /\ k.fb # st.pf /\ KBits(k) \cap st.used = {} /\ (st.rs \/ ~PAbove(st, k))
PShares(st, k) == PAbove(st, k) /\ ~st.rs
PChoices(st, k) == IF PAmbiguous(st, k) THEN {TRUE, FALSE} ELSE {PShares(st, k)}   \* share the byte?

(* place one field: result = owned positions [b = first byte, n = bytes, bits = bits in each   *)
(* of these bytes] and the new fold state.  varn = bytes the variable-length field holds.      *)
PPlace(st, k, varn, share) ==
  IF ~IsBit(k)
  THEN LET len == IF k.var THEN varn ELSE k.n IN
       [b |-> st.next, n |-> len, bits |-> AllBits,
        st |-> [next |-> st.next + len, used |-> {}, pf |-> -1, closed |-> k.var, rs |-> FALSE]]
  ELSE LET b == IF share THEN st.next - 1 ELSE st.next
           full == LastBit(k) = 7                  \* a field that ends at bit 7 completes the byte
       IN [b |-> b, n |-> 1, bits |-> KBits(k),
           st |-> [next |-> b + 1,
                   used |-> IF full THEN {} ELSE IF share THEN st.used \cup KBits(k) ELSE KBits(k),
                   pf |-> IF full THEN -1 ELSE k.fb, closed |-> FALSE,
                   rs |-> st.used # {} /\ k.fb = st.pf /\ ~full]]

(* a field sequence is a sequence of [k |-> kind index, p |-> part]; a run = one admissible     *)
(* ownership map with the fold states behind it (amb = an unspecified choice was made)          *)
Run0 == [own |-> <<>>, st |-> [p \in Parts |-> PInit], ok |-> TRUE, amb |-> FALSE]
ExtendRun(pre, f, varn) ==
  LET k == Kinds[f.k] IN
  {LET pl == PPlace(pre.st[f.p], k, varn, c) IN
   [own |-> Append(pre.own, [p |-> f.p, b |-> pl.b, n |-> pl.n, bits |-> pl.bits]),
    st |-> [pre.st EXCEPT ![f.p] = pl.st],
    ok |-> pre.ok /\ PSpecified(pre.st[f.p], k),
    amb |-> pre.amb \/ PAmbiguous(pre.st[f.p], k)] : c \in PChoices(pre.st[f.p], k)}
RECURSIVE PRuns(_, _)
PRuns(fs, varn) ==
  IF fs = <<>> THEN {Run0}
  ELSE UNION {ExtendRun(pre, fs[Len(fs)], varn) : pre \in PRuns(SubSeq(fs, 1, Len(fs) - 1), varn)}

Own(fs, varn) == {run.own : run \in PRuns(fs, varn)}   \* the admissible ownership maps
PLength(run, p) == run.st[p].next                  \* data length of part p = bytes spanned
PFixedOf(run, p, varn) == IF run.st[p].closed THEN run.st[p].next - varn ELSE run.st[p].next  \* ... with an empty variable field

Positions(o) == {<<o.p, b, j>> : b \in o.b..(o.b + o.n - 1), j \in o.bits}
MaxOf(E) == IF E = {} THEN 0 ELSE CHOOSE e \in E : \A x \in E : x <= e

(* lemmas about P itself (checked on every admissible map of every generated sequence) *)
PDisjoint(own) == \A i, j \in 1..Len(own) : i < j => Positions(own[i]) \cap Positions(own[j]) = {}
PNoByteGap(run) == \A p \in Parts : \A b \in 0..(PLength(run, p) - 1) :
                     \E i \in 1..Len(run.own) : run.own[i].p = p /\ b \in run.own[i].b..(run.own[i].b + run.own[i].n - 1)
PSpan(run) == \A p \in Parts :
                PLength(run, p) = MaxOf({run.own[i].b + run.own[i].n : i \in {x \in 1..Len(run.own) : run.own[x].p = p}})
PFullConsecutive(fs, run) ==      \* full-byte fields follow the fields before them without a gap
  \A i \in 1..Len(fs) : ~IsBit(Kinds[fs[i].k]) =>
     run.own[i].b = MaxOf({run.own[j].b + run.own[j].n : j \in {x \in 1..(i - 1) : fs[x].p = fs[i].p}})
PLemmas(fs, run) == PDisjoint(run.own) /\ PNoByteGap(run) /\ PSpan(run) /\ PFullConsecutive(fs, run)

(* ======================================== S ============================================== *)
(* SGuardAfter = FALSE transcribes the pinned tree: `firstBit == previousFirstBit' is also     *)
(* evaluated with after = true, so the field behind a same-first-bit restart starts a new byte *)
(* (and the one behind a second restart shares again).  TRUE models the variant                *)
(* `(!after && firstBit == previousFirstBit)', which always shares.  Both are admissible for P. *)
CONSTANT SGuardAfter

SLen(k) == IF k.var THEN 255 ELSE k.n              \* m_length (REMAIN_LEN = 255)

(* SingleDataField::hasFullByteOffset(after, previousFirstBit&) -> [ret, prev'] *)
HFO(k, after, prev) ==
  IF SLen(k) > 1 THEN [ret |-> TRUE, prev |-> IF after THEN -1 ELSE prev]
  ELSE LET fb == IF IsBit(k) THEN k.fb ELSE 0      \* getFirstBit() / 0 for non-numeric
           bc == k.nb                              \* getBitCount() % 8
           ret == \/ bc = 0
                  \/ (fb = prev /\ (~SGuardAfter \/ ~after))
                  \/ (after /\ fb + bc >= 8)
       IN [ret |-> ret, prev |-> IF after THEN (IF ret THEN -1 ELSE fb) ELSE prev]

SBits(k) == IF IsBit(k) THEN k.fb..(k.fb + k.nb - 1) ELSE AllBits   \* >> firstBit, & ((1<<bitCount)-1)

(* --- DataFieldSet::getLength(partType = q, maxLength) : arrays indexed by part type --- *)
GInit(max) == [len |-> 0, max |-> max, pfull |-> [p \in Parts |-> TRUE], pfirst |-> [p \in Parts |-> -1]]
GStep(g, k, p, q) ==
  IF p # q THEN g
  ELSE LET dec == ~g.pfull[q] /\ ~HFO(k, FALSE, g.pfirst[q]).ret
           len1 == IF dec THEN g.len - 1 ELSE g.len
           fl == IF k.var THEN g.max ELSE k.n
           h == HFO(k, TRUE, g.pfirst[q])
       IN [len |-> len1 + fl, max |-> IF fl >= g.max THEN 0 ELSE g.max - fl,
           pfull |-> [g.pfull EXCEPT ![q] = h.ret], pfirst |-> [g.pfirst EXCEPT ![q] = h.prev]]
RECURSIVE SGetLengthSt(_, _, _)
SGetLengthSt(fs, q, max) == IF fs = <<>> THEN GInit(max)
  ELSE GStep(SGetLengthSt(SubSeq(fs, 1, Len(fs) - 1), q, max), Kinds[fs[Len(fs)].k], fs[Len(fs)].p, q)
SGetLength(fs, q, max) == SGetLengthSt(fs, q, max).len

(* --- DataFieldSet::read(data of part q with size bytes, ...) --- *)
(* pos = where the field just handled was read: [b, n, bits] or NoPos (other part / error)    *)
NoPos == [b |-> -1, n |-> 0, bits |-> {}]
RInit == [off |-> 0, pfull |-> TRUE, pfirst |-> -1, err |-> FALSE, pos |-> NoPos]
RStep(r, k, p, q, size) ==
  IF p # q \/ r.err THEN [r EXCEPT !.pos = NoPos]
  ELSE LET dec == ~r.pfull /\ ~HFO(k, FALSE, r.pfirst).ret
           off1 == IF dec THEN r.off - 1 ELSE r.off
           need == IF k.var THEN 1 ELSE k.n
           h == HFO(k, TRUE, r.pfirst)
           len == IF k.var THEN size - off1 ELSE k.n          \* field->getLength(part, size - offset)
       IN IF off1 + need > size THEN [r EXCEPT !.err = TRUE, !.pos = NoPos]  \* RESULT_ERR_INVALID_POS
          ELSE [off |-> off1 + len, pfull |-> h.ret, pfirst |-> h.prev, err |-> FALSE,
                pos |-> [b |-> off1, n |-> len, bits |-> SBits(k)]]

(* --- DataFieldSet::write(..., data of part q) ; varn = bytes the variable field writes --- *)
WInit == [off |-> 0, pfull |-> TRUE, pfirst |-> -1, pos |-> NoPos]
WStep(w, k, p, q, varn) ==
  IF p # q THEN [w EXCEPT !.pos = NoPos]
  ELSE LET dec == ~w.pfull /\ ~HFO(k, FALSE, w.pfirst).ret
           off1 == IF dec THEN w.off - 1 ELSE w.off
           len == IF k.var THEN varn ELSE k.n                 \* usedLength of the field
           h == HFO(k, TRUE, w.pfirst)
       IN [off |-> off1 + len, pfull |-> h.ret, pfirst |-> h.prev,
           pos |-> [b |-> off1, n |-> len, bits |-> SBits(k)]]

(* fold forms: positions of every field as read / write compute them *)
RECURSIVE SReadRun(_, _, _)
SReadRun(fs, q, size) ==    \* [st, pos : Seq]
  IF fs = <<>> THEN [st |-> RInit, pos |-> <<>>]
  ELSE LET pre == SReadRun(SubSeq(fs, 1, Len(fs) - 1), q, size)
           st == RStep(pre.st, Kinds[fs[Len(fs)].k], fs[Len(fs)].p, q, size)
       IN [st |-> st, pos |-> Append(pre.pos, st.pos)]
RECURSIVE SWriteRun(_, _, _)
SWriteRun(fs, q, varn) ==
  IF fs = <<>> THEN [st |-> WInit, pos |-> <<>>]
  ELSE LET pre == SWriteRun(SubSeq(fs, 1, Len(fs) - 1), q, varn)
           st == WStep(pre.st, Kinds[fs[Len(fs)].k], fs[Len(fs)].p, q, varn)
       IN [st |-> st, pos |-> Append(pre.pos, st.pos)]

POwnPos(o) == [b |-> o.b, n |-> o.n, bits |-> o.bits]

(* S => P for one sequence: all three implementations give the positions and lengths of one  *)
(* and the same admissible map                                                                 *)
SConformsRun(fs, run, varn) ==
  \A q \in Parts :
    LET size == PLength(run, q)
        rr == SReadRun(fs, q, size)
        ww == SWriteRun(fs, q, varn)
    IN /\ SGetLength(fs, q, PFixedOf(run, q, varn)) = PFixedOf(run, q, varn)
       /\ ~run.st[q].closed => SGetLength(fs, q, 31) = size
       /\ ~rr.st.err /\ rr.st.off = size
       /\ ww.st.off = size
       /\ \A i \in 1..Len(fs) : fs[i].p = q =>
             /\ rr.pos[i] = POwnPos(run.own[i])
             /\ ww.pos[i] = POwnPos(run.own[i])
SConformsP(fs, varn) == \E run \in PRuns(fs, varn) : SConformsRun(fs, run, varn)

=============================================================================
