CONSTANT Mode = "doc"
CONSTANT MaxDepth = 4
INIT McInit
NEXT McNext
INVARIANT McOk
