------------------------------ MODULE ConfigLoadGen ------------------------------
(* Emits the files of ConfigLoadDomain as cases for harness/cfg_load.cpp (batches of cases per ndjson line). *)
EXTENDS ConfigLoadDomain, TLC, Json, IOUtils

Thorough == IOEnv.VF_TIER = "thorough"
All == SetToSeq(Files(Thorough))
B == 200
Batches == [b \in 1..((Len(All) + B - 1) \div B) |->
              [cases |-> [k \in 1..(IF b * B <= Len(All) THEN B ELSE Len(All) - (b - 1) * B) |->
                            [tpl |-> All[(b - 1) * B + k][1], msg |-> All[(b - 1) * B + k][2]]]]]
ASSUME ndJsonSerialize(IOEnv.VF_OUT, Batches)
ASSUME PrintT(<<"VF", "GEN", Len(All)>> \o FamilySizes(Thorough))
=============================================================================
