------------------------------ MODULE ConfigLoadGen ------------------------------
(* Emits the files of ConfigLoadDomain as cases for harness/cfg_load.cpp (batches of cases per ndjson line). *)
EXTENDS ConfigLoadDomain, TLC, Json, IOUtils

Thorough == IOEnv.VF_TIER = "thorough"
All == SetToSeq(Files(Thorough))
B == 200
Batches == [b \in 1..((Len(All) + B - 1) \div B) |->
              [cases |-> [k \in 1..(IF b * B <= Len(All) THEN B ELSE Len(All) - (b - 1) * B) |->
                            [tpl |-> All[(b - 1) * B + k][1], msg |-> All[(b - 1) * B + k][2]]]]]
(* lemmas about P itself (pure TLC): what must not matter does not matter, and defaults / templates mean what writing *)
(* the values out means - so that P cannot be vacuous (open or rejecting everywhere)                                  *)
LRows == HRows
Plain == LoadMessages(MsgFile(HComment, LRows), <<>>)
ASSUME Plain.kind = "ok" /\ Len(Plain.msgs) = 2 /\ Plain.msgs[1].circuit = x_c /\ Plain.msgs[2].circuit = x_d /\ Plain.msgs[2].prio = 3
ASSUME \A h \in {HBlank, HSlashes, HDefault, HUpper} : LoadMessages(MsgFile(h, LRows), <<>>) = Plain            \* header spelling
ASSUME \A d \in Decos : LoadMessages(Decorate(MsgFile(HComment, LRows), d), <<>>) = Plain                       \* comments, blank lines
ASSUME LoadMessages(MsgFileTrim(HComment, LRows), <<>>) = Plain                                                  \* trailing empty cells
ASSUME LET l == LoadMessages(MsgFile(HLevel, LRows), <<>>) IN                                                      \* level column
       l.kind = "ok" /\ l.msgs[1].level = x_lv /\ l.msgs[2].level = x_l2
ASSUME LET a == LoadMessages(MsgFile(HComment, <<BaseD, BaseR>>), <<>>)                                          \* defaults = written out
           b == LoadMessages(MsgFile(HComment, <<Row(FALSE, x_r, x_c, E, x_a, E, E, x_h08, x_b509, <<48, 100, 48, 49>>, <<Gf>>)>>), <<>>)
       IN a.kind = "ok" /\ a = b
ASSUME LET t == LoadTemplates(TplFile(<<TRow(x_t, TG(x_UCH, x_p10, x_v, x_k), <<>>)>>))                           \* template = written out
           a == LoadMessages(MsgFile(HComment, <<UseRow(<<G(x_f, E, x_t, E, E, E)>>)>>), t.T)
           b == LoadMessages(MsgFile(HComment, <<UseRow(<<G(x_f, E, x_UCH, x_p10, x_v, x_k)>>)>>), <<>>)
       IN t.kind = "ok" /\ a.kind = "ok" /\ a = b
ASSUME LET F == Files(Thorough)                                                                                  \* P decides most of the domain
           openT == {f \in F : LoadTemplates(f[1]).kind = "open"}
       IN Cardinality(openT) * 10 < Cardinality(F)
ASSUME ndJsonSerialize(IOEnv.VF_OUT, Batches)
ASSUME PrintT(<<"VF", "GEN", Len(All)>> \o FamilySizes(Thorough))
=============================================================================
