------------------------------ MODULE Commands ------------------------------
(* Growth specification: the semantics of the client commands read / write / find of ebusd beyond access     *)
(* control.  No listed property is about it: disagreements are reported as notes/drift, never as violations.   *)
(*                                                                                                            *)
(* Part P - written from the usage texts in mainloop.cpp (`read [-f] [-m SECONDS] [-s QQ] [-d ZZ] [-c CIRCUIT] *)
(*   [-p PRIO] [-v|-V] [-n|-N] [-i VALUE] NAME [FIELD[.N]]`, `write [-s QQ] [-d ZZ] -c CIRCUIT NAME [VALUE..]`,  *)
(*   `find [-v|-V] [-r] [-w] [-p] [-a] [-d] [-h] [-i ID] [-e] [-c CIRCUIT] [NAME]`): a monitor over observables  *)
(*   (answer text, telegrams on the bus, poll priorities) whose state is what MAY be cached: it is updated only   *)
(*   from the telegrams it saw.  Everything the usage text does not say stays open (which of several messages   *)
(*   of the same name is taken, passive vs active preference, verbose layout, order of a listing, error texts).  *)
(* Part S - the decisions of executeRead/executeWrite/executeFind as coded (mode "pinned") and as documented     *)
(*   (mode "doc"): message selection, cache/age decision, invalidation, exact texts and listing order.           *)
(* Part D - domain: small worlds (2-4 messages) and sessions (<= 4 commands with clock ticks) for the daemon.    *)
(* Texts are sequences of character codes.                                                                      *)
EXTENDS Naturals, Integers, Sequences, FiniteSets, TLC

T_ca == <<99, 97>>
T_cb == <<99, 98>>
T_cx == <<99, 120>>
T_temp == <<116, 101, 109, 112>>
T_two == <<116, 119, 111>>
T_dup == <<100, 117, 112>>
T_st == <<115, 116>>
T_par == <<112, 97, 114>>
T_set == <<115, 101, 116>>
T_any == <<97, 110, 121>>
T_nix == <<110, 105, 120>>
T_tem == <<116, 101, 109>>
T_t == <<116>>
T_a == <<97>>
T_b == <<98>>
T_x == <<120>>
T_idx == <<105, 100, 120>>
T_v == <<118>>
T_zz == <<122, 122>>
T_C == <<67>>
T_cmt == <<99, 109, 116>>
T_ua == <<117, 97>>
T_ub == <<117, 98>>
T_fca == <<102, 99, 97>>
T_fcb == <<102, 99, 98>>
T_off == <<111, 102, 102>>
T_on == <<111, 110>>
T_ERR == <<69, 82, 82, 58>>
T_usage == <<117, 115, 97, 103, 101, 58>>
T_nodata == <<110, 111, 32, 100, 97, 116, 97, 32, 115, 116, 111, 114, 101, 100>>
T_done == <<100, 111, 110, 101>>
T_eq == <<32, 61, 32>>
T_slash == <<32, 47, 32>>
T_UCH == <<85, 67, 72>>
T_vals == <<48, 61, 111, 102, 102, 59, 49, 61, 111, 110>>     \* 0=off;1=on
T_scanoff == <<45, 45, 115, 99, 97, 110, 99, 111, 110, 102, 105, 103, 61, 111, 102, 102>>   \* --scanconfig=off

(***************************************************************************)
(* text helpers                                                             *)
(***************************************************************************)
RECURSIVE Dec(_)
Dec(n) == IF n < 10 THEN <<48 + n>> ELSE Dec(n \div 10) \o <<48 + (n % 10)>>
HexDigit(d) == IF d < 10 THEN 48 + d ELSE 87 + d
Hex2(b) == <<HexDigit(b \div 16), HexDigit(b % 16)>>
RECURSIVE HexOf(_)
HexOf(bs) == IF bs = <<>> THEN <<>> ELSE Hex2(Head(bs)) \o HexOf(Tail(bs))
RECURSIVE Join(_, _)
Join(ts, sep) == IF ts = <<>> THEN <<>> ELSE IF Len(ts) = 1 THEN ts[1] ELSE ts[1] \o sep \o Join(Tail(ts), sep)
StartsWith(t, p) == Len(t) >= Len(p) /\ SubSeq(t, 1, Len(p)) = p
(* smallest position >= from (1-based) at which p occurs in t, 0 = none *)
IndexOf(t, p, from) ==
  LET hits == {k \in from..(Len(t) - Len(p) + 1) : SubSeq(t, k, k + Len(p) - 1) = p}
  IN IF hits = {} THEN 0 ELSE CHOOSE k \in hits : \A j \in hits : k <= j
HasText(t, p) == IndexOf(t, p, 1) > 0
(* the tokens occur in t in this order without overlap *)
RECURSIVE OrderedFrom(_, _, _)
OrderedFrom(t, toks, from) ==
  IF toks = <<>> THEN TRUE
  ELSE LET k == IndexOf(t, Head(toks), from) IN k > 0 /\ OrderedFrom(t, Tail(toks), k + Len(Head(toks)))
OrderedSub(t, toks) == OrderedFrom(t, toks, 1)
(* split at a separator code *)
Split(s, sep) ==
  LET cut == {0} \cup {k \in 1..Len(s) : s[k] = sep} \cup {Len(s) + 1}
      RECURSIVE from(_)
      from(a) == IF a = Len(s) + 1 THEN <<>>
                 ELSE LET b == CHOOSE x \in cut : x > a /\ \A y \in cut : y > a => x <= y
                      IN <<SubSeq(s, a + 1, b - 1)>> \o from(b)
  IN from(0)
(* decimal number of a text, -1 if it is not one *)
RECURSIVE DecVal(_, _)
DecVal(s, acc) == IF s = <<>> THEN acc
                  ELSE IF Head(s) \notin 48..57 THEN -1
                  ELSE IF acc > 100000 THEN acc ELSE DecVal(Tail(s), acc * 10 + (Head(s) - 48))
ParseDec(s) == IF s = <<>> THEN -1 ELSE DecVal(s, 0)
HexVal(c) == IF c \in 48..57 THEN c - 48 ELSE IF c \in 97..102 THEN c - 87 ELSE -1
(* bytes of a hex text, <<-1>> if it is not a sequence of full bytes *)
ParseHex(s) == IF (Len(s) % 2) # 0 \/ \E k \in 1..Len(s) : HexVal(s[k]) < 0 THEN <<-1>>
               ELSE [k \in 1..(Len(s) \div 2) |-> 16 * HexVal(s[2 * k - 1]) + HexVal(s[2 * k])]
IsErr(a) == StartsWith(a, T_ERR)
IsRefusal(a) == StartsWith(a, T_ERR) \/ StartsWith(a, T_usage)

IsMasterAddr(x) == LET p(n) == n \in {0, 1, 3, 7, 15} IN p(x \div 16) /\ p(x % 16)
OWN == 49    \* 0x31

(***************************************************************************)
(* message definitions                                                      *)
(*  [k "r"|"w"|"u", c circuit, n name, zz (0 = none: needs -d), id <<PB,SB,  *)
(*   ID..>>, mf master fields, sf slave fields, ans slave data the scripted   *)
(*   slave answers (first byte + number of earlier telegrams of that id),    *)
(*   noinj (passive message not yet seen at start)]                          *)
(*  field [n name, vl 1 = value list 0=off;1=on, u unit, cm comment]; all UCH *)
(***************************************************************************)
Fld(n, vl, u, cm) == [n |-> n, vl |-> vl, u |-> u, cm |-> cm]
Def(k, c, n, zz, id, mf, sf, ans) == [k |-> k, c |-> c, n |-> n, lv |-> <<>>, zz |-> zz, id |-> <<181, 9>> \o id, mf |-> mf, sf |-> sf,
                                      ans |-> ans, noinj |-> 0]
D_temp   == Def("r", T_ca, T_temp, 8, <<13, 1>>, <<>>, <<Fld(T_t, 0, T_C, T_cmt)>>, <<20>>)
D_two    == Def("r", T_ca, T_two, 8, <<13, 2>>, <<>>, <<Fld(T_a, 0, T_ua, T_fca), Fld(T_b, 0, T_ub, T_fcb)>>, <<30, 40>>)
D_dup    == Def("r", T_ca, T_dup, 8, <<13, 3>>, <<>>, <<Fld(T_x, 0, <<>>, <<>>), Fld(T_x, 0, <<>>, <<>>)>>, <<50, 60>>)
D_st     == Def("r", T_ca, T_st, 8, <<13, 4>>, <<>>, <<Fld(T_st, 1, <<>>, <<>>)>>, <<0>>)
D_par    == Def("r", T_ca, T_par, 8, <<13, 5>>, <<Fld(T_idx, 0, <<>>, <<>>)>>, <<Fld(T_v, 0, <<>>, <<>>)>>, <<70>>)
D_set    == Def("w", T_ca, T_set, 8, <<14, 1>>, <<Fld(T_v, 0, <<>>, <<>>)>>, <<>>, <<>>)
D_wtemp  == Def("w", T_ca, T_temp, 8, <<14, 2>>, <<Fld(T_t, 0, <<>>, <<>>)>>, <<>>, <<>>)
D_wret   == Def("w", T_ca, T_two, 8, <<14, 3>>, <<Fld(T_a, 0, <<>>, <<>>)>>, <<Fld(T_b, 0, <<>>, <<>>)>>, <<77>>)    \* write that returns data
D_ptemp  == Def("u", T_ca, T_temp, 8, <<13, 7>>, <<>>, <<Fld(T_t, 0, <<>>, <<>>)>>, <<90>>)
D_ptemp0 == [D_ptemp EXCEPT !.noinj = 1]
D_btemp  == Def("r", T_cb, T_temp, 8, <<13, 8>>, <<>>, <<Fld(T_t, 0, <<>>, <<>>)>>, <<100>>)
D_any    == Def("r", T_cb, T_any, 0, <<13, 9>>, <<>>, <<Fld(T_t, 0, <<>>, <<>>)>>, <<110>>)

(* the CSV text of a definition set (what the daemon loads) *)
FieldCsv(f, part) == Join(<<f.n, part, T_UCH, IF f.vl = 1 THEN T_vals ELSE <<>>, f.u, f.cm>>, <<44>>)
DefCsv(m) ==
  Join(<<(IF m.k = "r" THEN <<114>> ELSE IF m.k = "w" THEN <<119>> ELSE <<117>>), m.c, m.n, <<>>, <<>>,
         (IF m.zz = 0 THEN <<>> ELSE Hex2(m.zz)), HexOf(SubSeq(m.id, 1, 2)), HexOf(SubSeq(m.id, 3, Len(m.id)))>>
       \o [i \in 1..Len(m.mf) |-> FieldCsv(m.mf[i], <<109>>)] \o [i \in 1..Len(m.sf) |-> FieldCsv(m.sf[i], <<115>>)], <<44>>) \o <<10>>
RECURSIVE CsvOf(_)
CsvOf(ms) == IF ms = <<>> THEN <<>> ELSE DefCsv(Head(ms)) \o CsvOf(Tail(ms))

World(fam, msgs, nosig) == [fam |-> fam, dsrc |-> "none", d |-> <<>>, users |-> <<>>, dyn |-> 1, nosig |-> nosig,
                            args |-> <<T_scanoff>>, csv |-> CsvOf(msgs), msgs |-> msgs]
Msgs(w) == DOMAIN w.msgs

(***************************************************************************)
(* commands: one record shape for all                                       *)
(***************************************************************************)
NoCmd == [tk |-> 0, op |-> "read", n |-> <<>>, c |-> <<>>, cache |-> "", s |-> 0, d |-> 0, p |-> 0, v |-> 0, num |-> "", i |-> <<>>,
          fld |-> <<>>, fi |-> -1, hasval |-> 0, val |-> <<>>, fr |-> 0, fw |-> 0, fp |-> 0, fa |-> 0, fd |-> 0, fh |-> 0, fe |-> 0,
          fid |-> <<>>, m |-> 0, data |-> <<>>]
Rd(n) == [NoCmd EXCEPT !.n = n]
Wr(c, n, val) == [NoCmd EXCEPT !.op = "write", !.c = c, !.n = n, !.hasval = 1, !.val = val]
Fnd(n) == [NoCmd EXCEPT !.op = "find", !.n = n]
Bus(m, data) == [NoCmd EXCEPT !.op = "bus", !.m = m, !.data = data]     \* master 10 reads message m from slave 08, answer = data
MaxAge(c) == CASE c.cache = "" -> 300 [] c.cache = "f" -> 0 [] c.cache = "m0" -> 0 [] c.cache = "m1" -> 1
               [] c.cache = "m300" -> 300 [] c.cache = "m400" -> 400 [] OTHER -> 300

(***************************************************************************)
(* decoding and telegrams                                                   *)
(***************************************************************************)
FieldText(f, b, num) ==
  IF b = 255 THEN <<45>>
  ELSE IF f.vl = 1 /\ b \in {0, 1}
    THEN LET nm == IF b = 0 THEN T_off ELSE T_on
         IN IF num = "n" THEN Dec(b) ELSE IF num = "N" THEN Dec(b) \o <<61>> \o nm ELSE nm
  ELSE Dec(b)
(* positions (in fields) selected by FIELD[.N]; {} = the field does not exist *)
SelFields(fields, fld, fi) ==
  IF fld = <<>> THEN DOMAIN fields
  ELSE LET named == {i \in DOMAIN fields : fields[i].n = fld}
       IN IF fi < 0 THEN named
          ELSE {i \in named : Cardinality({j \in named : j < i}) = fi}
RECURSIVE SetSeq(_)
SetSeq(S) == IF S = {} THEN <<>> ELSE LET x == CHOOSE y \in S : \A z \in S : y <= z IN <<x>> \o SetSeq(S \ {x})
(* plain text: the values separated by ';' *)
PlainText(fields, bytes, sel, num) == Join([k \in 1..Len(sel) |-> FieldText(fields[sel[k]], bytes[sel[k]], num)], <<59>>)
(* the things a verbose answer must mention, in order: name value [unit] [comment] per field *)
VerboseTokens(fields, bytes, sel, num, v) ==
  LET one(i) == <<fields[i].n, FieldText(fields[i], bytes[i], num)>>
                \o (IF v >= 2 /\ fields[i].u # <<>> THEN <<fields[i].u>> ELSE <<>>)
                \o (IF v >= 3 /\ fields[i].cm # <<>> THEN <<fields[i].cm>> ELSE <<>>)
      RECURSIVE all(_)
      all(s) == IF s = <<>> THEN <<>> ELSE one(Head(s)) \o all(Tail(s))
  IN all(sel)
(* exact verbose text as the code prints it: name=value[ unit][ [comment]] joined by ';' *)
VerboseText(fields, bytes, sel, num, v) ==
  Join([k \in 1..Len(sel) |->
          LET f == fields[sel[k]] IN
          f.n \o <<61>> \o FieldText(f, bytes[sel[k]], num)
          \o (IF v >= 2 /\ f.u # <<>> THEN <<32>> \o f.u ELSE <<>>)
          \o (IF v >= 3 /\ f.cm # <<>> THEN <<32, 91>> \o f.cm \o <<93>> ELSE <<>>)], <<59>>)

(* the answer text matches the data: exact without verbosity, by content with -v/-V *)
TextMatches(a, fields, bytes, sel, num, v) ==
  /\ Len(bytes) >= Len(fields)
  /\ IF v = 0 THEN a = PlainText(fields, bytes, sel, num) ELSE OrderedSub(a, VerboseTokens(fields, bytes, sel, num, v))

Telegram(qq, zz, m, md) == <<qq, zz, m.id[1], m.id[2], Len(m.id) - 2 + Len(md)>> \o SubSeq(m.id, 3, Len(m.id)) \o md
(* slave data of the k-th telegram (k = 0, 1, ..) of a message *)
Answer(m, k) == IF m.ans = <<>> THEN <<>> ELSE [m.ans EXCEPT ![1] = (@ + k) % 256]
(* which message a telegram on the bus belongs to (0 = none) *)
MsgOfTelegram(w, t) ==
  LET ms == {i \in Msgs(w) : Len(t) >= 3 + Len(w.msgs[i].id) /\ t[3] = w.msgs[i].id[1] /\ t[4] = w.msgs[i].id[2]
                            /\ SubSeq(t, 6, 3 + Len(w.msgs[i].id)) = SubSeq(w.msgs[i].id, 3, Len(w.msgs[i].id))}
  IN IF ms = {} THEN 0 ELSE CHOOSE i \in ms : TRUE
SameName(w, i) == {j \in Msgs(w) : w.msgs[j].c = w.msgs[i].c /\ w.msgs[j].n = w.msgs[i].n}

(***************************************************************************)
(* P: monitor state                                                         *)
(*  d[m] = [may, sure, t, md, sd, dst]: a value of m MAY be cached (it was    *)
(*  on the bus and no write to the same circuit+name followed) / is SURELY   *)
(*  cached (and no other telegram of that circuit+name followed); cnt[m] =   *)
(*  telegrams answered so far for m                                          *)
(***************************************************************************)
NoDat == [may |-> FALSE, sure |-> FALSE, t |-> 0, md |-> <<>>, sd |-> <<>>, dst |-> 0]
PInit(w) == [d |-> [i \in Msgs(w) |-> IF w.msgs[i].k = "u" /\ w.msgs[i].noinj = 0
                                         THEN [may |-> TRUE, sure |-> TRUE, t |-> 0, md |-> <<>>, sd |-> <<w.msgs[i].ans[1]>>, dst |-> 8]
                                         ELSE NoDat],
             cnt |-> [i \in Msgs(w) |-> 0]]
(* a telegram of message i with master data md and slave data sd was completed at time now *)
PSeen(w, st, i, now, md, sd, dst) ==
  [st EXCEPT !.d = [j \in Msgs(w) |->
       IF j = i THEN [may |-> TRUE, sure |-> TRUE, t |-> now, md |-> md, sd |-> sd, dst |-> dst]
       ELSE IF j \in SameName(w, i)
         THEN (IF w.msgs[i].k = "w" /\ (st.d[j].dst = dst \/ ~st.d[j].may) THEN NoDat ELSE [st.d[j] EXCEPT !.sure = FALSE])
       ELSE st.d[j]]]
(* advance the monitor over the telegrams ebusd sent for one command *)
RECURSIVE PBusFold(_, _, _, _)
PBusFold(w, st, now, ts) ==
  IF ts = <<>> THEN st
  ELSE LET t == Head(ts)
           i == MsgOfTelegram(w, t)
       IN IF i = 0 THEN PBusFold(w, st, now, Tail(ts))
          ELSE LET md == SubSeq(t, 4 + Len(w.msgs[i].id), Len(t))
                   sd == Answer(w.msgs[i], st.cnt[i])
                   s1 == PSeen(w, st, i, now, md, sd, t[2])
               IN PBusFold(w, [s1 EXCEPT !.cnt[i] = @ + 1], now, Tail(ts))
PUpd(w, st, now, c, o) ==
  IF c.op = "bus" THEN PSeen(w, st, c.m, now, <<>>, c.data, 8) ELSE PBusFold(w, st, now, o.bus)

(***************************************************************************)
(* P: read                                                                  *)
(***************************************************************************)
NameIs(m, c) == m.n = c.n /\ (c.c = <<>> \/ m.c = c.c)
InputMd(m, c) == IF m.mf = <<>> THEN <<>> ELSE <<ParseDec(c.i)>>       \* one master field at most in this domain
InputOk(m, c) == m.mf = <<>> \/ ParseDec(c.i) \in 0..254
WantDst(m, c) == IF c.d # 0 THEN c.d ELSE m.zz

(* lax: set of documented-vs-coded differences to tolerate; {} for the verdict, non-empty only to NAME the class of a   *)
(* rejection: "dst" cached value of another destination, "inp" of other -i parameters, "pasv" over-age passive value    *)
ReadOk(lax, w, st, now, c, o, ppr) ==
  LET act == {i \in Msgs(w) : w.msgs[i].k = "r" /\ NameIs(w.msgs[i], c)}
      pas == {i \in Msgs(w) : w.msgs[i].k = "u" /\ NameIs(w.msgs[i], c)}
      argBad == (c.s # 0 /\ ~IsMasterAddr(c.s)) \/ (c.d # 0 /\ IsMasterAddr(c.d)) \/ c.p \notin 0..9
      qq == IF c.s = 0 THEN OWN ELSE c.s
      prOk(i) == \A j \in Msgs(w) : o.pr[j] # ppr[j] => (j \in act /\ c.p # 0 /\ o.pr[j] = c.p)
      answer(i, md, sd) ==            \* the answer text shows the selected fields of that data
        LET m == w.msgs[i]
            sel == SetSeq(SelFields(m.sf, c.fld, c.fi))
        IN sel # <<>> /\ TextMatches(o.a, m.sf, sd, sel, c.num, c.v)
      busPath(i) ==                   \* read from the bus now: exactly the telegram of that message, fresh data shown
        LET m == w.msgs[i] IN
        /\ m.k = "r" /\ w.nosig = 0 /\ InputOk(m, c) /\ WantDst(m, c) # 0
        /\ o.bus = <<Telegram(qq, WantDst(m, c), m, InputMd(m, c))>>
        /\ answer(i, InputMd(m, c), Answer(m, st.cnt[i]))
        /\ (c.p # 0 => o.pr[i] = c.p) /\ prOk(i)
      cachePath(i) ==                 \* answered from the cache: only a value of that request, younger than SECONDS
        LET m == w.msgs[i]
            e == st.d[i]
        IN /\ o.bus = <<>> /\ e.may
           /\ (now - e.t < MaxAge(c) \/ (m.k = "u" /\ (act = {} \/ w.nosig = 1 \/ "pasv" \in lax)))   \* a passive message cannot be refreshed
           /\ (WantDst(m, c) = 0 \/ e.dst = WantDst(m, c) \/ "dst" \in lax)
           /\ (m.mf = <<>> \/ (InputOk(m, c) /\ e.md = InputMd(m, c)) \/ "inp" \in lax)
           /\ answer(i, e.md, e.sd)
           /\ prOk(i)
      errPath(i) ==                   \* a refusal that the request justifies
        LET m == w.msgs[i]
            nofield == SelFields(m.sf, c.fld, c.fi) = {}
        IN /\ IsErr(o.a) /\ prOk(i)
           /\ \/ o.bus = <<>> /\ (~InputOk(m, c) \/ WantDst(m, c) = 0 \/ w.nosig = 1 \/ nofield
                                  \/ (m.k = "u" /\ (~st.d[i].sure \/ c.cache \in {"f", "m0"} \/ c.s # 0 \/ c.d # 0)))
              \/ nofield /\ m.k = "r" /\ InputOk(m, c) /\ WantDst(m, c) # 0 /\ w.nosig = 0
                 /\ o.bus = <<Telegram(qq, WantDst(m, c), m, InputMd(m, c))>>
  IN IF argBad THEN IsErr(o.a) /\ o.bus = <<>> /\ o.pr = ppr
     ELSE IF act \cup pas = {} THEN IsErr(o.a) /\ o.bus = <<>> /\ o.pr = ppr
     ELSE \E i \in act \cup pas : busPath(i) \/ cachePath(i) \/ errPath(i)

(***************************************************************************)
(* P: write                                                                 *)
(***************************************************************************)
WriteOk(w, st, now, c, o, ppr) ==
  LET ws == {i \in Msgs(w) : w.msgs[i].k = "w" /\ NameIs(w.msgs[i], c)}
      vals == IF c.hasval = 0 \/ c.val = <<>> THEN <<>> ELSE Split(c.val, 59)
      argBad == c.s # 0 /\ ~IsMasterAddr(c.s)          \* (a master may be written to)
      qq == IF c.s = 0 THEN OWN ELSE c.s
      one(i) ==
        LET m == w.msgs[i]
            good == Len(vals) = Len(m.mf) /\ \A k \in 1..Len(vals) : ParseDec(vals[k]) \in 0..254
            md == [k \in 1..Len(vals) |-> ParseDec(vals[k])]
            tele == Telegram(qq, WantDst(m, c), m, md)
        IN IF w.nosig = 1 THEN IsErr(o.a) /\ o.bus = <<>>
           ELSE IF ~good
             THEN \/ IsErr(o.a) /\ o.bus = <<>>                              \* refused before anything is sent
                  \/ Len(vals) < Len(m.mf) /\ Len(o.bus) = 1 /\ MsgOfTelegram(w, o.bus[1]) = i   \* missing values: open
           ELSE /\ o.bus = <<tele>>
                /\ IF m.sf = <<>> THEN o.a = T_done
                   ELSE TextMatches(o.a, m.sf, Answer(m, st.cnt[i]), SetSeq(DOMAIN m.sf), "", 0)
  IN /\ o.pr = ppr
     /\ IF c.c = <<>> \/ argBad \/ ws = {} THEN IsRefusal(o.a) /\ o.bus = <<>>
        ELSE \E i \in ws : one(i)

(***************************************************************************)
(* P: find                                                                  *)
(***************************************************************************)
TypeSel(c) == IF c.fa = 1 THEN {"r", "w", "u"}
              ELSE IF c.fr + c.fw + c.fp = 0 THEN {"r", "u"}
              ELSE (IF c.fr = 1 THEN {"r"} ELSE {}) \cup (IF c.fw = 1 THEN {"w"} ELSE {}) \cup (IF c.fp = 1 THEN {"u"} ELSE {})
PartOk(text, pat, exact) == pat = <<>> \/ (IF exact = 1 THEN text = pat ELSE HasText(text, pat))
FindSel(w, c) ==
  LET idb == ParseHex(c.fid) IN
  {i \in Msgs(w) : /\ w.msgs[i].k \in TypeSel(c)
                   /\ PartOk(w.msgs[i].n, c.n, c.fe) /\ PartOk(w.msgs[i].c, c.c, c.fe)
                   /\ (c.fid = <<>> \/ (Len(idb) <= Len(w.msgs[i].id) /\ SubSeq(w.msgs[i].id, 1, Len(idb)) = idb))}
(* the value part of a listing line for message i holding master data md / slave data sd *)
FindValueOk(w, c, i, e, rest) ==
  LET m == w.msgs[i]
      fields == m.mf \o m.sf
      bytes == e.md \o e.sd
  IN IF c.fh = 1 THEN /\ HasText(rest, HexOf(<<Len(e.sd)>> \o e.sd)) /\ HasText(rest, HexOf(SubSeq(m.id, 1, 2)))
                      /\ HasText(rest, HexOf(SubSeq(m.id, 3, Len(m.id)) \o e.md))
     ELSE /\ Len(bytes) >= Len(fields)
          /\ IF c.v = 0 THEN rest = PlainText(fields, bytes, SetSeq(DOMAIN fields), "")
             ELSE OrderedSub(rest, VerboseTokens(fields, bytes, SetSeq(DOMAIN fields), "", c.v))
FindOk(w, st, now, c, o, ppr) ==
  LET sel == FindSel(w, c)
      lines == Split(o.a, 10)
      prefix(i) == w.msgs[i].c \o <<32>> \o w.msgs[i].n \o T_eq
      lineOk(i, ln) ==
        /\ StartsWith(ln, prefix(i))
        /\ LET rest == SubSeq(ln, Len(prefix(i)) + 1, Len(ln)) IN
           \/ c.fd = 0 /\ ~st.d[i].sure /\ StartsWith(rest, T_nodata)
           \/ st.d[i].may /\ FindValueOk(w, c, i, st.d[i], rest)
      certain == {i \in sel : c.fd = 0 \/ st.d[i].sure}          \* these must be listed
      possible == {i \in sel : c.fd = 0 \/ st.d[i].may}
  IN /\ o.bus = <<>> /\ o.pr = ppr
     /\ IF c.fid # <<>> /\ ParseHex(c.fid) = <<-1>> THEN IsRefusal(o.a)
        ELSE IF IsErr(o.a) THEN certain = {}
        ELSE /\ \A k \in 1..Len(lines) : \E i \in possible : lineOk(i, lines[k])
             /\ \A i \in certain : \E k \in 1..Len(lines) : lineOk(i, lines[k])
             /\ Len(lines) >= Cardinality(certain) /\ Len(lines) <= Cardinality(possible)

(***************************************************************************)
(* P: one session                                                           *)
(***************************************************************************)
ZeroPr(w) == [i \in Msgs(w) |-> 0]
CmdOk(lax, w, st, now, c, o, ppr) ==
  CASE c.op = "read"  -> ReadOk(lax, w, st, now, c, o, ppr)
    [] c.op = "write" -> WriteOk(w, st, now, c, o, ppr)
    [] c.op = "find"  -> FindOk(w, st, now, c, o, ppr)
    [] c.op = "bus"   -> o.bus = <<>> /\ o.pr = ppr
    [] OTHER -> FALSE
(* run[k] = [st, now, bad]: monitor state after k commands, bad = first command the monitor rejected (0 = none) *)
PRun(lax, w, cmds, obs) ==
  LET R[k \in 0..Len(cmds)] ==
        IF k = 0 THEN [st |-> PInit(w), now |-> 0, bad |-> 0]
        ELSE LET p == R[k - 1]
                 c == cmds[k]
                 now == p.now + c.tk
                 ppr == IF k = 1 THEN ZeroPr(w) ELSE obs[k - 1].pr
                 ok == CmdOk(lax, w, p.st, now, c, obs[k], ppr)
             IN [st |-> PUpd(w, p.st, now, c, obs[k]), now |-> now, bad |-> IF p.bad # 0 THEN p.bad ELSE IF ok THEN 0 ELSE k]
  IN R[Len(cmds)]
POk(w, cmds, obs) == PRun({}, w, cmds, obs).bad = 0

(***************************************************************************)
(* S: the decisions as coded ("pinned") / as documented ("doc")             *)
(*  state: e[m] = [has, t, md, sd, dst] (lastUpdateTime # 0, its time, last   *)
(*  data), cnt, pr                                                          *)
(***************************************************************************)
SNoDat == [has |-> FALSE, t |-> 0, md |-> <<>>, sd |-> <<>>, dst |-> 0]
SInit(w) == [e |-> [i \in Msgs(w) |-> IF w.msgs[i].k = "u" /\ w.msgs[i].noinj = 0
                                         THEN [has |-> TRUE, t |-> 0, md |-> <<>>, sd |-> <<w.msgs[i].ans[1]>>, dst |-> 8] ELSE SNoDat],
             cnt |-> [i \in Msgs(w) |-> 0], pr |-> ZeroPr(w)]
(* BusHandler::notifyProtocolMessage: invalidateCache of all messages of that circuit+name, then store *)
SStore(w, s, i, now, md, sd, dst) ==
  [s EXCEPT !.e = [j \in Msgs(w) |-> IF j = i THEN [has |-> TRUE, t |-> now, md |-> md, sd |-> sd, dst |-> dst]
                                      ELSE IF j \in SameName(w, i) /\ w.msgs[i].zz \in {0, dst} THEN [s.e[j] EXCEPT !.has = FALSE]
                                      ELSE s.e[j]]]     \* (a telegram to another destination is not recognised as this message)
SSend(w, s, i, now, qq, zz, md) ==
  LET m == w.msgs[i] IN
  [st |-> [SStore(w, s, i, now, md, Answer(m, s.cnt[i]), zz) EXCEPT !.cnt[i] = @ + 1], tele |-> Telegram(qq, zz, m, md), sd |-> Answer(m, s.cnt[i])]
(* MessageMap::find by name: with circuit the message of that circuit, without the first one in circuit order *)
SFindName(w, c, kind) ==
  LET cands == {i \in Msgs(w) : w.msgs[i].k = kind /\ w.msgs[i].n = c.n /\ (c.c = <<>> \/ w.msgs[i].c = c.c)}
  IN IF cands = {} THEN 0
     ELSE IF \E i \in cands : w.msgs[i].c = T_ca THEN CHOOSE i \in cands : w.msgs[i].c = T_ca ELSE CHOOSE i \in cands : TRUE
T_notfound == T_ERR \o <<32, 101, 108, 101, 109, 101, 110, 116, 32, 110, 111, 116, 32, 102, 111, 117, 110, 100>>
SErr == [a |-> T_ERR, bus |-> <<>>, err |-> TRUE]
SReadText(w, c, i, sd) ==
  LET m == w.msgs[i]
      sel == SetSeq(SelFields(m.sf, c.fld, c.fi))
  IN IF sel = <<>> THEN T_ERR
     ELSE IF c.v = 0 THEN PlainText(m.sf, sd, sel, c.num)
     ELSE m.c \o <<32>> \o m.n \o <<32>> \o VerboseText(m.sf, sd, sel, c.num, c.v)
(* returns [st, a, bus]; a = <<69,82,82,58>> stands for any error text *)
SRead(mode, w, s, now, c) ==
  LET argBad == (c.s # 0 /\ ~IsMasterAddr(c.s)) \/ (c.d # 0 /\ IsMasterAddr(c.d)) \/ c.p \notin 0..9
      msg == SFindName(w, c, "r")
      qq == IF c.s = 0 THEN OWN ELSE c.s
      maxAge == MaxAge(c)
      override == c.s # 0 \/ c.d # 0 \/ c.i # <<>>
      allowCache == ~override /\ maxAge > 0
      pasv == IF allowCache THEN SFindName(w, c, "u") ELSE 0
      s1 == IF msg # 0 /\ c.p # 0 /\ w.msgs[msg].zz # 0 THEN [s EXCEPT !.pr[msg] = c.p] ELSE s
      cm == IF pasv = 0 THEN msg
            ELSE IF msg # 0 /\ s.e[msg].has /\ (~s.e[pasv].has \/ s.e[msg].t > s.e[pasv].t) THEN msg ELSE pasv
      usable(i) ==        \* may the cached value of i answer this request?
        IF mode = "pinned"
        THEN s.e[i].has /\ (now - s.e[i].t < maxAge \/ w.msgs[i].k = "u")
        ELSE s.e[i].has /\ (now - s.e[i].t < maxAge \/ (w.msgs[i].k = "u" /\ msg = 0))
             /\ (WantDst(w.msgs[i], c) = 0 \/ s.e[i].dst = WantDst(w.msgs[i], c))
             /\ (w.msgs[i].mf = <<>> \/ (InputOk(w.msgs[i], c) /\ s.e[i].md = InputMd(w.msgs[i], c)))
      cm2 == IF mode = "doc" /\ cm # 0 /\ ~usable(cm) /\ msg # 0 THEN msg ELSE cm
  IN IF argBad THEN [st |-> s, a |-> T_ERR, bus |-> <<>>]
     ELSE IF cm2 # 0 /\ usable(cm2) THEN [st |-> s1, a |-> SReadText(w, c, cm2, s.e[cm2].sd), bus |-> <<>>]
     ELSE IF msg = 0 THEN [st |-> s1, a |-> T_ERR, bus |-> <<>>]      \* not found / no data stored
     ELSE LET m == w.msgs[msg] IN
          IF WantDst(m, c) = 0 \/ ~InputOk(m, c) \/ w.nosig = 1 THEN [st |-> s1, a |-> T_ERR, bus |-> <<>>]
          ELSE LET x == SSend(w, s1, msg, now, qq, WantDst(m, c), InputMd(m, c))
               IN [st |-> x.st, a |-> SReadText(w, c, msg, x.sd), bus |-> <<x.tele>>]
SWrite(mode, w, s, now, c) ==
  LET msg == SFindName(w, c, "w")
      vals == IF c.hasval = 0 \/ c.val = <<>> THEN <<>> ELSE Split(c.val, 59)
      argBad == c.s # 0 /\ ~IsMasterAddr(c.s)
      qq == IF c.s = 0 THEN OWN ELSE c.s
  IN IF c.c = <<>> THEN [st |-> s, a |-> T_usage, bus |-> <<>>]
     ELSE IF argBad \/ msg = 0 THEN [st |-> s, a |-> T_ERR, bus |-> <<>>]
     ELSE LET m == w.msgs[msg]
              good == Len(vals) = Len(m.mf) /\ \A k \in 1..Len(vals) : ParseDec(vals[k]) \in 0..254
          IN IF ~good \/ w.nosig = 1 THEN [st |-> s, a |-> T_ERR, bus |-> <<>>]
             ELSE LET x == SSend(w, s, msg, now, qq, WantDst(m, c), [k \in 1..Len(vals) |-> ParseDec(vals[k])])
                  IN [st |-> x.st, a |-> IF m.sf = <<>> THEN T_done ELSE PlainText(m.sf, x.sd, SetSeq(DOMAIN m.sf), ""), bus |-> <<x.tele>>]
(* listing order: by circuit, name, then passive < read < write (the keys of m_messagesByName) *)
KindNo(k) == IF k = "u" THEN 0 ELSE IF k = "r" THEN 1 ELSE 2
RECURSIVE TextLess(_, _)
TextLess(a, b) == IF a = <<>> THEN b # <<>> ELSE IF b = <<>> THEN FALSE
                  ELSE IF Head(a) # Head(b) THEN Head(a) < Head(b) ELSE TextLess(Tail(a), Tail(b))
MsgLess(w, i, j) == LET a == w.msgs[i] b == w.msgs[j] IN
  IF a.c # b.c THEN TextLess(a.c, b.c) ELSE IF a.n # b.n THEN TextLess(a.n, b.n) ELSE KindNo(a.k) < KindNo(b.k)
RECURSIVE SortMsgs(_, _)
SortMsgs(w, S) == IF S = {} THEN <<>> ELSE LET x == CHOOSE y \in S : \A z \in S \ {y} : MsgLess(w, y, z) IN <<x>> \o SortMsgs(w, S \ {x})
SFind(mode, w, s, now, c) ==
  LET sel == {i \in FindSel(w, c) : c.fd = 0 \/ s.e[i].has}
      line(i) == LET m == w.msgs[i]
                     fields == m.mf \o m.sf
                     bytes == s.e[i].md \o s.e[i].sd
                 IN m.c \o <<32>> \o m.n \o T_eq \o
                    (IF ~s.e[i].has THEN T_nodata
                     ELSE IF c.v = 0 THEN PlainText(fields, bytes, SetSeq(DOMAIN fields), "")
                     ELSE VerboseText(fields, bytes, SetSeq(DOMAIN fields), "", c.v))
      ord == SortMsgs(w, sel)
  IN IF (c.fid # <<>> /\ ParseHex(c.fid) = <<-1>>) \/ sel = {} THEN [st |-> s, a |-> T_ERR, bus |-> <<>>]
     ELSE [st |-> s, a |-> Join([k \in 1..Len(ord) |-> line(ord[k])], <<10>>), bus |-> <<>>, exact |-> c.fh = 0 /\ c.v < 3]
SStep(mode, w, s, now, c) ==
  CASE c.op = "read" -> SRead(mode, w, s, now, c)
    [] c.op = "write" -> SWrite(mode, w, s, now, c)
    [] c.op = "find" -> SFind(mode, w, s, now, c)
    [] c.op = "bus" -> [st |-> SStore(w, s, c.m, now, <<>>, c.data, 8), a |-> <<98, 117, 115>>, bus |-> <<>>]
(* does the observation agree with S? (error texts: only the class; find -h / -vvv layouts are not modelled) *)
SAgrees(x, o) ==
  /\ x.bus = o.bus /\ x.st.pr = o.pr
  /\ IF x.a = T_ERR THEN IsErr(o.a) ELSE IF x.a = T_usage THEN StartsWith(o.a, T_usage)
     ELSE IF "exact" \in DOMAIN x /\ ~x.exact THEN ~IsErr(o.a) ELSE x.a = o.a
SRun(mode, w, cmds, obs) ==
  LET R[k \in 0..Len(cmds)] ==
        IF k = 0 THEN [st |-> SInit(w), now |-> 0, bad |-> 0]
        ELSE LET p == R[k - 1]
                 now == p.now + cmds[k].tk
                 x == SStep(mode, w, p.st, now, cmds[k])
             IN [st |-> x.st, now |-> now,
                 bad |-> IF p.bad # 0 THEN p.bad
                         ELSE IF SAgrees(x, obs[k]) /\ \A i \in Msgs(w) : (obs[k].dat[i] = 1) = x.st.e[i].has THEN 0 ELSE k]
  IN R[Len(cmds)]

(***************************************************************************)
(* D: worlds and sessions                                                   *)
(***************************************************************************)
(* fam 1: selection, cache and age, twins       fam 2: write, invalidation, returned data                       *)
(* fam 3: fields, verbosity, numeric, -i        fam 4: message without destination, passive without data        *)
(* fam 5: fam 1 without bus signal                                                                              *)
Worlds(tier) ==
  { World(1, <<D_temp, D_ptemp, D_btemp>>, 0),
    World(2, <<D_temp, D_wtemp, D_set, D_wret>>, 0),
    World(3, <<D_two, D_dup, D_st, D_par>>, 0),
    World(4, <<D_any, D_temp, D_ptemp0>>, 0),
    World(5, <<D_temp, D_ptemp, D_btemp>>, 1) }

Ticks == {0, 1, 299, 301}
CacheOpts(tier) == IF tier = "thorough" THEN {"", "f", "m0", "m1", "m300", "m400"} ELSE {"", "f", "m1", "m400"}
Tk(c, t) == [c EXCEPT !.tk = t]
(* read option grammar over a name: at most two options differ from the default *)
ReadVariants(n, circs, flds, inputs, tier) ==
  LET base == Rd(n) IN
  {base}
  \cup {[base EXCEPT !.c = x] : x \in circs}
  \cup {[base EXCEPT !.cache = x, !.c = y] : x \in CacheOpts(tier), y \in circs \cup {<<>>}}
  \cup {[base EXCEPT !.s = x, !.cache = y] : x \in {16, 8}, y \in {"", "f"}}
  \cup {[base EXCEPT !.d = x, !.cache = y] : x \in {24, 16}, y \in {"", "f"}}
  \cup {[base EXCEPT !.p = x] : x \in {3, 12}}
  \cup {[base EXCEPT !.v = x, !.num = y] : x \in 0..4, y \in {"", "n", "N"}}
  \cup {[base EXCEPT !.fld = f[1], !.fi = f[2], !.v = x] : f \in flds, x \in {0, 1}}
  \cup {[base EXCEPT !.i = x, !.cache = y] : x \in inputs, y \in {"", "f"}}

(* sessions of a family: <<c1, c2, c3, c4>> with ticks *)
Seqs2(A, B) == {<<a, b>> : a \in A, b \in B}
TickAll(cs) == {Tk(c, t) : c \in cs, t \in Ticks}
Sessions1(tier) ==      \* fam 1 and 5: twins, two circuits, cache and age
  LET rv == ReadVariants(T_temp, {T_ca, T_cb, T_cx}, {}, {}, tier)
      plain == {Rd(T_temp), [Rd(T_temp) EXCEPT !.c = T_ca], [Rd(T_temp) EXCEPT !.c = T_cb]}
      warm == [Rd(T_temp) EXCEPT !.c = T_ca, !.cache = "f"]
  IN {<<c>> : c \in rv}
     \cup {<<warm, Tk(c, t)>> : c \in rv, t \in Ticks}                               \* after a fresh read of ca/temp, t seconds later
     \cup {<<warm, Tk(Bus(2, <<95>>), t1), Tk(c, t2)>> : c \in plain \cup {[x EXCEPT !.cache = "m400"] : x \in plain}, t1 \in Ticks, t2 \in Ticks}
     \cup {<<warm, Tk(Bus(1, <<33>>), t1), Tk(c, t2)>> : c \in plain, t1 \in {1, 301}, t2 \in {0, 299}}
     \cup {<<Tk(c, t), Fnd(<<>>)>> : c \in plain, t \in {0, 301}}
     \cup {<<warm, Tk(Rd(T_nix), 0), Tk([Rd(T_temp) EXCEPT !.c = T_ca], 1), [Fnd(T_temp) EXCEPT !.fd = 1]>>}
     \cup (LET cc == {[x EXCEPT !.cache = y] : x \in plain, y \in {"", "f", "m400"}}          \* three reads in a row: who refreshed what, when
               first == IF tier = "thorough" THEN TickAll(cc) ELSE {Tk(x, t) : x \in plain \cup {warm}, t \in {0, 301}}
           IN {<<a, b, c, [Fnd(<<>>) EXCEPT !.fd = 1]>> : a \in first, b \in TickAll(cc), c \in {Tk(x, t) : x \in cc, t \in {0, 299}}})
Sessions2(tier) ==      \* fam 2: write
  LET rd == [Rd(T_temp) EXCEPT !.c = T_ca]
      ws == {Wr(T_ca, T_set, v) : v \in {<<55>>, <<51, 48, 48>>, <<49, 59, 50>>, <<120>>, <<>>, <<50, 53, 52>>, <<50, 53, 53>>}}
            \cup {[Wr(T_ca, T_set, <<55>>) EXCEPT !.hasval = 0], Wr(<<>>, T_set, <<55>>), Wr(T_ca, T_nix, <<55>>), Wr(T_cb, T_set, <<55>>),
                  [Wr(T_ca, T_set, <<55>>) EXCEPT !.d = 24], [Wr(T_ca, T_set, <<55>>) EXCEPT !.s = 16], [Wr(T_ca, T_set, <<55>>) EXCEPT !.s = 8],
                  [Wr(T_ca, T_set, <<55>>) EXCEPT !.d = 16], Wr(T_ca, T_two, <<53>>), Wr(T_ca, T_two, <<>>), Wr(T_ca, T_temp, <<57>>)}
  IN {<<c>> : c \in ws}
     \cup {<<rd, Tk(c, 1), Tk(rd, t)>> : c \in ws, t \in {1, 301}}                   \* does a write invalidate the cached read value?
     \cup {<<rd, Tk(Wr(T_ca, T_temp, <<57>>), 1), Tk(rd, 1), Tk(f, 0)>> :
             f \in {Fnd(<<>>), [Fnd(<<>>) EXCEPT !.fw = 1], [Fnd(<<>>) EXCEPT !.fa = 1], [Fnd(<<>>) EXCEPT !.fd = 1, !.fa = 1],
                    [Fnd(<<>>) EXCEPT !.fr = 1, !.fw = 1], [Fnd(T_temp) EXCEPT !.fa = 1, !.fe = 1], [Fnd(T_tem) EXCEPT !.fa = 1, !.fe = 1],
                    [Fnd(T_tem) EXCEPT !.fa = 1], [Fnd(<<>>) EXCEPT !.fa = 1, !.fh = 1], [Fnd(<<>>) EXCEPT !.fa = 1, !.v = 1]}}
Sessions3(tier) ==      \* fam 3: fields, verbosity, numeric, input
  LET two == ReadVariants(T_two, {T_ca}, {<<T_a, -1>>, <<T_b, -1>>, <<T_b, 0>>, <<T_b, 1>>, <<T_zz, -1>>}, {}, tier)
      dup == ReadVariants(T_dup, {}, {<<T_x, -1>>, <<T_x, 0>>, <<T_x, 1>>, <<T_x, 2>>}, {}, "quick")
      st  == {[Rd(T_st) EXCEPT !.v = x, !.num = y] : x \in 0..3, y \in {"", "n", "N"}}
      par == ReadVariants(T_par, {}, {}, {<<53>>, <<54>>, <<51, 48, 48>>, <<120>>}, "quick")
      p5 == [Rd(T_par) EXCEPT !.i = <<53>>]
      fs == {Fnd(<<>>), [Fnd(<<>>) EXCEPT !.fd = 1], [Fnd(<<>>) EXCEPT !.v = 1], [Fnd(<<>>) EXCEPT !.v = 2], [Fnd(<<>>) EXCEPT !.v = 3],
             [Fnd(<<>>) EXCEPT !.fh = 1, !.fd = 1], [Fnd(<<>>) EXCEPT !.fid = <<98, 53, 48, 57, 48, 100, 48, 50>>],
             [Fnd(<<>>) EXCEPT !.fid = <<98, 53, 48, 57, 48, 100, 48>>], [Fnd(<<>>) EXCEPT !.fid = <<98, 53, 48, 57>>, !.fd = 1],
             [Fnd(T_t) EXCEPT !.c = T_ca], [Fnd(T_t) EXCEPT !.fe = 1], [Fnd(T_nix) EXCEPT !.fe = 0], [Fnd(<<>>) EXCEPT !.c = T_cx],
             [Fnd(<<>>) EXCEPT !.fw = 1], [Fnd(<<>>) EXCEPT !.fp = 1]}
  IN {<<c>> : c \in two \cup dup \cup st \cup par}
     \cup {<<p5, Tk(c, t)>> : c \in par, t \in {1, 301}}                             \* cached answer for other parameters?
     \cup {<<Rd(T_two), p5, Rd(T_st), f>> : f \in fs}
     \cup {<<Tk(Bus(3, <<1>>), 1), Tk(c, 1)>> : c \in st}
Sessions4(tier) ==      \* fam 4: no destination in the definition, passive without data
  LET any == {Rd(T_any), [Rd(T_any) EXCEPT !.d = 24], [Rd(T_any) EXCEPT !.d = 24, !.cache = "f"], [Rd(T_any) EXCEPT !.d = 8],
              [Rd(T_any) EXCEPT !.d = 16], [Rd(T_any) EXCEPT !.c = T_cb, !.d = 24, !.v = 1]}
      tmp == {Rd(T_temp), [Rd(T_temp) EXCEPT !.cache = "f"], [Rd(T_temp) EXCEPT !.c = T_ca, !.cache = "m400"]}
  IN {<<c>> : c \in any \cup tmp}
     \cup {<<a, Tk(b, t)>> : a \in any, b \in any, t \in {1, 301}}                   \* cached answer of another destination?
     \cup {<<Tk(Bus(3, <<91>>), 1), Tk(c, t)>> : c \in tmp, t \in Ticks}
     \cup {<<a, Tk(f, 1)>> : a \in {Rd(T_any), [Rd(T_any) EXCEPT !.d = 24]},
                            f \in {Fnd(<<>>), [Fnd(<<>>) EXCEPT !.fd = 1], [Fnd(<<>>) EXCEPT !.fp = 1], [Fnd(<<>>) EXCEPT !.v = 3], [Fnd(<<>>) EXCEPT !.c = T_cb]}}
Sessions(tier) ==
  {[fam |-> 1, cmds |-> s] : s \in Sessions1(tier)}
  \cup {[fam |-> 5, cmds |-> s] : s \in {x \in Sessions1("quick") : \A k \in DOMAIN x : x[k].op # "bus"}}   \* (foreign traffic would be a signal)
  \cup {[fam |-> 2, cmds |-> s] : s \in Sessions2(tier)} \cup {[fam |-> 3, cmds |-> s] : s \in Sessions3(tier)}
  \cup {[fam |-> 4, cmds |-> s] : s \in Sessions4(tier)}
=============================================================================
