------------------------------- MODULE C08Gen -------------------------------
(* Generates the C08 cases: definition sets in add order + the telegrams derived *)
(* from them.  The domain is defined here (and in MsgMatch); the harness only    *)
(* replays it on the real MessageMap.  One ndjson file per family; families are  *)
(* written by parallel TLC workers (one state per family shard).                 *)
EXTENDS MsgMatch, TLC, Json, IOUtils, SequencesExt, FiniteSets

Tier   == IOEnv.VF_TIER
OutDir == IOEnv.VF_OUT
Thorough == Tier = "thorough"
MaxLen == IF Thorough THEN 7 ELSE 6
SampleN == atoi(IOEnv.VF_SAMPLE)      \* number of random triples (thorough)

Ids == IdsUpTo(MaxLen)

(* telegram as <<QQ, ZZ, PB, SB, NN>> \o data *)
TelTuple(t) == <<t.qq, t.zz, t.pb, t.sb, Len(t.data)>> \o t.data
Case(defs, ct, oa0) == [defs |-> defs, ct |-> ct, oa0 |-> oa0,
                        tels |-> SetToSeq({TelTuple(t) : t \in Tels(defs)})]

(* ---- families (sets of <<defs, ct, oa0>>) ---- *)
A0 == <<<<"r", ANY>>, 8>>
ChainPrefixes == IdsUpTo(MaxLen - 2)
Singles(part) ==
  IF part = 0 THEN
    {<<<<CDef(p, sh, dir, dst, 0)>>, 0, 0>> : p \in ChainPrefixes, sh \in {1, 2}, dir \in {"r", "w"}, dst \in Dsts}
  ELSE {<<<<NDef(id, a, 0)>>, 0, 0>> : id \in IdsOfLen(part - 1), a \in Attrs}

(* attribute-exhaustive ordered pairs over a small ID set: shared prefixes and an equal XOR fold *)
IA == IF Thorough THEN {<<>>, <<0, 1>>, <<0, 0, 0, 0, 1>>, <<1, 0, 0, 0, 0>>, <<0, 1, 0, 0, 0, 1, 0>>}
      ELSE {<<>>, <<0, 0, 0, 0, 1>>, <<1, 0, 0, 0, 0>>}
PairsAttr(i1) == {<<<<NDef(i1, a1, 0), NDef(i2, a2, 0)>>, 0, 0>> : i2 \in IA, a1 \in Attrs, a2 \in Attrs}

(* ID-exhaustive ordered pairs of related IDs with a few attribute combinations *)
FoldPartners(id) == {x \in IdsOfLen(Len(id)) : x # id /\ Fold(x) = Fold(id)}
Related(id) == {SubSeq(id, 1, k) : k \in 0..(Len(id) - 1)}
               \cup {Mutate(id, j) : j \in 1..Len(id)}
               \cup (IF Len(id) < MaxLen THEN {id \o <<b>> : b \in Bits} ELSE {})
               \cup FoldPartners(id) \cup {id}
AttrPairs == {<<A0, A0>>, <<<<<<"u", 16>>, 8>>, <<<<"u", ANY>>, 8>>>>, <<<<<<"uw", ANY>>, ANY>>, <<<<"r", ANY>>, ANY>>>>}
             \cup (IF Thorough THEN {<<<<<<"w", ANY>>, 254>>, <<<<"w", ANY>>, 254>>>>, <<<<<<"u", ANY>>, 16>>, <<<<"u", 16>>, 16>>>>, <<<<<<"r", ANY>>, 254>>, <<<<"u", ANY>>, 254>>>>} ELSE {})
PairsIdSet(len) == UNION {{<<<<NDef(a, ap[1], 0), NDef(b, ap[2], 0)>>, 0, 0>> : b \in Related(a), ap \in AttrPairs}
                          : a \in IdsOfLen(len)}

(* one chained definition next to a normal one whose ID is the chain prefix, a part ID or an extension; both orders *)
PairsChain(u) ==
  UNION {LET c == CDef(p, sh, cattr[1], cattr[2], 0) IN
         UNION {{<<<<c, NDef(nid, na, 0)>>, 0, 0>>, <<<<NDef(nid, na, 0), c>>, 0, 0>>} :
                nid \in {p, p \o <<0>>, p \o <<0, 0>>, p \o <<0, 1>>, p \o <<1>>} \cup (IF p = <<>> THEN {} ELSE {SubSeq(p, 1, Len(p) - 1)}),
                na \in {<<<<cattr[1], ANY>>, cattr[2]>>, <<<<"u", ANY>>, cattr[2]>>, <<<<cattr[1], ANY>>, ANY>>}}
         : p \in IdsUpTo(IF Thorough THEN 4 ELSE 3), sh \in (IF Thorough THEN {1, 2, 3} ELSE {1, 2}), cattr \in {<<"r", 8>>, <<"w", 254>>, <<"r", ANY>>}}

(* conditional definitions: same or prefix ID, condition true/false, onlyAvailable on/off *)
IC == {<<>>, <<0>>, <<0, 1>>, <<0, 0, 0, 0, 1>>, <<1, 0, 0, 0, 0>>}
PairsCond(u) ==
  {<<<<NDef(i1, a1, cc[1]), NDef(i2, a2, cc[2])>>, ct, 1>> :
     i1 \in IC, i2 \in IC, a1 \in {A0, <<<<"u", ANY>>, 8>>}, a2 \in {A0, <<<<"u", ANY>>, 8>>, <<<<"u", 16>>, 8>>},
     cc \in {<<1, 0>>, <<0, 1>>, <<1, 1>>}, ct \in {0, 1}}
  \cup {<<<<NDef(i1, a1, 1)>>, ct, 1>> : i1 \in IC, a1 \in {A0, <<<<"uw", 16>>, ANY>>}, ct \in {0, 1}}

(* PB SB 07 04: the scan special case of anyDestination mode next to user definitions *)
ScanDefs(u) ==
  {<<<<[NDef(id, a, 0) EXCEPT !.pb = 7, !.sb = 4]>>, 0, 0>> : id \in {<<>>, <<0>>}, a \in Attrs}
  \cup {<<<<[NDef(<<>>, a, 0) EXCEPT !.pb = 7, !.sb = 4], NDef(<<>>, a, 0)>>, 0, 0>> : a \in Attrs}

(* triples: structured (a pair of related IDs + a third related to either) and random *)
TripleAttrs == {<<A0, A0, A0>>, <<<<<<"u", 16>>, 8>>, <<<<"u", ANY>>, 8>>, <<<<"r", ANY>>, 8>>>>}
ThirdOf(a) == {SubSeq(a, 1, Len(a) \div 2)}
              \cup (IF FoldPartners(a) = {} THEN {Mutate(a, Len(a))} ELSE {CHOOSE x \in FoldPartners(a) : TRUE})
RelatedT(id) == {SubSeq(id, 1, k) : k \in 0..(Len(id) - 1)} \cup FoldPartners(id) \cup {id}
                \cup (IF Len(id) < MaxLen THEN {id \o <<b>> : b \in Bits} ELSE {})
TriplesId(len, bit) ==
  UNION {{<<<<NDef(a, at[1], 0), NDef(b, at[2], 0), NDef(c, at[3], 0)>>, 0, 0>> :
          b \in RelatedT(a), c \in ThirdOf(a), at \in TripleAttrs}
         : a \in {x \in IdsOfLen(len) : x[1] = bit}}
PairsIdBit(len, bit) == UNION {{<<<<NDef(a, ap[1], 0), NDef(b, ap[2], 0)>>, 0, 0>> : b \in Related(a), ap \in AttrPairs}
                               : a \in {x \in IdsOfLen(len) : x[1] = bit}}

IdSeq   == SetToSeq(Ids)
AttrSeq == SetToSeq(Attrs)
(* deterministic pseudo random numbers (Park-Miller, Schrage's method: no 32 bit overflow), seeded by VF_SEED *)
Seed == atoi(IOEnv.VF_SEED) % 30000
Rnd(x) == LET y == 16807 * (x % 127773) - 2836 * (x \div 127773) IN IF y <= 0 THEN y + 2147483647 ELSE y
RECURSIVE RandSeq(_, _)
RandSeq(x, k) == IF k = 0 THEN <<>> ELSE <<x>> \o RandSeq(Rnd(x), k - 1)
RandsFor(j) == RandSeq(Rnd(Rnd(Rnd(Seed * 40009 + j * 31 + 1))), 24)
PickSeq(r, sq) == sq[(r % Len(sq)) + 1]
BitSeq == <<0, 1>>
RandDef(rs, o) ==     \* uses rs[o+1..o+4]
  LET id == PickSeq(rs[o + 1], IdSeq)
      a == PickSeq(rs[o + 2], AttrSeq)
      kind == rs[o + 3] % 8
  IN IF kind = 1 /\ Len(id) >= 1 /\ Len(id) <= MaxLen - 1
     THEN CDef(SubSeq(id, 1, Len(id) - 1), (rs[o + 4] % 2) + 1, IF a[1][1] \in {"w", "uw"} THEN "w" ELSE "r", a[2], 0)
     ELSE NDef(id, a, IF kind = 2 THEN 1 ELSE 0)
(* a random definition derived from d: keeps the key bucket crowded *)
RandNear(d, rs, o) ==  \* uses rs[o+1..o+6]
  LET id == d.ids[1]
      how == rs[o + 1] % 6
      a == PickSeq(rs[o + 2], AttrSeq)
      fp == FoldPartners(id)
      nid == CASE how = 0 -> id
               [] how = 1 -> SubSeq(id, 1, rs[o + 3] % (Len(id) + 1))
               [] how = 2 -> IF id = <<>> THEN id ELSE Mutate(id, (rs[o + 3] % Len(id)) + 1)
               [] how = 3 -> IF fp = {} THEN id ELSE PickSeq(rs[o + 3], SetToSeq(fp))
               [] how = 4 -> IF Len(id) < MaxLen THEN id \o <<rs[o + 3] % 2>> ELSE id
               [] OTHER -> PickSeq(rs[o + 3], IdSeq)
  IN IF rs[o + 4] % 3 = 0 THEN NDef(nid, <<<<d.dir, d.src>>, d.dst>>, 0)
     ELSE NDef(nid, a, IF rs[o + 5] % 3 = 0 THEN 1 ELSE 0)
RandTriple(j) ==
  LET rs == RandsFor(j)
      d1 == RandDef(rs, 0)
      d2 == RandNear(d1, rs, 4)
      d3 == IF rs[11] % 2 = 0 THEN RandNear(d1, rs, 11) ELSE RandNear(d2, rs, 11)
      n == IF rs[18] % 4 = 0 THEN 2 ELSE 3
      hasCond == d1.cond = 1 \/ d2.cond = 1 \/ (n = 3 /\ d3.cond = 1)
  IN <<IF n = 3 THEN <<d1, d2, d3>> ELSE <<d1, d2>>, rs[19] % 2, IF hasCond THEN 1 ELSE 0>>

(* ---- shards: name |-> set of cases ---- *)
ShardNames ==
  {<<"single", k>> : k \in 0..(MaxLen + 1)} \cup {<<"pairattr", k>> : k \in 1..Cardinality(IA)}
  \cup {<<"pairid", k>> : k \in 0..(MaxLen - 1)} \cup {<<"pairidlong", b>> : b \in Bits}
  \cup {<<"chain", 0>>, <<"cond", 0>>, <<"scan", 0>>}
  \cup (IF Thorough THEN {<<"tripleid", 2 * k + b>> : k \in 5..MaxLen, b \in Bits} \cup {<<"rand", k>> : k \in 1..16} ELSE {})
IASeq == SetToSeq(IA)
ShardCases(s) ==
  CASE s[1] = "single"   -> Singles(s[2])
    [] s[1] = "pairattr" -> PairsAttr(IASeq[s[2]])
    [] s[1] = "pairid"   -> PairsIdSet(s[2])
    [] s[1] = "chain"    -> PairsChain(0)
    [] s[1] = "cond"     -> PairsCond(0)
    [] s[1] = "scan"     -> ScanDefs(0)
    [] s[1] = "pairidlong" -> PairsIdBit(MaxLen, s[2])
    [] s[1] = "tripleid" -> TriplesId(s[2] \div 2, s[2] % 2)
    [] s[1] = "rand"     -> {RandTriple(16 * j + s[2]) : j \in 1..(SampleN \div 16)}
FileOf(s) == OutDir \o "/" \o s[1] \o ToString(s[2]) \o ".ndjson"
WriteShard(s) ==
  LET cs == SetToSeq({Case(c[1], c[2], c[3]) : c \in ShardCases(s)})
  IN /\ ndJsonSerialize(FileOf(s), cs)
     /\ PrintT(<<"VF", "SHARD", s[1], s[2], Len(cs)>>)

VARIABLES shard, done
Init == shard \in ShardNames /\ done = FALSE
Next == done = FALSE /\ done' = TRUE /\ shard' = shard /\ WriteShard(shard)
=============================================================================
