SPECIFICATION Spec
PROPERTY Live
