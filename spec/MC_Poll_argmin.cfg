CONSTANTS
  InitPrios <- P123
  SetPrios = {1, 2, 3}
  SetPrioMsgs = {1, 2, 3, 4}
  Alphabet <- AlphaPertNoTick
  K = 0
  ReAddPinned = FALSE
  CapBase = 0
INIT Init
NEXT Next
VIEW View
INVARIANT TopIsArgMin
INVARIANT QueueIsPollSet
