INIT Init
NEXT Next
INVARIANT Lemma
