------------------------------ MODULE BhGraph ------------------------------
(* P-on-G for the request side of BusHandler: the transition graph extracted from the REAL BusHandler / MessageMap /   *)
(* PollRequest / ScanRequest on the real DirectProtocolHandler (harness/c04_bushandler.cpp) is explored by TLC in        *)
(* lock-step with the P monitors of BusHandler.tla.  Also used for linear executions (replay, random walks).              *)
EXTENDS BusHandler, Json

G == ndJsonDeserialize(IOEnv.VF_GRAPH)
(* the S state machine of BusHandler.tla is not used here; its constants get harmless values *)
NoSeq == <<>>
NoStr == ""

VARIABLES node, mon, lastIn
vars == <<node, mon, lastIn>>

Init == node = 1 /\ mon = PInit /\ lastIn = ""
Next == \E k \in 1..Len(G[node].succ) :
          LET ed == G[node].succ[k] IN
          /\ node' = ed.to
          /\ mon' = PFold(mon, ed.ev, 1)
          /\ lastIn' = ed.in
View == <<node, mon>>
MonOk == mon.bad = "" \/ ~PrintT(<<"VF", "MON", mon.bad>>)
=============================================================================
