------------------------------ MODULE Transport ------------------------------
(* C14, plain byte transport (FileTransport::read / readConsumed, transport.cpp).                          *)
(*                                                                                                         *)
(* The byte stream is content-agnostic: every byte is named by its distance d >= 1 from the write head    *)
(* (the k-th most recently written byte has d = k); writing k more bytes adds k to every older distance.   *)
(*                                                                                                         *)
(* Part P (TrMon): from the property text only - the transport delivers its bytes unchanged and in order  *)
(*   for every chunking and consumption pattern (nothing lost, duplicated, invented or reordered), except *)
(*   that a REPORTED buffer overflow discards exactly the bytes buffered at that moment (= the bytes that  *)
(*   had been handed out by read and not yet consumed).  A read that is allowed to wait and finds bytes in *)
(*   flight must deliver; read(0) returns exactly what is buffered.                                        *)
(* Part S (ReadF/ConsF): the code's arithmetic - 32-byte buffer, reset when more than 3/4 full at the      *)
(*   next read, fill up to the buffer size, memmove on partial consumption.                                *)
(* Events: <<"w",k>>  <<"rd",timeout,res,data>> (res 0 OK, 2 TIMEOUT, 3 other)  <<"ntf","overflow">>      *)
(*         <<"cons",n>>                                                                                   *)
EXTENDS Integers, Sequences, FiniteSets, TLC, IOUtils

Muted == {IF k \in DOMAIN IOEnv THEN IOEnv[k] ELSE "" :
             k \in {"VF_MUTE1", "VF_MUTE2", "VF_MUTE3", "VF_MUTE4", "VF_MUTE5", "VF_MUTE6", "VF_MUTE7", "VF_MUTE8"}}

Shift(q, k) == [i \in 1..Len(q) |-> q[i] + k]
Down(k) == [i \in 1..k |-> k + 1 - i]                 \* <<k, k-1, .., 1>>
Min2(a, b) == IF a < b THEN a ELSE b
Drop(q, n) == SubSeq(q, n + 1, Len(q))

(* q: every byte written and neither consumed nor discarded by a reported overflow, oldest first;  *)
(* shown: how many of its leading bytes have been handed out by read; ovf: overflow reported in the *)
(* read that is in progress (the notification precedes the read result)                            *)
TrInit == [q |-> <<>>, shown |-> 0, ovf |-> FALSE, bad |-> ""]
TrFail(m, sig) == IF m.bad = "" /\ sig \notin Muted THEN [m EXCEPT !.bad = sig] ELSE m
(* after a rejection the monitor re-synchronises on what the implementation showed: the shown bytes followed by *)
(* everything written after the last of them (keeps the product finite when a signature is muted)              *)
Newer(q, x) == SelectSeq(q, LAMBDA y : y < x)
TrRead(m0, T, res, data) ==
  LET m == IF m0.ovf THEN [m0 EXCEPT !.q = Drop(@, m0.shown), !.shown = 0, !.ovf = FALSE] ELSE m0
      n == Len(data) IN
  IF res = 0 THEN
       IF n = 0 THEN TrFail(m, "C14:transport-read-ok-without-data")
       ELSE IF n > Len(m.q) \/ SubSeq(m.q, 1, Min2(n, Len(m.q))) # data
            THEN LET lost == \E k \in 1..Len(m.q) : n <= Len(m.q) - k /\ SubSeq(m.q, k + 1, k + n) = data IN
                 TrFail([m EXCEPT !.q = data \o Newer(@, data[n]), !.shown = n],
                        IF lost THEN "C14:transport-bytes-lost" ELSE "C14:transport-bytes-altered-or-reordered")
       ELSE IF n < m.shown THEN TrFail([m EXCEPT !.shown = n], "C14:transport-buffered-bytes-vanished")
       ELSE IF T = 0 /\ n # m.shown THEN TrFail([m EXCEPT !.shown = n], "C14:transport-read0-returns-unbuffered")
       ELSE [m EXCEPT !.shown = n]
  ELSE IF res = 2 THEN
       IF T > 0 /\ Len(m.q) > m.shown THEN TrFail(m, "C14:transport-bytes-not-delivered")
       ELSE IF T = 0 /\ m.shown > 0 THEN TrFail([m EXCEPT !.q = Drop(@, m.shown), !.shown = 0], "C14:transport-read0-hides-buffered")
       ELSE m
  ELSE TrFail(m, "C14:transport-read-error")

TrEv(m, e) ==
  CASE e[1] = "w"    -> LET q2 == Shift(m.q, e[2]) \o Down(e[2]) IN
                        IF Len(q2) > 160 THEN TrFail([m EXCEPT !.q = Drop(q2, Len(q2) - 160), !.shown = 0], "C14:transport-bytes-not-delivered")
                        ELSE [m EXCEPT !.q = q2]
    [] e[1] = "rd"   -> TrRead(m, e[2], e[3], e[4])
    [] e[1] = "cons" -> LET c == Min2(e[2], m.shown) IN [m EXCEPT !.q = Drop(@, c), !.shown = @ - c]
    [] e[1] = "ntf"  -> IF e[2] = "overflow"
                        THEN IF m.shown = 0 THEN TrFail(m, "C14:transport-overflow-with-empty-buffer") ELSE [m EXCEPT !.ovf = TRUE]
                        ELSE TrFail(m, "C14:transport-unexpected-message")
    [] OTHER -> m

RECURSIVE TrFold(_, _, _)
TrFold(m, evs, k) == IF k > Len(evs) THEN m ELSE TrFold(TrEv(m, evs[k]), evs, k + 1)
TrStep(m, evs) == TrFold(m, evs, 1)

(***************************************************************************)
(* Part S: st = [buf, fly] (distances)                                     *)
(***************************************************************************)
BufSize == 32
WriteF(st, k) == [st |-> [buf |-> Shift(st.buf, k), fly |-> Shift(st.fly, k) \o Down(k)], ev |-> <<<<"w", k>>>>]
ReadF(st, T) ==
  IF T = 0 THEN [st |-> st, ev |-> <<<<"rd", 0, IF st.buf # <<>> THEN 0 ELSE 2, st.buf>>>>]
  ELSE IF st.fly = <<>> THEN [st |-> st, ev |-> <<<<"rd", T, 2, <<>>>>>>]
  ELSE LET ovf == Len(st.buf) > BufSize - (BufSize \div 4)
           b0 == IF ovf THEN <<>> ELSE st.buf
           n == Min2(Len(st.fly), BufSize - Len(b0))
           b1 == b0 \o SubSeq(st.fly, 1, n) IN
       [st |-> [buf |-> b1, fly |-> Drop(st.fly, n)],
        ev |-> (IF ovf THEN <<<<"ntf", "overflow">>>> ELSE <<>>) \o <<<<"rd", T, 0, b1>>>>]
ConsF(st, n) == [st |-> [st EXCEPT !.buf = IF n >= Len(@) THEN <<>> ELSE Drop(@, n)], ev |-> <<<<"cons", n>>>>]
SStep(st, op) == CASE op[1] = "W" -> WriteF(st, op[2]) [] op[1] = "R" -> ReadF(st, op[2]) [] op[1] = "C" -> ConsF(st, op[2])
=============================================================================
