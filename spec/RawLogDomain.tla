------------------------------ MODULE RawLogDomain ------------------------------
(* The enumerated cases of the raw log check: all event sequences up to a length over {received, sent} x {SYN, 0x10,     *)
(* 0x00}, alone and behind a filler that brings the line buffer to 59 / 61 / 63 of its 64 characters, handed over symbol *)
(* by symbol or in calls of several symbols, for the four sinks (text / bytes x raw file / log).                         *)
EXTENDS RawLog
Alphabet == {<<d, v>> : d \in {0, 1}, v \in {SYN, 16, 0}}
SeqsUpTo(n) == UNION {[1..k -> Alphabet] : k \in 0..n}
Case(mode, pre, chunk, ev) == [mode |-> mode, pre |-> pre, chunk |-> chunk, ev |-> ev]
(* the case list is built as a sequence (no big set has to be normalised): one block of all sequences up to n per sink,    *)
(* filler and call style; blocks are pairwise different in <<mode, pre, chunk>>, so the list is duplicate free             *)
Blocks(th) ==
  LET L1 == IF th THEN 6 ELSE 5
      L2 == IF th THEN 4 ELSE 3
  IN <<<<"file", 0, 0, L1>>, <<"file", 0, 1, 5>>,
       <<"file", 29, 0, L2>>, <<"file", 29, 1, L2>>, <<"file", 30, 0, L2>>, <<"file", 30, 1, L2>>, <<"file", 31, 0, L2>>, <<"file", 31, 1, L2>>,
       <<"log", 0, 0, 4>>, <<"log", 31, 0, 2>>,
       <<"fbytes", 0, 0, 3>>, <<"fbytes", 0, 1, 3>>, <<"lbytes", 0, 0, 3>>, <<"lbytes", 0, 1, 3>> >>
RECURSIVE CaseListA(_, _, _)
CaseListA(blocks, k, seqs) ==        \* seqs[n] = all sequences of length <= n, as a sequence
  IF k > Len(blocks) THEN <<>>
  ELSE LET b == blocks[k]  q == seqs[b[4]] IN [i \in 1..Len(q) |-> Case(b[1], b[2], b[3], q[i])] \o CaseListA(blocks, k + 1, seqs)
Filler(n) == [k \in 1..n |-> <<1, 34>>]
=============================================================================
