CONSTANTS
  StarMode = "token"
  McTier = "quick"
INIT McInit
NEXT McNext
INVARIANT SImpliesP
INVARIANT SUserTracked
