------------------------------ MODULE C17Graph ------------------------------
(* P-on-G for C17.  G = transition graph of the real MessageMap poll scheduler extracted by          *)
(* harness/c17_poll.cpp (or a linear execution written as a chain).                                   *)
(* node line: {"id":n,"p":[public priorities],"st":{g,now,vec,prio,used,ord,lp},"succ":[[k,m,a,out,to],..]} *)
(*   k: 1 next (out = selected message, 0 none) 2 setprio(m,a) 3 addback(m) 4 addfront(m) 5 conduse(m) *)
(*      6 readd(m) 7 tick(a) 8 otherclear (a second MessageMap instance cleared/reloaded/destroyed)   *)
(*      9 reload (clear + all definitions again) 10 replace(m,a) (definition of m read again with      *)
(*      replace and priority a); out = -99 on any edge: the real code crashed on this input            *)
(* mode "monitor" (default): the P monitor of Poll.tla runs in lock-step with G.                       *)
(* mode "fidelity": every edge is compared with the concrete step function of S (normal forms).       *)
EXTENDS Poll, Json, IOUtils

G == ndJsonDeserialize(IOEnv.VF_GRAPH)
Mode == IF "VF_MODE" \in DOMAIN IOEnv THEN IOEnv.VF_MODE ELSE "monitor"
Target == IF "VF_TARGET" \in DOMAIN IOEnv THEN IOEnv.VF_TARGET ELSE ""
(* kinds of edges that may be followed (sub-alphabet), as a string of digits, e.g. "17" = next + tick *)
Mask == IF "VF_MASK" \in DOMAIN IOEnv THEN IOEnv.VF_MASK ELSE "123456789A"
KindName == <<"next", "setprio", "addback", "addfront", "conduse", "readd", "tick", "otherclear", "reload", "replace">>
Digits == <<"1", "2", "3", "4", "5", "6", "7", "8", "9", "A">>
Allowed == {k \in 1..10 : \E i \in 1..Len(Mask) : SubSeq(Mask, i, i) = Digits[k]}

InitPrios == IF "VF_INITPRIOS" \in DOMAIN IOEnv THEN LET t == IOEnv.VF_INITPRIOS IN [i \in 1..Len(t) |-> atoi(SubSeq(t, i, i))] ELSE <<>>
K == IF "VF_K" \in DOMAIN IOEnv THEN atoi(IOEnv.VF_K) ELSE 2
CapBase == IF "VF_CAP" \in DOMAIN IOEnv THEN atoi(IOEnv.VF_CAP) ELSE 0
(* fidelity: which S variant of MessageMap::add the edges are compared with (default: repaired code) *)
ReAddPinned == "VF_READD_PINNED" \in DOMAIN IOEnv /\ IOEnv.VF_READD_PINNED = "1"

(* which clause of P the monitor tracks in this run: "wait", "prop" or "both" (smaller products when split) *)
Clause == IF "VF_CLAUSE" \in DOMAIN IOEnv THEN IOEnv.VF_CLAUSE ELSE "both"
Zero(n) == [m \in 1..n |-> 0]

VARIABLES node, gmon, lastIn, ok
View == <<node, gmon, ok>>

NG == Len(G[1].p)

(* ---- monitor mode ---- *)
StepMonFull(m0, n, e) ==
  LET k == e[1] prio2 == G[e[5]].p IN
  IF k = 1 THEN (IF e[4] = 0 THEN m0 ELSE MonSelect(m0, e[4], prio2, K))
  ELSE IF k = 7 \/ k = 8 THEN m0          \* time passing / another map: no event of this map
  ELSE IF k = 9 THEN MonReload(m0, prio2)
  ELSE IF k = 2 /\ e[3] = G[n].p[e[2]] THEN m0
  ELSE MonPerturb(m0, KindName[k], e[2], prio2, K)
StepMon(m0, n, e) ==
  LET f == StepMonFull(m0, n, e) IN
  IF Clause = "wait" THEN [f EXCEPT !.cnt = TLCEval(Zero(NG))]
  ELSE IF Clause = "prop" THEN [f EXCEPT !.wait = TLCEval(Zero(NG)), !.pert = TLCEval(Zero(NG)), !.mx = TLCEval(Zero(NG)), !.lo = TLCEval(Zero(NG))]
  ELSE f

SelValid(n, e) == e[1] # 1 \/ (IF Active(G[n].p) = {} THEN e[4] = 0 ELSE e[4] \in Active(G[n].p))

SigOf(n, e, m2) ==
  LET prio2 == G[e[5]].p IN
  IF e[4] = -99 THEN "C17:crash-in-real-code"
  ELSE IF ~SelValid(n, e) THEN "C17:selected-message-without-priority-or-none"
  ELSE IF ~WaitOk(m2, prio2, K)
       THEN (IF m2.pert[WaitWitness(m2, prio2, K)] = 0 THEN "C17:wait-unperturbed" ELSE "C17:wait-perturbed")
  ELSE IF ~PropOk(m2, prio2) THEN "C17:proportion"
  ELSE ""

MonitorInit == node = 1 /\ gmon = [MonInit(NG) EXCEPT !.hi = MaxPrio(G[1].p), !.mx = G[1].p, !.lo = G[1].p] /\ lastIn = [k |-> "init", m |-> 0, a |-> 0, out |-> 0, sig |-> ""] /\ ok = TRUE
MonitorNext ==
  /\ ok
  /\ \E j \in 1..Len(G[node].succ) :
       LET e == G[node].succ[j]
           m2 == StepMon(gmon, node, e)
           sig == SigOf(node, e, m2) IN
       /\ e[1] \in Allowed
       /\ node' = e[5] /\ gmon' = m2 /\ ok' = (sig = "")
       /\ lastIn' = [k |-> KindName[e[1]], m |-> e[2], a |-> e[3], out |-> e[4], sig |-> sig]

(* ---- fidelity mode: node index i, sharded ---- *)
ToS(x) == [vec |-> x.vec, ord |-> x.ord, prio |-> x.prio, lp |-> x.lp, used |-> [m \in 1..Len(x.used) |-> x.used[m] = 1],
           g |-> x.g, now |-> T0 + x.now]
StepS(s, e) ==
  CASE e[1] = 1 -> LET r == NextF(s) IN [s |-> r.s, out |-> r.sel]
    [] e[1] = 2 -> LET r == SetPrioF(s, e[2], e[3]) IN [s |-> IF r.ret THEN AddPollF(r.s, FALSE, e[2]) ELSE r.s, out |-> IF r.ret THEN 1 ELSE 0]
    [] e[1] = 3 -> [s |-> AddPollF(s, FALSE, e[2]), out |-> 0]
    [] e[1] = 4 -> [s |-> AddPollF(s, TRUE, e[2]), out |-> 0]
    [] e[1] = 5 -> [s |-> CondUseF(s, e[2]), out |-> 0]
    [] e[1] = 6 -> [s |-> ReAddF(s, e[2], InitPrios[e[2]], ReAddPinned), out |-> 0]
    [] e[1] = 7 -> [s |-> TickF(s, e[3]), out |-> 0]
    [] e[1] = 8 -> [s |-> OtherClearF(s), out |-> 0]
    [] e[1] = 9 -> [s |-> ReloadF(s, InitPrios, ReAddPinned), out |-> 0]
    [] e[1] = 10 -> [s |-> ReAddF(s, e[2], e[3], ReAddPinned), out |-> 0]
(* a recorded queue that holds something that is not one of the N messages (e.g. a deleted instance) cannot be mapped to S *)
Mappable(x) == \A i \in 1..Len(x.vec) : x.vec[i] \in 1..NG
EdgeConforms(n, e) ==
  \/ e[4] = -99
  \/ /\ Mappable(G[n].st) /\ Mappable(G[e[5]].st) /\ e[4] \in 0..NG
     /\ LET r == StepS(ToS(G[n].st), e) IN
        r.out = e[4] /\ Norm(r.s, CapBase) = Norm(ToS(G[e[5]].st), CapBase)
NodeConforms(n) == \A j \in 1..Len(G[n].succ) : EdgeConforms(n, G[n].succ[j])
Shard == 64
FidelityInit == node = 0 /\ gmon = MonInit(NG) /\ lastIn = [k |-> "init", m |-> 0, a |-> 0, out |-> 0, sig |-> ""] /\ ok = TRUE
FidelityNext == /\ \/ node = 0 /\ node' \in {1 + Shard * s : s \in 0..((Len(G) - 1) \div Shard)}
                   \/ node > 0 /\ node % Shard # 0 /\ node < Len(G) /\ node' = node + 1
                /\ ok' = NodeConforms(node') /\ UNCHANGED <<gmon, lastIn>>

Init == IF Mode = "fidelity" THEN FidelityInit ELSE MonitorInit
Next == IF Mode = "fidelity" THEN FidelityNext ELSE MonitorNext

(* fidelity mode only reports (PrintT is TRUE): a mismatch is DRIFT, never a verdict *)
Judge == \/ ok
         \/ Mode = "fidelity" /\ PrintT(<<"VF", "DRIFT", node>>)
         \/ Mode # "fidelity" /\ ((Target # "" /\ lastIn.sig # Target) \/ ~PrintT(<<"VF", "BAD", node, lastIn.sig>>))

ASSUME \A n \in 1..Len(G) : G[n].id = n /\ \A j \in 1..Len(G[n].succ) : G[n].succ[j][5] \in 1..Len(G)
ASSUME PrintT(<<"VF", "GRAPH", Len(G), NG>>)
=============================================================================
