------------------------------- MODULE C16Judge -------------------------------
(* C16 part (ii): judges what the in-process daemon did on the (world, session) cases against the session   *)
(* monitor of Access.tla (P), names the class of every rejected record, and notes where the observation     *)
(* differs from the code-shaped model S (drift, never a verdict).                                            *)
EXTENDS Access, Json, IOUtils

ASSUME LemmaNoSubstring /\ LemmaStarAnywhere /\ LemmaEmptyLevel /\ LemmaEmptyList /\ LemmaTokens

Tier == IOEnv.VF_TIER
Star == IOEnv.VF_STAR       \* which S variant the drift note compares with ("whole" | "token")
Recs == ndJsonDeserialize(IOEnv.VF_RECS)
Wd == ndJsonDeserialize(IOEnv.VF_WORLDS)
Sd == ndJsonDeserialize(IOEnv.VF_SESSIONS)
N == Len(Recs)
K == 16

(* the replayed cases are exactly the domain defined in Access.tla *)
(* (Tier "replay": a single case from a replay file is judged; no domain claims)                     *)
ASSUME \/ Tier = "replay"
       \/ /\ {Wd[k] : k \in 1..Len(Wd)} = Worlds(Tier) /\ Len(Wd) = Cardinality(Worlds(Tier))
          /\ {Sd[k] : k \in 1..Len(Sd)} = Sessions(Tier) /\ Len(Sd) = Cardinality(Sessions(Tier))

(* per world, evaluated once: who may access what under P, under the whole-list-star reading (for naming the *)
(* class of a rejection only), and what the code-shaped model accepts / lists                                *)
(* (per admissible choice of the entry that counts where the configuration is ambiguous; S takes the code's choice)     *)
RES == [k \in 1..Len(Wd) |-> [c \in Choices(Wd[k]) |-> Resolve(Wd[k], c)]]
GTP == [k \in 1..Len(Wd) |-> [c \in Choices(Wd[k]) |-> GrantTable(Granted, RES[k][c])]]
GTW == [k \in 1..Len(Wd) |-> [c \in Choices(Wd[k]) |-> GrantTable(GrantedWholeStar, RES[k][c])]]
CC(k) == CodeChoice(Wd[k])
HTS == [k \in 1..Len(Wd) |-> SHasTable(Star, RES[k][CC(k)])]
LTS == [k \in 1..Len(Wd) |-> SListTable(Star, RES[k][CC(k)])]

VARIABLE i
Init == i = 0
Next == \/ /\ i = 0 /\ i' \in {1 + K * s : s \in 0..((N - 1) \div K)}
        \/ /\ i > 0 /\ (i % K) # 0 /\ i < N /\ i' = i + 1

Ok(r) ==
  CASE r.f = "ses" -> LET w == Wd[r.w]
                          s == Sd[r.s]
                      IN w.lay = s.lay /\ Len(r.o) = Len(s.cmds) /\ \A k \in 1..Len(r.o) : Len(r.o[k].pr) = Len(w.msgs)
                         /\ \E c \in Choices(w) : POk(GTP[r.w][c], RES[r.w][c], s.cmds, r.o)
    [] r.f = "sk"  -> LET w == Wd[r.w] IN Len(r.upd) = Len(w.msgs) /\ \E c \in Choices(w) :
                                                                      IF w.lay = 5 THEN SinkOkCond(GTP[r.w][c], RES[r.w][c], r.su, r.upd, r.fnd, r.all)
                                                                      ELSE SinkOk(GTP[r.w][c], RES[r.w][c], r.su, r.upd, r.fnd, r.all)
    [] OTHER -> FALSE

Sig(r) ==
  CASE r.f = "ses" -> LET w == Wd[r.w]
                          s == Sd[r.s]
                          k == PFirstBad(GTP[r.w][CC(r.w)], RES[r.w][CC(r.w)], s.cmds, r.o)
                      IN IF k = 0 THEN <<"shape">>
                         ELSE IF \E c \in Choices(w) : PUsers(GTW[r.w][c], RES[r.w][c], s.cmds, r.o)[Len(s.cmds)] # {} THEN <<"star-inside-list", s.cmds[k].op, k>>
                         ELSE <<"cmd", s.cmds[k].op, r.o[k].rc, k>>
    [] r.f = "sk"  -> IF \E c \in Choices(Wd[r.w]) : SinkOk(GTW[r.w][c], RES[r.w][c], r.su, r.upd, r.fnd, r.all) THEN <<"star-inside-list", "sink">> ELSE <<"sink">>
    [] OTHER -> <<"family">>

DriftNote(r) == r.f # "ses" \/ Wd[r.w].lay = 5 \/ SConforms(HTS[r.w], LTS[r.w], RES[r.w][CC(r.w)], Sd[r.s].cmds, r.o) \/ PrintT(<<"VF", "DRIFT", i>>)
Judge == i = 0 \/ (Ok(Recs[i]) /\ DriftNote(Recs[i])) \/ ~PrintT(<<"VF", "BAD", i, Sig(Recs[i])>>)

(* completeness of this shard: for its worlds, every session of the same layout, every sink user *)
ASSUME LET ws == {Recs[k].w : k \in 1..N}
           ses == {<<Recs[k].w, Recs[k].s>> : k \in {j \in 1..N : Recs[j].f = "ses"}}
           sk == {<<Recs[k].w, Recs[k].su>> : k \in {j \in 1..N : Recs[j].f = "sk"}}
       IN \/ Tier = "replay"
          \/ /\ ses = {p \in ws \X (1..Len(Sd)) : Wd[p[1]].lay = Sd[p[2]].lay}
             /\ sk = ws \X SinkUsers
             /\ PrintT(<<"VF", "SHARD", Cardinality(ws), CHOOSE a \in ws : \A b \in ws : a <= b, CHOOSE a \in ws : \A b \in ws : a >= b>>)
                \* (count, min, max): the driver checks that the shards cover 1..Len(Wd)
=============================================================================
