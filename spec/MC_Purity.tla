----------------------------- MODULE MC_Purity -----------------------------
(* Bounded model check of the memo automaton of Purity (no code involved).                     *)
EXTENDS Purity

(* ------------------------------------------------------------------ design check ----------- *)
(* Bounded model of the automaton itself (MC_Purity.cfg): whatever sequence of enabled events   *)
(* occurs, an operation never has two results, and a result once recorded is never replaced.    *)
CONSTANTS MCOps, MCRes
VARIABLES mcMemo, mcLog
MCInit == mcMemo = [o \in MCOps |-> Unknown] /\ mcLog = <<>>
MCDo(o, r) == Enabled(mcMemo, o, r) /\ mcMemo' = Record(mcMemo, o, r) /\ mcLog' = Append(mcLog, <<o, r>>)
MCNext == Len(mcLog) < 4 /\ \E o \in MCOps, r \in MCRes : MCDo(o, r)
MCFunctional == \A a, b \in 1..Len(mcLog) : mcLog[a][1] = mcLog[b][1] => mcLog[a][2] = mcLog[b][2]
MCStable == [][\A o \in MCOps : mcMemo[o] # Unknown => mcMemo'[o] = mcMemo[o]]_<<mcMemo, mcLog>>
(* vacuity: an impure log (same op, two results) is rejected, i.e. not reachable *)
MCRejectsImpure == ~\E a, b \in 1..Len(mcLog) : mcLog[a][1] = mcLog[b][1] /\ mcLog[a][2] # mcLog[b][2]
=============================================================================
