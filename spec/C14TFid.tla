------------------------------ MODULE C14TFid ------------------------------
(* Fidelity of the S model of FileTransport (Transport, part S) against the real code: every extracted edge  *)
(* must be exactly the step S takes.  A mismatch is model drift (DRIFT), never a violation.                   *)
EXTENDS Transport, Json
G == ndJsonDeserialize(IOEnv.VF_RECS)
EdgeOk(n, j) == LET e == G[n].succ[j]  s == SStep(G[n].st, e.op) IN s.ev = e.ev /\ s.st = G[e.to].st
NodeOk(n) == \A j \in 1..Len(G[n].succ) : EdgeOk(n, j)
BadEdge(n) == G[n].succ[CHOOSE j \in 1..Len(G[n].succ) : ~EdgeOk(n, j)].in
VARIABLE fblk
Init == fblk = 0
Next == \/ fblk = 0 /\ fblk' \in {1 + 64 * s : s \in 0..((Len(G) - 1) \div 64)}
        \/ fblk > 0 /\ fblk % 64 # 0 /\ fblk < Len(G) /\ fblk' = fblk + 1
Judge == fblk = 0 \/ NodeOk(fblk) \/ ~PrintT(<<"VF", "BAD", fblk, BadEdge(fblk)>>)
=============================================================================
